(* Bit assignments (nat -> bool) <-> indices of dense 2^n vectors: lane q = bit q of the index.
   Pure arithmetic about Nat.testbit; used by the dense <-> amplitude-function bridge (Proofs/DenseBridge.v). *)
From Coq Require Import Arith Bool List Lia PeanoNat.
Require Import TV.Base.Amp TV.Model.Lane.
Set Default Timeout 60.

Fixpoint idx (n : nat) (x : nat -> bool) : nat :=
  match n with
  | O => O
  | S n' => if x n' then Nat.lor (idx n' x) (Nat.pow 2 n') else idx n' x
  end.

Lemma small_bits a n m : a < 2 ^ n -> n <= m -> Nat.testbit a m = false.
Proof.
  intros Ha Hm. assert (H2 : 2 ^ n <= 2 ^ m) by (apply Nat.pow_le_mono_r; lia).
  pose proof (Nat.testbit_spec' a m) as H. rewrite (Nat.div_small a (2 ^ m)) in H by lia.
  destruct (Nat.testbit a m); [cbn in H; discriminate | reflexivity].
Qed.

Lemma idx_bit n x q : Nat.testbit (idx n x) q = (q <? n) && x q.
Proof.
  induction n as [|n IH]; cbn [idx].
  - rewrite Nat.bits_0. reflexivity.
  - destruct (x n) eqn:Exn.
    + rewrite Nat.lor_spec, IH, Nat.pow2_bits_eqb.
      destruct (Nat.eqb_spec n q) as [->|Hne].
      * rewrite Exn. rewrite (proj2 (Nat.ltb_lt q (S q))) by lia. rewrite orb_true_r. reflexivity.
      * rewrite orb_false_r. destruct (Nat.ltb_spec q n), (Nat.ltb_spec q (S n)); try lia; reflexivity.
    + rewrite IH. destruct (Nat.eqb_spec n q) as [->|Hne].
      * rewrite Exn, !andb_false_r. reflexivity.
      * destruct (Nat.ltb_spec q n), (Nat.ltb_spec q (S n)); try lia; reflexivity.
Qed.

Lemma lor_pow2_add a n : a < 2 ^ n -> Nat.lor a (2 ^ n) = a + 2 ^ n.
Proof.
  intro Ha. assert (Hl : Nat.land a (2 ^ n) = 0).
  { apply Nat.bits_inj_0. intro m. rewrite Nat.land_spec, Nat.pow2_bits_eqb.
    destruct (Nat.eqb_spec n m) as [->|Hne]; [|apply andb_false_r].
    rewrite (small_bits a m m Ha (le_n _)). reflexivity. }
  rewrite (Nat.add_nocarry_lxor _ _ Hl). symmetry. apply Nat.lxor_lor. exact Hl.
Qed.

Lemma idx_lt n x : idx n x < 2 ^ n.
Proof.
  induction n as [|n IH]; cbn [idx]; [cbn; lia|].
  rewrite Nat.pow_succ_r'. destruct (x n); [rewrite (lor_pow2_add _ _ IH)|]; lia.
Qed.

Lemma getbit_idx n x q : q < n -> getbit (idx n x) q = x q.
Proof. intro H. unfold getbit. rewrite idx_bit. rewrite (proj2 (Nat.ltb_lt q n) H). reflexivity. Qed.

Lemma setbit_idx n x q b : q < n -> setbit (idx n x) q b = idx n (Amp.upd x q b).
Proof.
  intro H. apply Nat.bits_inj. intro m. unfold setbit. rewrite idx_bit. unfold Amp.upd.
  destruct b.
  - rewrite Nat.lor_spec, idx_bit, Nat.pow2_bits_eqb.
    destruct (Nat.eqb_spec q m) as [->|Hne].
    + rewrite Nat.eqb_refl, orb_true_r. rewrite (proj2 (Nat.ltb_lt m n) H). reflexivity.
    + rewrite orb_false_r. destruct (Nat.eqb_spec m q); [congruence|]. reflexivity.
  - rewrite Nat.ldiff_spec, idx_bit, Nat.pow2_bits_eqb.
    destruct (Nat.eqb_spec q m) as [->|Hne].
    + rewrite Nat.eqb_refl. cbn [negb]. rewrite !andb_false_r. reflexivity.
    + cbn [negb]. rewrite andb_true_r. destruct (Nat.eqb_spec m q); [congruence|]. reflexivity.
Qed.

(* index 0 <-> all lanes below n are false *)
Lemma idx_zero n x : (forall q, q < n -> x q = false) -> idx n x = 0.
Proof.
  intro H. apply Nat.bits_inj_0. intro m. rewrite idx_bit.
  destruct (Nat.ltb_spec m n); [rewrite (H m) by assumption; apply andb_false_r | reflexivity].
Qed.
Lemma idx_zero_inv n x : idx n x = 0 -> forall q, q < n -> x q = false.
Proof. intros H q Hq. rewrite <- (getbit_idx n x q Hq), H. unfold getbit. apply Nat.bits_0. Qed.
(* the index determines the lanes below n *)
Lemma idx_inj n x y : idx n x = idx n y -> forall q, q < n -> x q = y q.
Proof. intros H q Hq. rewrite <- (getbit_idx n x q Hq), <- (getbit_idx n y q Hq), H. reflexivity. Qed.
(* every index below 2^n is the index of its own bits *)
Lemma idx_testbit n i : i < 2 ^ n -> idx n (Nat.testbit i) = i.
Proof.
  intro H. apply Nat.bits_inj. intro m. rewrite idx_bit.
  destruct (Nat.ltb_spec m n); [reflexivity|]. rewrite (small_bits i n m H) by lia. reflexivity.
Qed.
