From Coq Require Import ZArith List Bool Lia Ring Ring_theory.
Import ListNotations.
Require Import TV.Base.Wrap32 TV.Base.D8 TV.gen.Gen_exact_scalar TV.Model.ExactScalar TV.Proofs.ExactScalarProofs.
Open Scope Z_scope.
Set Default Timeout 100.

(* ------------------------------------------------------------------------------------------------
   Stabilizer-type products never wrap, for ANY number of factors and ANY bracketing of the scan.
   cliff_raw = {2, 0, u, u(1+i) : u in {1,i,-1,-i}} contains every value the evaluator multiplies for
   Clifford circuits (1 + w^k and w^k for even k; products of such).  One combine step maps
   cliff_raw x cliff_raw into cliff_reduced (subset of cliff_raw) with at most two halvings and without
   leaving the int32 range: a finite fact decided by vm_compute; the rest is induction over the tree. *)
Definition cliff_step_ok (x y : q4) : bool :=
  match reduce (mul32 x y, 0) with
  | Some r => q4_mem (fst r) cliff_reduced && (0 <=? snd r) && (snd r <=? 2)
              && q4_eqb (q4_scale (2 ^ snd r) (fst r)) (scalar_mul x y)
  | None => false
  end.
Lemma cliff_closure : forallb (fun x => forallb (cliff_step_ok x) cliff_raw) cliff_raw = true.
Proof. vm_compute. reflexivity. Qed.
Lemma cliff_reduced_sub : forallb (fun x => q4_mem x cliff_raw) cliff_reduced = true.
Proof. vm_compute. reflexivity. Qed.

Lemma q4_eqb_eq x y : q4_eqb x y = true -> x = y.
Proof.
  destruct x as [[[a1 b1] c1] d1], y as [[[a2 b2] c2] d2]. unfold q4_eqb.
  rewrite !andb_true_iff, !Z.eqb_eq. intros [[[-> ->] ->] ->]. reflexivity.
Qed.
Lemma q4_mem_in x l : q4_mem x l = true -> In x l.
Proof.
  unfold q4_mem. rewrite existsb_exists. intros (y & Hy & He). apply q4_eqb_eq in He. subst. exact Hy.
Qed.
Lemma q4_eqb_refl x : q4_eqb x x = true.
Proof. destruct x as [[[a b] c] d]. unfold q4_eqb. rewrite !Z.eqb_refl. reflexivity. Qed.
Lemma in_q4_mem x l : In x l -> q4_mem x l = true.
Proof. intro H. unfold q4_mem. rewrite existsb_exists. exists x. split; [exact H | apply q4_eqb_refl]. Qed.

(* reduce with a shifted starting power (no wrap of the power) *)
Lemma reduce_fuel_shift n : forall c p, in32 p -> p + Z.of_nat n < H32 -> 0 <= p ->
  reduce_fuel n (c, p) = match reduce_fuel n (c, 0) with Some (c', k) => Some (c', p + k) | None => None end.
Proof.
  induction n as [|n IH]; intros c p Hp Hn H0; cbn [reduce_fuel fst snd].
  - destruct (reducible c); [reflexivity | rewrite Z.add_0_r; reflexivity].
  - destruct (reducible c) eqn:Hr; [| rewrite Z.add_0_r; reflexivity].
    rewrite (wrap32_id (p + 1)) by (unfold in32, H32 in *; lia).
    rewrite (wrap32_id (0 + 1)) by (unfold in32, H32; lia).
    rewrite (IH (halve c) (p + 1)) by (unfold in32, H32 in *; lia).
    rewrite (IH (halve c) (0 + 1)) by (unfold in32, H32 in *; lia).
    destruct (reduce_fuel n (halve c, 0)) as [[c' k]|]; [f_equal; f_equal; lia | reflexivity].
Qed.

Lemma q4_scale_scale a b x : q4_scale a (q4_scale b x) = q4_scale (a * b) x.
Proof. destruct x as [[[p q] r] s]. unfold q4_scale. q4_ext; ring. Qed.
Lemma scalar_mul_scale_l k x y : scalar_mul (q4_scale k x) y = q4_scale k (scalar_mul x y).
Proof. rewrite !gen_mul_is_ref. apply q4_mul_ref_scale. Qed.
Lemma scalar_mul_scale_r k x y : scalar_mul x (q4_scale k y) = q4_scale k (scalar_mul x y).
Proof. rewrite (scalar_mul_comm x), scalar_mul_scale_l, (scalar_mul_comm y). reflexivity. Qed.
Lemma fold_mul_app l1 : forall l2 acc,
  fold_left scalar_mul (l1 ++ l2) acc = scalar_mul (fold_left scalar_mul l1 acc) (fold_left scalar_mul l2 q4_one).
Proof.
  intros l2 acc. rewrite fold_left_app. generalize (fold_left scalar_mul l1 acc) as a. clear.
  induction l2 as [|x l2 IH]; intro a; cbn [fold_left].
  - rewrite scalar_mul_one_r. reflexivity.
  - rewrite IH, (IH (scalar_mul q4_one x)), scalar_mul_one_l, scalar_mul_assoc. reflexivity.
Qed.

Lemma reduce_shift34 c p : 0 <= p -> p + 34 < H32 ->
  reduce (c, p) = match reduce (c, 0) with Some (c', k) => Some (c', p + k) | None => None end.
Proof.
  intros H0 H1. unfold reduce. apply reduce_fuel_shift; [unfold in32, H32 in *; lia | change (Z.of_nat 34) with 34; lia | lia].
Qed.

Lemma cliff_step_all c1 c2 : In c1 cliff_raw -> In c2 cliff_raw -> cliff_step_ok c1 c2 = true.
Proof.
  intros H1 H2. pose proof cliff_closure as Hcl. rewrite forallb_forall in Hcl.
  specialize (Hcl c1 H1). rewrite forallb_forall in Hcl. exact (Hcl c2 H2).
Qed.
Lemma combine_is_reduce c1 p1 c2 p2 : prod_reduces = true -> in32 (p1 + p2) ->
  combine (c1, p1) (c2, p2) = reduce (mul32 c1 c2, p1 + p2).
Proof. intros Hpr Hi. unfold combine. rewrite Hpr. unfold esa_mul. cbn [fst snd]. rewrite wrap32_id by exact Hi. reflexivity. Qed.
Lemma cliff_step_spec c1 c2 : cliff_step_ok c1 c2 = true ->
  exists c k, reduce (mul32 c1 c2, 0) = Some (c, k) /\ q4_mem c cliff_reduced = true /\ 0 <= k <= 2 /\
              q4_scale (2 ^ k) c = scalar_mul c1 c2.
Proof.
  unfold cliff_step_ok. intro Hcl.
  destruct (reduce (mul32 c1 c2, 0)) as [[c k]|]; [|discriminate].
  cbn [fst snd] in Hcl. rewrite !andb_true_iff in Hcl. destruct Hcl as [[[Hm Hk0] Hk2] Hv].
  apply Z.leb_le in Hk0, Hk2. apply q4_eqb_eq in Hv.
  exists c, k. repeat split; try assumption; lia.
Qed.
Lemma combine_cliff c1 p1 c2 p2 : prod_reduces = true ->
  In c1 cliff_raw -> In c2 cliff_raw -> 0 <= p1 -> 0 <= p2 -> p1 + p2 + 34 < H32 ->
  exists c k, combine (c1, p1) (c2, p2) = Some (c, p1 + p2 + k) /\ In c cliff_raw /\ 0 <= k <= 2 /\
              q4_scale (2 ^ k) c = scalar_mul c1 c2.
Proof.
  intros Hpr H1 H2 Hp1 Hp2 Hlt.
  destruct (cliff_step_spec c1 c2 (cliff_step_all c1 c2 H1 H2)) as (c & k & Er & Hm & Hk & Hv).
  exists c, k. split.
  { rewrite combine_is_reduce by (try assumption; unfold in32, H32 in *; lia).
    rewrite reduce_shift34 by lia. rewrite Er. reflexivity. }
  split.
  { pose proof cliff_reduced_sub as Hs. rewrite forallb_forall in Hs. apply q4_mem_in, Hs, q4_mem_in. exact Hm. }
  split; assumption.
Qed.

Fixpoint tree_nodes (t : tree) : nat := match t with Leaf _ => 0 | Node l r => S (tree_nodes l + tree_nodes r) end.

Theorem tree_cliff_exact : prod_reduces = true -> forall t,
  Forall (fun x => In (fst x) cliff_raw /\ snd x = 0) (tree_leaves t) ->
  Z.of_nat (tree_nodes t) < 2 ^ 28 ->
  exists c p, tree_eval t = Some (c, p) /\ In c cliff_raw /\ 0 <= p <= 2 * Z.of_nat (tree_nodes t) /\
              q4_scale (2 ^ p) c = fold_left scalar_mul (map fst (tree_leaves t)) q4_one.
Proof.
  intros Hpr t. induction t as [[c0 p0] | l IHl r IHr]; intros Hl Hn.
  - cbn [tree_leaves] in Hl. inversion Hl as [|? ? [Hc Hp] _]; subst. cbn [fst snd] in *. subst p0.
    exists c0, 0. cbn [tree_eval tree_nodes tree_leaves map fold_left fst]. repeat split; try lia; try assumption.
    rewrite scalar_mul_one_l. symmetry. apply q4_scale_pow0.
  - cbn [tree_leaves] in Hl. apply Forall_app in Hl. destruct Hl as [Hll Hlr].
    cbn [tree_nodes] in Hn. rewrite Nat2Z.inj_succ, Nat2Z.inj_add in Hn.
    change (2 ^ 28) with 268435456 in *.
    destruct (IHl Hll ltac:(lia)) as (c1 & p1 & E1 & M1 & B1 & V1).
    destruct (IHr Hlr ltac:(lia)) as (c2 & p2 & E2 & M2 & B2 & V2).
    destruct (combine_cliff c1 p1 c2 p2 Hpr M1 M2 ltac:(lia) ltac:(lia) ltac:(unfold H32; lia)) as (c & k & Ec & Mc & Bk & Vk).
    exists c, (p1 + p2 + k). split.
    { cbn [tree_eval]. rewrite E1, E2. exact Ec. }
    split; [exact Mc|]. split.
    { cbn [tree_nodes]. rewrite Nat2Z.inj_succ, Nat2Z.inj_add. lia. }
    cbn [tree_leaves]. rewrite map_app, fold_mul_app.
    transitivity (scalar_mul (q4_scale (2 ^ p1) c1) (q4_scale (2 ^ p2) c2)); [| f_equal; assumption].
    rewrite scalar_mul_scale_l, scalar_mul_scale_r, <- Vk, !q4_scale_scale.
    f_equal. rewrite <- !Z.pow_add_r by lia. f_equal; lia.
Qed.

(* the same for the left fold that Model.esa_prod uses (a particular bracketing) *)
Fixpoint left_tree (acc : tree) (l : list esa) : tree := match l with [] => acc | x :: r => left_tree (Node acc (Leaf x)) r end.
Lemma fold_combine_left_tree l : forall acc a, tree_eval acc = Some a -> fold_combine l a = tree_eval (left_tree acc l).
Proof.
  induction l as [|x l IH]; intros acc a Ha; cbn [fold_combine left_tree]; [symmetry; exact Ha|].
  destruct (combine a x) as [b|] eqn:Hc.
  - apply IH. cbn [tree_eval]. rewrite Ha. exact Hc.
  - assert (Hn : tree_eval (Node acc (Leaf x)) = None) by (cbn [tree_eval]; rewrite Ha; exact Hc).
    clear -Hn. revert Hn. generalize (Node acc (Leaf x)) as t. induction l as [|y l IHl]; intros t Hn; cbn [left_tree]; [symmetry; exact Hn|].
    apply IHl. cbn [tree_eval]. rewrite Hn. reflexivity.
Qed.

(* The unguarded clause "no operation silently wraps" remains FALSE of the faithful int32 model for
   non-Clifford growth: (1+w)^64 = 2^16 * (unit of size ~ 5.8^16 > 2^31); reducing powers of two does not help. *)
Definition one_plus_w : q4 := (1, 1, 0, 0).
Definition value_of (x : esa) : q4 := q4_scale (2 ^ snd x) (fst x).
Lemma prod_wraps_witness :
  exists r, esa_prod (repeat (one_plus_w, 0) 64) = Some r /\
            value_of r <> fold_left scalar_mul (repeat one_plus_w 64) q4_one.
Proof.
  eexists. split; [vm_compute; reflexivity|]. vm_compute. intro H. discriminate H.
Qed.
