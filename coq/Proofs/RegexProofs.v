(* Generic facts about the matcher / substitution model (Model/Regex.v), independent of the generated patterns. *)
From Coq Require Import List Ascii String Bool Arith NArith Lia.
Import ListNotations.
Require Import TV.Model.Regex.
Set Default Timeout 60.

Definition last_opt (prev : option ascii) (w : str) : option ascii :=
  match rev w with a :: _ => Some a | [] => prev end.

Lemma last_opt_nil : forall prev, last_opt prev [] = prev.
Proof. reflexivity. Qed.

Lemma last_opt_cons : forall prev a w, last_opt prev (a :: w) = last_opt (Some a) w.
Proof.
  intros prev a w. unfold last_opt. cbn [rev].
  destruct (rev w) as [|b r] eqn:E; reflexivity.
Qed.

Lemma last_opt_app_single : forall prev w a, last_opt prev (w ++ [a]) = Some a.
Proof. intros prev w a. unfold last_opt. rewrite rev_app_distr. reflexivity. Qed.

(* ---- greedy repetition ---- *)
(* a run of class characters followed by a non-class character (or the end): the whole run is taken *)
Lemma star_k_run : forall c k body rest prev r,
  forallb (cls_mem c) body = true ->
  match rest with a :: _ => cls_mem c a = false | [] => True end ->
  k (last_opt prev body) rest = Some r ->
  star_k c k prev (body ++ rest) = Some r.
Proof.
  intros c k body. induction body as [|a b IH]; intros rest prev r Hall Hrest Hk.
  - cbn [app]. rewrite last_opt_nil in Hk. destruct rest as [|x rest'].
    + exact Hk.
    + cbn [star_k]. rewrite Hrest. exact Hk.
  - cbn [forallb] in Hall. apply andb_prop in Hall. destruct Hall as [Ha Hb].
    cbn [app star_k]. rewrite Ha. rewrite last_opt_cons in Hk.
    rewrite (IH rest (Some a) r Hb Hrest Hk). reflexivity.
Qed.

(* the run reaches the end of the text, the continuation fails there and succeeds one character earlier *)
Lemma star_k_back1 : forall c k body x prev r,
  forallb (cls_mem c) body = true -> cls_mem c x = true ->
  k (Some x) [] = None ->
  k (last_opt prev body) [x] = Some r ->
  star_k c k prev (body ++ [x]) = Some r.
Proof.
  intros c k body. induction body as [|a b IH]; intros x prev r Hall Hx Hend Hk.
  - cbn [app star_k]. rewrite Hx. cbn [star_k]. rewrite Hend. rewrite last_opt_nil in Hk. exact Hk.
  - cbn [forallb] in Hall. apply andb_prop in Hall. destruct Hall as [Ha Hb].
    cbn [app star_k]. rewrite Ha. rewrite last_opt_cons in Hk.
    rewrite (IH x (Some a) r Hb Hx Hend Hk). reflexivity.
Qed.

(* no class character at the front: zero repetitions *)
Lemma star_k_none : forall c k prev s,
  match s with a :: _ => cls_mem c a = false | [] => True end ->
  star_k c k prev s = k prev s.
Proof.
  intros c k prev s H. destruct s as [|a s']; cbn [star_k]; [reflexivity|]. rewrite H. reflexivity.
Qed.

(* ---- every match starts with the literal prefix of the pattern ---- *)
Lemma single_lit_mem : forall c a x, single_lit c = Some a -> cls_mem c x = true -> x = a.
Proof.
  intros c a x Hs Hm. destruct c as [neg items|]; [|discriminate].
  destruct neg; [discriminate|]. destruct items as [|i items]; [discriminate|].
  destruct i; try discriminate. destruct items; [|discriminate].
  cbn in Hs. inversion Hs; subst. cbn in Hm.
  destruct (Ascii.eqb_spec x a) as [E|E]; [exact E|discriminate].
Qed.

Lemma mtch_lit_prefix : forall p prev s op gs r,
  mtch p prev s op gs = Some r -> exists s', s = lit_prefix p ++ s'.
Proof.
  induction p as [|it p' IH]; intros prev s op gs r H.
  - exists s. reflexivity.
  - destruct it; cbn [lit_prefix]; try (exists s; reflexivity).
    + (* ICls *)
      destruct (single_lit c) as [a|] eqn:Es; [|exists s; reflexivity].
      cbn [mtch] in H. destruct s as [|x s']; [discriminate|].
      destruct (cls_mem c x) eqn:Em; [|discriminate].
      apply (single_lit_mem c a x Es) in Em. subst x.
      destruct (IH _ _ _ _ _ H) as [s'' Hs'']. exists s''. cbn [app]. rewrite <- Hs''. reflexivity.
    + (* IOpen *) cbn [mtch] in H. exact (IH _ _ _ _ _ H).
    + (* IClose *) cbn [mtch] in H. exact (IH _ _ _ _ _ H).
    + (* IWordB *) cbn [mtch] in H. destruct (at_wordb prev s); [|discriminate]. exact (IH _ _ _ _ _ H).
    + (* IBol *) cbn [mtch] in H. destruct prev; [discriminate|]. exact (IH _ _ _ _ _ H).
    + (* INotBehind *) cbn [mtch] in H. destruct prev as [a|].
      * destruct (cls_mem c a); [discriminate|]. exact (IH _ _ _ _ _ H).
      * exact (IH _ _ _ _ _ H).
    + (* INotAhead *) cbn [mtch] in H. destruct s as [|a s'].
      * exact (IH _ _ _ _ _ H).
      * destruct (cls_mem c a); [discriminate|]. exact (IH _ _ _ _ _ H).
Qed.

(* ---- substitution ---- *)
Lemma sub_go_skip : forall p t w rest prev,
  sub_go p t prev (w ++ rest) (List.length w) = sub_go p t (last_opt prev w) rest 0.
Proof.
  intros p t w. induction w as [|a w IH]; intros rest prev.
  - reflexivity.
  - cbn [app List.length sub_go]. rewrite IH. rewrite last_opt_cons. reflexivity.
Qed.

Lemma sub_go_match : forall p t prev a w rest gs,
  mtch p prev ((a :: w) ++ rest) ((a :: w) ++ rest) [] = Some (rest, gs) ->
  sub_go p t prev ((a :: w) ++ rest) 0 = expand t (rev gs) ++ sub_go p t (last_opt prev (a :: w)) rest 0.
Proof.
  intros p t prev a w rest gs H.
  cbn [app] in *. cbn [sub_go]. rewrite H.
  replace (List.length (a :: w ++ rest) - List.length rest) with (S (List.length w))
    by (cbn [List.length]; rewrite app_length; lia).
  rewrite sub_go_skip. rewrite last_opt_cons. reflexivity.
Qed.

Lemma sub_go_nomatch : forall p t s prev,
  matches_somewhere p prev s = false -> sub_go p t prev s 0 = s.
Proof.
  intros p t s. induction s as [|a s IH]; intros prev H.
  - cbn [matches_somewhere] in H. cbn [sub_go]. destruct (mtch p prev [] [] []); [discriminate|reflexivity].
  - cbn [matches_somewhere] in H. cbn [sub_go].
    destruct (mtch p prev (a :: s) (a :: s) []); [discriminate|].
    rewrite (IH _ H). reflexivity.
Qed.

Lemma matches_somewhere_cons : forall p prev a s,
  mtch p prev (a :: s) (a :: s) [] = None ->
  matches_somewhere p (Some a) s = false ->
  matches_somewhere p prev (a :: s) = false.
Proof. intros p prev a s H1 H2. cbn [matches_somewhere]. rewrite H1. exact H2. Qed.

(* a text in which the first literal of p does not occur is never matched *)
Lemma no_first_char_quiet : forall p a w s prev,
  lit_prefix p = a :: w -> forallb (fun x => negb (Ascii.eqb x a)) s = true ->
  matches_somewhere p prev s = false.
Proof.
  intros p a w s. induction s as [|x s IH]; intros prev Hp Hs.
  - cbn [matches_somewhere]. destruct (mtch p prev [] [] []) eqn:E; [|reflexivity].
    apply mtch_lit_prefix in E. destruct E as [s' E]. rewrite Hp in E. discriminate.
  - cbn [forallb] in Hs. apply andb_prop in Hs. destruct Hs as [Hx Hs].
    cbn [matches_somewhere]. destruct (mtch p prev (x :: s) (x :: s) []) eqn:E.
    + apply mtch_lit_prefix in E. destruct E as [s' E]. rewrite Hp in E. cbn [app] in E.
      inversion E; subst. rewrite Ascii.eqb_refl in Hx. discriminate.
    + apply IH; assumption.
Qed.

(* a match somewhere exhibits the literal prefix as a substring *)
Lemma matches_somewhere_substr : forall p s prev,
  matches_somewhere p prev s = true -> exists pre suf, s = pre ++ lit_prefix p ++ suf.
Proof.
  intros p s. induction s as [|x s IH]; intros prev H.
  - cbn [matches_somewhere] in H. destruct (mtch p prev [] [] []) eqn:E; [|discriminate].
    apply mtch_lit_prefix in E. destruct E as [s' E]. exists [], s'. exact E.
  - cbn [matches_somewhere] in H. destruct (mtch p prev (x :: s) (x :: s) []) eqn:E.
    + apply mtch_lit_prefix in E. destruct E as [s' E]. exists [], s'. exact E.
    + destruct (IH _ H) as [pre [suf Hs]]. exists (x :: pre), suf. cbn [app]. rewrite <- Hs. reflexivity.
Qed.

Lemma apply_steps_quiet : forall steps s,
  forallb (fun st => negb (matches_somewhere (fst st) None s)) steps = true ->
  apply_steps steps s = s.
Proof.
  intros steps s. unfold apply_steps. induction steps as [|st steps IH]; intros H.
  - reflexivity.
  - cbn [forallb] in H. apply andb_prop in H. destruct H as [H1 H2].
    cbn [fold_left]. unfold re_sub at 2. rewrite sub_go_nomatch.
    + apply IH. exact H2.
    + destruct (matches_somewhere (fst st) None s); [discriminate|reflexivity].
Qed.

(* firstn used by group capture *)
Lemma firstn_len_diff : forall (m r : str), firstn (List.length (m ++ r) - List.length r) (m ++ r) = m.
Proof.
  intros m r. rewrite app_length. replace (List.length m + List.length r - List.length r) with (List.length m) by lia.
  rewrite firstn_app. rewrite Nat.sub_diag. cbn [firstn]. rewrite firstn_all. apply app_nil_r.
Qed.
