Require Import TV.Spec.StimCircuit TV.Model.CircuitOps TV.Proofs.StimCircuitProofs.
