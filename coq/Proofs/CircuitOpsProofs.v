(* Proofs about Model/CircuitOps.v.
   Part 1: heap semantics of an effect = its value semantics, when handles do not alias (generic in the effect).
   Part 2: abstract interpreters over effects (freshness, flatness, refinement of the reference) and their soundness.
   Part 3: the invariants over operation histories, for the effects regenerated from src/tsim/circuit.py. *)
From Coq Require Import ZArith List String Bool Lia Arith.
Import ListNotations.
Require Import TV.Spec.StimCircuit TV.Model.CircuitEffects TV.gen.Gen_circuit_effects TV.Model.CircuitOps
               TV.Proofs.StimCircuitProofs.
Open Scope string_scope.
Open Scope list_scope.
Set Default Timeout 60.

(* ======================================================================================================= *)
(* Part 1                                                                                                  *)
(* ======================================================================================================= *)

(* ---- heap ------------------------------------------------------------------------------------------------ *)
Lemma hread_app_l : forall h e a, a < List.length h -> hread (h ++ e) a = hread h a.
Proof. intros. unfold hread. apply app_nth1. assumption. Qed.

Lemma hread_alloc : forall h c, hread (h ++ [c]) (List.length h) = c.
Proof. intros. unfold hread. rewrite app_nth2 by lia. rewrite Nat.sub_diag. reflexivity. Qed.

Lemma hwrite_length : forall h a c, List.length (hwrite h a c) = List.length h.
Proof. induction h as [|x h IH]; intros [|a] c; cbn [hwrite List.length]; try reflexivity. rewrite IH. reflexivity. Qed.

Lemma hread_hwrite_same : forall h a c, a < List.length h -> hread (hwrite h a c) a = c.
Proof.
  induction h as [|x h IH]; intros [|a] c H; cbn [List.length] in H; try lia; cbn [hwrite]; [reflexivity|].
  unfold hread in *. cbn [nth]. apply IH. lia.
Qed.

Lemma hread_hwrite_other : forall h a b c, a <> b -> hread (hwrite h a c) b = hread h b.
Proof.
  induction h as [|x h IH]; intros [|a] [|b] c H; cbn [hwrite]; try reflexivity; try lia.
  unfold hread in *. cbn [nth]. apply IH. lia.
Qed.

(* ---- value semantics of statements, tracking whether the operand IS the receiver's object ---------- *)
Definition vother (cs : circ) (co : option circ) : circ := match co with Some o => o | None => cs end.
Definition reads_self (e : oexp) (co : option circ) : bool :=
  match e with
  | XSelf => true
  | XOtherT | XOtherS => match co with None => true | Some _ => false end
  | _ => false
  end.
Definition vstmt (s : stmt) (ar : args) (cs : circ) (co : option circ) : circ * option circ :=
  let o := vother cs co in
  match s with
  | SSetSelf e => (vexp e ar cs o, Some o)
  | SIAdd e => (if reads_self e co then stim_iadd_self cs else stim_iadd cs (vexp e ar cs o), co)
  | SIMul => (stim_mul (a_n ar) cs, co)
  | SAppendText => (stim_iadd cs (a_text ar), co)
  | SPop => (pop_at (a_idx ar) cs, co)
  end.
Fixpoint vstmts (l : list stmt) (ar : args) (cs : circ) (co : option circ) : circ * option circ :=
  match l with
  | [] => (cs, co)
  | s :: r => let '(cs1, co1) := vstmt s ar cs co in vstmts r ar cs1 co1
  end.
Definition vmethod (m : meffect) (ar : args) (cs : circ) (co : option circ) : circ * option (bool * circ) :=
  let '(cs1, co1) := vstmts (pre m) ar cs co in
  let o1 := vother cs1 co1 in
  match ret m with
  | RNew e => (cs1, Some (true, fst (vstmts (post m) ar (vexp e ar cs1 o1) (Some o1))))
  | RStim e => (cs1, Some (false, vexp e ar cs1 o1))
  | _ => (cs1, None)
  end.

Definition stmt_ok (s : stmt) : bool := match s with SSetSelf e => fresh e | _ => true end.
Definition method_ok (m : meffect) : bool :=
  forallb stmt_ok (pre m) && forallb stmt_ok (post m) &&
  match ret m with RNew e | RStim e => fresh e | _ => true end.

(* the heap around one handle: receiver object at `self` holds cs; the operand object at `oth` *)
Definition Rel (h : heap) (self oth : nat) (cs : circ) (co : option circ) : Prop :=
  self < List.length h /\ oth < List.length h /\ hread h self = cs /\
  match co with None => oth = self | Some o => oth <> self /\ hread h oth = o end.

Lemma Rel_other : forall h self oth cs co, Rel h self oth cs co -> hread h oth = vother cs co.
Proof. intros h self oth cs co (H1 & H2 & H3 & H4). destruct co as [o|]; cbn [vother]; [tauto|]. subst. reflexivity. Qed.

Lemma eval_spec : forall e ar self oth h h' a, eval e ar self oth h = (h', a) ->
  self < List.length h -> oth < List.length h ->
  exists ext, h' = h ++ ext /\ a < List.length h' /\
    hread h' a = vexp e ar (hread h self) (hread h oth) /\
    (if fresh e then List.length h <= a else ext = [] /\ match e with XSelf => a = self | _ => a = oth end).
Proof.
  assert (ALLOC : forall (f : circ -> circ) e0 ar self oth,
     (forall h h' a, eval e0 ar self oth h = (h', a) -> self < List.length h -> oth < List.length h ->
        exists ext, h' = h ++ ext /\ a < List.length h' /\ hread h' a = vexp e0 ar (hread h self) (hread h oth) /\
          (if fresh e0 then List.length h <= a else ext = [] /\ match e0 with XSelf => a = self | _ => a = oth end)) ->
     forall h h' a, (let '(h1, a0) := eval e0 ar self oth h in halloc h1 (f (hread h1 a0))) = (h', a) ->
        self < List.length h -> oth < List.length h ->
        exists ext, h' = h ++ ext /\ a < List.length h' /\ hread h' a = f (vexp e0 ar (hread h self) (hread h oth)) /\
          List.length h <= a).
  { intros f e0 ar self oth IH h h' a E Hs Ho.
    destruct (eval e0 ar self oth h) as [h1 a0] eqn:E0.
    destruct (IH _ _ _ E0 Hs Ho) as (ext & -> & Ha0 & Hv & _).
    unfold halloc in E. injection E as <- <-.
    exists (ext ++ [f (hread (h ++ ext) a0)]). rewrite app_assoc. split; [reflexivity|].
    split; [rewrite !app_length; cbn [List.length]; lia|].
    split; [rewrite hread_alloc, Hv; reflexivity|]. rewrite app_length. lia. }
  induction e as [| | | | |e0 IH|e0 IH|e0 IH|e0 IH|e0 IH|names e0 IH]; intros ar self oth h h' a E Hs Ho;
    cbn [eval vexp fresh] in *.
  - injection E as <- <-. exists []. rewrite app_nil_r. auto.
  - injection E as <- <-. exists []. rewrite app_nil_r. auto.
  - injection E as <- <-. exists []. rewrite app_nil_r. auto.
  - unfold halloc in E. injection E as <- <-. exists [a_text ar]. rewrite app_length, hread_alloc. cbn [List.length]. repeat split; lia.
  - unfold halloc in E. injection E as <- <-. exists [[]]. rewrite app_length, hread_alloc. cbn [List.length]. repeat split; lia.
  - destruct (ALLOC (fun c => c) e0 ar self oth (fun h h' a => IH ar self oth h h' a) _ _ _ E Hs Ho) as (ext & ? & ? & ? & ?). exists ext. auto.
  - destruct (ALLOC flattened e0 ar self oth (fun h h' a => IH ar self oth h h' a) _ _ _ E Hs Ho) as (ext & ? & ? & ? & ?). exists ext. auto.
  - destruct (ALLOC (stim_mul (a_n ar)) e0 ar self oth (fun h h' a => IH ar self oth h h' a) _ _ _ E Hs Ho) as (ext & ? & ? & ? & ?). exists ext. auto.
  - destruct (ALLOC (stim_slice (a_start ar) (a_stop ar) (a_step ar)) e0 ar self oth (fun h h' a => IH ar self oth h h' a) _ _ _ E Hs Ho) as (ext & ? & ? & ? & ?). exists ext. auto.
  - destruct (ALLOC stim_without_noise e0 ar self oth (fun h h' a => IH ar self oth h h' a) _ _ _ E Hs Ho) as (ext & ? & ? & ? & ?). exists ext. auto.
  - destruct (ALLOC (stim_filtered names) e0 ar self oth (fun h h' a => IH ar self oth h h' a) _ _ _ E Hs Ho) as (ext & ? & ? & ? & ?). exists ext. auto.
Qed.

(* what one statement does to the heap *)
Definition Frame (h h' : heap) (self : nat) : Prop :=
  List.length h <= List.length h' /\ forall b, b < List.length h -> b <> self -> hread h' b = hread h b.

Lemma exec_stmt_spec : forall s ar self oth h h' self' cs co,
  exec_stmt s ar self oth h = (h', self') -> stmt_ok s = true -> Rel h self oth cs co ->
  Rel h' self' oth (fst (vstmt s ar cs co)) (snd (vstmt s ar cs co)) /\ Frame h h' self /\
  (self' = self \/ List.length h <= self').
Proof.
  intros s ar self oth h h' self' cs co E OK R.
  pose proof (Rel_other _ _ _ _ _ R) as Ho.
  destruct R as (Hs & Hoth & Hcs & Hco).
  destruct s as [e|e| | |]; cbn [exec_stmt vstmt fst snd stmt_ok] in *.
  - (* SSetSelf e, e fresh *)
    destruct (eval_spec _ _ _ _ _ _ _ E Hs Hoth) as (ext & -> & Ha & Hv & Hf). rewrite OK in Hf.
    split; [|split].
    + unfold Rel. rewrite app_length. split; [rewrite app_length in Ha; lia|]. split; [lia|].
      split; [rewrite Hv, Hcs, Ho; reflexivity|]. split; [lia|].
      rewrite hread_app_l by lia. exact Ho.
    + unfold Frame. rewrite app_length. split; [lia|]. intros b Hb _. apply hread_app_l. exact Hb.
    + right. exact Hf.
  - (* SIAdd e *)
    destruct (eval e ar self oth h) as [h1 a] eqn:E1. injection E as <- <-.
    destruct (eval_spec _ _ _ _ _ _ _ E1 Hs Hoth) as (ext & -> & Ha & Hv & Hf).
    assert (Hself1 : hread (h ++ ext) self = cs) by (rewrite hread_app_l by lia; exact Hcs).
    assert (AE : Nat.eqb a self = reads_self e co).
    { destruct (fresh e) eqn:Fr.
      - assert (reads_self e co = false) as -> by (destruct e; cbn in Fr |- *; try discriminate; reflexivity).
        apply Nat.eqb_neq. lia.
      - destruct Hf as [-> Hf]. destruct e; cbn in Fr; try discriminate; cbn [reads_self]; subst a.
        + apply Nat.eqb_refl.
        + destruct co as [o|]; [apply Nat.eqb_neq; tauto|subst; apply Nat.eqb_refl].
        + destruct co as [o|]; [apply Nat.eqb_neq; tauto|subst; apply Nat.eqb_refl]. }
    rewrite AE, Hself1, Hv, Hcs, Ho.
    split; [|split].
    + unfold Rel. rewrite hwrite_length, app_length. repeat split; try lia.
      * apply hread_hwrite_same. rewrite app_length. lia.
      * destruct co as [o|]; [|exact Hco]. destruct Hco as [Hne Hro]. split; [exact Hne|].
        rewrite hread_hwrite_other by auto. rewrite hread_app_l by lia. exact Hro.
    + unfold Frame. rewrite hwrite_length, app_length. split; [lia|]. intros b Hb Hne.
      rewrite hread_hwrite_other by auto. apply hread_app_l. exact Hb.
    + left. reflexivity.
  - injection E as <- <-. rewrite Hcs. split; [|split].
    + unfold Rel. rewrite hwrite_length. repeat split; try lia.
      * apply hread_hwrite_same. exact Hs.
      * destruct co as [o|]; [|exact Hco]. destruct Hco as [Hne Hro]. split; [exact Hne|]. rewrite hread_hwrite_other by auto. exact Hro.
    + unfold Frame. rewrite hwrite_length. split; [lia|]. intros b Hb Hne. apply hread_hwrite_other. auto.
    + left. reflexivity.
  - injection E as <- <-. rewrite Hcs. split; [|split].
    + unfold Rel. rewrite hwrite_length. repeat split; try lia.
      * apply hread_hwrite_same. exact Hs.
      * destruct co as [o|]; [|exact Hco]. destruct Hco as [Hne Hro]. split; [exact Hne|]. rewrite hread_hwrite_other by auto. exact Hro.
    + unfold Frame. rewrite hwrite_length. split; [lia|]. intros b Hb Hne. apply hread_hwrite_other. auto.
    + left. reflexivity.
  - injection E as <- <-. rewrite Hcs. split; [|split].
    + unfold Rel. rewrite hwrite_length. repeat split; try lia.
      * apply hread_hwrite_same. exact Hs.
      * destruct co as [o|]; [|exact Hco]. destruct Hco as [Hne Hro]. split; [exact Hne|]. rewrite hread_hwrite_other by auto. exact Hro.
    + unfold Frame. rewrite hwrite_length. split; [lia|]. intros b Hb Hne. apply hread_hwrite_other. auto.
    + left. reflexivity.
Qed.

Lemma exec_stmts_spec : forall l ar self oth h h' self' cs co,
  exec_stmts l ar self oth h = (h', self') -> forallb stmt_ok l = true -> Rel h self oth cs co ->
  Rel h' self' oth (fst (vstmts l ar cs co)) (snd (vstmts l ar cs co)) /\ Frame h h' self /\
  (self' = self \/ List.length h <= self').
Proof.
  induction l as [|s l IH]; intros ar self oth h h' self' cs co E OK R.
  - cbn in E. injection E as <- <-. cbn. split; [exact R|]. split; [|left; reflexivity].
    unfold Frame. split; [lia|]. auto.
  - cbn [exec_stmts] in E. destruct (exec_stmt s ar self oth h) as [h1 s1] eqn:E1.
    cbn [forallb] in OK. apply andb_true_iff in OK as [OK1 OK2].
    destruct (exec_stmt_spec _ _ _ _ _ _ _ _ _ E1 OK1 R) as (R1 & [L1 F1] & S1).
    cbn [vstmts]. destruct (vstmt s ar cs co) as [cs1 co1] eqn:V. cbn [fst snd] in R1.
    destruct (IH _ _ _ _ _ _ _ _ E OK2 R1) as (R2 & [L2 F2] & S2).
    split; [exact R2|]. split.
    + unfold Frame. split; [lia|]. intros b Hb Hne.
      rewrite F2; [apply F1; assumption|lia|]. destruct S1 as [->|S1]; [exact Hne|lia].
    + destruct S2 as [->|S2]; [exact S1|]. right. lia.
Qed.

Inductive VOut := VNone | VNewT (c : circ) | VNewS (c : circ).
Definition vout (m : meffect) (ar : args) (cs : circ) (co : option circ) : VOut :=
  match snd (vmethod m ar cs co) with
  | None => VNone | Some (true, c) => VNewT c | Some (false, c) => VNewS c
  end.

Lemma run_method_spec : forall m ar self oth h h' self' out cs co,
  run_method m ar self oth h = (h', self', out) -> method_ok m = true -> Rel h self oth cs co ->
  Frame h h' self /\ (self' = self \/ List.length h <= self') /\ self' < List.length h' /\
  hread h' self' = fst (vmethod m ar cs co) /\
  match out, vout m ar cs co with
  | ONone, VNone => True
  | ONewT b, VNewT c | ONewS b, VNewS c => List.length h <= b /\ b < List.length h' /\ b <> self' /\ hread h' b = c
  | _, _ => False
  end.
Proof.
  intros m ar self oth h h' self' out cs co E OK R.
  unfold method_ok in OK. apply andb_true_iff in OK as [OK OKr]. apply andb_true_iff in OK as [OKpre OKpost].
  unfold run_method in E. destruct (exec_stmts (pre m) ar self oth h) as [h1 s1] eqn:E1.
  destruct (exec_stmts_spec _ _ _ _ _ _ _ _ _ E1 OKpre R) as (R1 & F1 & S1).
  unfold vout, vmethod. destruct (vstmts (pre m) ar cs co) as [cs1 co1] eqn:V1. cbn [fst snd] in R1.
  pose proof (Rel_other _ _ _ _ _ R1) as Ho1. destruct R1 as (Hs1 & Hoth1 & Hcs1 & Hco1).
  destruct (ret m) as [| | |e|e] eqn:Rt.
  1-3: injection E as <- <- <-; cbn [fst snd]; repeat split; try tauto; try (destruct F1; assumption).
  - destruct (eval e ar s1 oth h1) as [h2 a] eqn:E2.
    destruct (exec_stmts (post m) ar a oth h2) as [h3 a3] eqn:E3. injection E as <- <- <-.
    destruct (eval_spec _ _ _ _ _ _ _ E2 Hs1 Hoth1) as (ext & -> & Ha & Hv & Hf). rewrite OKr in Hf.
    assert (R2 : Rel (h1 ++ ext) a oth (vexp e ar cs1 (vother cs1 co1)) (Some (vother cs1 co1))).
    { unfold Rel. rewrite app_length in *. repeat split; try lia.
      - rewrite Hv, Hcs1, Ho1. reflexivity.
      - rewrite hread_app_l by lia. exact Ho1. }
    destruct (exec_stmts_spec _ _ _ _ _ _ _ _ _ E3 OKpost R2) as (R3 & [L3 F3] & S3).
    destruct R3 as (Ha3 & _ & Hv3 & _). destruct F1 as [L1 F1]. rewrite app_length in *.
    cbn [fst snd]. split; [|split; [|split; [|split]]].
    + unfold Frame. split; [lia|]. intros b Hb Hne. rewrite F3; [|try rewrite app_length; lia|lia].
      rewrite hread_app_l by lia. apply F1; assumption.
    + exact S1.
    + lia.
    + rewrite F3; [|try rewrite app_length; lia|lia]. rewrite hread_app_l by lia. exact Hcs1.
    + repeat split; try lia. exact Hv3.
  - destruct (eval e ar s1 oth h1) as [h2 a] eqn:E2. injection E as <- <- <-.
    destruct (eval_spec _ _ _ _ _ _ _ E2 Hs1 Hoth1) as (ext & -> & Ha & Hv & Hf). rewrite OKr in Hf.
    destruct F1 as [L1 F1]. rewrite app_length in *.
    cbn [fst snd]. split; [|split; [|split; [|split]]].
    + unfold Frame. rewrite app_length. split; [lia|]. intros b Hb Hne. rewrite hread_app_l by lia. apply F1; assumption.
    + exact S1.
    + lia.
    + rewrite hread_app_l by lia. exact Hcs1.
    + repeat split; try lia. rewrite Hv, Hcs1, Ho1. reflexivity.
Qed.

(* ---- lists of handles ----------------------------------------------------------------------------------- *)
Lemma set_nth_length : forall {A} (l : list A) k x, List.length (set_nth l k x) = List.length l.
Proof. induction l as [|y l IH]; intros [|k] x; cbn [set_nth List.length]; try reflexivity. rewrite IH. reflexivity. Qed.

Lemma nth_error_set_nth_same : forall {A} (l : list A) k x, k < List.length l -> nth_error (set_nth l k x) k = Some x.
Proof. induction l as [|y l IH]; intros [|k] x H; cbn [List.length] in H; try lia; cbn [set_nth nth_error]; [reflexivity|]. apply IH. lia. Qed.

Lemma nth_error_set_nth_other : forall {A} (l : list A) k k' x, k' <> k -> nth_error (set_nth l k x) k' = nth_error l k'.
Proof. induction l as [|y l IH]; intros [|k] [|k'] x H; cbn [set_nth nth_error]; try reflexivity; try lia. apply IH. lia. Qed.

Lemma In_set_nth : forall {A} (l : list A) k x y, In y (set_nth l k x) -> y = x \/ In y l.
Proof.
  induction l as [|z l IH]; intros [|k] x y H; cbn [set_nth In] in *; try tauto.
  - destruct H as [H|H]; auto.
  - destruct H as [H|H]; auto. destruct (IH _ _ _ H); auto.
Qed.

Lemma set_nth_same : forall {A} (l : list A) k a, nth_error l k = Some a -> set_nth l k a = l.
Proof. induction l as [|z l IH]; intros [|k] a H; cbn [set_nth nth_error] in *; try discriminate; [injection H as ->; reflexivity|]. rewrite IH by exact H. reflexivity. Qed.

Lemma nth_set_nth_same : forall {A} (l : list A) k x d, k < List.length l -> nth k (set_nth l k x) d = x.
Proof. intros. apply nth_error_nth. apply nth_error_set_nth_same. assumption. Qed.

Lemma nth_set_nth_other : forall {A} (l : list A) k k' x d, k' <> k -> nth k' (set_nth l k x) d = nth k' l d.
Proof.
  induction l as [|y l IH]; intros [|k] [|k'] x d H; cbn [set_nth nth]; try reflexivity; try lia. apply IH. lia.
Qed.

Lemma NoDup_insert : forall {A} (l1 l2 : list A) b, NoDup (l1 ++ l2) -> ~ In b (l1 ++ l2) -> NoDup (l1 ++ b :: l2).
Proof.
  induction l1 as [|x l1 IH]; intros l2 b H Hb; cbn [app] in *.
  - constructor; assumption.
  - inversion H as [|? ? Hx Hr]; subst. constructor.
    + intro Hin. apply in_app_or in Hin as [Hin|[Hin|Hin]].
      * apply Hx. apply in_or_app. auto.
      * subst. apply Hb. left. reflexivity.
      * apply Hx. apply in_or_app. auto.
    + apply IH; [exact Hr|]. intro Hin. apply Hb. right. exact Hin.
Qed.

Lemma NoDup_update : forall (tvl svl : list nat) v a a' n,
  NoDup (tvl ++ svl) -> (forall x, In x (tvl ++ svl) -> x < n) -> nth_error tvl v = Some a ->
  (a' = a \/ n <= a') -> NoDup (set_nth tvl v a' ++ svl).
Proof.
  intros tvl svl v a a' n ND Hlt Hv [->|Hf].
  - rewrite (set_nth_same _ _ _ Hv). exact ND.
  - revert v ND Hlt Hv. induction tvl as [|x tvl IH]; intros [|v] ND Hlt Hv; cbn [nth_error] in Hv; try discriminate.
    + injection Hv as ->. cbn [set_nth app] in *. inversion ND as [|? ? Hx Hr]; subst. constructor; [|exact Hr].
      intro Hin. specialize (Hlt a' (or_intror Hin)). lia.
    + cbn [set_nth app] in *. inversion ND as [|? ? Hx Hr]; subst. constructor.
      * intro Hin. apply in_app_or in Hin as [Hin|Hin].
        -- apply In_set_nth in Hin as [->|Hin]; [specialize (Hlt a' (or_introl eq_refl)); lia|]. apply Hx. apply in_or_app. auto.
        -- apply Hx. apply in_or_app. auto.
      * apply (IH v Hr); [|exact Hv]. intros y Hy. apply Hlt. right. exact Hy.
Qed.

Definition allv (s : st) : list nat := tv s ++ sv s.
Definition WF (s : st) : Prop :=
  (forall a, In a (allv s) -> a < List.length (heap_of s)) /\ NoDup (allv s).

Lemma WF_tv_distinct : forall s v v' a a', WF s -> nth_error (tv s) v = Some a -> nth_error (tv s) v' = Some a' -> v <> v' -> a <> a'.
Proof.
  intros s v v' a a' [_ ND] H1 H2 Hne Heq. subst a'.
  assert (L1 : v < List.length (tv s)) by (apply nth_error_Some; congruence).
  assert (L2 : v' < List.length (tv s)) by (apply nth_error_Some; congruence).
  unfold allv in ND. rewrite NoDup_nth_error in ND. apply Hne. apply ND.
  - rewrite app_length. lia.
  - rewrite !nth_error_app1 by assumption. congruence.
Qed.

Lemma WF_tv_sv_distinct : forall s v w a b, WF s -> nth_error (tv s) v = Some a -> nth_error (sv s) w = Some b -> a <> b.
Proof.
  intros s v w a b [_ ND] H1 H2 Heq. subst b.
  assert (L1 : v < List.length (tv s)) by (apply nth_error_Some; congruence).
  assert (L2 : w < List.length (sv s)) by (apply nth_error_Some; congruence).
  unfold allv in ND. rewrite NoDup_nth_error in ND.
  assert (v = List.length (tv s) + w); [|lia]. apply ND.
  - rewrite app_length. lia.
  - rewrite nth_error_app1 by assumption. rewrite nth_error_app2 by lia.
    replace (List.length (tv s) + w - List.length (tv s)) with w by lia. congruence.
Qed.

Lemma WF_sv_distinct : forall s w w' a a', WF s -> nth_error (sv s) w = Some a -> nth_error (sv s) w' = Some a' -> w <> w' -> a <> a'.
Proof.
  intros s w w' a a' [_ ND] H1 H2 Hne Heq. subst a'.
  assert (L1 : w < List.length (sv s)) by (apply nth_error_Some; congruence).
  assert (L2 : w' < List.length (sv s)) by (apply nth_error_Some; congruence).
  unfold allv in ND. rewrite NoDup_nth_error in ND.
  assert (List.length (tv s) + w = List.length (tv s) + w'); [|lia]. apply ND.
  - rewrite app_length. lia.
  - rewrite !nth_error_app2 by lia.
    replace (List.length (tv s) + w - List.length (tv s)) with w by lia.
    replace (List.length (tv s) + w' - List.length (tv s)) with w' by lia. congruence.
Qed.

Lemma tval_nth : forall s v a, nth_error (tv s) v = Some a -> tval s v = hread (heap_of s) a.
Proof. intros s v a H. unfold tval. rewrite H. reflexivity. Qed.
Lemma sval_nth : forall s w a, nth_error (sv s) w = Some a -> sval s w = hread (heap_of s) a.
Proof. intros s w a H. unfold sval. rewrite H. reflexivity. Qed.

(* the operand as the value semantics sees it: None = the very object of the receiver *)
Definition operand_val (s : st) (a : nat) (oth : option nat) : option circ :=
  match oth with
  | None => None
  | Some b => if Nat.eqb b a then None else Some (hread (heap_of s) b)
  end.

Lemma call_spec : forall m ar v oth s a,
  WF s -> nth_error (tv s) v = Some a -> method_ok m = true ->
  match oth with Some b => In b (allv s) | None => True end ->
  let cs := hread (heap_of s) a in
  let co := operand_val s a oth in
  let s' := call m ar v oth s in
  WF s' /\
  tval s' v = fst (vmethod m ar cs co) /\
  (forall v', v' <> v -> v' < List.length (tv s) -> tval s' v' = tval s v') /\
  (forall w, w < List.length (sv s) -> sval s' w = sval s w) /\
  match vout m ar cs co with
  | VNone => List.length (tv s') = List.length (tv s) /\ List.length (sv s') = List.length (sv s)
  | VNewT c => List.length (tv s') = S (List.length (tv s)) /\ List.length (sv s') = List.length (sv s) /\
               tval s' (List.length (tv s)) = c
  | VNewS c => List.length (tv s') = List.length (tv s) /\ List.length (sv s') = S (List.length (sv s)) /\
               sval s' (List.length (sv s)) = c
  end.
Proof.
  intros m ar v oth s a W Hv OK Hoth cs co s'.
  assert (Lv : v < List.length (tv s)) by (apply nth_error_Some; congruence).
  assert (Ha : a < List.length (heap_of s)).
  { apply (proj1 W). unfold allv. apply in_or_app. left. eapply nth_error_In. exact Hv. }
  set (o := match oth with Some b => b | None => a end).
  assert (Ho : o < List.length (heap_of s)).
  { unfold o. destruct oth as [b|]; [apply (proj1 W); exact Hoth|exact Ha]. }
  assert (R : Rel (heap_of s) a o cs co).
  { unfold Rel. repeat split; try assumption. unfold co, operand_val, o. destruct oth as [b|]; [|reflexivity].
    destruct (Nat.eqb b a) eqn:E; [apply Nat.eqb_eq in E; exact E|]. apply Nat.eqb_neq in E. split; [exact E|reflexivity]. }
  unfold s', call. rewrite Hv. fold o.
  destruct (run_method m ar a o (heap_of s)) as [[h' a'] out] eqn:E.
  destruct (run_method_spec _ _ _ _ _ _ _ _ _ _ E OK R) as ([L F] & Sa & La' & Hva' & Hout).
  set (tv' := set_nth (tv s) v a').
  assert (Htv'v : nth_error tv' v = Some a') by (apply nth_error_set_nth_same; exact Lv).
  assert (Hothers : forall v', v' <> v -> v' < List.length (tv s) ->
            exists a'', nth_error tv' v' = Some a'' /\ nth_error (tv s) v' = Some a'' /\ hread h' a'' = hread (heap_of s) a'').
  { intros v' Hne Lv'. destruct (nth_error (tv s) v') as [a''|] eqn:E'; [|apply nth_error_None in E'; lia].
    exists a''. unfold tv'. rewrite nth_error_set_nth_other by exact Hne. repeat split; try assumption.
    apply F.
    - apply (proj1 W). unfold allv. apply in_or_app. left. eapply nth_error_In. exact E'.
    - eapply WF_tv_distinct; eauto. }
  assert (Hsv : forall w, w < List.length (sv s) ->
            exists b, nth_error (sv s) w = Some b /\ hread h' b = hread (heap_of s) b).
  { intros w Lw. destruct (nth_error (sv s) w) as [b|] eqn:E'; [|apply nth_error_None in E'; lia].
    exists b. split; [reflexivity|]. apply F.
    - apply (proj1 W). unfold allv. apply in_or_app. right. eapply nth_error_In. exact E'.
    - intro Heq. eapply WF_tv_sv_distinct; eauto. }
  assert (NDbase : NoDup (tv' ++ sv s)).
  { unfold tv'. eapply NoDup_update; [exact (proj2 W)|exact (proj1 W)|exact Hv|exact Sa]. }
  assert (LTbase : forall x, In x (tv' ++ sv s) -> x < List.length h').
  { intros x Hx. apply in_app_or in Hx as [Hx|Hx].
    - unfold tv' in Hx. apply In_set_nth in Hx as [->|Hx]; [exact La'|].
      assert (x < List.length (heap_of s)) by (apply (proj1 W); unfold allv; apply in_or_app; auto). lia.
    - assert (x < List.length (heap_of s)) by (apply (proj1 W); unfold allv; apply in_or_app; auto). lia. }
  assert (FRESH : forall b, List.length (heap_of s) <= b -> b <> a' -> ~ In b (tv' ++ sv s)).
  { intros b Lb Hne Hin. apply in_app_or in Hin as [Hin|Hin].
    - unfold tv' in Hin. apply In_set_nth in Hin as [->|Hin]; [congruence|].
      assert (b < List.length (heap_of s)) by (apply (proj1 W); unfold allv; apply in_or_app; auto). lia.
    - assert (b < List.length (heap_of s)) by (apply (proj1 W); unfold allv; apply in_or_app; auto). lia. }
  destruct out as [|b|b]; destruct (vout m ar cs co) as [|c|c] eqn:VO; try contradiction.
  - (* no new object *)
    split; [split; [exact LTbase|exact NDbase]|].
    split; [rewrite (tval_nth (mkSt h' tv' (sv s)) _ _ Htv'v); exact Hva'|].
    split; [|split].
    + intros v' Hne Lv'. destruct (Hothers v' Hne Lv') as (a'' & H1 & H2 & H3).
      rewrite (tval_nth (mkSt h' tv' (sv s)) _ _ H1), (tval_nth _ _ _ H2). exact H3.
    + intros w Lw. destruct (Hsv w Lw) as (b & H1 & H2).
      rewrite (sval_nth (mkSt h' tv' (sv s)) _ _ H1), (sval_nth _ _ _ H1). exact H2.
    + cbn [tv sv]. unfold tv'. rewrite set_nth_length. auto.
  - (* a new tsim Circuit *)
    destruct Hout as (Lb & Lb' & Hne & Hvb).
    assert (Ltv' : List.length tv' = List.length (tv s)) by (unfold tv'; apply set_nth_length).
    split.
    { split; unfold allv; cbn [tv sv heap_of].
      - intros x Hx. rewrite <- app_assoc in Hx. cbn [app] in Hx.
        apply in_app_or in Hx as [Hx|[->|Hx]]; [apply LTbase; apply in_or_app; auto|exact Lb'|apply LTbase; apply in_or_app; auto].
      - rewrite <- app_assoc. cbn [app]. apply NoDup_insert; [exact NDbase|]. apply FRESH; assumption. }
    split.
    { unfold tval. cbn [tv heap_of]. rewrite nth_error_app1 by (rewrite Ltv'; exact Lv). rewrite Htv'v. exact Hva'. }
    split; [|split].
    + intros v' Hne' Lv'. destruct (Hothers v' Hne' Lv') as (a'' & H1 & H2 & H3).
      unfold tval at 1. cbn [tv heap_of]. rewrite nth_error_app1 by (rewrite Ltv'; exact Lv'). rewrite H1.
      rewrite (tval_nth _ _ _ H2). exact H3.
    + intros w Lw. destruct (Hsv w Lw) as (b0 & H1 & H2).
      rewrite (sval_nth (mkSt h' (tv' ++ [b]) (sv s)) _ _ H1), (sval_nth _ _ _ H1). exact H2.
    + cbn [tv sv]. rewrite app_length, Ltv'. cbn [List.length]. split; [lia|]. split; [reflexivity|].
      unfold tval. cbn [tv heap_of]. rewrite nth_error_app2 by lia. rewrite Ltv', Nat.sub_diag. cbn [nth_error]. exact Hvb.
  - (* a new stim object handed to the user *)
    destruct Hout as (Lb & Lb' & Hne & Hvb).
    assert (Ltv' : List.length tv' = List.length (tv s)) by (unfold tv'; apply set_nth_length).
    split.
    { split; unfold allv; cbn [tv sv heap_of].
      - intros x Hx. rewrite app_assoc in Hx.
        apply in_app_or in Hx as [Hx|[->|[]]]; [apply LTbase; exact Hx|exact Lb'].
      - rewrite app_assoc. apply (NoDup_insert (tv' ++ sv s) [] b); rewrite ?app_nil_r; [exact NDbase|]. apply FRESH; assumption. }
    split.
    { rewrite (tval_nth (mkSt h' tv' (sv s ++ [b])) _ _ Htv'v). exact Hva'. }
    split; [|split].
    + intros v' Hne' Lv'. destruct (Hothers v' Hne' Lv') as (a'' & H1 & H2 & H3).
      rewrite (tval_nth (mkSt h' tv' (sv s ++ [b])) _ _ H1), (tval_nth _ _ _ H2). exact H3.
    + intros w Lw. destruct (Hsv w Lw) as (b0 & H1 & H2).
      unfold sval at 1. cbn [sv heap_of]. rewrite nth_error_app1 by exact Lw. rewrite H1.
      rewrite (sval_nth _ _ _ H1). exact H2.
    + cbn [tv sv]. rewrite app_length, Ltv'. cbn [List.length]. split; [reflexivity|]. split; [lia|].
      unfold sval. cbn [sv heap_of]. rewrite nth_error_app2 by lia. rewrite Nat.sub_diag. cbn [nth_error]. exact Hvb.
Qed.

(* ======================================================================================================= *)
(* Part 2: more facts about Stim's operations, then the abstract interpreters                              *)
(* ======================================================================================================= *)

Lemma is_flat_stim_iadd_self : forall c, is_flat c = true -> is_flat (stim_iadd_self c) = true.
Proof.
  intros c H. unfold stim_iadd_self.
  assert (D : is_flat (c ++ c) = true) by (rewrite is_flat_app, H; reflexivity).
  destruct c as [|x c0]; [reflexivity|]. destruct x as [i|n b]; [|exact D].
  destruct (rev (It i :: c0)) as [|y r] eqn:E; [exact D|]. destruct y as [j|m b']; [|exact D].
  destruct (can_fuse j i); [|exact D].
  apply rev_cons_inv in E. rewrite E in H. rewrite is_flat_app in H. apply andb_true_iff in H as [H1 _].
  assert (F : is_flat (rev r ++ [It (merge j i)]) = true) by (rewrite is_flat_app, H1; reflexivity).
  rewrite is_flat_app, F. cbn [andb].
  destruct (rev r ++ [It (merge j i)]) as [|z t] eqn:E2; [reflexivity|].
  cbn [tl]. cbn [is_flat forallb] in F. apply andb_true_iff in F as [_ F]. exact F.
Qed.

Lemma is_flat_pop_at : forall i c, is_flat c = true -> is_flat (pop_at i c) = true.
Proof. intros i c H. unfold pop_at. destruct (norm_index _ _); [apply is_flat_remove_nth|]; exact H. Qed.

Lemma is_flat_stim_slice : forall a b c x, is_flat x = true -> is_flat (stim_slice a b c x) = true.
Proof. intros. unfold stim_slice. apply is_flat_select. assumption. Qed.

(* tsim's filter loop on a REPEAT-free circuit *)
Lemma stim_filtered_flat_acc : forall names l acc Y,
  fuse (flatten0 (fold_left (fun acc y => if dropped names y then acc else csnoc acc y) (embed l) acc) ++ Y)
  = fuse (flatten0 acc ++ keepl names l ++ Y).
Proof.
  induction l as [|i l IH]; intros acc Y; [reflexivity|].
  cbn [embed map fold_left]. fold (embed l). rewrite IH.
  cbn [dropped keepl filter]. fold (keepl names l).
  destruct (mem (iname i) names); cbn [negb].
  - reflexivity.
  - rewrite csnoc_fuse. cbn [flat_item app]. reflexivity.
Qed.

Lemma stim_filtered_flat : forall names l, fuse (flatten0 (stim_filtered names (embed l))) = fuse (keepl names l).
Proof.
  intros names l. unfold stim_filtered. pose proof (stim_filtered_flat_acc names l [] []) as H.
  rewrite !app_nil_r in H. exact H.
Qed.

Lemma is_flat_stim_filtered : forall names l, is_flat (stim_filtered names (embed l)) = true.
Proof.
  intros names l. unfold stim_filtered.
  assert (G : forall acc, is_flat acc = true ->
     is_flat (fold_left (fun acc y => if dropped names y then acc else csnoc acc y) (embed l) acc) = true).
  { induction l as [|i l IH]; intros acc Ha; [exact Ha|].
    cbn [embed map fold_left]. fold (embed l). apply IH.
    destruct (dropped names (It i)); [exact Ha|]. apply is_flat_csnoc; [exact Ha|reflexivity]. }
  apply G. reflexivity.
Qed.

(* the reference operations commute with flattening *)
Lemma flat_map_rep_app : forall {A B} (f : A -> list B) n l, flat_map f (rep_app n l) = rep_app n (flat_map f l).
Proof. intros A B f n l. induction n as [|n IH]; [reflexivity|]. cbn [rep_app]. rewrite flat_map_app, IH. reflexivity. Qed.

Lemma flatten0_ref_without_noise : forall c, flatten0 (ref_without_noise c) = wnl (flatten0 c).
Proof.
  assert (I : forall x, flat_map flat_item (rwn_item x) = wnl (flat_item x)).
  { induction x as [i|n b IH] using item_ind2.
    - cbn [rwn_item flat_item wnl flat_map]. destruct (wn_instr i); reflexivity.
    - cbn [rwn_item flat_item flat_map]. rewrite app_nil_r. unfold wnl. rewrite flat_map_rep_app. f_equal.
      induction b as [|y r IHr]; [reflexivity|].
      inversion IH as [|? ? Py Pr]; subst. cbn [flat_map]. rewrite !flat_map_app. fold (wnl (flat_item y)).
      rewrite <- Py. rewrite (IHr Pr). reflexivity. }
  induction c as [|x c IH]; [reflexivity|].
  unfold ref_without_noise, flatten0 in *. cbn [flat_map]. rewrite flat_map_app, IH, I. unfold wnl. rewrite flat_map_app. reflexivity.
Qed.

Lemma flatten0_ref_drop : forall names c, flatten0 (ref_drop names c) = keepl names (flatten0 c).
Proof.
  intro names.
  assert (K : forall n l, keepl names (rep_app n l) = rep_app n (keepl names l)).
  { intros n l. induction n as [|n IH]; [reflexivity|]. cbn [rep_app]. rewrite keepl_app, IH. reflexivity. }
  assert (I : forall x, flat_map flat_item (rd_item names x) = keepl names (flat_item x)).
  { induction x as [i|n b IH] using item_ind2.
    - cbn [rd_item flat_item keepl filter]. destruct (mem (iname i) names); reflexivity.
    - cbn [rd_item flat_item flat_map]. rewrite app_nil_r. rewrite K. f_equal.
      induction b as [|y r IHr]; [reflexivity|].
      inversion IH as [|? ? Py Pr]; subst. cbn [flat_map]. rewrite flat_map_app, keepl_app.
      rewrite <- Py. rewrite (IHr Pr). reflexivity. }
  induction c as [|x c IH]; [reflexivity|].
  unfold ref_drop, flatten0 in *. cbn [flat_map]. rewrite flat_map_app, IH, I, keepl_app. reflexivity.
Qed.

(* SHIFT_COORDS-freeness of what the operations produce *)
Definition ns_l (l : list instr) : bool := forallb (fun i => negb (is_shift i)) l.

Lemma noshift_rep : forall n c, noshift c = true -> noshift [Rep n c] = true.
Proof.
  intros n c H. unfold noshift, flatten0 in *. cbn [flat_map flat_item]. rewrite app_nil_r.
  destruct n as [|n]; [reflexivity|]. rewrite forallb_rep_app. exact H.
Qed.

Lemma ns_l_wnl : forall l, ns_l l = true -> ns_l (wnl l) = true.
Proof.
  induction l as [|i l IH]; intro H; [reflexivity|].
  cbn [ns_l forallb] in H. apply andb_true_iff in H as [H1 H2].
  change (wnl (i :: l)) with ((match wn_instr i with Some x => [x] | None => [] end) ++ wnl l).
  unfold ns_l. rewrite forallb_app. fold (ns_l (wnl l)). rewrite (IH H2), andb_true_r.
  unfold wn_instr. destruct (mem (iname i) meas_names).
  - destruct (mem (iname i) herald_names); cbn [forallb]; [reflexivity|].
    unfold is_shift in *. cbn [iname]. rewrite H1. reflexivity.
  - destruct (mem (iname i) noisy_names); cbn [forallb]; [reflexivity|]. rewrite H1. reflexivity.
Qed.

Lemma ns_l_keepl : forall names l, ns_l l = true -> ns_l (keepl names l) = true.
Proof.
  intros names l H. unfold ns_l, keepl in *. rewrite forallb_forall in *. intros x Hx. apply filter_In in Hx as [Hx _]. apply H. exact Hx.
Qed.

Lemma noshift_ref_without_noise : forall c, noshift c = true -> noshift (ref_without_noise c) = true.
Proof. intros c H. unfold noshift. rewrite flatten0_ref_without_noise. apply ns_l_wnl. exact H. Qed.
Lemma noshift_ref_drop : forall names c, noshift c = true -> noshift (ref_drop names c) = true.
Proof. intros names c H. unfold noshift. rewrite flatten0_ref_drop. apply ns_l_keepl. exact H. Qed.

Lemma noshift_flat_items : forall c, is_flat c = true ->
  noshift c = forallb (fun x => match x with It i => negb (is_shift i) | Rep _ _ => true end) c.
Proof.
  induction c as [|x c IH]; intro H; [reflexivity|].
  cbn [is_flat forallb] in H. apply andb_true_iff in H as [H1 H2]. destruct x as [i|n b]; [|discriminate].
  rewrite noshift_cons. cbn [forallb]. rewrite <- (IH H2). unfold noshift at 1, flatten0. cbn. rewrite andb_true_r. reflexivity.
Qed.

Lemma noshift_select : forall c idx, is_flat c = true -> noshift c = true -> noshift (select c idx) = true.
Proof.
  intros c idx Hf Hn. rewrite noshift_flat_items by (apply is_flat_select; exact Hf).
  rewrite noshift_flat_items in Hn by exact Hf. rewrite forallb_forall in *. intros x Hx.
  unfold select in Hx. apply in_flat_map in Hx as (k & _ & Hx).
  destruct (nth_error c k) as [y|] eqn:E; [|contradiction]. destruct Hx as [<-|[]]. apply Hn. eapply nth_error_In. exact E.
Qed.

Lemma In_remove_nth : forall {A} k (l : list A) x, In x (remove_nth k l) -> In x l.
Proof.
  induction k as [|k IH]; intros [|y l] x H; cbn [remove_nth] in H; try contradiction.
  - right. exact H.
  - destruct H as [->|H]; [left; reflexivity|right; apply IH; exact H].
Qed.

Lemma noshift_pop_at : forall i c, is_flat c = true -> noshift c = true -> noshift (pop_at i c) = true.
Proof.
  intros i c Hf Hn. unfold pop_at. destruct (norm_index _ _) as [k|]; [|exact Hn].
  rewrite noshift_flat_items by (apply is_flat_remove_nth; exact Hf).
  rewrite noshift_flat_items in Hn by exact Hf. rewrite forallb_forall in *. intros x Hx. apply Hn. eapply In_remove_nth. exact Hx.
Qed.

(* ---- abstract interpreter 1: flatness ------------------------------------------------------------------ *)
Fixpoint flat_exp (sf o : bool) (e : oexp) : bool :=
  match e with
  | XSelf => sf
  | XOtherT | XOtherS => o
  | XParse => false
  | XEmpty => true
  | XCopy e => flat_exp sf o e
  | XFlattened _ => true
  | XMul _ => false
  | XSlice e | XWithoutNoise e | XFiltered _ e => flat_exp sf o e
  end.
Definition fother (sf : bool) (fo : option bool) : bool := match fo with Some b => b | None => sf end.
Definition flat_stmt (s : stmt) (sf : bool) (fo : option bool) : bool * option bool :=
  let o := fother sf fo in
  match s with
  | SSetSelf e => (flat_exp sf o e, Some o)
  | SIAdd e => (sf && flat_exp sf o e, fo)
  | SIMul | SAppendText => (false, fo)
  | SPop => (sf, fo)
  end.
Fixpoint flat_stmts (l : list stmt) (sf : bool) (fo : option bool) : bool * option bool :=
  match l with
  | [] => (sf, fo)
  | s :: r => let '(sf1, fo1) := flat_stmt s sf fo in flat_stmts r sf1 fo1
  end.
(* the receiver stays flat, and a returned new Circuit is flat *)
Definition flat_method (m : meffect) (fo : option bool) : bool :=
  let '(sf1, fo1) := flat_stmts (pre m) true fo in
  sf1 && match ret m with
         | RNew e => fst (flat_stmts (post m) (flat_exp sf1 (fother sf1 fo1) e) (Some (fother sf1 fo1)))
         | _ => true
         end.

Definition FA (b : bool) (c : circ) : Prop := b = true -> is_flat c = true.
Definition FO (fo : option bool) (co : option circ) : Prop :=
  match fo, co with Some b, Some o => FA b o | None, None => True | _, _ => False end.

Lemma FA_fother : forall sf fo cs co, FA sf cs -> FO fo co -> FA (fother sf fo) (vother cs co).
Proof. intros sf [b|] cs [o|] H1 H2; cbn in *; try contradiction; assumption. Qed.

Lemma flat_exp_sound : forall e ar sf o cs ov, FA sf cs -> FA o ov -> FA (flat_exp sf o e) (vexp e ar cs ov).
Proof.
  induction e as [| | | | |e0 IH|e0 IH|e0 IH|e0 IH|e0 IH|names e0 IH]; intros ar sf o cs ov H1 H2; cbn [flat_exp vexp]; try assumption.
  - intro; discriminate.
  - intro; reflexivity.
  - apply IH; assumption.
  - intro. apply is_flat_flattened.
  - intro; discriminate.
  - intro F. apply is_flat_stim_slice. exact (IH ar sf o cs ov H1 H2 F).
  - intro F. rewrite (is_flat_embed_flatten0 _ (IH ar sf o cs ov H1 H2 F)). apply is_flat_stim_without_noise.
  - intro F. rewrite (is_flat_embed_flatten0 _ (IH ar sf o cs ov H1 H2 F)). apply is_flat_stim_filtered.
Qed.

Lemma flat_stmt_sound : forall s ar sf fo cs co, FA sf cs -> FO fo co ->
  FA (fst (flat_stmt s sf fo)) (fst (vstmt s ar cs co)) /\ FO (snd (flat_stmt s sf fo)) (snd (vstmt s ar cs co)).
Proof.
  intros s ar sf fo cs co H1 H2. pose proof (FA_fother _ _ _ _ H1 H2) as H3.
  destruct s as [e|e| | |]; cbn [flat_stmt vstmt fst snd].
  - split; [apply flat_exp_sound; assumption|exact H3].
  - split; [|exact H2]. intro F. apply andb_true_iff in F as [F1 F2].
    destruct (reads_self e co); [apply is_flat_stim_iadd_self; exact (H1 F1)|].
    apply is_flat_stim_iadd; [exact (H1 F1)|]. exact (flat_exp_sound e ar _ _ _ _ H1 H3 F2).
  - split; [intro; discriminate|exact H2].
  - split; [intro; discriminate|exact H2].
  - split; [|exact H2]. intro F. apply is_flat_pop_at. exact (H1 F).
Qed.

Lemma flat_stmts_sound : forall l ar sf fo cs co, FA sf cs -> FO fo co ->
  FA (fst (flat_stmts l sf fo)) (fst (vstmts l ar cs co)) /\ FO (snd (flat_stmts l sf fo)) (snd (vstmts l ar cs co)).
Proof.
  induction l as [|s l IH]; intros ar sf fo cs co H1 H2; [split; assumption|].
  cbn [flat_stmts vstmts]. destruct (flat_stmt_sound s ar sf fo cs co H1 H2) as [G1 G2].
  destruct (flat_stmt s sf fo) as [sf1 fo1]. destruct (vstmt s ar cs co) as [cs1 co1]. apply IH; assumption.
Qed.

Lemma flat_method_sound : forall m ar fo cs co, is_flat cs = true -> FO fo co -> flat_method m fo = true ->
  is_flat (fst (vmethod m ar cs co)) = true /\
  match vout m ar cs co with VNewT c => is_flat c = true | _ => True end.
Proof.
  intros m ar fo cs co Hc Ho FM. unfold flat_method in FM. unfold vout, vmethod.
  destruct (flat_stmts_sound (pre m) ar true fo cs co (fun _ => Hc) Ho) as [G1 G2].
  destruct (flat_stmts (pre m) true fo) as [sf1 fo1]. destruct (vstmts (pre m) ar cs co) as [cs1 co1].
  cbn [fst snd] in *. apply andb_true_iff in FM as [F1 F2].
  pose proof (FA_fother _ _ _ _ G1 G2) as G3.
  destruct (ret m) as [| | |e|e]; cbn [fst snd]; try (split; [exact (G1 F1)|exact I]).
  split; [exact (G1 F1)|].
  pose proof (flat_exp_sound e ar _ _ _ _ G1 G3) as G4.
  destruct (flat_stmts_sound (post m) ar _ (Some (fother sf1 fo1)) _ (Some (vother cs1 co1)) G4 G3) as [G5 _].
  exact (G5 F2).
Qed.

(* ---- abstract interpreter 2: what an effect means for the reference (structural, no merging) ------- *)
Fixpoint rexp (e : oexp) (ar : args) (cs ov rs ro : circ) : circ :=
  match e with
  | XSelf => rs
  | XOtherT | XOtherS => ro
  | XParse => a_text ar
  | XEmpty => []
  | XCopy e | XFlattened e => rexp e ar cs ov rs ro
  | XMul e => [Rep (Z.to_nat (a_n ar)) (rexp e ar cs ov rs ro)]
  | XSlice e => stim_slice (a_start ar) (a_stop ar) (a_step ar) (vexp e ar cs ov)   (* representative: tsim's own list *)
  | XWithoutNoise e => ref_without_noise (rexp e ar cs ov rs ro)
  | XFiltered names e => ref_drop names (rexp e ar cs ov rs ro)
  end.
Definition rstmt (s : stmt) (ar : args) (cs : circ) (co : option circ) (rs : circ) (rco : option circ) : circ * option circ :=
  let o := vother cs co in
  let ro := vother rs rco in
  match s with
  | SSetSelf e => (rexp e ar cs o rs ro, Some ro)
  | SIAdd e => (rs ++ rexp e ar cs o rs ro, rco)
  | SIMul => ([Rep (Z.to_nat (a_n ar)) rs], rco)
  | SAppendText => (rs ++ a_text ar, rco)
  | SPop => (pop_at (a_idx ar) cs, rco)
  end.
Fixpoint rstmts (l : list stmt) (ar : args) (cs : circ) (co : option circ) (rs : circ) (rco : option circ) : circ * option circ :=
  match l with
  | [] => (rs, rco)
  | s :: r => let '(cs1, co1) := vstmt s ar cs co in
              let '(rs1, rco1) := rstmt s ar cs co rs rco in rstmts r ar cs1 co1 rs1 rco1
  end.
Definition rmethod (m : meffect) (ar : args) (cs : circ) (co : option circ) (rs : circ) (rco : option circ)
  : circ * option (bool * circ) :=
  let '(cs1, co1) := vstmts (pre m) ar cs co in
  let '(rs1, rco1) := rstmts (pre m) ar cs co rs rco in
  let o1 := vother cs1 co1 in
  let ro1 := vother rs1 rco1 in
  match ret m with
  | RNew e => (rs1, Some (true, fst (rstmts (post m) ar (vexp e ar cs1 o1) (Some o1) (rexp e ar cs1 o1 rs1 ro1) (Some ro1))))
  | RStim e => (rs1, Some (false, rexp e ar cs1 o1 rs1 ro1))
  | _ => (rs1, None)
  end.

Fixpoint rexp_ok (sf o : bool) (e : oexp) : bool :=
  match e with
  | XSelf | XOtherT | XOtherS | XParse | XEmpty => true
  | XCopy e | XFlattened e | XMul e => rexp_ok sf o e
  | XSlice e | XWithoutNoise e | XFiltered _ e => flat_exp sf o e && rexp_ok sf o e
  end.
Definition aliased_read (e : oexp) (fo : option bool) : bool :=
  match e with
  | XSelf => true
  | XOtherT | XOtherS => match fo with None => true | Some _ => false end
  | _ => false
  end.
Definition rstmt_ok (s : stmt) (sf : bool) (fo : option bool) : bool :=
  let o := fother sf fo in
  match s with
  | SSetSelf e => rexp_ok sf o e
  | SIAdd e => negb (aliased_read e fo) && rexp_ok sf o e
  | SIMul | SAppendText => true
  | SPop => sf
  end.
Fixpoint rstmts_ok (l : list stmt) (sf : bool) (fo : option bool) : bool :=
  match l with
  | [] => true
  | s :: r => rstmt_ok s sf fo && let '(sf1, fo1) := flat_stmt s sf fo in rstmts_ok r sf1 fo1
  end.
Definition rmethod_ok (m : meffect) (fo : option bool) : bool :=
  rstmts_ok (pre m) true fo &&
  let '(sf1, fo1) := flat_stmts (pre m) true fo in
  let o1 := fother sf1 fo1 in
  match ret m with
  | RNew e => rexp_ok sf1 o1 e && rstmts_ok (post m) (flat_exp sf1 o1 e) (Some o1)
  | RStim e => rexp_ok sf1 o1 e
  | _ => true
  end.

Definition SR (cs : circ) (co : option circ) (rs : circ) (rco : option circ) : Prop :=
  sim cs rs /\ noshift rs = true /\
  match co, rco with
  | Some o, Some ro => sim o ro /\ noshift ro = true
  | None, None => True
  | _, _ => False
  end.

Lemma SR_other : forall cs co rs rco, SR cs co rs rco ->
  sim (vother cs co) (vother rs rco) /\ noshift (vother rs rco) = true.
Proof. intros cs [o|] rs [ro|] (H1 & H2 & H3); cbn [vother]; try contradiction; tauto. Qed.

Lemma FO_aliased : forall e fo co, FO fo co -> aliased_read e fo = reads_self e co.
Proof. intros e [b|] [o|] H; cbn in H; try contradiction; destruct e; reflexivity. Qed.

Lemma rexp_sound : forall e ar sf o cs ov rs ro,
  sim cs rs -> noshift rs = true -> sim ov ro -> noshift ro = true ->
  noshift (a_text ar) = true -> (0 <= a_n ar)%Z -> FA sf cs -> FA o ov -> rexp_ok sf o e = true ->
  sim (vexp e ar cs ov) (rexp e ar cs ov rs ro) /\ noshift (rexp e ar cs ov rs ro) = true.
Proof.
  induction e as [| | | | |e0 IH|e0 IH|e0 IH|e0 IH|e0 IH|names e0 IH];
    intros ar sf o cs ov rs ro Hs Hns Ho Hno Ht Hn Fs Fo OK; cbn [vexp rexp rexp_ok] in *.
  - split; assumption.
  - split; assumption.
  - split; assumption.
  - split; [apply simc_refl|exact Ht].
  - split; [apply simc_refl|reflexivity].
  - apply (IH ar sf o); assumption.
  - destruct (IH ar sf o cs ov rs ro Hs Hns Ho Hno Ht Hn Fs Fo OK) as [G1 G2].
    split; [|exact G2]. eapply simc_trans; [|exact G1]. apply flattened_simc.
    rewrite (noshift_simc _ _ G1). exact G2.
  - destruct (IH ar sf o cs ov rs ro Hs Hns Ho Hno Ht Hn Fs Fo OK) as [G1 G2].
    split; [|apply noshift_rep; exact G2].
    eapply simc_trans; [apply stim_mul_simc; exact Hn|]. apply simc_rep. exact G1.
  - apply andb_true_iff in OK as [F OK].
    destruct (IH ar sf o cs ov rs ro Hs Hns Ho Hno Ht Hn Fs Fo OK) as [G1 G2].
    pose proof (flat_exp_sound e0 ar sf o cs ov Fs Fo F) as Ff.
    split; [apply simc_refl|]. unfold stim_slice. apply noshift_select; [exact Ff|].
    rewrite (noshift_simc _ _ G1). exact G2.
  - apply andb_true_iff in OK as [F OK].
    destruct (IH ar sf o cs ov rs ro Hs Hns Ho Hno Ht Hn Fs Fo OK) as [G1 G2].
    pose proof (flat_exp_sound e0 ar sf o cs ov Fs Fo F) as Ff.
    split; [|apply noshift_ref_without_noise; exact G2].
    unfold sim. rewrite (is_flat_embed_flatten0 _ Ff) at 1. rewrite stim_without_noise_flat.
    rewrite flatten0_ref_without_noise. apply fuse_wnl_congr. exact G1.
  - apply andb_true_iff in OK as [F OK].
    destruct (IH ar sf o cs ov rs ro Hs Hns Ho Hno Ht Hn Fs Fo OK) as [G1 G2].
    pose proof (flat_exp_sound e0 ar sf o cs ov Fs Fo F) as Ff.
    split; [|apply noshift_ref_drop; exact G2].
    unfold sim. rewrite (is_flat_embed_flatten0 _ Ff) at 1. rewrite stim_filtered_flat.
    rewrite flatten0_ref_drop. apply fuse_keepl_congr. exact G1.
Qed.

Lemma rstmt_sound : forall s ar sf fo cs co rs rco,
  SR cs co rs rco -> FA sf cs -> FO fo co -> noshift (a_text ar) = true -> (0 <= a_n ar)%Z ->
  rstmt_ok s sf fo = true ->
  SR (fst (vstmt s ar cs co)) (snd (vstmt s ar cs co)) (fst (rstmt s ar cs co rs rco)) (snd (rstmt s ar cs co rs rco)).
Proof.
  intros s ar sf fo cs co rs rco R Fs Ff Ht Hn OK.
  destruct (SR_other _ _ _ _ R) as [Ro Rno]. pose proof (FA_fother _ _ _ _ Fs Ff) as Fo.
  destruct R as (Rs & Rns & Rc).
  destruct s as [e|e| | |]; cbn [vstmt rstmt rstmt_ok fst snd] in *.
  - destruct (rexp_sound e ar sf _ cs _ rs _ Rs Rns Ro Rno Ht Hn Fs Fo OK) as [G1 G2].
    unfold SR. repeat split; assumption.
  - apply andb_true_iff in OK as [A OK]. rewrite (FO_aliased e fo co Ff) in A. apply negb_true_iff in A. rewrite A.
    destruct (rexp_sound e ar sf _ cs _ rs _ Rs Rns Ro Rno Ht Hn Fs Fo OK) as [G1 G2].
    unfold SR. split; [|split; [|exact Rc]].
    + eapply simc_trans; [apply stim_iadd_simc|]. apply simc_app; assumption.
    + rewrite noshift_app, Rns, G2. reflexivity.
  - unfold SR. split; [|split; [|exact Rc]].
    + eapply simc_trans; [apply stim_mul_simc; exact Hn|]. apply simc_rep. exact Rs.
    + apply noshift_rep. exact Rns.
  - unfold SR. split; [|split; [|exact Rc]].
    + eapply simc_trans; [apply stim_iadd_simc|]. apply simc_app; [exact Rs|apply simc_refl].
    + rewrite noshift_app, Rns, Ht. reflexivity.
  - unfold SR. split; [apply simc_refl|split; [|exact Rc]].
    apply noshift_pop_at; [exact (Fs OK)|]. rewrite (noshift_simc _ _ Rs). exact Rns.
Qed.

Lemma rstmts_sound : forall l ar sf fo cs co rs rco,
  SR cs co rs rco -> FA sf cs -> FO fo co -> noshift (a_text ar) = true -> (0 <= a_n ar)%Z ->
  rstmts_ok l sf fo = true ->
  SR (fst (vstmts l ar cs co)) (snd (vstmts l ar cs co)) (fst (rstmts l ar cs co rs rco)) (snd (rstmts l ar cs co rs rco)).
Proof.
  induction l as [|s l IH]; intros ar sf fo cs co rs rco R Fs Ff Ht Hn OK; [exact R|].
  cbn [rstmts_ok] in OK. apply andb_true_iff in OK as [OK1 OK2].
  pose proof (rstmt_sound s ar sf fo cs co rs rco R Fs Ff Ht Hn OK1) as R1.
  destruct (flat_stmt_sound s ar sf fo cs co Fs Ff) as [F1 F2].
  cbn [vstmts rstmts]. destruct (flat_stmt s sf fo) as [sf1 fo1]. destruct (vstmt s ar cs co) as [cs1 co1].
  destruct (rstmt s ar cs co rs rco) as [rs1 rco1]. cbn [fst snd] in *.
  apply (IH ar sf1 fo1); assumption.
Qed.

Lemma rmethod_sound : forall m ar fo cs co rs rco,
  SR cs co rs rco -> is_flat cs = true -> FO fo co -> noshift (a_text ar) = true -> (0 <= a_n ar)%Z ->
  rmethod_ok m fo = true ->
  sim (fst (vmethod m ar cs co)) (fst (rmethod m ar cs co rs rco)) /\
  noshift (fst (rmethod m ar cs co rs rco)) = true /\
  match vout m ar cs co, snd (rmethod m ar cs co rs rco) with
  | VNone, None => True
  | VNewT c, Some (true, r) | VNewS c, Some (false, r) => sim c r /\ noshift r = true
  | _, _ => False
  end.
Proof.
  intros m ar fo cs co rs rco R Hc Ff Ht Hn OK. unfold rmethod_ok in OK. apply andb_true_iff in OK as [OK1 OK2].
  pose proof (rstmts_sound (pre m) ar true fo cs co rs rco R (fun _ => Hc) Ff Ht Hn OK1) as R1.
  destruct (flat_stmts_sound (pre m) ar true fo cs co (fun _ => Hc) Ff) as [F1 F2].
  unfold vout, vmethod, rmethod.
  destruct (flat_stmts (pre m) true fo) as [sf1 fo1]. destruct (vstmts (pre m) ar cs co) as [cs1 co1].
  destruct (rstmts (pre m) ar cs co rs rco) as [rs1 rco1]. cbn [fst snd] in *.
  destruct (SR_other _ _ _ _ R1) as [Ro Rno]. pose proof (FA_fother _ _ _ _ F1 F2) as Fo.
  destruct R1 as (Rs & Rns & Rc).
  destruct (ret m) as [| | |e|e]; cbn [fst snd]; try (repeat split; assumption).
  - apply andb_true_iff in OK2 as [OKe OKp].
    destruct (rexp_sound e ar sf1 _ cs1 _ rs1 _ Rs Rns Ro Rno Ht Hn F1 Fo OKe) as [G1 G2].
    split; [exact Rs|]. split; [exact Rns|].
    assert (R2 : SR (vexp e ar cs1 (vother cs1 co1)) (Some (vother cs1 co1))
                    (rexp e ar cs1 (vother cs1 co1) rs1 (vother rs1 rco1)) (Some (vother rs1 rco1))).
    { unfold SR. repeat split; assumption. }
    pose proof (rstmts_sound (post m) ar _ (Some (fother sf1 fo1)) _ _ _ _ R2
                  (flat_exp_sound e ar _ _ _ _ F1 Fo) Fo Ht Hn OKp) as (R3 & R3n & _).
    split; assumption.
  - destruct (rexp_sound e ar sf1 _ cs1 _ rs1 _ Rs Rns Ro Rno Ht Hn F1 Fo OK2) as [G1 G2].
    repeat split; assumption.
Qed.

(* ======================================================================================================= *)
(* Part 3: invariants over histories, for the regenerated effects                                         *)
(* ======================================================================================================= *)

(* every check below is a closed boolean computed on the effect summaries of the CURRENT source *)
Definition container_effects : list meffect :=
  [eff_init; eff_from_stim_program; eff_append_text; eff_from_file; eff_iadd_t; eff_iadd_s; eff_add_t; eff_add_s;
   eff_imul; eff_mul; eff_rmul; eff_getitem_int; eff_getitem_slice; eff_pop; eff_copy; eff_without_noise;
   eff_without_annotations; eff_stim_circuit].
Definition is_observer (m : meffect) : bool :=
  match pre m, ret m with [], (RNone | RValue) => true | _, _ => false end.

Definition checks_alias : bool :=
  forallb method_ok container_effects && forallb (fun p => is_observer (snd p)) observer_effects &&
  is_observer eff_getitem_int.
(* flatness: with no operand / the receiver itself as operand (None), a flat tsim operand (Some true),
   an arbitrary stim operand (Some false) *)
Definition checks_flat : bool :=
  forallb (fun m => flat_method m None)
    [eff_init; eff_append_text; eff_iadd_t; eff_add_t; eff_imul; eff_mul; eff_rmul; eff_getitem_slice; eff_pop;
     eff_copy; eff_without_noise; eff_without_annotations; eff_stim_circuit] &&
  forallb (fun m => flat_method m (Some true)) [eff_iadd_t; eff_add_t] &&
  forallb (fun m => flat_method m (Some false)) [eff_iadd_s; eff_add_s; eff_from_stim_program].
Definition checks_ref : bool :=
  forallb (fun m => rmethod_ok m None)
    [eff_init; eff_append_text; eff_iadd_t; eff_add_t; eff_imul; eff_mul; eff_rmul; eff_getitem_slice; eff_pop;
     eff_copy; eff_without_noise; eff_without_annotations; eff_stim_circuit] &&
  forallb (fun m => rmethod_ok m (Some true)) [eff_iadd_t; eff_add_t] &&
  forallb (fun m => rmethod_ok m (Some false)) [eff_iadd_s; eff_add_s; eff_from_stim_program].

Lemma checks_alias_true : checks_alias = true. Proof. vm_compute. reflexivity. Qed.
Lemma checks_flat_true : checks_flat = true. Proof. vm_compute. reflexivity. Qed.
Lemma checks_ref_true : checks_ref = true. Proof. vm_compute. reflexivity. Qed.

Ltac from_checks L :=
  let H := fresh in pose proof L as H; unfold checks_alias, checks_flat, checks_ref, container_effects in H;
  cbn [forallb] in H; repeat (apply andb_true_iff in H; let H' := fresh in destruct H as [H H']);
  repeat match goal with X : _ && _ = true |- _ => apply andb_true_iff in X; let X' := fresh in destruct X as [X X'] end;
  try assumption.

Lemma observer_is_identity : forall m ar v oth s, is_observer m = true -> call m ar v oth s = s.
Proof.
  intros m ar v oth s H. unfold call. destruct (nth_error (tv s) v) as [a|] eqn:E; [|reflexivity].
  unfold is_observer in H. unfold run_method. destruct (pre m); [|discriminate]. cbn [exec_stmts].
  destruct (ret m); try discriminate; rewrite (set_nth_same _ _ _ E); destruct s; reflexivity.
Qed.

(* ---- invariant 1: well-formed heap (no aliasing), every wrapped circuit REPEAT-free ------------- *)
Definition AllFlat (s : st) : Prop := forall v, v < List.length (tv s) -> is_flat (tval s v) = true.
Definition Inv1 (s : st) : Prop := WF s /\ AllFlat s.

Lemma call_Inv1 : forall m ar v oth s,
  Inv1 s -> method_ok m = true ->
  match oth with Some b => In b (allv s) | None => True end ->
  (forall a, nth_error (tv s) v = Some a -> exists fo, FO fo (operand_val s a oth) /\ flat_method m fo = true) ->
  Inv1 (call m ar v oth s).
Proof.
  intros m ar v oth s [W AF] OK Hoth Hfo.
  destruct (nth_error (tv s) v) as [a|] eqn:E; [|unfold call; rewrite E; split; assumption].
  destruct (Hfo a eq_refl) as (fo & Ffo & FM).
  assert (Lv : v < List.length (tv s)) by (apply nth_error_Some; congruence).
  destruct (call_spec m ar v oth s a W E OK Hoth) as (W' & Hv & Hothers & _ & Hout).
  assert (Hc : is_flat (hread (heap_of s) a) = true) by (rewrite <- (tval_nth _ _ _ E); apply AF; exact Lv).
  destruct (flat_method_sound m ar fo _ _ Hc Ffo FM) as [G1 G2].
  split; [exact W'|]. intros v' Lv'.
  destruct (Nat.eq_dec v' v) as [->|Hne]; [rewrite Hv; exact G1|].
  destruct (vout m ar (hread (heap_of s) a) (operand_val s a oth)) as [|c|c].
  - destruct Hout as [L1 _]. rewrite Hothers by lia. apply AF. lia.
  - destruct Hout as (L1 & _ & Hnew). destruct (Nat.eq_dec v' (List.length (tv s))) as [->|Hne2]; [rewrite Hnew; exact G2|].
    rewrite Hothers by lia. apply AF. lia.
  - destruct Hout as [L1 _]. rewrite Hothers by lia. apply AF. lia.
Qed.

Lemma operand_addr_In : forall x s b, operand_addr x s = Some b -> In b (allv s).
Proof. intros [w|w] s b H; cbn in H; apply nth_error_In in H; unfold allv; apply in_or_app; auto. Qed.

Lemma FO_operand_T : forall s v w a b, Inv1 s -> nth_error (tv s) v = Some a -> nth_error (tv s) w = Some b ->
  FO (if Nat.eqb b a then None else Some true) (operand_val s a (Some b)).
Proof.
  intros s v w a b [W AF] Ha Hb. unfold operand_val. destruct (Nat.eqb b a); cbn; [exact I|].
  intros _. rewrite <- (tval_nth _ _ _ Hb). apply AF. apply nth_error_Some. congruence.
Qed.

Lemma FO_operand_S : forall s v w a b, Inv1 s -> nth_error (tv s) v = Some a -> nth_error (sv s) w = Some b ->
  FO (Some false) (operand_val s a (Some b)).
Proof.
  intros s v w a b [W AF] Ha Hb. unfold operand_val.
  assert (a <> b) by (eapply WF_tv_sv_distinct; eauto).
  destruct (Nat.eqb b a) eqn:E; [apply Nat.eqb_eq in E; congruence|]. cbn. intro; discriminate.
Qed.

Lemma Inv1_new_handle : forall s, Inv1 s ->
  Inv1 (mkSt (heap_of s ++ [[]]) (tv s ++ [List.length (heap_of s)]) (sv s)).
Proof.
  intros s [[Wlt Wnd] AF]. split; [split|].
  - unfold allv. cbn [tv sv heap_of]. intros a Ha. rewrite app_length. cbn [List.length].
    rewrite <- app_assoc in Ha. apply in_app_or in Ha as [Ha|[<-|Ha]]; [|lia|].
    + assert (a < List.length (heap_of s)) by (apply Wlt; unfold allv; apply in_or_app; auto). lia.
    + assert (a < List.length (heap_of s)) by (apply Wlt; unfold allv; apply in_or_app; auto). lia.
  - unfold allv. cbn [tv sv]. rewrite <- app_assoc. cbn [app]. apply NoDup_insert; [exact Wnd|].
    intro Hin. specialize (Wlt _ Hin). lia.
  - intros v Lv. cbn [tv] in Lv. rewrite app_length in Lv. cbn [List.length] in Lv.
    unfold tval. cbn [tv heap_of]. destruct (Nat.eq_dec v (List.length (tv s))) as [->|Hne].
    + rewrite nth_error_app2 by lia. rewrite Nat.sub_diag. cbn [nth_error]. rewrite hread_alloc. reflexivity.
    + assert (Lv' : v < List.length (tv s)) by lia. rewrite nth_error_app1 by exact Lv'.
      destruct (nth_error (tv s) v) as [a|] eqn:E; [|reflexivity].
      assert (a < List.length (heap_of s)) by (apply Wlt; unfold allv; apply in_or_app; left; eapply nth_error_In; exact E).
      rewrite hread_app_l by assumption. rewrite <- (tval_nth _ _ _ E). apply AF. exact Lv'.
Qed.

Lemma static_call_spec : forall m ar b s,
  WF s -> In b (allv s) -> method_ok m = true ->
  let co := Some (hread (heap_of s) b) in
  let s' := static_call m ar b s in
  WF s' /\
  (forall v, v < List.length (tv s) -> tval s' v = tval s v) /\
  (forall w, w < List.length (sv s) -> sval s' w = sval s w) /\
  match vout m ar [] co with
  | VNone => List.length (tv s') = List.length (tv s) /\ List.length (sv s') = List.length (sv s)
  | VNewT c => List.length (tv s') = S (List.length (tv s)) /\ List.length (sv s') = List.length (sv s) /\
               tval s' (List.length (tv s)) = c
  | VNewS c => List.length (tv s') = List.length (tv s) /\ List.length (sv s') = S (List.length (sv s)) /\
               sval s' (List.length (sv s)) = c
  end.
Proof.
  intros m ar b s W Hb OK co s'.
  assert (Lb : b < List.length (heap_of s)) by (apply (proj1 W); exact Hb).
  set (h0 := heap_of s ++ [[]]). set (self := List.length (heap_of s)).
  assert (R : Rel h0 self b [] co).
  { unfold Rel, h0, self, co. rewrite app_length. cbn [List.length]. repeat split; try lia.
    - apply hread_alloc.
    - apply hread_app_l. exact Lb. }
  unfold s', static_call. fold h0 self.
  destruct (run_method m ar self b h0) as [[h' a'] out] eqn:E.
  destruct (run_method_spec _ _ _ _ _ _ _ _ _ _ E OK R) as ([L F] & Sa & La' & Hva' & Hout).
  assert (L0 : List.length h0 = S (List.length (heap_of s))) by (unfold h0; rewrite app_length; cbn [List.length]; lia).
  assert (OLD : forall x, In x (allv s) -> x < List.length h' /\ hread h' x = hread (heap_of s) x).
  { intros x Hx. pose proof (proj1 W x Hx) as Lx. split; [lia|].
    rewrite F; [unfold h0; apply hread_app_l; exact Lx|lia|unfold self; lia]. }
  assert (TV : forall tv'' sv'', (forall v, v < List.length (tv s) -> nth_error tv'' v = nth_error (tv s) v) ->
             forall v, v < List.length (tv s) -> tval (mkSt h' tv'' sv'') v = tval s v).
  { intros tv'' sv'' Hn v Lv. unfold tval. cbn [tv heap_of]. rewrite (Hn v Lv).
    destruct (nth_error (tv s) v) as [a|] eqn:Ea; [|reflexivity].
    apply OLD. unfold allv. apply in_or_app. left. eapply nth_error_In. exact Ea. }
  assert (SV : forall tv'' sv'', (forall w, w < List.length (sv s) -> nth_error sv'' w = nth_error (sv s) w) ->
             forall w, w < List.length (sv s) -> sval (mkSt h' tv'' sv'') w = sval s w).
  { intros tv'' sv'' Hn w Lw. unfold sval. cbn [sv heap_of]. rewrite (Hn w Lw).
    destruct (nth_error (sv s) w) as [a|] eqn:Ea; [|reflexivity].
    apply OLD. unfold allv. apply in_or_app. right. eapply nth_error_In. exact Ea. }
  destruct out as [|c|c]; destruct (vout m ar [] co) as [|v0|v0]; try contradiction.
  - split; [split|].
    + unfold allv. cbn [tv sv heap_of]. intros x Hx. apply OLD. exact Hx.
    + exact (proj2 W).
    + split; [apply TV; auto|]. split; [apply SV; auto|]. cbn [tv sv]. auto.
  - destruct Hout as (L1 & L2 & _ & Hvc). split; [split|].
    + unfold allv. cbn [tv sv heap_of]. intros x Hx. rewrite <- app_assoc in Hx. cbn [app] in Hx.
      apply in_app_or in Hx as [Hx|[<-|Hx]]; [apply OLD; unfold allv; apply in_or_app; auto|exact L2|apply OLD; unfold allv; apply in_or_app; auto].
    + unfold allv. cbn [tv sv]. rewrite <- app_assoc. cbn [app]. apply NoDup_insert; [exact (proj2 W)|].
      intro Hin. specialize (proj1 W _ Hin). lia.
    + split; [apply TV; intros; apply nth_error_app1; assumption|]. split; [apply SV; auto|].
      cbn [tv sv]. rewrite app_length. cbn [List.length]. split; [lia|]. split; [reflexivity|].
      unfold tval. cbn [tv heap_of]. rewrite nth_error_app2 by lia. rewrite Nat.sub_diag. exact Hvc.
  - destruct Hout as (L1 & L2 & _ & Hvc). split; [split|].
    + unfold allv. cbn [tv sv heap_of]. intros x Hx. rewrite app_assoc in Hx.
      apply in_app_or in Hx as [Hx|[<-|[]]]; [apply OLD; exact Hx|exact L2].
    + unfold allv. cbn [tv sv]. rewrite app_assoc. apply (NoDup_insert (tv s ++ sv s) [] c); rewrite ?app_nil_r; [exact (proj2 W)|].
      intro Hin. specialize (proj1 W _ Hin). lia.
    + split; [apply TV; auto|]. split; [apply SV; intros; apply nth_error_app1; assumption|].
      cbn [tv sv]. rewrite app_length. cbn [List.length]. split; [reflexivity|]. split; [lia|].
      unfold sval. cbn [sv heap_of]. rewrite nth_error_app2 by lia. rewrite Nat.sub_diag. exact Hvc.
Qed.

Lemma observer_nth : forall k nm m, nth_error observer_effects k = Some (nm, m) -> is_observer m = true.
Proof.
  intros k nm m H. assert (A : forallb (fun p => is_observer (snd p)) observer_effects = true) by from_checks checks_alias_true.
  rewrite forallb_forall in A. apply nth_error_In in H. exact (A _ H).
Qed.

Lemma Inv1_stim_new : forall s p, Inv1 s -> Inv1 (mkSt (heap_of s ++ [p]) (tv s) (sv s ++ [List.length (heap_of s)])).
Proof.
  intros s p [[Wlt Wnd] AF]. split; [split|].
  - unfold allv. cbn [tv sv heap_of]. intros a Ha. rewrite app_length. cbn [List.length]. rewrite app_assoc in Ha.
    apply in_app_or in Ha as [Ha|[<-|[]]]; [|lia]. specialize (Wlt _ Ha). lia.
  - unfold allv. cbn [tv sv]. rewrite app_assoc. apply (NoDup_insert (tv s ++ sv s) [] _); rewrite ?app_nil_r; [exact Wnd|].
    intro Hin. specialize (Wlt _ Hin). lia.
  - intros v Lv. cbn [tv] in Lv. unfold tval. cbn [tv heap_of]. destruct (nth_error (tv s) v) as [a|] eqn:E; [|reflexivity].
    assert (a < List.length (heap_of s)) by (apply Wlt; unfold allv; apply in_or_app; left; eapply nth_error_In; exact E).
    rewrite hread_app_l by assumption. rewrite <- (tval_nth _ _ _ E). apply AF. exact Lv.
Qed.

Lemma t_step_Inv1 : forall o s, Inv1 s -> Inv1 (t_step o s).
Proof.
  intros o s IV. pose proof IV as [W AF].
  assert (NOOP : forall m ar v, method_ok m = true -> flat_method m None = true -> Inv1 (call m ar v None s)).
  { intros m ar v OK FM. apply call_Inv1; [exact IV|exact OK|exact I|]. intros a _. exists None. split; [exact I|exact FM]. }
  destruct o as [p|w|v p|v x|v x|v n|v n|v n|v a b c|v i|v i|v|v|v|v|k v|p|w p]; cbn [t_step].
  - apply call_Inv1; [apply Inv1_new_handle; exact IV|from_checks checks_alias_true|exact I|].
    intros a _. exists None. split; [exact I|from_checks checks_flat_true].
  - destruct (nth_error (sv s) w) as [b|] eqn:E; [|exact IV].
    assert (Hb : In b (allv s)) by (unfold allv; apply in_or_app; right; eapply nth_error_In; exact E).
    assert (OK : method_ok eff_from_stim_program = true) by from_checks checks_alias_true.
    assert (FM : flat_method eff_from_stim_program (Some false) = true) by from_checks checks_flat_true.
    destruct (static_call_spec eff_from_stim_program no_args b s W Hb OK) as (W' & Ht & _ & Hout).
    split; [exact W'|]. intros v Lv.
    destruct (flat_method_sound eff_from_stim_program no_args (Some false) [] (Some (hread (heap_of s) b)) eq_refl) as [_ G2];
      [cbn; intro; discriminate|exact FM|].
    destruct (vout eff_from_stim_program no_args [] (Some (hread (heap_of s) b))) as [|c|c].
    + destruct Hout as [L1 _]. rewrite Ht by lia. apply AF. lia.
    + destruct Hout as (L1 & _ & Hnew). destruct (Nat.eq_dec v (List.length (tv s))) as [->|Hne]; [rewrite Hnew; exact G2|].
      rewrite Ht by lia. apply AF. lia.
    + destruct Hout as [L1 _]. rewrite Ht by lia. apply AF. lia.
  - apply NOOP; [from_checks checks_alias_true|from_checks checks_flat_true].
  - destruct (operand_addr x s) as [b|] eqn:E; [|exact IV]. pose proof (operand_addr_In _ _ _ E) as Hb.
    destruct x as [w|w]; cbn [operand_addr] in E.
    + apply call_Inv1; [exact IV|from_checks checks_alias_true|exact Hb|].
      intros a Ha. exists (if Nat.eqb b a then None else Some true). split; [eapply FO_operand_T; eauto|].
      destruct (Nat.eqb b a); from_checks checks_flat_true.
    + apply call_Inv1; [exact IV|from_checks checks_alias_true|exact Hb|].
      intros a Ha. exists (Some false). split; [eapply FO_operand_S; eauto|from_checks checks_flat_true].
  - destruct (operand_addr x s) as [b|] eqn:E; [|exact IV]. pose proof (operand_addr_In _ _ _ E) as Hb.
    destruct x as [w|w]; cbn [operand_addr] in E.
    + apply call_Inv1; [exact IV|from_checks checks_alias_true|exact Hb|].
      intros a Ha. exists (if Nat.eqb b a then None else Some true). split; [eapply FO_operand_T; eauto|].
      destruct (Nat.eqb b a); from_checks checks_flat_true.
    + apply call_Inv1; [exact IV|from_checks checks_alias_true|exact Hb|].
      intros a Ha. exists (Some false). split; [eapply FO_operand_S; eauto|from_checks checks_flat_true].
  - destruct (n <? 0)%Z; [exact IV|]. apply NOOP; [from_checks checks_alias_true|from_checks checks_flat_true].
  - destruct (n <? 0)%Z; [exact IV|]. apply NOOP; [from_checks checks_alias_true|from_checks checks_flat_true].
  - destruct (n <? 0)%Z; [exact IV|]. apply NOOP; [from_checks checks_alias_true|from_checks checks_flat_true].
  - destruct (c =? 0)%Z; [exact IV|]. apply NOOP; [from_checks checks_alias_true|from_checks checks_flat_true].
  - destruct (norm_index i (tlen s v)); [|exact IV]. rewrite observer_is_identity; [exact IV|from_checks checks_alias_true].
  - destruct (norm_index i (tlen s v)); [|exact IV]. apply NOOP; [from_checks checks_alias_true|from_checks checks_flat_true].
  - apply NOOP; [from_checks checks_alias_true|from_checks checks_flat_true].
  - apply NOOP; [from_checks checks_alias_true|from_checks checks_flat_true].
  - apply NOOP; [from_checks checks_alias_true|from_checks checks_flat_true].
  - apply NOOP; [from_checks checks_alias_true|from_checks checks_flat_true].
  - destruct (nth_error observer_effects k) as [[nm m]|] eqn:E; [|exact IV].
    rewrite observer_is_identity; [exact IV|]. eapply observer_nth. exact E.
  - unfold halloc. apply Inv1_stim_new. exact IV.
  - destruct (nth_error (sv s) w) as [b|] eqn:E; [|exact IV].
    assert (Lb : b < List.length (heap_of s)) by (apply (proj1 W); unfold allv; apply in_or_app; right; eapply nth_error_In; exact E).
    split; [split|].
    + unfold allv. cbn [tv sv heap_of]. rewrite hwrite_length. exact (proj1 W).
    + exact (proj2 W).
    + intros v Lv. cbn [tv] in Lv. unfold tval. cbn [tv heap_of]. destruct (nth_error (tv s) v) as [a|] eqn:Ea; [|reflexivity].
      rewrite hread_hwrite_other by (intro; subst; eapply WF_tv_sv_distinct; eauto).
      rewrite <- (tval_nth _ _ _ Ea). apply AF. exact Lv.
Qed.

Lemma Inv1_st0 : Inv1 st0.
Proof. split; [split|]; cbn; try tauto; try constructor. intros v H. inversion H. Qed.

Lemma fold_left_inv : forall {A B} (P : A -> Prop) (f : A -> B -> A) l a,
  P a -> (forall a b, P a -> P (f a b)) -> P (fold_left f l a).
Proof. intros A B P f l. induction l as [|b l IH]; intros a Ha Hf; [exact Ha|]. cbn. apply IH; auto. Qed.

Lemma t_run_Inv1 : forall h, Inv1 (t_run h).
Proof. intro h. unfold t_run. apply fold_left_inv; [exact Inv1_st0|]. intros s o H. apply t_step_Inv1. exact H. Qed.

(* ---- invariant 2: the heap refines the reference run (SHIFT_COORDS-free inputs) ------------------ *)
Definition NS (r : rst) : Prop :=
  Forall (fun c => noshift c = true) (rt r) /\ Forall (fun c => noshift c = true) (rs r).
Definition J (s : st) (r : rst) : Prop := Inv1 s /\ refines s r /\ NS r.

Lemma Forall_set_nth : forall {A} (P : A -> Prop) l k x, Forall P l -> P x -> Forall P (set_nth l k x).
Proof.
  intros A P l. induction l as [|y l IH]; intros [|k] x H Hx; cbn [set_nth]; try assumption.
  - inversion H; subst. constructor; assumption.
  - inversion H; subst. constructor; [assumption|]. apply IH; assumption.
Qed.

Lemma Forall_nth_default : forall {A} (P : A -> Prop) l k d, Forall P l -> P d -> P (nth k l d).
Proof.
  intros A P l. induction l as [|y l IH]; intros [|k] d H Hd; cbn [nth]; try assumption; inversion H; subst; [assumption|].
  apply IH; assumption.
Qed.

Lemma noshift_nil : noshift [] = true. Proof. reflexivity. Qed.

Definition operand_ref (x : option operand) (v : nat) (s : st) (r : rst) : option circ * option circ :=
  match x with
  | None => (None, None)
  | Some (OpT w) => if Nat.eqb w v then (None, None) else (Some (tval s w), Some (nth w (rt r) []))
  | Some (OpS w) => (Some (sval s w), Some (nth w (rs r) []))
  end.
Definition r_apply (r : rst) (v : nat) (res : circ * option (bool * circ)) : rst :=
  let r1 := rset_t r v (fst res) in
  match snd res with
  | None => r1
  | Some (true, c) => radd_t r1 c
  | Some (false, c) => mkR (rt r1) (rs r1 ++ [c])
  end.
Definition r_call (m : meffect) (ar : args) (v : nat) (x : option operand) (s : st) (r : rst) : rst :=
  let '(co, rco) := operand_ref x v s r in
  r_apply r v (rmethod m ar (tval s v) co (nth v (rt r) []) rco).

Definition operand_fo (x : option operand) (v : nat) : option bool :=
  match x with
  | None => None
  | Some (OpT w) => if Nat.eqb w v then None else Some true
  | Some (OpS _) => Some false
  end.

Lemma refines_apply : forall s s' r v res cs' vo,
  refines s r -> NS r -> v < List.length (tv s) ->
  AllFlat s' ->
  tval s' v = cs' ->
  (forall v', v' <> v -> v' < List.length (tv s) -> tval s' v' = tval s v') ->
  (forall w, w < List.length (sv s) -> sval s' w = sval s w) ->
  match vo with
  | VNone => List.length (tv s') = List.length (tv s) /\ List.length (sv s') = List.length (sv s)
  | VNewT c => List.length (tv s') = S (List.length (tv s)) /\ List.length (sv s') = List.length (sv s) /\
               tval s' (List.length (tv s)) = c
  | VNewS c => List.length (tv s') = List.length (tv s) /\ List.length (sv s') = S (List.length (sv s)) /\
               sval s' (List.length (sv s)) = c
  end ->
  sim cs' (fst res) -> noshift (fst res) = true ->
  match vo, snd res with
  | VNone, None => True
  | VNewT c, Some (true, rc) | VNewS c, Some (false, rc) => sim c rc /\ noshift rc = true
  | _, _ => False
  end ->
  refines s' (r_apply r v res) /\ NS (r_apply r v res).
Proof.
  intros s s' r v [rs' out] cs' vo (RL1 & RL2 & RT & RS) [NS1 NS2] Lv AF' Hv Hothers Hsv Hlen Hsim Hns Hout.
  cbn [fst snd] in *. unfold r_apply. cbn [fst snd].
  assert (Lr : v < List.length (rt r)) by lia.
  assert (SAME : forall v', v' < List.length (tv s) -> sim (tval s' v') (nth v' (set_nth (rt r) v rs') [])).
  { intros v' Lv'. destruct (Nat.eq_dec v' v) as [->|Hne].
    - rewrite nth_set_nth_same by exact Lr. rewrite Hv. exact Hsim.
    - rewrite nth_set_nth_other by exact Hne. rewrite Hothers by assumption. apply RT. exact Lv'. }
  assert (SAMES : forall w, w < List.length (sv s) -> sim (sval s' w) (nth w (rs r) [])).
  { intros w Lw. rewrite Hsv by exact Lw. apply RS. exact Lw. }
  assert (NSset : Forall (fun c => noshift c = true) (set_nth (rt r) v rs')) by (apply Forall_set_nth; assumption).
  destruct vo as [|c|c]; destruct out as [[[|] rc]|]; try contradiction.
  - split; [|split; assumption]. unfold refines. cbn [rset_t rt rs]. rewrite set_nth_length.
    destruct Hlen as [L1 L2]. repeat split; try lia.
    + apply AF'. assumption.
    + apply SAME. lia.
    + intros w Lw. apply SAMES. lia.
  - destruct Hlen as (L1 & L2 & Hnew). destruct Hout as [Hs1 Hs2].
    split.
    + unfold refines. cbn [radd_t rset_t rt rs]. rewrite app_length, set_nth_length. cbn [List.length].
      repeat split; try lia.
      * apply AF'. assumption.
      * destruct (Nat.eq_dec v0 (List.length (tv s))) as [->|Hne].
        -- rewrite app_nth2 by (rewrite set_nth_length; lia). rewrite set_nth_length.
           replace (List.length (tv s) - List.length (rt r)) with 0 by lia. cbn [nth]. rewrite Hnew. exact Hs1.
        -- rewrite app_nth1 by (rewrite set_nth_length; lia). apply SAME. lia.
      * intros w Lw. apply SAMES. lia.
    + split; cbn [radd_t rset_t rt rs]; [|exact NS2]. apply Forall_app. split; [exact NSset|]. constructor; [exact Hs2|constructor].
  - destruct Hlen as (L1 & L2 & Hnew). destruct Hout as [Hs1 Hs2].
    split.
    + unfold refines. cbn [rset_t rt rs]. rewrite app_length, set_nth_length. cbn [List.length].
      repeat split; try lia.
      * apply AF'. assumption.
      * apply SAME. lia.
      * intros w Lw. destruct (Nat.eq_dec w (List.length (sv s))) as [->|Hne].
        -- rewrite app_nth2 by lia. replace (List.length (sv s) - List.length (rs r)) with 0 by lia. cbn [nth]. rewrite Hnew. exact Hs1.
        -- rewrite app_nth1 by lia. apply SAMES. lia.
    + split; cbn [rset_t rt rs]; [exact NSset|]. apply Forall_app. split; [exact NS2|]. constructor; [exact Hs2|constructor].
Qed.

Lemma call_refines : forall m ar v x s r,
  J s r -> v < List.length (tv s) ->
  match x with Some (OpT w) => w < List.length (tv s) | Some (OpS w) => w < List.length (sv s) | None => True end ->
  method_ok m = true -> flat_method m (operand_fo x v) = true -> rmethod_ok m (operand_fo x v) = true ->
  noshift (a_text ar) = true -> (0 <= a_n ar)%Z ->
  J (call m ar v (match x with Some o => operand_addr o s | None => None end) s) (r_call m ar v x s r).
Proof.
  intros m ar v x s r (IV & RF & NSr) Lv Hx OK FM RM Ht Hn. pose proof IV as [W AF].
  destruct (nth_error (tv s) v) as [a|] eqn:Ea; [|apply nth_error_None in Ea; lia].
  set (oth := match x with Some o => operand_addr o s | None => None end).
  assert (Hoth : match oth with Some b => In b (allv s) | None => True end).
  { unfold oth. destruct x as [o|]; [|exact I]. destruct (operand_addr o s) eqn:E; [|exact I]. eapply operand_addr_In. exact E. }
  pose proof RF as (RL1 & RL2 & RT & RS). pose proof NSr as [NS1 NS2].
  assert (OV : operand_val s a oth = fst (operand_ref x v s r) /\
               SR (tval s v) (fst (operand_ref x v s r)) (nth v (rt r) []) (snd (operand_ref x v s r)) /\
               FO (operand_fo x v) (fst (operand_ref x v s r))).
  { assert (B : sim (tval s v) (nth v (rt r) []) /\ noshift (nth v (rt r) []) = true).
    { split; [apply RT; exact Lv|]. apply Forall_nth_default; [exact NS1|reflexivity]. }
    unfold oth, operand_ref, operand_fo. destruct x as [[w|w]|]; cbn [operand_addr operand_val fst snd].
    - destruct (nth_error (tv s) w) as [b|] eqn:Eb; [|apply nth_error_None in Eb; lia].
      assert (EQ : Nat.eqb b a = Nat.eqb w v).
      { destruct (Nat.eqb w v) eqn:E.
        - apply Nat.eqb_eq in E. subst w. apply Nat.eqb_eq. congruence.
        - apply Nat.eqb_neq in E. apply Nat.eqb_neq. intro. subst b. eapply (WF_tv_distinct s w v); eauto. }
      unfold operand_val. rewrite EQ. destruct (Nat.eqb w v); cbn [fst snd].
      + split; [reflexivity|]. split; [|exact I]. unfold SR. tauto.
      + rewrite <- (tval_nth _ _ _ Eb). split; [reflexivity|]. split.
        * unfold SR. repeat split; try tauto. { apply RT. exact Hx. } apply Forall_nth_default; [exact NS1|reflexivity].
        * cbn. intros _. apply AF. exact Hx.
    - destruct (nth_error (sv s) w) as [b|] eqn:Eb; [|apply nth_error_None in Eb; lia].
      assert (a <> b) by (eapply WF_tv_sv_distinct; eauto).
      unfold operand_val. destruct (Nat.eqb b a) eqn:E; [apply Nat.eqb_eq in E; congruence|].
      rewrite <- (sval_nth _ _ _ Eb). split; [reflexivity|]. split.
      + unfold SR. repeat split; try tauto. { apply RS. exact Hx. } apply Forall_nth_default; [exact NS2|reflexivity].
      + cbn. intro; discriminate.
    - split; [reflexivity|]. split; [|exact I]. unfold SR. tauto. }
  destruct OV as (OV1 & OV2 & OV3).
  assert (IV' : Inv1 (call m ar v oth s)).
  { apply call_Inv1; [exact IV|exact OK|exact Hoth|]. intros a0 Ha0. rewrite Ea in Ha0. injection Ha0 as <-.
    exists (operand_fo x v). rewrite OV1. split; assumption. }
  destruct (call_spec m ar v oth s a W Ea OK Hoth) as (_ & Hv & Hothers & Hsv & Hout).
  rewrite OV1, <- (tval_nth _ _ _ Ea) in Hv, Hout.
  assert (Hc : is_flat (tval s v) = true) by (apply AF; exact Lv).
  destruct (rmethod_sound m ar (operand_fo x v) _ _ _ _ OV2 Hc OV3 Ht Hn RM) as (G1 & G2 & G3).
  unfold r_call. destruct (operand_ref x v s r) as [co rco]. cbn [fst snd] in *.
  destruct (refines_apply s (call m ar v oth s) r v (rmethod m ar (tval s v) co (nth v (rt r) []) rco)
              (fst (vmethod m ar (tval s v) co)) (vout m ar (tval s v) co) RF NSr Lv (proj2 IV') Hv Hothers Hsv Hout G1 G2 G3) as [R1 R2].
  split; [exact IV'|]. split; assumption.
Qed.

(* ---- one step of the refinement ------------------------------------------------------------------------ *)
Lemma rset_t_same : forall r v, v < List.length (rt r) -> rset_t r v (nth v (rt r) []) = r.
Proof.
  intros [l1 l2] v H. unfold rset_t. cbn [rt rs] in *. rewrite set_nth_same; [reflexivity|]. apply nth_error_nth'. exact H.
Qed.

Lemma call_none : forall m ar v oth s, nth_error (tv s) v = None -> call m ar v oth s = s.
Proof. intros. unfold call. rewrite H. reflexivity. Qed.

Lemma set_nth_app_last : forall {A} (l : list A) x y, set_nth (l ++ [x]) (List.length l) y = l ++ [y].
Proof. induction l as [|z l IH]; intros x y; [reflexivity|]. cbn [app List.length set_nth]. rewrite IH. reflexivity. Qed.

Ltac rcompute :=
  unfold r_call, operand_ref, r_apply, rmethod;
  cbn [eff_init eff_from_stim_program eff_append_text eff_iadd_t eff_iadd_s eff_add_t eff_add_s eff_imul eff_mul eff_rmul
       eff_getitem_int eff_getitem_slice eff_pop eff_copy eff_without_noise eff_without_annotations eff_stim_circuit
       pre ret post vstmts rstmts vstmt rstmt vexp rexp vother fst snd reads_self
       with_text with_n with_slice with_idx no_args a_text a_n a_start a_stop a_step a_idx].

Lemma nth_error_rs : forall (r : rst) w, w < List.length (rs r) -> nth_error (rs r) w = Some (nth w (rs r) []).
Proof. intros. apply nth_error_nth'. assumption. Qed.
Lemma nth_error_rt : forall (r : rst) w, w < List.length (rt r) -> nth_error (rt r) w = Some (nth w (rt r) []).
Proof. intros. apply nth_error_nth'. assumption. Qed.

Lemma step_J_receiver : forall (s : st) (r : rst) v, J s r ->
  (v < List.length (tv s) /\ nth_error (rt r) v = Some (nth v (rt r) []) /\ v < List.length (rt r)) \/
  (nth_error (tv s) v = None /\ nth_error (rt r) v = None).
Proof.
  intros s r v (_ & (L1 & _) & _). destruct (Nat.lt_ge_cases v (List.length (tv s))) as [H|H].
  - left. split; [exact H|]. split; [apply nth_error_nth'; lia|lia].
  - right. split; apply nth_error_None; lia.
Qed.

(* a method without receiver *)
Definition r_static (m : meffect) (ar : args) (w : nat) (s : st) (r : rst) : rst :=
  match snd (rmethod m ar [] (Some (sval s w)) [] (Some (nth w (rs r) []))) with
  | None => r
  | Some (true, c) => radd_t r c
  | Some (false, c) => mkR (rt r) (rs r ++ [c])
  end.

Lemma static_refines : forall m ar w b s r,
  J s r -> nth_error (sv s) w = Some b ->
  method_ok m = true -> flat_method m (Some false) = true -> rmethod_ok m (Some false) = true ->
  noshift (a_text ar) = true -> (0 <= a_n ar)%Z ->
  J (static_call m ar b s) (r_static m ar w s r).
Proof.
  intros m ar w b s r (IV & RF & NSr) Eb OK FM RM Ht Hn. pose proof IV as [W AF].
  pose proof RF as (RL1 & RL2 & RT & RS). pose proof NSr as [NS1 NS2].
  assert (Lw : w < List.length (sv s)) by (apply nth_error_Some; congruence).
  assert (Hb : In b (allv s)) by (unfold allv; apply in_or_app; right; eapply nth_error_In; exact Eb).
  destruct (static_call_spec m ar b s W Hb OK) as (W' & Ht' & Hs' & Hout).
  rewrite <- (sval_nth _ _ _ Eb) in Hout.
  assert (R0 : SR [] (Some (sval s w)) [] (Some (nth w (rs r) []))).
  { unfold SR. repeat split; try reflexivity; [apply RS; exact Lw|]. apply Forall_nth_default; [exact NS2|reflexivity]. }
  assert (F0 : FO (Some false) (Some (sval s w))) by (cbn; intro; discriminate).
  destruct (flat_method_sound m ar (Some false) [] (Some (sval s w)) eq_refl F0 FM) as [_ G2].
  destruct (rmethod_sound m ar (Some false) _ _ _ _ R0 eq_refl F0 Ht Hn RM) as (_ & _ & G3).
  unfold r_static.
  set (s' := static_call m ar b s) in *.
  assert (OLDT : forall v, v < List.length (tv s) -> is_flat (tval s' v) = true /\ sim (tval s' v) (nth v (rt r) [])).
  { intros v Lv. rewrite Ht' by exact Lv. split; [apply AF; exact Lv|apply RT; exact Lv]. }
  assert (OLDS : forall w0, w0 < List.length (sv s) -> sim (sval s' w0) (nth w0 (rs r) [])).
  { intros w0 L0. rewrite Hs' by exact L0. apply RS. exact L0. }
  destruct (vout m ar [] (Some (sval s w))) as [|c|c];
    destruct (snd (rmethod m ar [] (Some (sval s w)) [] (Some (nth w (rs r) [])))) as [[[|] rc]|]; try contradiction.
  - destruct Hout as [L1 L2]. split; [split; [exact W'|intros v Lv; apply OLDT; lia]|].
    split; [|exact NSr]. unfold refines. repeat split; try lia.
    + apply OLDT. lia. + apply OLDT. lia. + intros w0 L0. apply OLDS. lia.
  - destruct Hout as (L1 & L2 & Hnew). destruct G3 as [Hs1 Hs2].
    assert (AF' : AllFlat s').
    { intros v Lv. destruct (Nat.eq_dec v (List.length (tv s))) as [->|Hne]; [rewrite Hnew; exact G2|]. apply OLDT. lia. }
    split; [split; [exact W'|exact AF']|]. split.
    + unfold refines. cbn [radd_t rt rs]. rewrite app_length. cbn [List.length]. repeat split; try lia.
      * apply AF'. assumption.
      * destruct (Nat.eq_dec v (List.length (tv s))) as [->|Hne].
        -- rewrite app_nth2 by lia. replace (List.length (tv s) - List.length (rt r)) with 0 by lia. cbn [nth]. rewrite Hnew. exact Hs1.
        -- rewrite app_nth1 by lia. apply OLDT. lia.
      * intros w0 L0. apply OLDS. lia.
    + split; cbn [radd_t rt rs]; [|exact NS2]. apply Forall_app. split; [exact NS1|]. constructor; [exact Hs2|constructor].
  - destruct Hout as (L1 & L2 & Hnew). destruct G3 as [Hs1 Hs2].
    split; [split; [exact W'|intros v Lv; apply OLDT; lia]|]. split.
    + unfold refines. cbn [rt rs]. rewrite app_length. cbn [List.length]. repeat split; try lia.
      * apply OLDT. lia.
      * apply OLDT. lia.
      * intros w0 L0. destruct (Nat.eq_dec w0 (List.length (sv s))) as [->|Hne].
        -- rewrite app_nth2 by lia. replace (List.length (sv s) - List.length (rs r)) with 0 by lia. cbn [nth]. rewrite Hnew. exact Hs1.
        -- rewrite app_nth1 by lia. apply OLDS. lia.
    + split; cbn [rt rs]; [exact NS1|]. apply Forall_app. split; [exact NS2|]. constructor; [exact Hs2|constructor].
Qed.

Lemma J_new_handle : forall s r, J s r ->
  J (mkSt (heap_of s ++ [[]]) (tv s ++ [List.length (heap_of s)]) (sv s)) (radd_t r []).
Proof.
  intros s r (IV & RF & NSr). pose proof IV as [W AF]. pose proof RF as (RL1 & RL2 & RT & RS). destruct NSr as [NS1 NS2].
  pose proof (Inv1_new_handle s IV) as IV'. split; [exact IV'|]. split.
  - unfold refines. cbn [radd_t rt rs tv sv]. rewrite !app_length. cbn [List.length]. split; [lia|]. split; [lia|]. split.
    + intros v Lv. split; [apply (proj2 IV'); cbn [tv]; rewrite app_length; cbn [List.length]; lia|].
      unfold tval. cbn [tv heap_of]. destruct (Nat.eq_dec v (List.length (tv s))) as [->|Hne].
      * rewrite nth_error_app2 by lia. rewrite Nat.sub_diag. cbn [nth_error]. rewrite hread_alloc.
        rewrite app_nth2 by lia. replace (List.length (tv s) - List.length (rt r)) with 0 by lia. apply simc_refl.
      * assert (Lv' : v < List.length (tv s)) by lia. rewrite nth_error_app1 by exact Lv'. rewrite app_nth1 by lia.
        specialize (RT v Lv'). unfold tval in RT. destruct (nth_error (tv s) v) as [a|] eqn:E; [|exact (proj2 RT)].
        assert (a < List.length (heap_of s)) by (apply (proj1 W); unfold allv; apply in_or_app; left; eapply nth_error_In; exact E).
        rewrite hread_app_l by assumption. exact (proj2 RT).
    + intros w Lw. specialize (RS w Lw). unfold sval in *. cbn [sv heap_of]. destruct (nth_error (sv s) w) as [a|] eqn:E; [|exact RS].
      assert (a < List.length (heap_of s)) by (apply (proj1 W); unfold allv; apply in_or_app; right; eapply nth_error_In; exact E).
      rewrite hread_app_l by assumption. exact RS.
  - split; cbn [radd_t rt rs]; [|exact NS2]. apply Forall_app. split; [exact NS1|]. constructor; [reflexivity|constructor].
Qed.

Lemma step_J : forall o s r, J s r -> noshift_op o = true -> exists r', ref_step o r r' /\ J (t_step o s) r'.
Proof.
  intros o s r HJ NSo. pose proof HJ as (IV & RF & NSr). pose proof IV as [W AF].
  pose proof RF as (RL1 & RL2 & RT & RS). pose proof NSr as [NS1 NS2].
  assert (CHK_A := checks_alias_true). assert (CHK_F := checks_flat_true). assert (CHK_R := checks_ref_true).
  destruct o as [p|w|v p|v x|v x|v n|v n|v n|v a b c|v i|v i|v|v|v|v|k v|p|w p]; cbn [t_step ref_step noshift_op] in *.
  - (* OText *)
    exists (radd_t r p). split; [reflexivity|].
    pose proof (J_new_handle s r HJ) as HJ0.
    set (s0 := mkSt (heap_of s ++ [[]]) (tv s ++ [List.length (heap_of s)]) (sv s)) in *.
    assert (L0 : List.length (tv s) < List.length (tv s0)) by (cbn [s0 tv]; rewrite app_length; cbn [List.length]; lia).
    pose proof (call_refines eff_init (with_text p) (List.length (tv s)) None s0 (radd_t r []) HJ0 L0 I) as H.
    replace (r_call eff_init (with_text p) (List.length (tv s)) None s0 (radd_t r [])) with (radd_t r p) in H.
    + apply H; [from_checks CHK_A|from_checks CHK_F|from_checks CHK_R|exact NSo|cbn; lia].
    + rcompute. unfold rset_t, radd_t. cbn [rt rs]. rewrite RL1, set_nth_app_last. reflexivity.
  - (* OFromStim *)
    destruct (nth_error (sv s) w) as [b|] eqn:E.
    + assert (Lw : w < List.length (rs r)) by (rewrite <- RL2; apply nth_error_Some; congruence).
      exists (r_static eff_from_stim_program no_args w s r). split.
      * rewrite (nth_error_rs r w Lw). unfold r_static, rmethod. rcompute. reflexivity.
      * apply static_refines; [exact HJ|exact E|from_checks CHK_A|from_checks CHK_F|from_checks CHK_R|reflexivity|cbn; lia].
    + assert (E2 : nth_error (rs r) w = None) by (apply nth_error_None; rewrite <- RL2; apply nth_error_None; exact E).
      exists r. rewrite E2. auto.
  - (* OAppendText *)
    destruct (step_J_receiver s r v HJ) as [(Lv & E & Lr)|[E1 E2]].
    + exists (r_call eff_append_text (with_text p) v None s r). split.
      * rewrite E. rcompute. reflexivity.
      * apply (call_refines eff_append_text (with_text p) v None s r HJ Lv I);
          [from_checks CHK_A|from_checks CHK_F|from_checks CHK_R|exact NSo|cbn; lia].
    + exists r. rewrite E2, call_none by exact E1. auto.
  - (* OAdd *)
    destruct (step_J_receiver s r v HJ) as [(Lv & E & Lr)|[E1 E2]].
    + destruct x as [w|w]; cbn [operand_addr rval].
      * destruct (nth_error (tv s) w) as [b|] eqn:Eb.
        -- assert (Lw : w < List.length (tv s)) by (apply nth_error_Some; congruence).
           exists (r_call eff_add_t no_args v (Some (OpT w)) s r). split.
           ++ rewrite E, (nth_error_rt r w (eq_ind _ (fun n => w < n) Lw _ RL1)). rcompute. destruct (Nat.eqb w v) eqn:Ewv; rcompute; rewrite rset_t_same by exact Lr; [|reflexivity].
              apply Nat.eqb_eq in Ewv. subst w. reflexivity.
           ++ pose proof (call_refines eff_add_t no_args v (Some (OpT w)) s r HJ Lv Lw) as H. cbn [operand_addr] in H. rewrite Eb in H.
              apply H; [from_checks CHK_A| | |reflexivity|cbn; lia]; unfold operand_fo; destruct (Nat.eqb w v); [from_checks CHK_F|from_checks CHK_F|from_checks CHK_R|from_checks CHK_R].
        -- assert (E3 : nth_error (rt r) w = None) by (apply nth_error_None; rewrite <- RL1; apply nth_error_None; exact Eb).
           exists r. rewrite E, E3. auto.
      * destruct (nth_error (sv s) w) as [b|] eqn:Eb.
        -- assert (Lw : w < List.length (sv s)) by (apply nth_error_Some; congruence).
           exists (r_call eff_add_s no_args v (Some (OpS w)) s r). split.
           ++ rewrite E, (nth_error_rs r w (eq_ind _ (fun n => w < n) Lw _ RL2)). rcompute. rewrite rset_t_same by exact Lr. reflexivity.
           ++ pose proof (call_refines eff_add_s no_args v (Some (OpS w)) s r HJ Lv Lw) as H. cbn [operand_addr] in H. rewrite Eb in H.
              apply H; [from_checks CHK_A|from_checks CHK_F|from_checks CHK_R|reflexivity|cbn; lia].
        -- assert (E3 : nth_error (rs r) w = None) by (apply nth_error_None; rewrite <- RL2; apply nth_error_None; exact Eb).
           exists r. rewrite E, E3. auto.
    + exists r. rewrite E2. split; [reflexivity|]. destruct (operand_addr x s); [rewrite call_none by exact E1|]; exact HJ.
  - (* OIAdd *)
    destruct (step_J_receiver s r v HJ) as [(Lv & E & Lr)|[E1 E2]].
    + destruct x as [w|w]; cbn [operand_addr rval].
      * destruct (nth_error (tv s) w) as [b|] eqn:Eb.
        -- assert (Lw : w < List.length (tv s)) by (apply nth_error_Some; congruence).
           exists (r_call eff_iadd_t no_args v (Some (OpT w)) s r). split.
           ++ rewrite E, (nth_error_rt r w (eq_ind _ (fun n => w < n) Lw _ RL1)). rcompute. destruct (Nat.eqb w v) eqn:Ewv; rcompute; [|reflexivity].
              apply Nat.eqb_eq in Ewv. subst w. reflexivity.
           ++ pose proof (call_refines eff_iadd_t no_args v (Some (OpT w)) s r HJ Lv Lw) as H. cbn [operand_addr] in H. rewrite Eb in H.
              apply H; [from_checks CHK_A| | |reflexivity|cbn; lia]; unfold operand_fo; destruct (Nat.eqb w v); [from_checks CHK_F|from_checks CHK_F|from_checks CHK_R|from_checks CHK_R].
        -- assert (E3 : nth_error (rt r) w = None) by (apply nth_error_None; rewrite <- RL1; apply nth_error_None; exact Eb).
           exists r. rewrite E, E3. auto.
      * destruct (nth_error (sv s) w) as [b|] eqn:Eb.
        -- assert (Lw : w < List.length (sv s)) by (apply nth_error_Some; congruence).
           exists (r_call eff_iadd_s no_args v (Some (OpS w)) s r). split.
           ++ rewrite E, (nth_error_rs r w (eq_ind _ (fun n => w < n) Lw _ RL2)). rcompute. reflexivity.
           ++ pose proof (call_refines eff_iadd_s no_args v (Some (OpS w)) s r HJ Lv Lw) as H. cbn [operand_addr] in H. rewrite Eb in H.
              apply H; [from_checks CHK_A|from_checks CHK_F|from_checks CHK_R|reflexivity|cbn; lia].
        -- assert (E3 : nth_error (rs r) w = None) by (apply nth_error_None; rewrite <- RL2; apply nth_error_None; exact Eb).
           exists r. rewrite E, E3. auto.
    + exists r. rewrite E2. split; [reflexivity|]. destruct (operand_addr x s); [rewrite call_none by exact E1|]; exact HJ.
  - (* OMul *)
    destruct (step_J_receiver s r v HJ) as [(Lv & E & Lr)|[E1 E2]].
    + destruct (n <? 0)%Z eqn:En; [exists r; rewrite E; auto|]. apply Z.ltb_ge in En.
      exists (r_call eff_mul (with_n n) v None s r). split.
      * rewrite E. rcompute. rewrite rset_t_same by exact Lr. reflexivity.
      * apply (call_refines eff_mul (with_n n) v None s r HJ Lv I);
          [from_checks CHK_A|from_checks CHK_F|from_checks CHK_R|reflexivity|exact En].
    + exists r. rewrite E2. split; [reflexivity|]. destruct (n <? 0)%Z; [|rewrite call_none by exact E1]; exact HJ.
  - (* ORMul *)
    destruct (step_J_receiver s r v HJ) as [(Lv & E & Lr)|[E1 E2]].
    + destruct (n <? 0)%Z eqn:En; [exists r; rewrite E; auto|]. apply Z.ltb_ge in En.
      exists (r_call eff_rmul (with_n n) v None s r). split.
      * rewrite E. rcompute. rewrite rset_t_same by exact Lr. reflexivity.
      * apply (call_refines eff_rmul (with_n n) v None s r HJ Lv I);
          [from_checks CHK_A|from_checks CHK_F|from_checks CHK_R|reflexivity|exact En].
    + exists r. rewrite E2. split; [reflexivity|]. destruct (n <? 0)%Z; [|rewrite call_none by exact E1]; exact HJ.
  - (* OIMul *)
    destruct (step_J_receiver s r v HJ) as [(Lv & E & Lr)|[E1 E2]].
    + destruct (n <? 0)%Z eqn:En; [exists r; rewrite E; auto|]. apply Z.ltb_ge in En.
      exists (r_call eff_imul (with_n n) v None s r). split.
      * rewrite E. rcompute. reflexivity.
      * apply (call_refines eff_imul (with_n n) v None s r HJ Lv I);
          [from_checks CHK_A|from_checks CHK_F|from_checks CHK_R|reflexivity|exact En].
    + exists r. rewrite E2. split; [reflexivity|]. destruct (n <? 0)%Z; [|rewrite call_none by exact E1]; exact HJ.
  - (* OSlice *)
    destruct (step_J_receiver s r v HJ) as [(Lv & E & Lr)|[E1 E2]].
    + destruct (c =? 0)%Z eqn:Ec.
      * exists r. rewrite E. split; [|exact HJ]. exists (tval s v). split; [apply AF; exact Lv|]. split; [apply RT; exact Lv|reflexivity].
      * exists (r_call eff_getitem_slice (with_slice a b c) v None s r). split.
        -- rewrite E. exists (tval s v). split; [apply AF; exact Lv|]. split; [apply RT; exact Lv|].
           rcompute. rewrite rset_t_same by exact Lr. reflexivity.
        -- apply (call_refines eff_getitem_slice (with_slice a b c) v None s r HJ Lv I);
             [from_checks CHK_A|from_checks CHK_F|from_checks CHK_R|reflexivity|cbn; lia].
    + exists r. rewrite E2. split; [reflexivity|]. destruct (c =? 0)%Z; [|rewrite call_none by exact E1]; exact HJ.
  - (* OGetItem *)
    exists r. split; [reflexivity|]. destruct (norm_index i (tlen s v)); [|exact HJ].
    rewrite observer_is_identity; [exact HJ|from_checks CHK_A].
  - (* OPop *)
    destruct (step_J_receiver s r v HJ) as [(Lv & E & Lr)|[E1 E2]].
    + assert (TL : tlen s v = Z.of_nat (List.length (tval s v))).
      { unfold tlen, tval. destruct (nth_error (tv s) v); reflexivity. }
      destruct (norm_index i (tlen s v)) as [k|] eqn:Ek.
      * exists (r_call eff_pop (with_idx i) v None s r). split.
        -- rewrite E. exists (tval s v). split; [apply AF; exact Lv|]. split; [apply RT; exact Lv|].
           rewrite <- TL, Ek. rcompute. unfold pop_at. rewrite <- TL, Ek. reflexivity.
        -- apply (call_refines eff_pop (with_idx i) v None s r HJ Lv I);
             [from_checks CHK_A|from_checks CHK_F|from_checks CHK_R|reflexivity|cbn; lia].
      * exists r. rewrite E. split; [|exact HJ]. exists (tval s v). split; [apply AF; exact Lv|]. split; [apply RT; exact Lv|].
        rewrite <- TL, Ek. reflexivity.
    + exists r. rewrite E2. split; [reflexivity|]. destruct (norm_index i (tlen s v)); [rewrite call_none by exact E1|]; exact HJ.
  - (* OCopy *)
    destruct (step_J_receiver s r v HJ) as [(Lv & E & Lr)|[E1 E2]].
    + exists (r_call eff_copy no_args v None s r). split.
      * rewrite E. rcompute. rewrite rset_t_same by exact Lr. reflexivity.
      * apply (call_refines eff_copy no_args v None s r HJ Lv I);
          [from_checks CHK_A|from_checks CHK_F|from_checks CHK_R|reflexivity|cbn; lia].
    + exists r. rewrite E2, call_none by exact E1. auto.
  - (* OWithoutNoise *)
    destruct (step_J_receiver s r v HJ) as [(Lv & E & Lr)|[E1 E2]].
    + exists (r_call eff_without_noise no_args v None s r). split.
      * rewrite E. rcompute. rewrite rset_t_same by exact Lr. reflexivity.
      * apply (call_refines eff_without_noise no_args v None s r HJ Lv I);
          [from_checks CHK_A|from_checks CHK_F|from_checks CHK_R|reflexivity|cbn; lia].
    + exists r. rewrite E2, call_none by exact E1. auto.
  - (* OWithoutAnnot *)
    destruct (step_J_receiver s r v HJ) as [(Lv & E & Lr)|[E1 E2]].
    + exists (r_call eff_without_annotations no_args v None s r). split.
      * rewrite E. rcompute. rewrite rset_t_same by exact Lr. reflexivity.
      * apply (call_refines eff_without_annotations no_args v None s r HJ Lv I);
          [from_checks CHK_A|from_checks CHK_F|from_checks CHK_R|reflexivity|cbn; lia].
    + exists r. rewrite E2, call_none by exact E1. auto.
  - (* OStimCircuit *)
    destruct (step_J_receiver s r v HJ) as [(Lv & E & Lr)|[E1 E2]].
    + exists (r_call eff_stim_circuit no_args v None s r). split.
      * rewrite E. rcompute. rewrite rset_t_same by exact Lr. reflexivity.
      * apply (call_refines eff_stim_circuit no_args v None s r HJ Lv I);
          [from_checks CHK_A|from_checks CHK_F|from_checks CHK_R|reflexivity|cbn; lia].
    + exists r. rewrite E2, call_none by exact E1. auto.
  - (* OObserve *)
    exists r. split; [reflexivity|]. destruct (nth_error observer_effects k) as [[nm m]|] eqn:E; [|exact HJ].
    rewrite observer_is_identity; [exact HJ|]. eapply observer_nth. exact E.
  - (* OStimNew *)
    exists (mkR (rt r) (rs r ++ [p])). split; [reflexivity|]. unfold halloc.
    pose proof (Inv1_stim_new s p IV) as IV'. split; [exact IV'|]. split.
    + unfold refines. cbn [tv sv rt rs]. rewrite !app_length. cbn [List.length]. split; [lia|]. split; [lia|]. split.
      * intros v Lv. split; [apply (proj2 IV'); exact Lv|]. specialize (RT v Lv). unfold tval in *. cbn [tv heap_of].
        destruct (nth_error (tv s) v) as [a0|] eqn:E; [|exact (proj2 RT)].
        assert (a0 < List.length (heap_of s)) by (apply (proj1 W); unfold allv; apply in_or_app; left; eapply nth_error_In; exact E).
        rewrite hread_app_l by assumption. exact (proj2 RT).
      * intros w Lw. unfold sval. cbn [sv heap_of]. destruct (Nat.eq_dec w (List.length (sv s))) as [->|Hne].
        -- rewrite nth_error_app2 by lia. rewrite Nat.sub_diag. cbn [nth_error]. rewrite hread_alloc.
           rewrite app_nth2 by lia. replace (List.length (sv s) - List.length (rs r)) with 0 by lia. apply simc_refl.
        -- assert (Lw' : w < List.length (sv s)) by lia. rewrite nth_error_app1 by exact Lw'. rewrite app_nth1 by lia.
           specialize (RS w Lw'). unfold sval in RS. destruct (nth_error (sv s) w) as [a0|] eqn:E; [|exact RS].
           assert (a0 < List.length (heap_of s)) by (apply (proj1 W); unfold allv; apply in_or_app; right; eapply nth_error_In; exact E).
           rewrite hread_app_l by assumption. exact RS.
    + split; cbn [rt rs]; [exact NS1|]. apply Forall_app. split; [exact NS2|]. constructor; [exact NSo|constructor].
  - (* OStimIAdd *)
    destruct (nth_error (sv s) w) as [b|] eqn:E.
    + assert (Lw : w < List.length (sv s)) by (apply nth_error_Some; congruence).
      assert (Lr : w < List.length (rs r)) by lia.
      exists (mkR (rt r) (set_nth (rs r) w (nth w (rs r) [] ++ p))). split; [rewrite (nth_error_rs r w Lr); reflexivity|].
      assert (Lb : b < List.length (heap_of s)) by (apply (proj1 W); unfold allv; apply in_or_app; right; eapply nth_error_In; exact E).
      pose proof (t_step_Inv1 (OStimIAdd w p) s IV) as IV'. cbn [t_step] in IV'. rewrite E in IV'.
      split; [exact IV'|]. split.
      * unfold refines. cbn [tv sv rt rs]. rewrite set_nth_length. split; [lia|]. split; [lia|]. split.
        -- intros v Lv. split; [apply (proj2 IV'); exact Lv|]. specialize (RT v Lv). unfold tval in *. cbn [tv heap_of].
           destruct (nth_error (tv s) v) as [a0|] eqn:Ea; [|exact (proj2 RT)].
           rewrite hread_hwrite_other by (intro; subst; eapply WF_tv_sv_distinct; eauto). exact (proj2 RT).
        -- intros w0 L0. unfold sval. cbn [sv heap_of]. destruct (Nat.eq_dec w0 w) as [->|Hne].
           ++ rewrite E. rewrite hread_hwrite_same by exact Lb. rewrite nth_set_nth_same by exact Lr.
              eapply simc_trans; [apply stim_iadd_simc|]. apply simc_app; [|apply simc_refl].
              specialize (RS w Lw). unfold sval in RS. rewrite E in RS. exact RS.
           ++ rewrite nth_set_nth_other by exact Hne. specialize (RS w0 L0). unfold sval in RS.
              destruct (nth_error (sv s) w0) as [a0|] eqn:Ea; [|exact RS].
              rewrite hread_hwrite_other by (eapply WF_sv_distinct; eauto). exact RS.
      * split; cbn [rt rs]; [exact NS1|]. apply Forall_set_nth; [exact NS2|].
        rewrite noshift_app, NSo, andb_true_r. apply Forall_nth_default; [exact NS2|reflexivity].
    + assert (E2 : nth_error (rs r) w = None) by (apply nth_error_None; rewrite <- RL2; apply nth_error_None; exact E).
      exists r. rewrite E2. auto.
Qed.

(* ---- the theorems ------------------------------------------------------------------------------------ *)
Lemma J_0 : J st0 rst0.
Proof.
  split; [exact Inv1_st0|]. split.
  - unfold refines. cbn. repeat split; intros; lia.
  - split; constructor.
Qed.

Lemma run_J : forall h s r, J s r -> forallb noshift_op h = true ->
  exists r', ref_run h r r' /\ J (fold_left (fun s o => t_step o s) h s) r'.
Proof.
  induction h as [|o h IH]; intros s r HJ NSh.
  - exists r. split; [constructor|exact HJ].
  - cbn [forallb] in NSh. apply andb_true_iff in NSh as [N1 N2].
    destruct (step_J o s r HJ N1) as (r1 & S1 & J1).
    destruct (IH _ _ J1 N2) as (r2 & S2 & J2).
    exists r2. split; [econstructor; eassumption|exact J2].
Qed.

Theorem refine_partial : forall h, forallb noshift_op h = true ->
  exists r, ref_run h rst0 r /\ refines (t_run h) r.
Proof.
  intros h NSh. destruct (run_J h st0 rst0 J_0 NSh) as (r & R1 & (_ & R2 & _)). exists r. split; assumption.
Qed.

Theorem refines_counts : forall s r, refines s r ->
  forall v, v < List.length (tv s) -> counts_c (tval s v) = counts_c (nth v (rt r) []).
Proof. intros s r (_ & _ & RT & _) v Lv. apply counts_simc. apply RT. exact Lv. Qed.

Theorem flat_always : forall h v, v < List.length (tv (t_run h)) -> is_flat (tval (t_run h) v) = true.
Proof. intros h v Lv. apply (proj2 (t_run_Inv1 h)). exact Lv. Qed.

Theorem alias_never : forall h,
  NoDup (tv (t_run h) ++ sv (t_run h)) /\
  forall a, In a (tv (t_run h) ++ sv (t_run h)) -> a < List.length (heap_of (t_run h)).
Proof. intro h. destruct (t_run_Inv1 h) as [[W1 W2] _]. split; assumption. Qed.

Theorem observers_identity : forall s k v, t_step (OObserve k v) s = s.
Proof.
  intros s k v. cbn [t_step]. destruct (nth_error observer_effects k) as [[nm m]|] eqn:E; [|reflexivity].
  apply observer_is_identity. eapply observer_nth. exact E.
Qed.

Theorem getitem_identity : forall s v i, t_step (OGetItem v i) s = s.
Proof.
  intros s v i. cbn [t_step]. destruct (norm_index i (tlen s v)); [|reflexivity].
  apply observer_is_identity. from_checks checks_alias_true.
Qed.

(* the full statement fails: flattening on entry forgets SHIFT_COORDS *)
Definition shift_witness : list op :=
  [OText [It (mkI "SHIFT_COORDS" [1024%Z] 0%Z []); It (mkI "M" [] 0%Z [[0%Z]])];
   OAppendText 0 [It (mkI "DETECTOR" [0%Z] 0%Z [[(-2)%Z]])]].

Theorem refine_refuted : exists h, forall r, ref_run h rst0 r -> ~ refines (t_run h) r.
Proof.
  exists shift_witness. intros r Hrun (L1 & L2 & RT & RS).
  unfold shift_witness in Hrun.
  inversion Hrun as [|o h0 r0 r1 r2 S1 Hrun1]; subst. cbn [ref_step] in S1. subst r1.
  inversion Hrun1 as [|o h0 r0 r1 r2 S2 Hrun2]; subst. cbn in S2. subst r1.
  inversion Hrun2; subst.
  assert (Lv : 0 < List.length (tv (t_run shift_witness))) by (vm_compute; lia).
  destruct (RT 0 Lv) as [_ Hs]. vm_compute in Hs. discriminate Hs.
Qed.

(* the same in terms of Stim's own flattened(): canonical form of the wrapped circuit = flattened reference *)
Theorem refine_partial_flattened : forall h, forallb noshift_op h = true ->
  exists r, ref_run h rst0 r /\ refines (t_run h) r /\
    forall v, v < List.length (tv (t_run h)) -> fuse (flatten0 (tval (t_run h) v)) = flattened_l (nth v (rt r) []).
Proof.
  intros h NSh. destruct (run_J h st0 rst0 J_0 NSh) as (r & R1 & (_ & R2 & [N1 _])). exists r.
  split; [exact R1|]. split; [exact R2|]. intros v Lv. destruct R2 as (_ & _ & RT & _).
  rewrite flattened_l_noshift by (apply Forall_nth_default; [exact N1|reflexivity]). apply RT. exact Lv.
Qed.

Definition example_history : list op :=
  [OText [It (mkI "H" [] 0%Z [[0%Z]]); Rep 2 [It (mkI "X" [] 0%Z [[0%Z]]); It (mkI "M" [] 0%Z [[0%Z]])]];
   OStimNew [Rep 3 [It (mkI "H" [] 0%Z [[16%Z]])]; It (mkI "DETECTOR" [1024%Z] 0%Z [[(-2)%Z]])];
   OIAdd 0 (OpS 0); OMul 0 2%Z; OPop 1 (-1)%Z; OSlice 1 (Some 1%Z) None 2%Z; OIAdd 0 (OpT 0); OWithoutAnnot 0].
Lemma example_history_ok :
  forallb noshift_op example_history = true /\ List.length (tv (t_run example_history)) = 4 /\
  List.length (flatten0 (tval (t_run example_history) 0)) = 14.
Proof. vm_compute. auto. Qed.
