(* C12 -- lemmas about Model/ParseClassify.v.
   (1) the complete table: every row of the installed Stim's vocabulary is ok (vm_compute over the generated
       facts and the generated vocabulary), lifted to "for every row";
   (2) what `ok` means, as a readable disjunction;
   (3) statements that do not depend on the probed vocabulary at all (any name, any pattern, any argument count):
       unknown names are rejected, a sweep-bit target never reaches a gate function, the annotations accept
       record targets only, classical bits in a target position of CX-like gates are rejected. *)
From Coq Require Import String List Bool Arith.
Import ListNotations.
Require Import TV.Model.ParseTypes TV.gen.Gen_parse_facts TV.gen.Gen_stim_vocab TV.Model.ParseClassify.
Open Scope string_scope.
Set Default Timeout 120.

(* ---------------------------------------------------------------------------------------------- equalities *)
Lemma pauli_eqb_eq : forall a b, pauli_eqb a b = true -> a = b.
Proof. intros a b H; destruct a, b; try reflexivity; discriminate H. Qed.

Lemma role_eqb_eq : forall a b, role_eqb a b = true -> a = b.
Proof.
  intros a b H; destruct a, b; try reflexivity; try discriminate H; cbn [role_eqb] in H.
  - apply pauli_eqb_eq in H; subst; reflexivity.
  - apply pauli_eqb_eq in H; subst; reflexivity.
  - apply andb_true_iff in H; destruct H as [Hp Hi].
    apply pauli_eqb_eq in Hp; apply Bool.eqb_prop in Hi; subst; reflexivity.
Qed.

Lemma roles_eqb_eq : forall a b, roles_eqb a b = true -> a = b.
Proof.
  induction a as [|x a IH]; intros [|y b] H; try reflexivity; try discriminate H.
  cbn [roles_eqb] in H. apply andb_true_iff in H; destruct H as [Hx Ha].
  apply role_eqb_eq in Hx; apply IH in Ha; subst; reflexivity.
Qed.

(* ---------------------------------------------------------------------------------------------- meaning of ok *)
Definition row_ok (r : vrow) : Prop :=
  classify r = Reject \/
  exists consumed, classify r = Accept (v_roles r) consumed /\ v_valid r = true /\
                   (v_args_sem r = true -> v_nargs r <> 0%nat -> consumed = true).

Lemma ok_spec : forall r, ok r = true -> row_ok r.
Proof.
  intros r H; unfold ok in H; unfold row_ok.
  destruct (classify r) as [|roles consumed]; [left; reflexivity|right].
  apply andb_true_iff in H; destruct H as [H Hargs]. apply andb_true_iff in H; destruct H as [Hvalid Hroles].
  apply roles_eqb_eq in Hroles; subst roles.
  exists consumed; split; [reflexivity|split; [exact Hvalid|]].
  intros Hsem Hn. unfold args_ok in Hargs. rewrite Hsem in Hargs. cbn [negb orb] in Hargs.
  destruct (Nat.eqb (v_nargs r) 0) eqn:E; [apply Nat.eqb_eq in E; contradiction|exact Hargs].
Qed.

(* ---------------------------------------------------------------------------------------------- the table *)
Lemma vocab_all_ok : forallb ok stim_vocab = true.
Proof. vm_compute. reflexivity. Qed.

Lemma vocab_every_row_ok : forall r, In r stim_vocab -> ok r = true.
Proof. intros r H. exact (proj1 (forallb_forall ok stim_vocab) vocab_all_ok r H). Qed.

Lemma vocab_every_row : forall r, In r stim_vocab -> row_ok r.
Proof. intros r H. apply ok_spec, vocab_every_row_ok, H. Qed.

Lemma vocab_large : Nat.leb 1000 (length stim_vocab) = true.
Proof. vm_compute. reflexivity. Qed.

Lemma vocab_has_accepted_and_rejected :
  (exists r, In r stim_vocab /\ rejects r = false /\ v_kinds r <> []) /\ (exists r, In r stim_vocab /\ rejects r = true).
Proof.
  split.
  - destruct (find (fun r => negb (rejects r) && negb (Nat.eqb (length (v_kinds r)) 0)) stim_vocab) as [r|] eqn:E;
      [|vm_compute in E; discriminate E].
    apply find_some in E; destruct E as [Hin Hp]. apply andb_true_iff in Hp; destruct Hp as [Hr Hk].
    exists r; split; [exact Hin|split; [destruct (rejects r); [discriminate Hr|reflexivity]|]].
    intro Hnil; rewrite Hnil in Hk; discriminate Hk.
  - destruct (find rejects stim_vocab) as [r|] eqn:E; [|vm_compute in E; discriminate E].
    apply find_some in E; destruct E as [Hin Hp]. exists r; split; assumption.
Qed.

(* ---------------------------------------------------------------------------------------------- any row at all *)
Lemma assoc_in : forall A s (l : list (string * A)) v, assoc s l = Some v -> In (s, v) l.
Proof.
  intros A s l; induction l as [|[k w] l IH]; intros v H; cbn [assoc] in H; [discriminate H|].
  destruct (String.eqb s k) eqn:E.
  - apply String.eqb_eq in E; subst k. injection H as ->. left; reflexivity.
  - right; apply IH, H.
Qed.

Lemma table_funs_exist :
  forallb (fun e => match find_fun (fst (snd e)) with Some _ => true | None => false end) gate_table = true.
Proof. vm_compute. reflexivity. Qed.

Lemma table_fun_found : forall n fname arity, assoc n gate_table = Some (fname, arity) -> exists f, find_fun fname = Some f.
Proof.
  intros n fname arity H. apply assoc_in in H.
  pose proof (proj1 (forallb_forall _ _) table_funs_exist _ H) as Hf. cbn [fst snd] in Hf.
  destruct (find_fun fname) as [f|]; [exists f; reflexivity|discriminate Hf].
Qed.

(* names tsim does not know are rejected, whatever their targets and arguments *)
Lemma unknown_name_rejected : forall r,
  v_block r = false -> mem_str (v_canon r) skipped_names = false -> find_special (v_canon r) = None ->
  assoc (v_canon r) gate_table = None -> classify r = Reject.
Proof. intros r Hb Hs Hsp Ha. unfold classify; cbv zeta. rewrite Hb, Hs, Hsp, Ha. reflexivity. Qed.

Lemma guard_rejects_sweep : forall kinds, In KSWEEP kinds -> guard_rejects kinds = true.
Proof.
  intros kinds H. unfold guard_rejects. apply existsb_exists. exists KSWEEP. split; [exact H|vm_compute; reflexivity].
Qed.

(* a sweep-bit target never reaches a gate function of the dispatch table *)
Lemma dispatch_rejects_sweep : forall r,
  v_block r = false -> mem_str (v_canon r) skipped_names = false -> find_special (v_canon r) = None ->
  In KSWEEP (v_kinds r) -> classify r = Reject.
Proof.
  intros r Hb Hs Hsp Hin. unfold classify; cbv zeta. rewrite Hb, Hs, Hsp.
  destruct (assoc (v_canon r) gate_table) as [[fname arity]|] eqn:Ha; [|reflexivity].
  destruct (table_fun_found _ _ _ Ha) as [f Hf]. rewrite Hf, (guard_rejects_sweep _ Hin). reflexivity.
Qed.

Lemma collect_reject : forall l, In TReject l -> collect l = None.
Proof.
  induction l as [|x l IH]; intros H; [destruct H|].
  destruct H as [H|H]; [subst x; reflexivity|]. cbn [collect]. destruct x; [reflexivity|]. rewrite (IH H). reflexivity.
Qed.

(* DETECTOR / OBSERVABLE_INCLUDE: any target that is not a measurement-record target is rejected *)
Lemma annotation_rejects_non_record : forall r k,
  v_block r = false -> (v_canon r = "DETECTOR" \/ v_canon r = "OBSERVABLE_INCLUDE") ->
  In k (v_kinds r) -> mem_attr ARecord (kind_attrs k) = false -> classify r = Reject.
Proof.
  intros r k Hb Hn Hin Hk. unfold classify; cbv zeta. rewrite Hb.
  assert (Hsp : exists sp, mem_str (v_canon r) skipped_names = false /\ find_special (v_canon r) = Some sp /\
                           sp_rules sp = [RuleRaiseUnless ARecord]).
  { destruct Hn as [Hn|Hn]; rewrite Hn; eexists; (split; [vm_compute; reflexivity|split; [vm_compute; reflexivity|reflexivity]]). }
  destruct Hsp as [sp [Hs [Hf Hr]]]. rewrite Hs, Hf. unfold classify_special.
  destruct (v_kinds r) as [|k0 ks] eqn:Ek; [destruct Hin|].
  rewrite collect_reject; [reflexivity|].
  apply in_map_iff. exists k. split; [|exact Hin].
  rewrite Hr. cbn [run_rules]. rewrite Hk. reflexivity.
Qed.
