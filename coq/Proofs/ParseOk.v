(* The bookkeeping hypothesis of the composition theorem -- every record a feedback instruction refers to exists at that point --
   as a plain computation on natural numbers: the number of records a lane program has produced is the number of its non-silent
   measurements, whatever the ring, the bits or the amplitudes.  With it every hypothesis of the parsed-text theorems is decidable
   (and is evaluated by the harness on every circuit of the model comparison). *)
From Coq Require Import ZArith QArith Qcanon List Bool String Lia Ring Ring_theory.
Import ListNotations.
Require Import TV.Base.EP TV.Base.EPSound TV.Base.Amp TV.Model.Lane TV.Model.Parse TV.Proofs.DenseBridge TV.Proofs.KrausSem
  TV.Proofs.KrausGates TV.Proofs.KrausCircuit TV.Proofs.KrausBorn TV.Proofs.ParseElab TV.Proofs.ParseBorn.

Definition rec_op (o : op nat) : nat := match o with OMeas _ _ false _ => 1 | _ => 0 end.
Definition count_rec (ops : list (op nat)) : nat := fold_left (fun a o => (a + rec_op o)%nat) ops 0%nat.
(* the bodies of `if lane exists:` blocks contain neither measurements nor nested blocks (true of everything instructions.py draws) *)
Definition plain_op (o : op nat) : bool := match o with OMeas _ _ _ _ | OIfLane _ _ | OReset _ _ => false | _ => true end.
Definition flat_op (o : op nat) : bool := match o with OIfLane _ body => forallb plain_op body | _ => true end.
Fixpoint ccircuit_ok_nat (nr : nat) (c : list cinstr) : bool :=
  match c with
  | [] => true
  | i :: r =>
      (match i with CF _ k _ => Nat.ltb k nr | _ => true end)
      && match cinstr_ops i with
         | Some o => forallb flat_op o && ccircuit_ok_nat (nr + count_rec o) r
         | None => false
         end
  end.

Section POk.
  Variable R : Type.
  Variables (rO rI : R) (radd rmul rsub : R -> R -> R) (ropp : R -> R).
  Variable Rth : ring_theory rO rI radd rmul rsub ropp eq.
  Variable E : Qc -> R.
  Hypothesis E_add : forall a b, E (a + b)%Qc = rmul (E a) (E b).
  Hypothesis E_0 : E 0%Qc = rI.
  Hypothesis E_1 : E 1%Qc = ropp rI.
  Variable half : R.
  Hypothesis half_2 : radd half half = rI.
  Variables ta tb tc : Qc.
  Notation kst := (kst R).
  Notation kstep := (kstep R rO rI radd rmul ropp E half ta tb tc).
  Notation krun := (krun R rO rI radd rmul ropp E half ta tb tc).
  Notation kensure := (kensure R rO rI radd rmul ropp E half ta tb tc).
  Notation kdo_meas := (kdo_meas R rO rI radd rmul ropp E half ta tb tc).
  Notation kdo_err := (kdo_err R rO rI radd rmul ropp E half ta tb tc).
  Notation ccircuit_ok := (ccircuit_ok R rO rI radd rmul ropp E half ta tb tc).
  Notation st_of := (st_of R rO rI radd rmul ropp E half ta tb tc).
  Notation sq2 := (sq2 R rO rI radd rmul ropp E half ta tb tc).
  Notation cspec := (cspec R rO rI radd rmul ropp E half ta tb tc).

  Lemma nrec_ensure (s : kst) q : knrec R (kensure s q) = knrec R s.
  Proof. unfold KrausSem.kensure. destruct (kex R s q); reflexivity. Qed.
  Lemma nrec_do_err b (s : kst) c q i : knrec R (kdo_err b s c q i) = knrec R s.
  Proof.
    unfold KrausSem.kdo_err. destruct (bit (berr b) i); cbn [knrec ksetcol ksetpsi]; apply nrec_ensure.
  Qed.
  Lemma nrec_do_meas b (s : kst) q silent : knrec R (kdo_meas b s q silent) = (knrec R s + (if silent then 0 else 1))%nat.
  Proof.
    unfold KrausSem.kdo_meas. destruct silent; cbn [knrec kcnt ksetcol ksetk ksetpsi]; rewrite nrec_ensure; lia.
  Qed.

  (* ops outside measurements, resets and blocks never touch the record counter, with any fuel *)
  Lemma nrec_plain f b (s : kst) o : plain_op o = true -> knrec R (kstep f b s o) = knrec R s.
  Proof.
    destruct o as [c q e | c q rel corr | q | is_cx ctl tgt cc | a c | q | q p silent restore | q trace | e | k | ch | k | p | q body |];
      cbn [plain_op]; intro H; try discriminate H; destruct f; cbn [KrausSem.kstep].
    all: try reflexivity.
    all: try (cbn [knrec ksetcol ksetpsi ksetk kcnt]; rewrite ?nrec_ensure; reflexivity).
    all: try apply nrec_do_err.
    all: try (unfold KrausSem.kfinalize; destruct (kncorr R s); reflexivity).
    all: destruct cc as [[c0 c1]|]; [|cbn [knrec ksetcol ksetpsi]; rewrite !nrec_ensure; reflexivity].
    all: destruct (c1 && negb is_cx); cbn beta iota;
      match goal with |- context [if ?c then kfail _ _ else _] => destruct c end; try reflexivity;
      match goal with |- context [if negb ?c then _ else _] => destruct c end; cbn [negb];
      try (cbn [knrec ksetcol ksetpsi]; rewrite !nrec_ensure; reflexivity);
      match goal with |- context [if bit ?x ?y then _ else _] => destruct (bit x y) end;
      cbn [knrec ksetcol ksetpsi]; rewrite !nrec_ensure; reflexivity.
  Qed.
  Lemma nrec_plain_fold f b body : forallb plain_op body = true -> forall s : kst, knrec R (fold_left (kstep f b) body s) = knrec R s.
  Proof.
    induction body as [|o body IH]; intros H s; cbn [fold_left forallb] in *; [reflexivity|].
    apply andb_true_iff in H. destruct H as [H1 H2]. rewrite (IH H2), (nrec_plain f b s o H1). reflexivity.
  Qed.

  Lemma kstep_iflane b (s : kst) q body : kstep 8 b s (OIfLane q body) = if kex R s q then fold_left (kstep 7 b) body s else s.
  Proof. reflexivity. Qed.
  Lemma nrec_step b (s : kst) o : flat_op o = true -> knrec R (kstep 8 b s o) = (knrec R s + rec_op o)%nat.
  Proof.
    intro H. destruct (plain_op o) eqn:Hp.
    { rewrite (nrec_plain 8 b s o Hp). destruct o; cbn [plain_op] in Hp; try discriminate Hp; cbn [rec_op]; lia. }
    destruct o as [c q e | c q rel corr | q | is_cx ctl tgt cc | a c | q | q p silent restore | q trace | e | k | ch | k | p | q body |];
      try discriminate Hp.
    - (* measurement *)
      cbn [KrausSem.kstep rec_op].
      destruct (match Qcompare 0 p with Lt => true | _ => false end).
      + cbn [knrec kcnt]. destruct restore; rewrite ?nrec_do_err, nrec_do_meas, nrec_do_err; destruct silent; lia.
      + rewrite nrec_do_meas. destruct silent; lia.
    - (* reset *)
      cbn [KrausSem.kstep rec_op]. destruct (negb (kex R s q)); [cbn [knrec ksetcol ksetex]; lia|].
      destruct trace.
      + set (s1 := kdo_meas b s q true). assert (H1 : knrec R s1 = knrec R s) by (unfold s1; rewrite nrec_do_meas; lia).
        destruct (kcol R s1 q); cbn [knrec ksetcol ksetpsi]; lia.
      + destruct (kcol R s q); cbn [knrec ksetcol ksetpsi]; lia.
    - (* block *)
      cbn [rec_op flat_op] in *. rewrite kstep_iflane. destruct (kex R s q); [rewrite (nrec_plain_fold 7 b body H)|]; lia.
  Qed.
  Lemma count_shift l : forall a, fold_left (fun a o => (a + rec_op o)%nat) l a = (a + fold_left (fun a o => (a + rec_op o)%nat) l 0%nat)%nat.
  Proof.
    induction l as [|o l IH]; intro a; cbn [fold_left]; [lia|]. rewrite (IH (a + rec_op o)%nat), (IH (0 + rec_op o)%nat). lia.
  Qed.
  Lemma nrec_run b ops : forallb flat_op ops = true -> forall s : kst, knrec R (krun b ops s) = (knrec R s + count_rec ops)%nat.
  Proof.
    unfold KrausSem.krun, count_rec.
    induction ops as [|o ops IH]; intros H s; cbn [fold_left forallb] in *; [lia|].
    apply andb_true_iff in H. destruct H as [H1 H2]. rewrite (IH H2), (nrec_step b s o H1), (count_shift ops (0 + rec_op o)%nat). lia.
  Qed.

  Theorem ccircuit_ok_nat_sound c : forall sk : kst, ccircuit_ok_nat (knrec R sk) c = true -> ccircuit_ok sk c = true.
  Proof.
    induction c as [|i r IH]; intros sk H; cbn [ccircuit_ok_nat KrausCircuit.ccircuit_ok] in *; [reflexivity|].
    apply andb_true_iff in H. destruct H as [H1 H2].
    destruct (cinstr_ops i) as [o|]; [|discriminate H2]. apply andb_true_iff in H2. destruct H2 as [Hf H2].
    apply andb_true_iff. split.
    - destruct i; exact H1 || reflexivity.
    - apply IH. rewrite (nrec_run KrausGates.b00 o Hf sk). exact H2.
  Qed.

  (* every hypothesis decidable *)
  Definition parsed_ok (n aux : nat) (c : list instr) (cs : list cinstr) : bool :=
    parse_is_circuit aux c cs && forallb (cinstr_lanes_ok n) cs && ccircuit_ok_nat 0 cs.
  Theorem parse_kraus_dec n aux c cs ps : build aux c = Some ps -> parsed_ok n aux c cs = true ->
    exists C, sq2 C /\ forall b, exists e : Qc,
      st_of n (final_vec (run n b (pops ps) (init_state n)))
      = Amp.scale R rmul (rmul (E e) C) (cspec b (kinit R rO rI n) cs (kpsi R (kinit R rO rI n))).
  Proof.
    intros Hb H. unfold parsed_ok in H. apply andb_true_iff in H. destruct H as [H H3]. apply andb_true_iff in H. destruct H as [H1 H2].
    apply (parse_kraus R rO rI radd rmul rsub ropp Rth E E_add E_0 E_1 half half_2 ta tb tc n aux c cs ps Hb H1 H2).
    apply ccircuit_ok_nat_sound. exact H3.
  Qed.
End POk.

Example parsed_ok_example :
  match elab_circuit 3 elab_example with Some cs => parsed_ok 4 3 elab_example cs | None => false end = true.
Proof. vm_compute. reflexivity. Qed.
