(* Record-controlled Paulis inside the composition theorem.  A feedback primitive whose record bit is r acts, on amplitudes,
   scalar and lane existence, exactly like the spider of its colour with phase r (X^r resp. Z^r) -- provided the lane on which
   the record was measured exists, which is an invariant of the interpreter (kinv).  A feedback instruction's program
   (unitary one-lane primitives around one feedback primitive) is therefore, for each value of the bit, a unitary program whose
   matrix is decided by vm_compute; the gate machinery of C05 places it at any lane. *)
From Coq Require Import ZArith QArith Qcanon List Bool String Lia Ring Ring_theory FunctionalExtensionality.
Import ListNotations.
Require Import TV.Base.EP TV.Base.EPSound TV.Base.Amp TV.Model.Lane TV.Spec.Born TV.gen.Gen_instructions TV.gen.Gen_stim_gates
  TV.Model.GateCheck TV.Model.InstrCheck TV.Model.KrausCheck TV.Proofs.GateProofs TV.Proofs.InstrProofs TV.Proofs.CircuitProofs TV.Proofs.CircuitTheorem
  TV.Proofs.DenseBridge TV.Proofs.KrausSem TV.Proofs.KrausGates.
Set Default Timeout 200.

(* the feedback primitive after the normalisation of _cx_cz: (is_cx, record index, target lane) *)
Definition fb_view (o : op nat) : option (bool * nat * nat) :=
  match o with
  | OCxCz is_cx ctl tgt (Some (c0, c1)) =>
      let '(ctl, tgt, c0, c1) := if c1 && negb is_cx then (tgt, ctl, c1, c0) else (ctl, tgt, c0, c1) in
      if c1 then None else if c0 then Some (is_cx, ctl, tgt) else None
  | _ => None
  end.
Definition e_bit (r : bool) : expo := if r then mkE 4 0 0 0 else e0.     (* E(1) = -1, E(0) = 1 *)
Definition resolve_op (r : bool) (o : op nat) : op nat :=
  match fb_view o with
  | Some (is_cx, _, tgt) => OSpider (if is_cx then CXc else CZc) tgt (e_bit r)
  | None => o
  end.
(* programs of unitary primitives around feedback primitives that all read record `ridx` *)
Definition ufb_op (ridx : nat) (o : op nat) : bool :=
  match fb_view o with
  | Some (_, i, _) => Nat.eqb i ridx
  | None => unitary_op o
  end.

(* ---- the feedback rows of the instruction set, on lane 0 with record 0; for each bit value the resolved program is a unitary
        one-lane program equal to I resp. the documented Pauli ---- *)
Definition fb_fns : list (string * (pauli * (nat -> nat -> list (op nat)))) :=
  [("CX rec q", (PX, fun r q => g_cnot r q (Some (true, false)))); ("CY rec q", (PY, fun r q => g_cy r q (Some (true, false))));
   ("CZ rec q", (PZ, fun r q => g_cz r q (Some (true, false)))); ("CZ q rec", (PZ, fun r q => g_cz q r (Some (false, true))));
   ("XCZ q rec", (PX, fun r q => g_xcz q r (Some (false, true)))); ("YCZ q rec", (PY, fun r q => g_ycz q r (Some (false, true))))]%string.
Definition check_fb_at (row : string * (pauli * (nat -> nat -> list (op nat)))) : bool :=
  let '(_, (P, g)) := row in
  forallb (fun r : bool =>
       forallb unitary_op1 (map (resolve_op r) (g 7%nat 0%nat))
       && has_phase clifford_phases (mat 1 (map (resolve_op r) (g 7%nat 0%nat))) (m2_cols (if r then pauli_m P else mI))) [false; true].
Lemma fb_at_ok : forallb check_fb_at fb_fns = true. Proof. vm_compute. reflexivity. Qed.
Definition fb_row := (string * (pauli * (nat -> nat -> list (op nat))))%type.
Lemma fb_natural : Forall (fun row : fb_row => forall r q b, map (resolve_op b) (snd (snd row) r q) = map (op_map (fun _ => q)) (map (resolve_op b) (snd (snd row) 7%nat 0%nat))) fb_fns.
Proof. repeat constructor; intros r q b; destruct b; reflexivity. Qed.
Lemma fb_wf : Forall (fun row : fb_row => forall r q n, (q < n)%nat -> forallb (wf_op n) (snd (snd row) r q) = true) fb_fns.
Proof.
  unfold fb_fns. repeat (apply Forall_cons; [intros r q n H; apply Nat.ltb_lt in H; cbn -[Nat.ltb]; rewrite ?H; reflexivity|]). apply Forall_nil.
Qed.
Lemma fb_ufb : Forall (fun row : fb_row => forall r q, forallb (ufb_op r) (snd (snd row) r q) = true) fb_fns.
Proof. repeat constructor; intros r q; cbn; rewrite ?Nat.eqb_refl; reflexivity. Qed.

Section KFb.
  Variable R : Type.
  Variables (rO rI : R) (radd rmul rsub : R -> R -> R) (ropp : R -> R).
  Variable Rth : ring_theory rO rI radd rmul rsub ropp eq.
  Add Ring RringKF : Rth.
  Variable E : Qc -> R.
  Hypothesis E_add : forall a b, E (a + b)%Qc = rmul (E a) (E b).
  Hypothesis E_0 : E 0%Qc = rI.
  Hypothesis E_1 : E 1%Qc = ropp rI.
  Variable half : R.
  Hypothesis half_2 : radd half half = rI.
  Variables ta tb tc : Qc.
  Notation ev := (eval R rO rI radd rmul ropp E half ta tb tc).
  Notation xv := (expo_val ta tb tc).
  Notation state := (Amp.state R).
  Notation aapp1 := (Amp.app1 R radd rmul).
  Notation scale := (Amp.scale R rmul).
  Notation m2f_of := (m2f_of R rO rI radd rmul ropp E half ta tb tc).
  Notation kst := (kst R).
  Notation kstep := (kstep R rO rI radd rmul ropp E half ta tb tc).
  Notation krun := (krun R rO rI radd rmul ropp E half ta tb tc).
  Notation kensure := (kensure R rO rI radd rmul ropp E half ta tb tc).
  Notation kfinal := (kfinal R rmul).
  Notation skel_eq := (skel_eq R).
  Notation kinv := (kinv R).
  Notation uM := (uM R rO rI radd rmul ropp E half ta tb tc).
  Notation sq2 := (sq2 R rO rI radd rmul ropp E half ta tb tc).
  Notation U := (U R rO rI radd rmul ropp E half ta tb tc).
  Infix "+" := radd.
  Infix "*" := rmul.
  Let psound := peq_sound R rO rI radd rmul rsub ropp Rth E E_add E_0 E_1 half half_2 ta tb tc.

  (* spiders with phase 0 / 1 are the identity / the Pauli of their colour *)
  Lemma m2f_ext (A B : m2) : (let '(a00, a01, a10, a11) := A in let '(b00, b01, b10, b11) := B in
      peq a00 b00 && peq a01 b01 && peq a10 b10 && peq a11 b11) = true -> m2f_of A = m2f_of B.
  Proof.
    destruct A as [[[a00 a01] a10] a11], B as [[[b00 b01] b10] b11]. rewrite !andb_true_iff. intros [[[H0 H1] H2] H3].
    apply functional_extensionality; intro r. apply functional_extensionality; intro c. unfold CircuitProofs.m2f_of.
    destruct r, c; apply psound; assumption.
  Qed.
  Lemma spider_x1 : m2f_of (mXph (e_bit true)) = m2f_of mX. Proof. apply m2f_ext. vm_compute. reflexivity. Qed.
  Lemma spider_x0 : m2f_of (mXph (e_bit false)) = m2f_of mI. Proof. apply m2f_ext. vm_compute. reflexivity. Qed.
  Lemma spider_z1 : m2f_of (mZph (e_bit true)) = m2f_of mZ. Proof. apply m2f_ext. vm_compute. reflexivity. Qed.
  Lemma spider_z0 : m2f_of (mZph (e_bit false)) = m2f_of mI. Proof. apply m2f_ext. vm_compute. reflexivity. Qed.
  Lemma m2f_mI : m2f_of mI = id2 R rO rI.
  Proof.
    apply functional_extensionality; intro r. apply functional_extensionality; intro c. unfold CircuitProofs.m2f_of, mI, CircuitProofs.id2, Amp.delta.
    destruct r, c; cbn [Bool.eqb];
      first [apply (eval_p1 R rO rI radd rmul rsub ropp Rth E E_add E_0 E_1 half half_2 ta tb tc) | apply (eval_p0 R rO rI radd rmul rsub ropp Rth E E_add E_0 E_1 half half_2 ta tb tc)].
  Qed.
  Lemma app1_mI q psi : aapp1 (m2f_of mI) q psi = psi.
  Proof. rewrite m2f_mI. apply (app1_id R rO rI radd rmul rsub ropp Rth). Qed.

  Lemma kensure_idem t q : kex R t q = true -> kensure t q = t.
  Proof. intro H. unfold KrausSem.kensure. rewrite H. reflexivity. Qed.
  Definition same_amp (t t' : kst) : Prop :=
    kk R t = kk R t' /\ kpsi R t = kpsi R t' /\ kex R t = kex R t' /\ krecq R t = krecq R t' /\ knrec R t = knrec R t'.

  Lemma kensure_same t t' q : same_amp t t' -> same_amp (kensure t q) (kensure t' q).
  Proof.
    intros (Hk & Hp & Hex & Hrq & Hnr). unfold KrausSem.kensure. rewrite Hex. destruct (kex R t' q); [repeat split; assumption|].
    unfold same_amp; cbn [kk kpsi kex krecq knrec ksetcol ksetex ksetk]. rewrite Hk, Hex. repeat split; assumption.
  Qed.
  Lemma unitary_same f b o t t' : unitary_op o = true -> same_amp t t' -> same_amp (kstep f b t o) (kstep f b t' o).
  Proof.
    intros Hu H.
    destruct o as [c q e | | q | is_cx a c cc | a c | q | | | e | k | | | | |]; try discriminate Hu; destruct f; cbn [KrausSem.kstep].
    all: try (destruct cc; [discriminate Hu|]).
    all: try (pose proof (kensure_same t t' q H) as (Hk & Hp & Hex & Hrq & Hnr); unfold same_amp; cbn [kk kpsi kex krecq knrec ksetcol ksetpsi]; rewrite ?Hk, ?Hp, ?Hex; repeat split; assumption).
    all: try (destruct H as (Hk & Hp & Hex & Hrq & Hnr); unfold same_amp; cbn [kk kpsi kex krecq knrec ksetk]; rewrite ?Hk; repeat split; assumption).
    all: pose proof (kensure_same _ _ c (kensure_same t t' a H)) as (Hk & Hp & Hex & Hrq & Hnr); unfold same_amp; cbn [kk kpsi kex krecq knrec ksetcol ksetpsi]; rewrite ?Hk, ?Hp, ?Hex; repeat split; assumption.
  Qed.
  Lemma unitary_keeps f b o t : unitary_op o = true -> krecq R (kstep f b t o) = krecq R t /\ knrec R (kstep f b t o) = knrec R t.
  Proof.
    intro Hu. assert (He : forall u q, krecq R (kensure u q) = krecq R u /\ knrec R (kensure u q) = knrec R u)
      by (intros u q; unfold KrausSem.kensure; destruct (kex R u q); split; reflexivity).
    destruct o as [c q e | | q | is_cx a c cc | a c | q | | | e | k | | | | |]; try discriminate Hu; destruct f; cbn [KrausSem.kstep];
      try (destruct cc; [discriminate Hu|]); cbn [krecq knrec ksetcol ksetpsi ksetk]; try apply He; try (split; reflexivity).
    all: destruct (He (kensure t a) c) as [A1 A2]; destruct (He t a) as [B1 B2]; rewrite A1, A2, B1, B2; split; reflexivity.
  Qed.

  (* the feedback primitive = the spider of its colour with phase (record bit) *)
  Lemma fb_same f b o is_cx ridx tgt t t' : fb_view o = Some (is_cx, ridx, tgt) -> same_amp t t' ->
    kex R t (nth ridx (krecq R t) 0%nat) = true ->
    same_amp (kstep f b t o) (kstep f b t' (OSpider (if is_cx then CXc else CZc) tgt (e_bit (bit (brec b) ridx)))) /\
    krecq R (kstep f b t o) = krecq R t.
  Proof.
    intros Hv H Hcq. destruct o as [| | | x ctl tg cc | | | | | | | | | | |]; try discriminate Hv. destruct cc as [[c0 c1]|]; [|discriminate Hv].
    cbn [fb_view] in Hv.
    assert (G : forall t0 t0' : kst, same_amp t0 t0' -> kex R t0 (nth ridx (krecq R t0) 0%nat) = true ->
      let u := kensure (kensure t0 (nth ridx (krecq R t0) 0%nat)) tgt in
      same_amp (ksetcol R (ksetcol R (if bit (brec b) ridx then ksetpsi R u (aapp1 (m2f_of (if is_cx then mX else mZ)) tgt (kpsi R u)) else u) (nth ridx (krecq R t0) 0%nat) CZc) tgt (if is_cx then CXc else CZc))
               (ksetcol R (ksetpsi R (kensure t0' tgt) (aapp1 (m2f_of (match (if is_cx then CXc else CZc) with CZc => mZph (e_bit (bit (brec b) ridx)) | CXc => mXph (e_bit (bit (brec b) ridx)) end)) tgt (kpsi R (kensure t0' tgt)))) tgt (if is_cx then CXc else CZc))
      /\ krecq R (ksetcol R (ksetcol R (if bit (brec b) ridx then ksetpsi R u (aapp1 (m2f_of (if is_cx then mX else mZ)) tgt (kpsi R u)) else u) (nth ridx (krecq R t0) 0%nat) CZc) tgt (if is_cx then CXc else CZc)) = krecq R t0).
    { intros t0 t0' H0 Hc u. subst u. rewrite (kensure_idem t0 _ Hc).
      pose proof (kensure_same t0 t0' tgt H0) as (Hk & Hp & Hex & Hrq & Hnr).
      assert (Hq : krecq R (kensure t0 tgt) = krecq R t0) by (unfold KrausSem.kensure; destruct (kex R t0 tgt); reflexivity).
      destruct (bit (brec b) ridx), is_cx; unfold same_amp; cbn [kk kpsi kex krecq knrec ksetcol ksetpsi];
        rewrite ?spider_x1, ?spider_x0, ?spider_z1, ?spider_z0, ?app1_mI, ?Hk, ?Hp, ?Hex; repeat split; assumption. }
    destruct x, c0, c1; cbn [andb negb] in Hv; try discriminate Hv; injection Hv as <- <- <-; destruct f; cbn [KrausSem.kstep andb negb]; apply G; assumption.
  Qed.

  Lemma resolve_unitary ridx r o : ufb_op ridx o = true -> unitary_op (resolve_op r o) = true.
  Proof. unfold ufb_op, resolve_op. destruct (fb_view o) as [[[x i] tg]|]; [reflexivity | auto]. Qed.

  (* a program of unitary primitives and feedback primitives on record ridx = its resolution at the value of that bit *)
  Theorem krun_resolve b ridx ops : forallb (ufb_op ridx) ops = true -> forall t t', same_amp t t' -> kinv t -> (ridx < List.length (krecq R t))%nat ->
    same_amp (krun b ops t) (krun b (map (resolve_op (bit (brec b) ridx)) ops) t').
  Proof.
    unfold KrausSem.krun. induction ops as [|o ops IH]; intros Hu t t' H Hi Hr; cbn [map fold_left forallb] in *; [exact H|].
    apply andb_true_iff in Hu. destruct Hu as [H1 H2].
    pose proof (kinv_step R rO rI radd rmul ropp E half ta tb tc b 8 o t Hi) as Hi'.
    unfold ufb_op in H1. unfold resolve_op. destruct (fb_view o) as [[[x i] tg]|] eqn:Ev.
    - apply Nat.eqb_eq in H1. subst i.
      assert (Hcq : kex R t (nth ridx (krecq R t) 0%nat) = true).
      { destruct Hi as [_ Hf]. rewrite Forall_forall in Hf. apply Hf. apply nth_In. exact Hr. }
      destruct (fb_same 8 b o x ridx tg t t' Ev H Hcq) as [Hs Hq].
      apply IH; [exact H2 | exact Hs | exact Hi' | rewrite Hq; exact Hr].
    - destruct (unitary_keeps 8 b o t H1) as [Hq _].
      apply IH; [exact H2 | apply unitary_same; assumption | exact Hi' | rewrite Hq; exact Hr].
  Qed.

  (* the collected sqrt2 factor does not depend on which value the bit has *)
  Lemma uM_resolve ops : forall t t', skel_eq t t' -> uM t (map (resolve_op true) ops) = uM t' (map (resolve_op false) ops).
  Proof.
    induction ops as [|o ops IH]; intros t t' H; cbn [map KrausGates.uM]; [reflexivity|].
    pose proof H as H'. destruct H' as (Kex & _).
    assert (Hm : umult R rO rI radd rmul ropp E half ta tb tc (kex R t) (resolve_op true o) = umult R rO rI radd rmul ropp E half ta tb tc (kex R t') (resolve_op false o)).
    { rewrite Kex. unfold resolve_op. destruct (fb_view o) as [[[x i] tg]|]; reflexivity. }
    rewrite Hm. f_equal. apply IH. unfold resolve_op. destruct (fb_view o) as [[[x i] tg]|].
    - cbn [KrausSem.kstep]. apply skel_setcol, skel_setpsi, skel_ensure. exact H.
    - apply (skel_step R rO rI radd rmul ropp E half ta tb tc). exact H.
  Qed.

  Lemma m2f_doc_cols m : m2f_doc R rO rI radd rmul ropp E half ta tb tc (m2_cols m) = m2f_of m.
  Proof.
    apply functional_extensionality; intro r. apply functional_extensionality; intro c. unfold CircuitProofs.m2f_doc.
    destruct m as [[[m00 m01] m10] m11]. destruct r, c; reflexivity.
  Qed.

  (* ---- a feedback instruction anywhere ---- *)
  Theorem fb_anywhere name P g : In (name, (P, g)) fb_fns -> forall (r q : nat) (sk : kst), kinv sk -> (r < knrec R sk)%nat ->
    exists C, sq2 C /\ forall b t, skel_eq t sk -> exists e : Qc,
      kfinal (krun b (g r q) t) = scale (E e * C) (if bit (brec b) r then aapp1 (m2f_of (pauli_m P)) q (kfinal t) else kfinal t).
  Proof.
    intros Hin r q sk Hinv Hr.
    pose proof fb_at_ok as Hck. rewrite forallb_forall in Hck. specialize (Hck _ Hin). unfold check_fb_at in Hck. cbn [forallb] in Hck.
    rewrite !andb_true_iff in Hck. destruct Hck as [[Hu0 Hp0] [[Hu1 Hp1] _]].
    pose proof fb_natural as Hn. rewrite Forall_forall in Hn. specialize (Hn _ Hin r q). cbn [snd] in Hn.
    pose proof fb_ufb as Hf. rewrite Forall_forall in Hf. specialize (Hf _ Hin r q). cbn [snd] in Hf.
    exists (uM sk (map (resolve_op false) (g r q))). split; [apply sq2_uM|]. intros b t Hs.
    pose proof Hs as Hs'. destruct Hs' as (Kex & Kcol & Knr & Kns & Kne & Knc & Krq & Kok).
    assert (Hit : kinv t) by (destruct Hinv as [I1 I2]; split; [rewrite Krq, Knr; exact I1 | rewrite Krq, Kex; exact I2]).
    assert (Hrt : (r < List.length (krecq R t))%nat) by (destruct Hit as [I1 _]; rewrite I1, Knr; exact Hr).
    pose proof (krun_resolve b r (g r q) Hf t t (conj eq_refl (conj eq_refl (conj eq_refl (conj eq_refl eq_refl)))) Hit Hrt) as (Sk & Sp & _).
    set (bv := bit (brec b) r) in *.
    assert (Hun : forallb unitary_op (map (resolve_op bv) (g r q)) = true).
    { clear -Hf. induction (g r q) as [|o l IH]; cbn [map forallb] in *; [reflexivity|]. apply andb_true_iff in Hf. destruct Hf as [F1 F2].
      rewrite (resolve_unitary r bv o F1), (IH F2). reflexivity. }
    assert (HuM : uM t (map (resolve_op bv) (g r q)) = uM sk (map (resolve_op false) (g r q))).
    { destruct bv; [apply uM_resolve; exact Hs | apply (uM_skel R rO rI radd rmul ropp E half ta tb tc); exact Hs]. }
    assert (Hfin : kfinal (krun b (g r q) t) = kfinal (krun b (map (resolve_op bv) (g r q)) t)) by (unfold KrausSem.kfinal; rewrite Sk, Sp; reflexivity).
    rewrite Hfin, (krun_unitary_final R rO rI radd rmul rsub ropp Rth E half ta tb tc b _ t Hun), HuM.
    rewrite (Hn bv).
    assert (Hprog : forall (rr : bool), forallb unitary_op1 (map (resolve_op rr) (g 7%nat 0%nat)) = true ->
       has_phase clifford_phases (mat 1 (map (resolve_op rr) (g 7%nat 0%nat))) (m2_cols (if rr then pauli_m P else mI)) = true ->
       exists e, forall psi, U (map (op_map (fun _ => q)) (map (resolve_op rr) (g 7%nat 0%nat))) psi = scale (E (xv e)) (aapp1 (m2f_of (if rr then pauli_m P else mI)) q psi)).
    { intros rr Hu Hp. destruct (has_phase_sound R rO rI radd rmul rsub ropp Rth E E_add E_0 E_1 half half_2 ta tb tc _ _ _ Hp) as (e & _ & Hprop).
      exists e. intro psi. unfold CircuitTheorem.U.
      rewrite (program_at_lane R rO rI radd rmul rsub ropp Rth E E_add E_0 E_1 half half_2 ta tb tc _ _ (E (xv e)) Hu Hprop q rI psi), m2f_doc_cols.
      f_equal. ring. }
    destruct bv.
    - destruct (Hprog true Hu1 Hp1) as (e & He). exists (xv e). rewrite He, (scale_scale R rO rI radd rmul rsub ropp Rth). f_equal. ring.
    - destruct (Hprog false Hu0 Hp0) as (e & He). exists (xv e). rewrite He, app1_mI, (scale_scale R rO rI radd rmul rsub ropp Rth). f_equal. ring.
  Qed.
End KFb.
