(* Gate programs inside the full interpreter: on the unitary fragment, kstep computes what the unitary interpreter
   asem (Proofs/CircuitProofs.v) computes, times one factor sqrt2 per lane created on the way; hence every gate of
   GATE_TABLE, anywhere in a circuit that also measures and resets, acts as its documented matrix. *)
From Coq Require Import ZArith QArith Qcanon List Bool String Lia Ring Ring_theory FunctionalExtensionality.
Import ListNotations.
Require Import TV.Base.EP TV.Base.EPSound TV.Base.Amp TV.Model.Lane TV.gen.Gen_instructions TV.gen.Gen_stim_gates
  TV.Model.GateCheck TV.Proofs.GateProofs TV.Proofs.CircuitProofs TV.Proofs.CircuitTheorem TV.Proofs.DenseBridge TV.Proofs.KrausSem.
Set Default Timeout 200.

Section KGates.
  Variable R : Type.
  Variables (rO rI : R) (radd rmul rsub : R -> R -> R) (ropp : R -> R).
  Variable Rth : ring_theory rO rI radd rmul rsub ropp eq.
  Add Ring RringKG : Rth.
  Variable E : Qc -> R.
  Hypothesis E_add : forall a b, E (a + b)%Qc = rmul (E a) (E b).
  Hypothesis E_0 : E 0%Qc = rI.
  Hypothesis E_1 : E 1%Qc = ropp rI.
  Variable half : R.
  Hypothesis half_2 : radd half half = rI.
  Variables ta tb tc : Qc.
  Notation ev := (eval R rO rI radd rmul ropp E half ta tb tc).
  Notation xv := (expo_val ta tb tc).
  Notation state := (Amp.state R).
  Notation scale := (Amp.scale R rmul).
  Notation kst := (kst R).
  Notation kstep := (kstep R rO rI radd rmul ropp E half ta tb tc).
  Notation krun := (krun R rO rI radd rmul ropp E half ta tb tc).
  Notation kensure := (kensure R rO rI radd rmul ropp E half ta tb tc).
  Notation kfinal := (kfinal R rmul).
  Notation astep := (astep R rO rI radd rmul ropp E half ta tb tc).
  Notation asem := (asem R rO rI radd rmul ropp E half ta tb tc).
  Notation U := (U R rO rI radd rmul ropp E half ta tb tc).
  Notation gapp_doc := (gapp_doc R rO rI radd rmul ropp E half ta tb tc).
  Notation skel_eq := (skel_eq R).
  Infix "+" := radd.
  Infix "*" := rmul.

  (* products of powers of sqrt2 *)
  Inductive sq2 : R -> Prop :=
  | sq2_one : sq2 rI
  | sq2_s : sq2 (ev psqrt2)
  | sq2_pow k : sq2 (ev (psqrt2pow k))
  | sq2_mul a b : sq2 a -> sq2 b -> sq2 (a * b).

  Definition emult (ex : nat -> bool) (q : nat) : R := if ex q then rI else ev psqrt2.
  Definition umult (ex : nat -> bool) (o : op nat) : R :=
    match o with
    | OSpider _ q _ | OH q | OI q => emult ex q
    | OSwap a c | OCxCz _ a c None => emult ex a * emult ex c
    | _ => rI
    end.
  Lemma sq2_emult ex q : sq2 (emult ex q).
  Proof. unfold emult. destruct (ex q); constructor. Qed.
  Lemma sq2_umult ex o : sq2 (umult ex o).
  Proof. destruct o; cbn [umult]; try apply sq2_emult; try constructor; try destruct cc; try constructor; apply sq2_emult. Qed.

  Lemma kensure_k t q : kk R (kensure t q) = emult (kex R t) q * kk R t /\ kpsi R (kensure t q) = kpsi R t.
  Proof. unfold KrausSem.kensure, emult. destruct (kex R t q); cbn [kk kpsi ksetcol ksetex ksetk]; split; try reflexivity; ring. Qed.
  Lemma kensure_ex_other t q q' : q' <> q -> kex R (kensure t q) q' = kex R t q'.
  Proof.
    intro H. unfold KrausSem.kensure. destruct (kex R t q) eqn:Eq; [reflexivity|]. cbn [kex ksetcol ksetex ksetk]. unfold fupd.
    destruct (Nat.eqb_spec q' q); [contradiction | reflexivity].
  Qed.

  Lemma kstep_unitary f b t o : unitary_op o = true ->
    kk R (kstep f b t o) = umult (kex R t) o * fst (astep (kk R t, kpsi R t) o) /\
    kpsi R (kstep f b t o) = snd (astep (kk R t, kpsi R t) o).
  Proof.
    intro Hu. destruct o as [c q e | | q | is_cx a c cc | a c | q | | | e | k | | | | |]; try discriminate Hu; destruct f; cbn [KrausSem.kstep CircuitProofs.astep umult fst snd].
    all: try (destruct (kensure_k t q) as [A1 A2]; cbn [kk kpsi ksetcol ksetpsi]; rewrite ?A1, ?A2; split; reflexivity).
    all: try (cbn [kk kpsi ksetk]; split; [ring | reflexivity]).
    all: try (destruct cc; [discriminate Hu|]; cbn [unitary_op] in Hu; apply negb_true_iff, Nat.eqb_neq in Hu).
    all: try (cbn [unitary_op] in Hu; apply negb_true_iff, Nat.eqb_neq in Hu).
    all: destruct (kensure_k t a) as [A1 A2]; destruct (kensure_k (kensure t a) c) as [B1 B2];
      cbn [kk kpsi ksetcol ksetpsi fst snd]; rewrite B1, B2, A1, A2; unfold emult; rewrite (kensure_ex_other t a c) by auto; split; try reflexivity; ring.
  Qed.

  (* the factor collected along a program: depends on the flags only *)
  Definition b00 : bits := mkB [] [] [].
  Fixpoint uM (t : kst) (ops : list (op nat)) : R :=
    match ops with [] => rI | o :: r => umult (kex R t) o * uM (kstep 8 b00 t o) r end.
  Lemma sq2_uM ops : forall t, sq2 (uM t ops).
  Proof. induction ops as [|o ops IH]; intro t; cbn [uM]; [constructor | apply sq2_mul; [apply sq2_umult | apply IH]]. Qed.
  Lemma uM_skel ops : forall t t', skel_eq t t' -> uM t ops = uM t' ops.
  Proof.
    induction ops as [|o ops IH]; intros t t' H; cbn [uM]; [reflexivity|].
    pose proof H as H'. destruct H' as (Kex & _). rewrite Kex.
    rewrite (IH _ _ (skel_step R rO rI radd rmul ropp E half ta tb tc b00 b00 8 o t t' H)). reflexivity.
  Qed.

  Theorem krun_unitary b ops : forallb unitary_op ops = true -> forall t,
    kk R (krun b ops t) = uM t ops * fst (asem ops (kk R t, kpsi R t)) /\ kpsi R (krun b ops t) = snd (asem ops (kk R t, kpsi R t)).
  Proof.
    unfold KrausSem.krun, CircuitProofs.asem. induction ops as [|o ops IH]; intros Hu t; cbn [fold_left uM forallb] in *.
    - cbn [fst snd]. split; [ring | reflexivity].
    - apply andb_true_iff in Hu. destruct Hu as [H1 H2].
      destruct (kstep_unitary 8 b t o H1) as [A1 A2]. destruct (IH H2 (kstep 8 b t o)) as [B1 B2].
      rewrite B1, B2, A1, A2.
      destruct (astep (kk R t, kpsi R t) o) as [k1 p1] eqn:Ea. cbn [fst snd].
      fold (asem ops (umult (kex R t) o * k1, p1)). fold (asem ops (k1, p1)).
      rewrite (asem_split R rO rI radd rmul rsub ropp Rth E half ta tb tc ops (umult (kex R t) o * k1) p1).
      rewrite (asem_split R rO rI radd rmul rsub ropp Rth E half ta tb tc ops k1 p1). cbn [fst snd].
      rewrite (uM_skel ops (kstep 8 b00 t o) (kstep 8 b t o)) by (apply (skel_step R rO rI radd rmul ropp E half ta tb tc); apply skel_refl).
      split; [ring | reflexivity].
  Qed.

  Theorem krun_unitary_final b ops t : forallb unitary_op ops = true -> kfinal (krun b ops t) = scale (uM t ops) (U ops (kfinal t)).
  Proof.
    intro Hu. destruct (krun_unitary b ops Hu t) as [A1 A2]. unfold KrausSem.kfinal. rewrite A1, A2.
    rewrite (U_scale R rO rI radd rmul rsub ropp Rth E half ta tb tc). unfold CircuitTheorem.U, CircuitProofs.final.
    rewrite (asem_split R rO rI radd rmul rsub ropp Rth E half ta tb tc ops (kk R t) (kpsi R t)). cbn [fst snd].
    rewrite !(scale_scale R rO rI radd rmul rsub ropp Rth). f_equal. ring.
  Qed.

  (* the programs drawn for gate applications lie in the unitary fragment *)
  Lemma unitary_at_lane a o : unitary_op1 o = true -> unitary_op (op_map (fun _ : nat => a) o) = true.
  Proof. destruct o; cbn [unitary_op1]; intro H; try discriminate H; reflexivity. Qed.
  Lemma unitary_at_place a c o : a <> c -> unitary_op o = true -> lanes01 o = true -> unitary_op (op_map (place a c) o) = true.
  Proof.
    intros Hac Hu Hl. destruct o as [? q ? | | q | is_cx x y cc | x y | q | | | | | | | | |]; cbn [unitary_op] in *; try discriminate Hu; cbn [op_map unitary_op]; try reflexivity.
    - destruct cc; [discriminate Hu|]. cbn [lanes01] in Hl. apply andb_true_iff in Hl. destruct Hl as [L1 L2]. apply Nat.ltb_lt in L1, L2.
      apply negb_true_iff, Nat.eqb_neq in Hu. apply negb_true_iff, Nat.eqb_neq. unfold place.
      destruct x as [|[|x]], y as [|[|y]]; cbn [Nat.eqb]; try lia; auto.
    - cbn [lanes01] in Hl. apply andb_true_iff in Hl. destruct Hl as [L1 L2]. apply Nat.ltb_lt in L1, L2.
      apply negb_true_iff, Nat.eqb_neq in Hu. apply negb_true_iff, Nat.eqb_neq. unfold place.
      destruct x as [|[|x]], y as [|[|y]]; cbn [Nat.eqb]; try lia; auto.
  Qed.
  Lemma forallb_map_imp {A B} (p : A -> bool) (p' : B -> bool) (f : A -> B) l :
    (forall x, p x = true -> p' (f x) = true) -> forallb p l = true -> forallb p' (map f l) = true.
  Proof.
    intros H. induction l as [|x l IH]; cbn [forallb map]; [reflexivity|]. intro Hl. apply andb_true_iff in Hl. destruct Hl as [H1 H2].
    rewrite (H x H1), (IH H2). reflexivity.
  Qed.
  Lemma gapp_unitary x ops : gapp_ops x = Some ops -> forallb unitary_op ops = true.
  Proof.
    destruct x as [name a | name a c]; cbn [gapp_ops].
    - destruct (assoc name gate_table) as [[fn [|[|ar]]]|] eqn:Ha; try discriminate.
      destruct (doc_of name) as [[[|[|n]] D]|] eqn:Hd; try discriminate.
      destruct (assoc fn unitary1) as [g|] eqn:Hg; [|discriminate]. intros [= <-].
      pose proof rows_fragment_ok as Hf. rewrite forallb_forall in Hf. specialize (Hf _ (assoc_in _ _ _ Ha)). unfold row_fragment_ok in Hf. rewrite Hd, Hg in Hf.
      pose proof unitary1_natural as Hn. rewrite Forall_forall in Hn. specialize (Hn _ (assoc_in _ _ _ Hg) a). cbn [snd] in Hn. rewrite Hn.
      apply (forallb_map_imp unitary_op1 unitary_op); [apply unitary_at_lane | exact Hf].
    - destruct (Nat.eqb a c) eqn:Eac; [discriminate|]. apply Nat.eqb_neq in Eac.
      destruct (assoc name gate_table) as [[fn [|[|[|ar]]]]|] eqn:Ha; try discriminate.
      destruct (doc_of name) as [[[|[|[|n]]] D]|] eqn:Hd; try discriminate.
      destruct (assoc fn unitary2) as [g|] eqn:Hg; [|discriminate]. intros [= <-].
      pose proof rows_fragment_ok as Hf. rewrite forallb_forall in Hf. specialize (Hf _ (assoc_in _ _ _ Ha)). unfold row_fragment_ok in Hf. rewrite Hd, Hg in Hf.
      apply andb_true_iff in Hf. destruct Hf as [Hu Hl].
      pose proof unitary2_natural as Hn. rewrite Forall_forall in Hn. specialize (Hn _ (assoc_in _ _ _ Hg) a c). cbn [snd] in Hn. rewrite Hn.
      clear Hn. induction (g 0%nat 1%nat) as [|o l IH]; cbn [map forallb] in *; [reflexivity|].
      apply andb_true_iff in Hu, Hl. destruct Hu as [U1 U2], Hl as [L1 L2].
      rewrite (unitary_at_place a c o Eac U1 L1), (IH U2 L2). reflexivity.
  Qed.

  (* a gate application anywhere in a circuit with collapses *)
  Theorem gate_in_context x ops : gapp_ops x = Some ops ->
    exists e, forall b t, kfinal (krun b ops t) = scale (E (xv e) * uM t ops) (gapp_doc x (kfinal t)).
  Proof.
    intro Hx. destruct (gapp_sound R rO rI radd rmul rsub ropp Rth E E_add E_0 E_1 half half_2 ta tb tc x ops Hx) as (e & He).
    exists e. intros b t. rewrite (krun_unitary_final b ops t (gapp_unitary x ops Hx)), He.
    rewrite (scale_scale R rO rI radd rmul rsub ropp Rth). f_equal. ring.
  Qed.
End KGates.
