(* Dense 2^n vectors over EP (Model/Lane.v) <-> amplitude functions (Base/Amp.v), for EVERY number of lanes n:
   every dense primitive of the lane interpreter is the corresponding operator on amplitude functions.
   st_of n v is the amplitude function of the dense vector v (lane q = bit q of the index). *)
From Coq Require Import ZArith QArith Qcanon List Bool String Lia Ring Ring_theory FunctionalExtensionality.
Import ListNotations.
Require Import TV.Base.EP TV.Base.EPSound TV.Base.Amp TV.Model.Lane TV.Proofs.BitIdx TV.Proofs.CircuitProofs.
Set Default Timeout 120.

Section Dense.
  Variable R : Type.
  Variables (rO rI : R) (radd rmul rsub : R -> R -> R) (ropp : R -> R).
  Variable Rth : ring_theory rO rI radd rmul rsub ropp eq.
  Add Ring RringDense : Rth.
  Variable E : Qc -> R.
  Hypothesis E_add : forall a b, E (a + b)%Qc = rmul (E a) (E b).
  Hypothesis E_0 : E 0%Qc = rI.
  Hypothesis E_1 : E 1%Qc = ropp rI.
  Variable half : R.
  Hypothesis half_2 : radd half half = rI.
  Variables ta tb tc : Qc.
  Notation ev := (eval R rO rI radd rmul ropp E half ta tb tc).
  Notation state := (Amp.state R).
  Notation aapp1 := (Amp.app1 R radd rmul).
  Notation aapp2 := (Amp.app2 R radd rmul).
  Notation scale := (Amp.scale R rmul).
  Notation m2f := (Amp.m2f R).
  Notation delta := (Amp.delta R rO rI).
  Notation m2f_of := (m2f_of R rO rI radd rmul ropp E half ta tb tc).
  Notation cx4 := (cx4 R rO rI rmul).
  Notation cz4 := (cz4 R rO rI rmul ropp).
  Notation sw4 := (sw4 R rO rI rmul).
  Infix "+" := radd.
  Infix "*" := rmul.
  Let ev_add := eval_padd R rO rI radd rmul rsub ropp Rth E E_add E_0 E_1 half half_2 ta tb tc.
  Let ev_mul := eval_pmul R rO rI radd rmul rsub ropp Rth E E_add E_0 E_1 half half_2 ta tb tc.
  Let ev_neg := eval_pneg R rO rI radd rmul rsub ropp Rth E half ta tb tc.
  Let ev_0 := eval_p0 R rO rI radd rmul rsub ropp Rth E E_add E_0 E_1 half half_2 ta tb tc.
  Let ev_1 := eval_p1 R rO rI radd rmul rsub ropp Rth E E_add E_0 E_1 half half_2 ta tb tc.

  Definition st_of (n : nat) (v : vec) : state := fun x => ev (vget v (idx n x)).

  Lemma vget_tab m f i : (i < m)%nat -> vget (tabulate m f) i = f i.
  Proof.
    intro H. unfold vget, tabulate.
    rewrite (nth_indep _ p0 (f 0%nat)) by (rewrite map_length, seq_length; exact H).
    rewrite map_nth, seq_nth by exact H. reflexivity.
  Qed.
  Lemma tab_length m f : List.length (tabulate m f) = m.
  Proof. unfold tabulate. rewrite map_length, seq_length. reflexivity. Qed.
  Lemma st_tab n f x : st_of n (tabulate (dim n) f) x = ev (f (idx n x)).
  Proof. unfold st_of. rewrite vget_tab by apply idx_lt. reflexivity. Qed.

  (* ---- one-lane operators ---- *)
  Lemma st_app1 n q m v : (q < n)%nat -> st_of n (Lane.app1 n q m v) = aapp1 (m2f_of m) q (st_of n v).
  Proof.
    intro Hq. apply functional_extensionality; intro x.
    destruct m as [[[m00 m01] m10] m11]. unfold Lane.app1. rewrite st_tab.
    rewrite (getbit_idx n x q Hq), !(setbit_idx n x q _ Hq).
    unfold Amp.app1, Amp.sum2, st_of, CircuitProofs.m2f_of.
    destruct (x q); rewrite ev_add, !ev_mul; reflexivity.
  Qed.
  Definition projf (r : bool) : m2f := fun a c => delta a c * delta a r.
  Lemma st_proj n q r v : (q < n)%nat -> st_of n (app_proj n q r v) = aapp1 (projf r) q (st_of n v).
  Proof.
    intro Hq. apply functional_extensionality; intro x.
    unfold app_proj. rewrite st_tab, (getbit_idx n x q Hq).
    unfold Amp.app1, Amp.sum2, projf, Amp.delta.
    assert (Hx : Amp.upd x q (x q) = x) by apply upd_id.
    destruct (x q) eqn:Exq, r; cbn [Bool.eqb]; rewrite ?ev_0; try rewrite Hx; unfold st_of; ring.
  Qed.
  Definition cutf (f0 f1 : ep) : m2f := fun a c => if a then rO else if c then ev f1 else ev f0.
  Lemma st_cut n q f0 f1 v : (q < n)%nat -> st_of n (app_cut n q f0 f1 v) = aapp1 (cutf f0 f1) q (st_of n v).
  Proof.
    intro Hq. apply functional_extensionality; intro x.
    unfold app_cut. rewrite st_tab, (getbit_idx n x q Hq), !(setbit_idx n x q _ Hq).
    unfold Amp.app1, Amp.sum2, cutf, st_of.
    destruct (x q); [rewrite ev_0; ring | rewrite ev_add, !ev_mul; reflexivity].
  Qed.

  (* ---- two-lane operators ---- *)
  Lemma st_cx n c t v : (c < n)%nat -> (t < n)%nat -> c <> t -> st_of n (app_cx n c t v) = aapp2 cx4 c t (st_of n v).
  Proof.
    intros Hc Ht Hct. apply functional_extensionality; intro x.
    unfold app_cx. rewrite st_tab, (getbit_idx n x c Hc), (getbit_idx n x t Ht), (setbit_idx n x t _ Ht).
    unfold Amp.app2, Amp.sum2, CircuitProofs.cx4, Amp.delta, st_of.
    assert (Hx : forall b, Amp.upd (Amp.upd x c (x c)) t b = Amp.upd x t b) by (intro b; rewrite upd_id; reflexivity).
    assert (Hy : Amp.upd x t (x t) = x) by apply upd_id.
    destruct (x c) eqn:Exc, (x t) eqn:Ext; cbn [Bool.eqb xorb negb]; rewrite ?Hx, ?Hy; ring.
  Qed.
  Lemma st_cz n c t v : (c < n)%nat -> (t < n)%nat -> c <> t -> st_of n (app_cz n c t v) = aapp2 cz4 c t (st_of n v).
  Proof.
    intros Hc Ht Hct. apply functional_extensionality; intro x.
    unfold app_cz. rewrite st_tab, (getbit_idx n x c Hc), (getbit_idx n x t Ht).
    unfold Amp.app2, Amp.sum2, CircuitProofs.cz4, Amp.delta, st_of.
    assert (Hx : Amp.upd (Amp.upd x c (x c)) t (x t) = x) by (rewrite upd_id; apply upd_id).
    destruct (x c) eqn:Exc, (x t) eqn:Ext; cbn [Bool.eqb andb]; rewrite ?ev_neg; rewrite ?Hx; ring.
  Qed.
  Lemma st_swap n a b v : (a < n)%nat -> (b < n)%nat -> a <> b -> st_of n (app_swap n a b v) = aapp2 sw4 a b (st_of n v).
  Proof.
    intros Ha Hb Hab. apply functional_extensionality; intro x.
    unfold app_swap. rewrite st_tab, (getbit_idx n x a Ha), (getbit_idx n x b Hb), (setbit_idx n x a _ Ha), (setbit_idx n _ b _ Hb).
    unfold Amp.app2, Amp.sum2, CircuitProofs.sw4, Amp.delta, st_of.
    destruct (x a) eqn:Exa, (x b) eqn:Exb; cbn [Bool.eqb]; ring.
  Qed.
  Lemma st_scale n s v : st_of n (vscale s v) = scale (ev s) (st_of n v).
  Proof.
    apply functional_extensionality; intro x. unfold st_of, vscale, Amp.scale, vget.
    destruct (Nat.ltb_spec (idx n x) (List.length v)) as [Hl|Hl].
    - rewrite (nth_indep _ p0 (pmul s p0)) by (rewrite map_length; exact Hl). rewrite map_nth. apply ev_mul.
    - rewrite !nth_overflow by (rewrite ?map_length; exact Hl). rewrite ev_0. ring.
  Qed.
End Dense.
