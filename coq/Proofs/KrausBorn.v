(* The Born weight.  In a ring with a conjugation (conj E(q) = E(-q), conj half = half), the squared norm of the final dense
   vector of the lane program -- the quantity the doubled diagram (g ; g-adjoint) computes for one assignment of record,
   silent and error bits -- is |C|^2 times the squared norm of the ordered product of the documented Kraus operators applied
   to |0...0>, with C the bit-independent product of powers of sqrt2 of the composition theorem.  Summed over the silent bits
   this is, up to the one constant |C|^2, the quantum-mechanical probability of the record. *)
From Coq Require Import ZArith QArith Qcanon List Bool String Lia Ring Ring_theory FunctionalExtensionality.
Import ListNotations.
Require Import TV.Base.EP TV.Base.EPSound TV.Base.Amp TV.Model.Lane TV.Proofs.BitIdx TV.Proofs.CircuitProofs TV.Proofs.CircuitTheorem
  TV.Proofs.DenseBridge TV.Proofs.KrausSem TV.Proofs.KrausGates TV.Proofs.KrausCircuit.
Set Default Timeout 200.

Lemma map_nth_seq {A} (v : list A) d : map (fun i => nth i v d) (seq 0 (List.length v)) = v.
Proof.
  induction v as [|a v IH]; [reflexivity|]. cbn [List.length seq map nth]. f_equal.
  rewrite <- seq_shift, map_map. cbn [nth]. exact IH.
Qed.

(* the dense vector keeps its length 2^n *)
Lemma tab_len m f : List.length (tabulate m f) = m.
Proof. unfold tabulate. rewrite map_length, seq_length. reflexivity. Qed.
Lemma app1_len n q m v : List.length (Lane.app1 n q m v) = dim n.
Proof. destruct m as [[[? ?] ?] ?]. apply tab_len. Qed.
Definition len_ok (n : nat) (s : lstate) : Prop := List.length (amp s) = dim n.
Lemma len_ensure n s q : len_ok n s -> len_ok n (ensure s q).
Proof. unfold len_ok, ensure. destruct (nth q (exists_ s) false); intro H; exact H. Qed.
Lemma len_do_meas n b s q silent : len_ok n s -> len_ok n (do_meas n b s q silent).
Proof. intros _. unfold len_ok, do_meas. destruct silent; cbn [amp setcol setscal setamp]; unfold app_proj; apply tab_len. Qed.
Lemma len_do_err n b s c q idx : len_ok n s -> len_ok n (do_err n b s c q idx).
Proof.
  intro H. unfold len_ok, do_err. destruct (bit (berr b) idx); cbn [amp setcol setamp].
  - apply app1_len.
  - apply len_ensure. exact H.
Qed.
Lemma len_fold n b f : (forall o s, len_ok n s -> len_ok n (step f n b s o)) -> forall body s, len_ok n s -> len_ok n (fold_left (step f n b) body s).
Proof. intros IH body. induction body as [|o body IHb]; intros s H; cbn [fold_left]; [exact H | apply IHb, IH, H]. Qed.
Lemma len_step n b fuel : forall o s, len_ok n s -> len_ok n (step fuel n b s o).
Proof.
  induction fuel as [|f IHf]; intros o s H.
  all: destruct o as [c q e | c q rel corr | q | is_cx ctl tgt cc | a c | q | q p silent restore | q trace | e | k | ch | k | p | q body |]; cbn [step].
  all: try (unfold len_ok; cbn [amp setcol setamp setscal setex fail]; first [apply app1_len | unfold app_swap; apply tab_len]).
  all: try (apply len_do_err; exact H).
  all: try (apply len_ensure; exact H).
  all: try exact H.
  all: try (unfold finalize_corr; destruct (ncorr s); exact H).
  all: try match goal with |- context [Qcompare 0 ?pp] =>
    destruct (Qcompare 0 pp); try (apply len_do_meas; exact H);
    match goal with |- len_ok _ (mkL (amp ?u) _ _ _ _ _ _ _ _ _ _ _) => assert (Hu : len_ok n u) by (destruct restore; [apply len_do_err|]; apply len_do_meas, len_do_err; exact H); exact Hu end end.
  all: try match goal with |- context [app_cut] =>
    destruct (negb (nth q (exists_ s) false)); [exact H|];
    match goal with |- len_ok _ (setcol (match nth _ (colour_ ?u) _ with _ => _ end) _ _) => destruct (nth q (colour_ u) CXc); unfold len_ok; cbn [amp setcol setamp]; unfold app_cut; apply tab_len end end.
  all: try match goal with |- context [fold_left] => destruct (nth q (exists_ s) false); [apply (len_fold n b f IHf); exact H | exact H] end.
  all: destruct cc as [[c0 c1]|]; [|unfold len_ok; cbn [amp setcol setamp]; destruct is_cx; unfold app_cx, app_cz; apply tab_len].
  all: destruct c0, c1, is_cx; cbn [andb negb]; try exact H;
    try (unfold len_ok; cbn [amp setcol setamp]; unfold app_cx, app_cz; apply tab_len);
    (unfold len_ok; cbn [amp setcol]; match goal with |- context [bit (brec ?bb) ?i] => destruct (bit (brec bb) i) end;
     [cbn [amp setamp]; apply app1_len | apply len_ensure, len_ensure; exact H]).
Qed.
Lemma len_run n b ops s : len_ok n s -> len_ok n (run n b ops s).
Proof. intro H. unfold run. apply (len_fold n b 8 (len_step n b 8)). exact H. Qed.

Section KBorn.
  Variable R : Type.
  Variables (rO rI : R) (radd rmul rsub : R -> R -> R) (ropp : R -> R).
  Variable Rth : ring_theory rO rI radd rmul rsub ropp eq.
  Add Ring RringKB : Rth.
  Variable E : Qc -> R.
  Hypothesis E_add : forall a b, E (a + b)%Qc = rmul (E a) (E b).
  Hypothesis E_0 : E 0%Qc = rI.
  Hypothesis E_1 : E 1%Qc = ropp rI.
  Variable half : R.
  Hypothesis half_2 : radd half half = rI.
  Variable conj : R -> R.
  Hypothesis conj_add : forall a b, conj (radd a b) = radd (conj a) (conj b).
  Hypothesis conj_mul : forall a b, conj (rmul a b) = rmul (conj a) (conj b).
  Hypothesis conj_1 : conj rI = rI.
  Hypothesis conj_E : forall q, conj (E q) = E (- q)%Qc.
  Hypothesis conj_half : conj half = half.
  Variables ta tb tc : Qc.
  Notation ev := (eval R rO rI radd rmul ropp E half ta tb tc).
  Notation st_of := (st_of R rO rI radd rmul ropp E half ta tb tc).
  Notation scale := (Amp.scale R rmul).
  Notation sq2 := (sq2 R rO rI radd rmul ropp E half ta tb tc).
  Notation cspec := (cspec R rO rI radd rmul ropp E half ta tb tc).
  Notation ccircuit_ok := (ccircuit_ok R rO rI radd rmul ropp E half ta tb tc).
  Infix "+" := radd.
  Infix "*" := rmul.
  Let ev_add := eval_padd R rO rI radd rmul rsub ropp Rth E E_add E_0 E_1 half half_2 ta tb tc.
  Let ev_mul := eval_pmul R rO rI radd rmul rsub ropp Rth E E_add E_0 E_1 half half_2 ta tb tc.
  Let ev_conj := eval_pconj R rO rI radd rmul rsub ropp Rth E E_add E_0 E_1 half half_2 conj conj_add conj_mul conj_1 conj_E conj_half ta tb tc.
  Let ev_0 := eval_p0 R rO rI radd rmul rsub ropp Rth E E_add E_0 E_1 half half_2 ta tb tc.

  Definition sqabs (z : R) : R := z * conj z.
  Definition rsum (l : list R) : R := fold_left radd l rO.
  Lemma fold_add_acc l : forall a, fold_left radd l a = a + rsum l.
  Proof.
    unfold rsum. induction l as [|x l IH]; intro a; cbn [fold_left]; [ring|]. rewrite (IH (a + x)), (IH (rO + x)). ring.
  Qed.
  Lemma rsum_cons x l : rsum (x :: l) = x + rsum l.
  Proof. unfold rsum at 1. cbn [fold_left]. rewrite fold_add_acc. ring. Qed.
  Lemma rsum_scale k l : rsum (map (fun x => k * x) l) = k * rsum l.
  Proof. induction l as [|x l IH]; cbn [map]; [unfold rsum; cbn; ring | rewrite !rsum_cons, IH; ring]. Qed.

  Lemma ev_norm2 v : ev (norm2 v) = rsum (map (fun a => sqabs (ev a)) v).
  Proof.
    unfold norm2.
    assert (G : forall acc, ev (fold_left (fun acc a => padd acc (pmul a (pconj a))) v acc) = ev acc + rsum (map (fun a => sqabs (ev a)) v)).
    { induction v as [|a v IH]; intro acc; cbn [fold_left map]; [unfold rsum; cbn; ring|].
      rewrite IH, ev_add, ev_mul, ev_conj, rsum_cons. unfold sqabs. ring. }
    rewrite G, ev_0. ring.
  Qed.

  (* |E(q)|^2 = 1 *)
  Lemma sqabs_E q : sqabs (E q) = rI.
  Proof. unfold sqabs. rewrite conj_E, <- E_add. replace (q + - q)%Qc with 0%Qc by ring. exact E_0. Qed.
  Lemma sqabs_mul a b : sqabs (a * b) = sqabs a * sqabs b.
  Proof. unfold sqabs. rewrite conj_mul. ring. Qed.

  (* ---- the Born weight of a bit assignment ---- *)
  Theorem born_weight n c ops : ccircuit_ops c = Some ops -> forallb (cinstr_lanes_ok n) c = true -> ccircuit_ok (kinit R rO rI n) c = true ->
    exists C, sq2 C /\ forall b,
      ev (norm2 (final_vec (run n b ops (init_state n))))
      = sqabs C * rsum (map (fun i => sqabs (cspec b (kinit R rO rI n) c (kpsi R (kinit R rO rI n)) (Nat.testbit i))) (seq 0 (dim n))).
  Proof.
    intros Hops Hl Hok.
    destruct (circuit_kraus_dense R rO rI radd rmul rsub ropp Rth E E_add E_0 E_1 half half_2 ta tb tc n c ops Hops Hl Hok) as (C & HC & H).
    exists C. split; [exact HC|]. intro b. destruct (H b) as (e & He).
    set (v := final_vec (run n b ops (init_state n))) in *.
    assert (Hlen : List.length v = dim n).
    { unfold v, final_vec, vscale. rewrite map_length. apply (len_run n b ops (init_state n)). unfold len_ok, init_state. cbn [amp]. apply tab_len. }
    rewrite ev_norm2. rewrite <- (map_nth_seq v p0) at 1. rewrite map_map, Hlen, <- rsum_scale, map_map. f_equal.
    apply map_ext_in. intros i Hi. apply in_seq in Hi. cbn [Nat.add] in Hi.
    assert (Hx : ev (nth i v p0) = st_of n v (Nat.testbit i)).
    { unfold DenseBridge.st_of, vget. rewrite (idx_testbit n i) by (apply Hi). reflexivity. }
    rewrite Hx, He. unfold Amp.scale. rewrite !sqabs_mul, sqabs_E. ring.
  Qed.
End KBorn.
