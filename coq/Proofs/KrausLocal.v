(* One-lane programs (measurement, reset, single-qubit gates, Pauli-error fragments) act locally:
   `lstep` runs such a program abstractly on a 2x2 operator with the flags of ONE lane; `local_run` shows that the
   amplitude interpreter kstep, running the program at ANY lane q of ANY state, applies exactly that operator to lane q,
   multiplies the scalar by the abstract scalar, updates the flags of lane q and the counters as the abstract run does,
   and leaves the flags of all other lanes alone. *)
From Coq Require Import ZArith QArith Qcanon List Bool String Lia Ring Ring_theory FunctionalExtensionality.
Import ListNotations.
Require Import TV.Base.EP TV.Base.EPSound TV.Base.Amp TV.Model.Lane TV.Proofs.BitIdx TV.Proofs.CircuitProofs TV.Proofs.DenseBridge TV.Proofs.KrausSem.
Set Default Timeout 120.

Section Local.
  Variable R : Type.
  Variables (rO rI : R) (radd rmul rsub : R -> R -> R) (ropp : R -> R).
  Variable Rth : ring_theory rO rI radd rmul rsub ropp eq.
  Add Ring RringLocal : Rth.
  Variable E : Qc -> R.
  Hypothesis E_add : forall a b, E (a + b)%Qc = rmul (E a) (E b).
  Hypothesis E_0 : E 0%Qc = rI.
  Hypothesis E_1 : E 1%Qc = ropp rI.
  Variable half : R.
  Hypothesis half_2 : radd half half = rI.
  Variables ta tb tc : Qc.
  Notation ev := (eval R rO rI radd rmul ropp E half ta tb tc).
  Notation state := (Amp.state R).
  Notation aapp1 := (Amp.app1 R radd rmul).
  Notation m2f := (Amp.m2f R).
  Notation mul2 := (Amp.mul2 R radd rmul).
  Notation m2f_of := (m2f_of R rO rI radd rmul ropp E half ta tb tc).
  Notation projf := (projf R rO rI rmul).
  Notation cutf := (cutf R rO rI radd rmul ropp E half ta tb tc).
  Notation id2 := (id2 R rO rI).
  Notation kst := (kst R).
  Notation kstep := (kstep R rO rI radd rmul ropp E half ta tb tc).
  Notation kensure := (kensure R rO rI radd rmul ropp E half ta tb tc).
  Notation kdo_meas := (kdo_meas R rO rI radd rmul ropp E half ta tb tc).
  Notation kdo_err := (kdo_err R rO rI radd rmul ropp E half ta tb tc).
  Infix "+" := radd.
  Infix "*" := rmul.

  Record lst := mkLs { lk : R; lM : m2f; lex : bool; lcol : colour; lnr : nat; lns : nat; lne : nat; lnc : nat }.
  Definition lapp (A : m2f) (l : lst) := mkLs (lk l) (mul2 A (lM l)) (lex l) (lcol l) (lnr l) (lns l) (lne l) (lnc l).
  Definition lsetk l k := mkLs k (lM l) (lex l) (lcol l) (lnr l) (lns l) (lne l) (lnc l).
  Definition lsetcol l c := mkLs (lk l) (lM l) (lex l) c (lnr l) (lns l) (lne l) (lnc l).
  Definition lsetex l := mkLs (lk l) (lM l) true (lcol l) (lnr l) (lns l) (lne l) (lnc l).
  Definition lcnt l nr ns ne nc := mkLs (lk l) (lM l) (lex l) (lcol l) nr ns ne nc.
  Definition lensure (l : lst) : lst := if lex l then l else lsetcol (lsetex (lsetk l (ev psqrt2 * lk l))) CXc.
  Definition ldo_meas (b : bits) (l : lst) (silent : bool) : lst :=
    let l := lensure l in
    let r := if silent then bit (bsil b) (lns l) else bit (brec b) (lnr l) in
    let l1 := lsetcol (lsetk (lapp (projf r) l) (ev psqrt2inv * lk l)) CZc in
    if silent then lcnt l1 (lnr l1) (S (lns l1)) (lne l1) (lnc l1) else lcnt l1 (S (lnr l1)) (lns l1) (lne l1) (lnc l1).
  Definition ldo_err (b : bits) (l : lst) (c : colour) (idx : nat) : lst :=
    let l := lensure l in
    let l := if bit (berr b) idx then lapp (m2f_of (match c with CXc => mX | CZc => mZ end)) l else l in
    lsetcol l c.
  Definition lfinalize (l : lst) : lst :=
    match lnc l with O => l | k => lcnt l (lnr l) (lns l) (lne l + k)%nat O end.
  Fixpoint lstep (fuel : nat) (b : bits) (l : lst) (o : op nat) : lst :=
    match o with
    | OSpider c _ e => lsetcol (lapp (m2f_of (match c with CZc => mZph e | CXc => mXph e end)) (lensure l)) c
    | OErr c _ rel corr => ldo_err b l c (if corr then (lne l + lnc l + Z.to_nat rel)%nat else (lne l + Z.to_nat rel)%nat)
    | OH _ => lapp (m2f_of mH) (lensure l)
    | OI _ => lensure l
    | OMeas _ p silent restore =>
        let noisy := match Qcompare 0 p with Lt => true | _ => false end in
        let l := if noisy then ldo_err b l CXc (lne l) else l in
        let l := ldo_meas b l silent in
        if noisy then
          let l := if restore then ldo_err b l CXc (lne l) else l in
          lcnt l (lnr l) (lns l) (S (lne l)) (lnc l)
        else l
    | OReset _ trace =>
        if negb (lex l) then lsetcol (lsetex l) CXc
        else
          let l := if trace then ldo_meas b l true else l in
          let l := match lcol l with CZc => lapp (cutf p1 p1) l | CXc => lapp (cutf psqrt2 p0) l end in
          lsetcol l CXc
    | OPhase e => lsetk l (ev (pE e) * lk l)
    | OPower k => lsetk l (ev (psqrt2pow k) * lk l)
    | OBumpErr k => lcnt l (lnr l) (lns l) (lne l + Z.to_nat k)%nat (lnc l)
    | OCorrProb _ => lcnt l (lnr l) (lns l) (lne l) (S (lnc l))
    | OIfLane _ body =>
        match fuel with
        | O => l
        | S f => if lex l then fold_left (lstep f b) body l else l
        end
    | OFinalize => lfinalize l
    | _ => l
    end.
  Definition lrun (b : bits) (ops : list (op nat)) (l : lst) : lst := fold_left (lstep 8 b) ops l.

  Fixpoint one_lane_op (fuel : nat) (o : op nat) : bool :=
    match o with
    | OSpider _ q _ | OErr _ q _ _ | OH q | OI q | OMeas q _ _ _ | OReset q _ => Nat.eqb q 0
    | OIfLane q body => match fuel with O => false | S f => Nat.eqb q 0 && forallb (one_lane_op f) body end
    | OSwap _ _ | OCxCz _ _ _ _ => false
    | _ => true
    end.

  (* ---- the relation: t is the state t0 with the abstract operator of l applied at lane q ---- *)
  Definition prel (q : nat) (t0 : kst) (t : kst) (l : lst) : Prop :=
    kpsi R t = aapp1 (lM l) q (kpsi R t0) /\ kk R t = kk R t0 * lk l /\
    kex R t q = lex l /\ kcol R t q = lcol l /\
    knrec R t = lnr l /\ knsil R t = lns l /\ knerr R t = lne l /\ kncorr R t = lnc l /\
    (forall q', q' <> q -> kex R t q' = kex R t0 q' /\ kcol R t q' = kcol R t0 q').
  Definition linit (t0 : kst) (q : nat) : lst :=
    mkLs rI id2 (kex R t0 q) (kcol R t0 q) (knrec R t0) (knsil R t0) (knerr R t0) (kncorr R t0).
  Lemma prel_init q t0 : prel q t0 t0 (linit t0 q).
  Proof.
    unfold prel, linit. cbn [lk lM lex lcol lnr lns lne lnc]. repeat split; try reflexivity.
    - symmetry. apply (app1_id R rO rI radd rmul rsub ropp Rth).
    - ring.
  Qed.

  Ltac prel_destruct H := destruct H as (Hpsi & Hk & Hex & Hcol & Hnr & Hns & Hne & Hnc & Hfr).
  Ltac prel_split := unfold prel; cbn [kk kpsi kex kcol knrec knsil knerr kncorr lk lM lex lcol lnr lns lne lnc];
    repeat match goal with |- _ /\ _ => split end.
  Lemma fupd_same {A} (f : nat -> A) q v : fupd f q v q = v.
  Proof. unfold fupd. rewrite Nat.eqb_refl. reflexivity. Qed.
  Lemma fupd_other {A} (f : nat -> A) q q' v : q' <> q -> fupd f q v q' = f q'.
  Proof. intro H. unfold fupd. destruct (Nat.eqb_spec q' q); [contradiction | reflexivity]. Qed.

  Lemma prel_app q t0 t l A : prel q t0 t l -> prel q t0 (ksetpsi R t (aapp1 A q (kpsi R t))) (lapp A l).
  Proof.
    intro H. prel_destruct H. unfold ksetpsi, lapp. prel_split; try assumption.
    rewrite Hpsi. apply (app1_comp R rO rI radd rmul rsub ropp Rth).
  Qed.
  Lemma prel_setk q t0 t l c : prel q t0 t l -> prel q t0 (ksetk R t (c * kk R t)) (lsetk l (c * lk l)).
  Proof. intro H. prel_destruct H. unfold ksetk, lsetk. prel_split; try assumption. rewrite Hk. ring. Qed.
  Lemma prel_setcol q t0 t l c : prel q t0 t l -> prel q t0 (ksetcol R t q c) (lsetcol l c).
  Proof.
    intro H. prel_destruct H. unfold ksetcol, lsetcol. prel_split; try assumption.
    - apply fupd_same.
    - intros q' Hq'. destruct (Hfr q' Hq') as [F1 F2]. split; [exact F1 | rewrite fupd_other by exact Hq'; exact F2].
  Qed.
  Lemma prel_setex q t0 t l : prel q t0 t l -> prel q t0 (ksetex R t q) (lsetex l).
  Proof.
    intro H. prel_destruct H. unfold ksetex, lsetex. prel_split; try assumption.
    - apply fupd_same.
    - intros q' Hq'. destruct (Hfr q' Hq') as [F1 F2]. split; [rewrite fupd_other by exact Hq'; exact F1 | exact F2].
  Qed.
  Lemma prel_cnt q t0 t l nr ns ne nc rq : prel q t0 t l -> prel q t0 (kcnt R t nr ns ne nc rq) (lcnt l nr ns ne nc).
  Proof. intro H. prel_destruct H. unfold kcnt, lcnt. prel_split; try assumption; reflexivity. Qed.
  Lemma prel_ensure q t0 t l : prel q t0 t l -> prel q t0 (kensure t q) (lensure l).
  Proof.
    intro H. unfold KrausSem.kensure, lensure. pose proof H as H'. prel_destruct H'. rewrite Hex.
    destruct (lex l); [exact H|]. apply prel_setcol, prel_setex, prel_setk. exact H.
  Qed.
  Lemma prel_do_meas q t0 t l b silent : prel q t0 t l -> prel q t0 (kdo_meas b t q silent) (ldo_meas b l silent).
  Proof.
    intro H. unfold KrausSem.kdo_meas, ldo_meas. pose proof (prel_ensure q t0 t l H) as He.
    set (t' := kensure t q) in *. set (l' := lensure l) in *.
    pose proof He as He'. prel_destruct He'. rewrite Hns, Hnr.
    set (r := if silent then bit (bsil b) (lns l') else bit (brec b) (lnr l')).
    assert (H1 : prel q t0 (ksetcol R (ksetk R (ksetpsi R t' (aapp1 (projf r) q (kpsi R t'))) (ev psqrt2inv * kk R t')) q CZc)
                        (lsetcol (lsetk (lapp (projf r) l') (ev psqrt2inv * lk l')) CZc)).
    { apply prel_setcol. apply (prel_setk q t0 (ksetpsi R t' (aapp1 (projf r) q (kpsi R t'))) (lapp (projf r) l') (ev psqrt2inv)). apply prel_app. exact He. }
    set (t1 := ksetcol R _ q CZc) in *. set (l1 := lsetcol _ CZc) in *.
    pose proof H1 as H1'. destruct H1' as (_ & _ & _ & _ & G1 & G2 & G3 & G4 & _).
    destruct silent; rewrite G1, G2, G3, G4; apply prel_cnt; exact H1.
  Qed.
  Lemma prel_do_err q t0 t l b c idx : prel q t0 t l -> prel q t0 (kdo_err b t c q idx) (ldo_err b l c idx).
  Proof.
    intro H. unfold KrausSem.kdo_err, ldo_err. pose proof (prel_ensure q t0 t l H) as He.
    apply prel_setcol. destruct (bit (berr b) idx); [apply prel_app|]; exact He.
  Qed.

  Notation at_lane q := (op_map (fun _ : nat => q)).
  Lemma prel_fold q t0 b f :
    (forall o t l, prel q t0 t l -> one_lane_op f o = true -> prel q t0 (kstep f b t (at_lane q o)) (lstep f b l o)) ->
    forall body t l, prel q t0 t l -> forallb (one_lane_op f) body = true ->
      prel q t0 (fold_left (kstep f b) (map (at_lane q) body) t) (fold_left (lstep f b) body l).
  Proof.
    intros IH body. induction body as [|o body IHb]; intros t l H Hw; cbn [map fold_left]; [exact H|].
    cbn [forallb] in Hw. apply andb_true_iff in Hw. destruct Hw as [Hw1 Hw2].
    apply IHb; [apply IH; assumption | exact Hw2].
  Qed.

  Theorem local_step q t0 b fuel : forall o t l, prel q t0 t l -> one_lane_op fuel o = true ->
    prel q t0 (kstep fuel b t (at_lane q o)) (lstep fuel b l o).
  Proof.
    induction fuel as [|f IHf]; intros o t l H Hw.
    all: destruct o as [c q0 e | c q0 rel corr | q0 | is_cx ctl tgt cc | a c | q0 | q0 p silent restore | q0 trace | e | k | ch | k | p | q0 body |];
      cbn [one_lane_op] in Hw; try discriminate Hw; cbn [op_map KrausSem.kstep lstep].
    all: try (pose proof H as H'; prel_destruct H').
    all: try match goal with |- prel _ _ (ksetcol _ (ksetpsi _ _ _) _ _) (lsetcol (lapp _ (lensure _)) _) =>
      apply prel_setcol; apply (prel_app q t0 (kensure t q) (lensure l)); apply prel_ensure; exact H end.
    all: try match goal with |- prel _ _ (KrausSem.kdo_err _ _ _ _ _ _ _ _ _ _ _ _ _ _ _ _) _ => rewrite Hne, Hnc; apply prel_do_err; exact H end.
    all: try match goal with |- prel _ _ (ksetpsi _ _ _) (lapp _ (lensure _)) => apply (prel_app q t0 (kensure t q) (lensure l)); apply prel_ensure; exact H end.
    all: try match goal with |- prel _ _ (KrausSem.kensure _ _ _ _ _ _ _ _ _ _ _ _ _) _ => apply prel_ensure; exact H end.
    all: try match goal with |- prel _ _ (ksetk _ _ _) (lsetk _ _) => apply prel_setk; exact H end.
    all: try assumption.
    all: try match goal with |- prel _ _ (kcnt _ _ _ _ _ _ _) (lcnt _ _ _ _ _) => rewrite ?Hnr, ?Hns, ?Hne, ?Hnc; apply prel_cnt; exact H end.
    all: try match goal with |- prel _ _ (KrausSem.kfinalize _ _) _ =>
      unfold KrausSem.kfinalize, lfinalize; rewrite Hnc; destruct (lnc l); [exact H|]; rewrite Hnr, Hns, Hne; apply prel_cnt; exact H end.
    all: try match goal with |- context [Qcompare 0 ?pp] =>
      destruct (Qcompare 0 pp); cbv zeta; [apply prel_do_meas; exact H | | apply prel_do_meas; exact H];
      rewrite Hne;
      pose proof (prel_do_err q t0 t l b CXc (lne l) H) as H1;
      pose proof (prel_do_meas q t0 _ _ b silent H1) as H2;
      set (t2 := kdo_meas b _ q silent) in *; set (l2 := ldo_meas b _ silent) in *;
      assert (H3 : prel q t0 (if restore then kdo_err b t2 CXc q (knerr R t2) else t2) (if restore then ldo_err b l2 CXc (lne l2) else l2))
        by (destruct restore; [|exact H2]; pose proof H2 as H2'; destruct H2' as (_ & _ & _ & _ & _ & _ & Hne2 & _); rewrite Hne2; apply prel_do_err; exact H2);
      set (t3 := if restore then _ else t2) in *; set (l3 := if restore then _ else l2) in *;
      pose proof H3 as H3'; destruct H3' as (_ & _ & _ & _ & Hnr3 & Hns3 & Hne3 & Hnc3 & _);
      rewrite Hnr3, Hns3, Hne3, Hnc3; apply prel_cnt; exact H3 end.
    all: try match goal with |- context [cutf] =>
      rewrite Hex; destruct (lex l); cbn [negb]; [|apply prel_setcol, prel_setex; exact H]; cbv zeta;
      assert (H1 : prel q t0 (if trace then kdo_meas b t q true else t) (if trace then ldo_meas b l true else l))
        by (destruct trace; [apply prel_do_meas; exact H | exact H]);
      set (t1 := if trace then _ else t) in *; set (l1 := if trace then _ else l) in *;
      pose proof H1 as H1'; destruct H1' as (_ & _ & _ & Hcol1 & _); rewrite Hcol1;
      apply prel_setcol; destruct (lcol l1); apply prel_app; exact H1 end.
    all: try match goal with |- context [fold_left] =>
      apply andb_true_iff in Hw; destruct Hw as [_ Hb]; rewrite Hex; destruct (lex l); [|exact H];
      apply (prel_fold q t0 b f IHf); assumption end.
  Qed.

  Theorem local_run q b ops t0 : forallb (one_lane_op 8) ops = true ->
    prel q t0 (krun R rO rI radd rmul ropp E half ta tb tc b (map (at_lane q) ops) t0) (lrun b ops (linit t0 q)).
  Proof. intro Hw. unfold KrausSem.krun, lrun. apply (prel_fold q t0 b 8 (local_step q t0 b 8)); [apply prel_init | exact Hw]. Qed.

  (* ---- noiseless one-lane programs: the run depends on the bits only through the values it reads, at offsets
          from the entry counters (so the finite enumeration of the fragment checks covers every context) ---- *)
  Definition simple_op (o : op nat) : bool :=
    match o with OSpider _ q _ | OH q | OI q => Nat.eqb q 0 | OPhase _ | OPower _ => true | _ => false end.
  Definition quiet_op (o : op nat) : bool :=
    match o with
    | OSpider _ q _ | OH q | OI q | OReset q _ | OMeas q _ _ _ => Nat.eqb q 0
    | OErr _ q rel false => Nat.eqb q 0 && Z.leb 0 rel && Z.leb rel 1
    | OIfLane q body => Nat.eqb q 0 && forallb simple_op body
    | OPhase _ | OPower _ | OChan _ | OBumpErr _ => true
    | _ => false
    end.
  Definition lsim (dr ds de dc : nat) (l l' : lst) : Prop :=
    lk l = lk l' /\ lM l = lM l' /\ lex l = lex l' /\ lcol l = lcol l' /\ lnr l = (lnr l' + dr)%nat /\ lns l = (lns l' + ds)%nat /\ lne l = (lne l' + de)%nat /\ lnc l = (lnc l' + dc)%nat.
  Ltac lsim_destruct H := destruct H as (Sk & SM & Sex & Scol & Snr & Sns & Sne & Snc).
  Ltac lsim_split := unfold lsim; cbn [lk lM lex lcol lnr lns lne lnc]; repeat match goal with |- _ /\ _ => split end.

  Lemma lsim_ensure dr ds de dc l l' : lsim dr ds de dc l l' -> lsim dr ds de dc (lensure l) (lensure l').
  Proof.
    intro H. pose proof H as H'. lsim_destruct H'. unfold lensure. rewrite Sex. destruct (lex l'); [exact H|].
    unfold lsetcol, lsetex, lsetk. lsim_split; try assumption; try reflexivity. rewrite Sk. reflexivity.
  Qed.
  Lemma lsim_app dr ds de dc l l' A : lsim dr ds de dc l l' -> lsim dr ds de dc (lapp A l) (lapp A l').
  Proof. intro H. lsim_destruct H. unfold lapp. lsim_split; try assumption. rewrite SM. reflexivity. Qed.
  Lemma lsim_setcol dr ds de dc l l' c : lsim dr ds de dc l l' -> lsim dr ds de dc (lsetcol l c) (lsetcol l' c).
  Proof. intro H. lsim_destruct H. unfold lsetcol. lsim_split; try assumption. reflexivity. Qed.
  Lemma lsim_setk dr ds de dc l l' c : lsim dr ds de dc l l' -> lsim dr ds de dc (lsetk l (c * lk l)) (lsetk l' (c * lk l')).
  Proof. intro H. lsim_destruct H. unfold lsetk. lsim_split; try assumption. rewrite Sk. reflexivity. Qed.
  Lemma lensure_cnt l : lnr (lensure l) = lnr l /\ lns (lensure l) = lns l /\ lne (lensure l) = lne l.
  Proof. unfold lensure. destruct (lex l); repeat split; reflexivity. Qed.

  (* the simple (unitary) primitives: no bits, no counters, any fuel *)
  Lemma simple_sim dr ds de dc f f' b b' o l l' : simple_op o = true -> lsim dr ds de dc l l' ->
    lsim dr ds de dc (lstep f b l o) (lstep f' b' l' o).
  Proof.
    intros Hs H. destruct o as [c q0 e | | q0 | | | q0 | | | e | k | | | | |]; try discriminate Hs; destruct f, f'; cbn [lstep].
    all: try (apply lsim_setcol, lsim_app, lsim_ensure; exact H).
    all: try (apply lsim_app, lsim_ensure; exact H).
    all: try (apply lsim_ensure; exact H).
    all: try (apply lsim_setk; exact H).
  Qed.
  Lemma simple_cnt f b o l : simple_op o = true ->
    lnr (lstep f b l o) = lnr l /\ lns (lstep f b l o) = lns l /\ lne (lstep f b l o) = lne l.
  Proof.
    intro Hs. destruct o as [c q0 e | | q0 | | | q0 | | | e | k | | | | |]; try discriminate Hs; destruct f; cbn [lstep];
      unfold lsetcol, lapp, lsetk; cbn [lnr lns lne]; try apply lensure_cnt; repeat split; reflexivity.
  Qed.
  Lemma simple_fold_sim dr ds de dc f f' b b' body : forallb simple_op body = true -> forall l l', lsim dr ds de dc l l' ->
    lsim dr ds de dc (fold_left (lstep f b) body l) (fold_left (lstep f' b') body l').
  Proof.
    induction body as [|o body IH]; intros Hs l l' H; cbn [fold_left]; [exact H|].
    cbn [forallb] in Hs. apply andb_true_iff in Hs. destruct Hs as [H1 H2]. apply IH; [exact H2|]. apply simple_sim; assumption.
  Qed.
  Lemma simple_fold_cnt f b body : forallb simple_op body = true -> forall l,
    lnr (fold_left (lstep f b) body l) = lnr l /\ lns (fold_left (lstep f b) body l) = lns l /\ lne (fold_left (lstep f b) body l) = lne l.
  Proof.
    induction body as [|o body IH]; intros Hs l; cbn [fold_left]; [repeat split; reflexivity|].
    cbn [forallb] in Hs. apply andb_true_iff in Hs. destruct Hs as [H1 H2].
    destruct (IH H2 (lstep f b l o)) as (A1 & A2 & A3). destruct (simple_cnt f b o l H1) as (B1 & B2 & B3). rewrite A1, A2, A3, B1, B2, B3. repeat split; reflexivity.
  Qed.

  Lemma ldo_meas_cnt b l (silent : bool) :
    lnr (ldo_meas b l silent) = (if silent then lnr l else S (lnr l)) /\ lns (ldo_meas b l silent) = (if silent then S (lns l) else lns l) /\
    lne (ldo_meas b l silent) = lne l.
  Proof.
    unfold ldo_meas. destruct (lensure_cnt l) as (A1 & A2 & A3). destruct silent; unfold lcnt, lsetcol, lsetk, lapp; cbn [lnr lns lne]; rewrite ?A1, ?A2, ?A3; repeat split; reflexivity.
  Qed.
  Lemma ldo_err_cnt b l c idx : lnr (ldo_err b l c idx) = lnr l /\ lns (ldo_err b l c idx) = lns l /\ lne (ldo_err b l c idx) = lne l.
  Proof.
    unfold ldo_err. destruct (lensure_cnt l) as (A1 & A2 & A3). destruct (bit (berr b) idx); unfold lsetcol, lapp; cbn [lnr lns lne]; rewrite ?A1, ?A2, ?A3; repeat split; reflexivity.
  Qed.
  Lemma lsim_do_meas dr ds de dc b b' l l' (silent : bool) : lsim dr ds de dc l l' ->
    (if silent then bit (bsil b) (lns l' + ds) = bit (bsil b') (lns l') else bit (brec b) (lnr l' + dr) = bit (brec b') (lnr l')) ->
    lsim dr ds de dc (ldo_meas b l silent) (ldo_meas b' l' silent).
  Proof.
    intros H Hb. unfold ldo_meas. pose proof (lsim_ensure _ _ _ _ _ _ H) as He.
    destruct (lensure_cnt l') as (A1 & A2 & A3).
    set (m := lensure l) in *. set (m' := lensure l') in *.
    pose proof He as He'. lsim_destruct He'. rewrite Snr, Sns, A1, A2. clear Sk SM Sex Scol Snr Sns Sne Snc.
    assert (Hr : (if silent then bit (bsil b) (lns l' + ds) else bit (brec b) (lnr l' + dr)) = (if silent then bit (bsil b') (lns l') else bit (brec b') (lnr l')))
      by (destruct silent; exact Hb).
    rewrite Hr. set (r := if silent then bit (bsil b') (lns l') else bit (brec b') (lnr l')).
    assert (H1 : lsim dr ds de dc (lsetcol (lsetk (lapp (projf r) m) (ev psqrt2inv * lk m)) CZc) (lsetcol (lsetk (lapp (projf r) m') (ev psqrt2inv * lk m')) CZc)).
    { apply lsim_setcol. apply (lsim_setk dr ds de dc (lapp (projf r) m) (lapp (projf r) m') (ev psqrt2inv)). apply lsim_app. exact He. }
    lsim_destruct H1. cbn [lnr lns lne lnc lsetcol lsetk lapp] in *.
    destruct silent; unfold lcnt; lsim_split; try assumption; cbn [lsetcol lsetk lapp lnr lns lne lnc lk lM lex lcol] in *; try assumption; lia.
  Qed.
  Lemma lsim_do_err dr ds de dc b b' l l' c idx idx' : lsim dr ds de dc l l' -> bit (berr b) idx = bit (berr b') idx' ->
    lsim dr ds de dc (ldo_err b l c idx) (ldo_err b' l' c idx').
  Proof.
    intros H Hb. unfold ldo_err. rewrite Hb. apply lsim_setcol. destruct (bit (berr b') idx'); [apply lsim_app|]; apply lsim_ensure; exact H.
  Qed.
  Lemma lsim_setex dr ds de dc l l' : lsim dr ds de dc l l' -> lsim dr ds de dc (lsetex l) (lsetex l').
  Proof. intro H. lsim_destruct H. unfold lsetex. lsim_split; try assumption. reflexivity. Qed.
  Lemma lsim_cnt_err dr ds de dc l l' k : lsim dr ds de dc l l' ->
    lsim dr ds de dc (lcnt l (lnr l) (lns l) (lne l + k)%nat (lnc l)) (lcnt l' (lnr l') (lns l') (lne l' + k)%nat (lnc l')).
  Proof. intro H. lsim_destruct H. unfold lcnt. lsim_split; try assumption. lia. Qed.

  Definition agree_rec (b b' : bits) (dr Wr : nat) : Prop := forall i, (i < Wr)%nat -> bit (brec b) (i + dr) = bit (brec b') i.
  Definition agree_sil (b b' : bits) (ds Ws : nat) : Prop := forall i, (i < Ws)%nat -> bit (bsil b) (i + ds) = bit (bsil b') i.
  Definition agree_err (b b' : bits) (de We : nat) : Prop := forall i, (i < We)%nat -> bit (berr b) (i + de) = bit (berr b') i.

  Lemma quiet_cnt_mono f b o l : quiet_op o = true ->
    (lnr l <= lnr (lstep (S f) b l o))%nat /\ (lns l <= lns (lstep (S f) b l o))%nat /\ (lne l <= lne (lstep (S f) b l o))%nat.
  Proof.
    intro Hq. destruct o as [c q0 e | c q0 rel corr | q0 | | | q0 | q0 p silent restore | q0 trace | e | k | ch | k | | q0 body |]; try discriminate Hq.
    all: try (match goal with |- context [lstep _ _ _ ?o] => destruct (simple_cnt (S f) b o l Hq) as (A1 & A2 & A3) end; rewrite A1, A2, A3; repeat split; apply le_n).
    - (* OErr *) destruct corr; [discriminate Hq|]. cbn [lstep]. destruct (ldo_err_cnt b l c (lne l + Z.to_nat rel)) as (A1 & A2 & A3). rewrite A1, A2, A3. repeat split; apply le_n.
    - (* OMeas *) cbn [lstep]. destruct (Qcompare 0 p); cbv zeta.
      1,3: destruct (ldo_meas_cnt b l silent) as (A1 & A2 & A3); rewrite A1, A2, A3; destruct silent; repeat split; lia.
      destruct (ldo_err_cnt b l CXc (lne l)) as (E1 & E2 & E3).
      destruct (ldo_meas_cnt b (ldo_err b l CXc (lne l)) silent) as (A1 & A2 & A3).
      set (m := ldo_meas b (ldo_err b l CXc (lne l)) silent) in *.
      assert (G : lnr (if restore then ldo_err b m CXc (lne m) else m) = lnr m /\ lns (if restore then ldo_err b m CXc (lne m) else m) = lns m /\ lne (if restore then ldo_err b m CXc (lne m) else m) = lne m)
        by (destruct restore; [apply ldo_err_cnt | repeat split; reflexivity]).
      destruct G as (G1 & G2 & G3). unfold lcnt; cbn [lnr lns lne]. rewrite G1, G2, G3, A1, A2, A3, E1, E2, E3. destruct silent; repeat split; lia.
    - (* OReset *) cbn [lstep]. destruct (lex l); cbn [negb]; [|unfold lsetcol, lsetex; cbn [lnr lns lne]; repeat split; apply le_n].
      cbv zeta. destruct trace.
      + destruct (ldo_meas_cnt b l true) as (A1 & A2 & A3). destruct (lcol (ldo_meas b l true)); unfold lsetcol, lapp; cbn [lnr lns lne]; rewrite A1, A2, A3; repeat split; lia.
      + destruct (lcol l); unfold lsetcol, lapp; cbn [lnr lns lne]; repeat split; apply le_n.
    - (* OChan *) cbn [lstep]. repeat split; apply le_n.
    - (* OBumpErr *) cbn [lstep]. unfold lcnt; cbn [lnr lns lne]. repeat split; lia.
    - (* OIfLane *) cbn [quiet_op] in Hq. apply andb_true_iff in Hq. destruct Hq as [_ Hb]. cbn [lstep].
      destruct (lex l); [|repeat split; apply le_n]. destruct (simple_fold_cnt f b body Hb l) as (A1 & A2 & A3). rewrite A1, A2, A3. repeat split; apply le_n.
  Qed.
  Lemma quiet_run_mono f b ops : forallb quiet_op ops = true -> forall l,
    (lnr l <= lnr (fold_left (lstep (S f) b) ops l))%nat /\ (lns l <= lns (fold_left (lstep (S f) b) ops l))%nat /\ (lne l <= lne (fold_left (lstep (S f) b) ops l))%nat.
  Proof.
    induction ops as [|o ops IH]; intros Hq l; cbn [fold_left]; [repeat split; apply le_n|].
    cbn [forallb] in Hq. apply andb_true_iff in Hq. destruct Hq as [H1 H2].
    destruct (quiet_cnt_mono f b o l H1) as (A1 & A2 & A3). destruct (IH H2 (lstep (S f) b l o)) as (B1 & B2 & B3). repeat split; lia.
  Qed.

  (* We: the error window.  A primitive reads error bits at offsets 0 or 1 above the current counter, hence the `+ 2` *)
  Lemma quiet_step_sim dr ds de dc f b b' Wr Ws We o l l' : lsim dr ds de dc l l' -> quiet_op o = true ->
    agree_rec b b' dr Wr -> agree_sil b b' ds Ws -> agree_err b b' de We ->
    (lnr (lstep (S f) b' l' o) <= Wr)%nat -> (lns (lstep (S f) b' l' o) <= Ws)%nat -> (lne (lstep (S f) b' l' o) + 2 <= We)%nat ->
    lsim dr ds de dc (lstep (S f) b l o) (lstep (S f) b' l' o).
  Proof.
    intros H Hq Hr Hs He Br Bs Be. pose proof H as H'. lsim_destruct H'.
    destruct o as [c q0 e | c q0 rel corr | q0 | | | q0 | q0 p silent restore | q0 trace | e | k | ch | k | | q0 body |]; try discriminate Hq.
    all: try (apply simple_sim; [exact Hq | exact H]).
    - (* OErr *) destruct corr; [discriminate Hq|]. cbn [quiet_op] in Hq. rewrite !andb_true_iff in Hq. destruct Hq as [[_ R0] R1]. apply Z.leb_le in R0, R1.
      cbn [lstep] in *. destruct (ldo_err_cnt b' l' c (lne l' + Z.to_nat rel)) as (_ & _ & A3). rewrite A3 in Be.
      apply lsim_do_err; [exact H|]. rewrite Sne. replace (lne l' + de + Z.to_nat rel)%nat with ((lne l' + Z.to_nat rel) + de)%nat by lia. apply He.
      assert (Z.to_nat rel <= 1)%nat by lia. lia.
    - (* OMeas *) cbn [lstep] in *. destruct (Qcompare 0 p); cbv zeta in *.
      1,3: destruct (ldo_meas_cnt b' l' silent) as (A1 & A2 & A3); rewrite A1, A2 in *;
        apply lsim_do_meas; try exact H; destruct silent; cbv beta iota in Br, Bs; first [apply Hs; lia | apply Hr; lia].
      (* noisy *)
      destruct (ldo_err_cnt b' l' CXc (lne l')) as (E1 & E2 & E3).
      destruct (ldo_meas_cnt b' (ldo_err b' l' CXc (lne l')) silent) as (A1 & A2 & A3).
      set (m' := ldo_meas b' (ldo_err b' l' CXc (lne l')) silent) in *.
      assert (G : lnr (if restore then ldo_err b' m' CXc (lne m') else m') = lnr m' /\ lns (if restore then ldo_err b' m' CXc (lne m') else m') = lns m' /\ lne (if restore then ldo_err b' m' CXc (lne m') else m') = lne m')
        by (destruct restore; [apply ldo_err_cnt | repeat split; reflexivity]).
      destruct G as (G1 & G2 & G3). unfold lcnt in Br, Bs, Be; cbn [lnr lns lne] in Br, Bs, Be. rewrite G1 in Br. rewrite G2 in Bs. rewrite G3 in Be.
      rewrite A1, E1 in Br. rewrite A2, E2 in Bs. rewrite A3, E3 in Be.
      assert (H1 : lsim dr ds de dc (ldo_err b l CXc (lne l)) (ldo_err b' l' CXc (lne l'))).
      { apply lsim_do_err; [exact H|]. rewrite Sne. apply He. lia. }
      assert (H2 : lsim dr ds de dc (ldo_meas b (ldo_err b l CXc (lne l)) silent) m').
      { apply lsim_do_meas; [exact H1|]. rewrite E1, E2. destruct silent; cbv beta iota in Br, Bs; [apply Hs | apply Hr]; lia. }
      set (m := ldo_meas b (ldo_err b l CXc (lne l)) silent) in *.
      assert (H3 : lsim dr ds de dc (if restore then ldo_err b m CXc (lne m) else m) (if restore then ldo_err b' m' CXc (lne m') else m')).
      { destruct restore; [|exact H2]. apply lsim_do_err; [exact H2|]. destruct H2 as (_ & _ & _ & _ & _ & _ & Sne2 & _). rewrite Sne2, A3, E3. apply He. lia. }
      set (u := if restore then _ else m) in *. set (u' := if restore then _ else m') in *.
      pose proof H3 as H3'. destruct H3' as (Uk & UM & Uex & Ucol & Unr & Uns & Une & Unc).
      unfold lcnt. lsim_split; try assumption. lia.
    - (* OReset *) cbn [lstep] in *. rewrite Sex. destruct (lex l'); cbn [negb] in *; [|apply lsim_setcol, lsim_setex; exact H].
      cbv zeta in *.
      assert (H1 : lsim dr ds de dc (if trace then ldo_meas b l true else l) (if trace then ldo_meas b' l' true else l')).
      { destruct trace; [|exact H]. apply lsim_do_meas; [exact H|]. apply Hs.
        destruct (ldo_meas_cnt b' l' true) as (A1 & A2 & A3). destruct (lcol (ldo_meas b' l' true)); unfold lsetcol, lapp in Bs; cbn [lns] in Bs; rewrite A2 in Bs; lia. }
      set (m := if trace then ldo_meas b l true else l) in *. set (m' := if trace then ldo_meas b' l' true else l') in *.
      pose proof H1 as H1'. destruct H1' as (_ & _ & _ & Scol1 & _). rewrite Scol1.
      apply lsim_setcol. destruct (lcol m'); apply lsim_app; exact H1.
    - (* OChan *) cbn [lstep]. exact H.
    - (* OBumpErr *) cbn [lstep]. apply lsim_cnt_err. exact H.
    - (* OIfLane *) cbn [quiet_op] in Hq. apply andb_true_iff in Hq. destruct Hq as [_ Hb]. cbn [lstep]. rewrite Sex.
      destruct (lex l'); [|exact H]. apply simple_fold_sim; assumption.
  Qed.
  Theorem quiet_run_sim dr ds de dc f b b' Wr Ws We ops : forallb quiet_op ops = true ->
    agree_rec b b' dr Wr -> agree_sil b b' ds Ws -> agree_err b b' de We -> forall l l', lsim dr ds de dc l l' ->
    (lnr (fold_left (lstep (S f) b') ops l') <= Wr)%nat -> (lns (fold_left (lstep (S f) b') ops l') <= Ws)%nat ->
    (lne (fold_left (lstep (S f) b') ops l') + 2 <= We)%nat ->
    lsim dr ds de dc (fold_left (lstep (S f) b) ops l) (fold_left (lstep (S f) b') ops l').
  Proof.
    intros Hq Hr Hs He. induction ops as [|o ops IH]; intros l l' H Br Bs Be; cbn [fold_left] in *; [exact H|].
    cbn [forallb] in Hq. apply andb_true_iff in Hq. destruct Hq as [H1 H2].
    destruct (quiet_run_mono f b' ops H2 (lstep (S f) b' l' o)) as (M1 & M2 & M3).
    apply (IH H2); [|exact Br | exact Bs | exact Be]. apply (quiet_step_sim dr ds de dc f b b' Wr Ws We); try assumption; lia.
  Qed.
End Local.
