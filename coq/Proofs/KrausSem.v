(* The lane interpreter on amplitude functions, for ALL primitives (unitary, collapsing, noise, feedback, bookkeeping),
   and the bridge: for every number of lanes n, the dense interpreter Model/Lane.step on 2^n-vectors over EP computes,
   after evaluation in any commutative ring with a character, exactly what `kstep` computes on amplitude functions.
   `kstep` never mentions n; the dense interpreter is what the correspondence run ties to the implementation. *)
From Coq Require Import ZArith QArith Qcanon List Bool String Lia Ring Ring_theory FunctionalExtensionality.
Import ListNotations.
Require Import TV.Base.EP TV.Base.EPSound TV.Base.Amp TV.Model.Lane TV.Proofs.BitIdx TV.Proofs.CircuitProofs TV.Proofs.DenseBridge.
Set Default Timeout 120.

Definition fupd {A} (f : nat -> A) (q : nat) (v : A) : nat -> A := fun i => if Nat.eqb i q then v else f i.

Lemma combine_map_same {A B} (f : A -> B) (l : list A) : combine l (map f l) = map (fun j => (j, f j)) l.
Proof. induction l as [|a l IH]; cbn [map combine]; [reflexivity | rewrite IH; reflexivity]. Qed.
Lemma upd_map_seq {A} (f : nat -> A) n q v : Lane.upd (map f (seq 0 n)) q v = map (fupd f q v) (seq 0 n).
Proof.
  unfold Lane.upd. rewrite map_length, seq_length, combine_map_same, map_map.
  apply map_ext. intro j. cbn [fst snd]. unfold fupd. reflexivity.
Qed.
Lemma nth_map_seq {A} (f : nat -> A) n q d : (q < n)%nat -> nth q (map f (seq 0 n)) d = f q.
Proof.
  intro H. rewrite (nth_indep _ d (f 0%nat)) by (rewrite map_length, seq_length; exact H).
  rewrite map_nth, seq_nth by exact H. reflexivity.
Qed.

Section Kraus.
  Variable R : Type.
  Variables (rO rI : R) (radd rmul rsub : R -> R -> R) (ropp : R -> R).
  Variable Rth : ring_theory rO rI radd rmul rsub ropp eq.
  Add Ring RringKraus : Rth.
  Variable E : Qc -> R.
  Hypothesis E_add : forall a b, E (a + b)%Qc = rmul (E a) (E b).
  Hypothesis E_0 : E 0%Qc = rI.
  Hypothesis E_1 : E 1%Qc = ropp rI.
  Variable half : R.
  Hypothesis half_2 : radd half half = rI.
  Variables ta tb tc : Qc.
  Notation ev := (eval R rO rI radd rmul ropp E half ta tb tc).
  Notation state := (Amp.state R).
  Notation aapp1 := (Amp.app1 R radd rmul).
  Notation aapp2 := (Amp.app2 R radd rmul).
  Notation scale := (Amp.scale R rmul).
  Notation m2f := (Amp.m2f R).
  Notation m2f_of := (m2f_of R rO rI radd rmul ropp E half ta tb tc).
  Notation cx4 := (cx4 R rO rI rmul).
  Notation cz4 := (cz4 R rO rI rmul ropp).
  Notation sw4 := (sw4 R rO rI rmul).
  Notation projf := (projf R rO rI rmul).
  Notation cutf := (cutf R rO rI radd rmul ropp E half ta tb tc).
  Notation st_of := (st_of R rO rI radd rmul ropp E half ta tb tc).
  Infix "+" := radd.
  Infix "*" := rmul.
  Let ev_mul := eval_pmul R rO rI radd rmul rsub ropp Rth E E_add E_0 E_1 half half_2 ta tb tc.
  Let st_app1' := DenseBridge.st_app1 R rO rI radd rmul rsub ropp Rth E E_add E_0 E_1 half half_2 ta tb tc.
  Let st_proj' := DenseBridge.st_proj R rO rI radd rmul rsub ropp Rth E E_add E_0 E_1 half half_2 ta tb tc.
  Let st_cut' := DenseBridge.st_cut R rO rI radd rmul rsub ropp Rth E E_add E_0 E_1 half half_2 ta tb tc.
  Let st_cx' := DenseBridge.st_cx R rO rI radd rmul rsub ropp Rth E half ta tb tc.
  Let st_cz' := DenseBridge.st_cz R rO rI radd rmul rsub ropp Rth E half ta tb tc.
  Let st_swap' := DenseBridge.st_swap R rO rI radd rmul rsub ropp Rth E half ta tb tc.

  Record kst := mkK {
    kk : R; kpsi : state; kex : nat -> bool; kcol : nat -> colour;
    knrec : nat; knsil : nat; knerr : nat; kncorr : nat; krecq : list nat; kok : bool }.
  Definition ksetpsi s p := mkK (kk s) p (kex s) (kcol s) (knrec s) (knsil s) (knerr s) (kncorr s) (krecq s) (kok s).
  Definition ksetk s k := mkK k (kpsi s) (kex s) (kcol s) (knrec s) (knsil s) (knerr s) (kncorr s) (krecq s) (kok s).
  Definition ksetcol s q c := mkK (kk s) (kpsi s) (kex s) (fupd (kcol s) q c) (knrec s) (knsil s) (knerr s) (kncorr s) (krecq s) (kok s).
  Definition ksetex s q := mkK (kk s) (kpsi s) (fupd (kex s) q true) (kcol s) (knrec s) (knsil s) (knerr s) (kncorr s) (krecq s) (kok s).
  Definition kfail s := mkK (kk s) (kpsi s) (kex s) (kcol s) (knrec s) (knsil s) (knerr s) (kncorr s) (krecq s) false.
  Definition kcnt s nr ns ne nc rq := mkK (kk s) (kpsi s) (kex s) (kcol s) nr ns ne nc rq (kok s).

  Definition kensure (s : kst) (q : nat) : kst :=
    if kex s q then s else ksetcol (ksetex (ksetk s (ev psqrt2 * kk s)) q) q CXc.
  Definition kdo_meas (b : bits) (s : kst) (q : nat) (silent : bool) : kst :=
    let s := kensure s q in
    let r := if silent then bit (bsil b) (knsil s) else bit (brec b) (knrec s) in
    let s1 := ksetcol (ksetk (ksetpsi s (aapp1 (projf r) q (kpsi s))) (ev psqrt2inv * kk s)) q CZc in
    if silent then kcnt s1 (knrec s1) (S (knsil s1)) (knerr s1) (kncorr s1) (krecq s1)
    else kcnt s1 (S (knrec s1)) (knsil s1) (knerr s1) (kncorr s1) (krecq s1 ++ [q]).
  Definition kdo_err (b : bits) (s : kst) (c : colour) (q : nat) (idx : nat) : kst :=
    let s := kensure s q in
    let s := if bit (berr b) idx then ksetpsi s (aapp1 (m2f_of (match c with CXc => mX | CZc => mZ end)) q (kpsi s)) else s in
    ksetcol s q c.
  Definition kfinalize (s : kst) : kst :=
    match kncorr s with
    | O => s
    | k => kcnt s (knrec s) (knsil s) (knerr s + k)%nat O (krecq s)
    end.

  Fixpoint kstep (fuel : nat) (b : bits) (s : kst) (o : op nat) : kst :=
    match o with
    | OSpider c q e =>
        let s := kensure s q in
        ksetcol (ksetpsi s (aapp1 (m2f_of (match c with CZc => mZph e | CXc => mXph e end)) q (kpsi s))) q c
    | OErr c q rel corr =>
        kdo_err b s c q (if corr then (knerr s + kncorr s + Z.to_nat rel)%nat else (knerr s + Z.to_nat rel)%nat)
    | OH q => let s := kensure s q in ksetpsi s (aapp1 (m2f_of mH) q (kpsi s))
    | OI q => kensure s q
    | OSwap a c =>
        let s := kensure (kensure s a) c in
        let ca := kcol s a in let cc := kcol s c in
        ksetcol (ksetcol (ksetpsi s (aapp2 sw4 a c (kpsi s))) a cc) c ca
    | OCxCz is_cx ctl tgt None =>
        let s := kensure (kensure s ctl) tgt in
        let s := ksetpsi s (aapp2 (if is_cx then cx4 else cz4) ctl tgt (kpsi s)) in
        ksetcol (ksetcol s ctl CZc) tgt (if is_cx then CXc else CZc)
    | OCxCz is_cx ctl tgt (Some (c0, c1)) =>
        let '(ctl, tgt, c0, c1) := if c1 && negb is_cx then (tgt, ctl, c1, c0) else (ctl, tgt, c0, c1) in
        if c1 then kfail s
        else if negb c0 then
          let s := kensure (kensure s ctl) tgt in
          let s := ksetpsi s (aapp2 (if is_cx then cx4 else cz4) ctl tgt (kpsi s)) in
          ksetcol (ksetcol s ctl CZc) tgt (if is_cx then CXc else CZc)
        else
          let ridx := ctl in
          let r := bit (brec b) ridx in
          let cq := nth ridx (krecq s) 0%nat in
          let s := kensure (kensure s cq) tgt in
          let s := if r then ksetpsi s (aapp1 (m2f_of (if is_cx then mX else mZ)) tgt (kpsi s)) else s in
          ksetcol (ksetcol s cq CZc) tgt (if is_cx then CXc else CZc)
    | OMeas q p silent restore =>
        let noisy := match Qcompare 0 p with Lt => true | _ => false end in
        let s := if noisy then kdo_err b s CXc q (knerr s) else s in
        let s := kdo_meas b s q silent in
        if noisy then
          let s := if restore then kdo_err b s CXc q (knerr s) else s in
          kcnt s (knrec s) (knsil s) (S (knerr s)) (kncorr s) (krecq s)
        else s
    | OReset q trace =>
        if negb (kex s q) then ksetcol (ksetex s q) q CXc
        else
          let s := if trace then kdo_meas b s q true else s in
          let s := match kcol s q with
                   | CZc => ksetpsi s (aapp1 (cutf p1 p1) q (kpsi s))
                   | CXc => ksetpsi s (aapp1 (cutf psqrt2 p0) q (kpsi s))
                   end in
          ksetcol s q CXc
    | OPhase e => ksetk s (ev (pE e) * kk s)
    | OPower k => ksetk s (ev (psqrt2pow k) * kk s)
    | OChan _ => s
    | OBumpErr k => kcnt s (knrec s) (knsil s) (knerr s + Z.to_nat k)%nat (kncorr s) (krecq s)
    | OCorrProb _ => kcnt s (knrec s) (knsil s) (knerr s) (S (kncorr s)) (krecq s)
    | OIfLane q body =>
        match fuel with
        | O => kfail s
        | S f => if kex s q then fold_left (kstep f b) body s else s
        end
    | OFinalize => kfinalize s
    end.
  Definition krun (b : bits) (ops : list (op nat)) (s : kst) : kst := fold_left (kstep 8 b) ops s.
  Definition kfinal (s : kst) : state := scale (kk s) (kpsi s).

  (* ---- the relation between a dense interpreter state on n lanes and an amplitude interpreter state ---- *)
  Definition brel (n : nat) (s : lstate) (t : kst) : Prop :=
    st_of n (amp s) = kpsi t /\ ev (scal s) = kk t /\
    exists_ s = map (kex t) (seq 0 n) /\ colour_ s = map (kcol t) (seq 0 n) /\
    nrec s = knrec t /\ nsil s = knsil t /\ nerr s = knerr t /\ ncorr s = kncorr t /\ recq s = krecq t /\ ok s = kok t /\
    Forall (fun q => (q < n)%nat) (recq s).

  Ltac brel_split := unfold brel; cbn [amp scal exists_ colour_ nrec nsil nerr ncorr recq ok kk kpsi kex kcol knrec knsil knerr kncorr krecq kok];
    repeat match goal with |- _ /\ _ => split end.
  Ltac brel_destruct H := destruct H as (Hpsi & Hk & Hex & Hcol & Hnr & Hns & Hne & Hnc & Hrq & Hok & Hlt).

  Lemma brel_setamp n s t v p : brel n s t -> st_of n v = p -> brel n (setamp s v) (ksetpsi t p).
  Proof. intros H Hv. brel_destruct H. unfold setamp, ksetpsi. brel_split; assumption. Qed.
  Lemma brel_setscal n s t x k : brel n s t -> ev x = k -> brel n (setscal s x) (ksetk t k).
  Proof. intros H Hv. brel_destruct H. unfold setscal, ksetk. brel_split; assumption. Qed.
  Lemma brel_setcol n s t q c : brel n s t -> brel n (setcol s q c) (ksetcol t q c).
  Proof. intros H. brel_destruct H. unfold setcol, ksetcol. brel_split; try assumption. rewrite Hcol. apply upd_map_seq. Qed.
  Lemma brel_setex n s t q : brel n s t -> brel n (setex s q) (ksetex t q).
  Proof. intros H. brel_destruct H. unfold setex, ksetex. brel_split; try assumption. rewrite Hex. apply upd_map_seq. Qed.
  Lemma brel_fail n s t : brel n s t -> brel n (fail s) (kfail t).
  Proof. intros H. brel_destruct H. unfold fail, kfail. brel_split; try assumption. reflexivity. Qed.
  Lemma brel_cnt n s t nr ns ne nc rq ch cp : brel n s t -> Forall (fun q => (q < n)%nat) rq ->
    brel n (mkL (amp s) (scal s) (exists_ s) (colour_ s) nr ns ne nc rq ch cp (ok s)) (kcnt t nr ns ne nc rq).
  Proof. intros H Hf. brel_destruct H. unfold kcnt. brel_split; try assumption; reflexivity. Qed.
  Lemma brel_ex n s t q : brel n s t -> (q < n)%nat -> nth q (exists_ s) false = kex t q.
  Proof. intros H Hq. brel_destruct H. rewrite Hex. apply nth_map_seq. exact Hq. Qed.
  Lemma brel_col n s t q : brel n s t -> (q < n)%nat -> nth q (colour_ s) CXc = kcol t q.
  Proof. intros H Hq. brel_destruct H. rewrite Hcol. apply nth_map_seq. exact Hq. Qed.

  Lemma brel_ensure n s t q : brel n s t -> (q < n)%nat -> brel n (ensure s q) (kensure t q).
  Proof.
    intros H Hq. unfold ensure, kensure. rewrite (brel_ex n s t q H Hq).
    destruct (kex t q); [exact H|].
    apply brel_setcol, brel_setex, brel_setscal; [exact H|].
    rewrite ev_mul. brel_destruct H. rewrite Hk. reflexivity.
  Qed.
  Lemma brel_do_meas n b s t q silent : brel n s t -> (q < n)%nat -> brel n (do_meas n b s q silent) (kdo_meas b t q silent).
  Proof.
    intros H Hq. unfold do_meas, kdo_meas.
    pose proof (brel_ensure n s t q H Hq) as He.
    set (s' := ensure s q) in *. set (t' := kensure t q) in *.
    assert (Hns' : nsil s' = knsil t') by (brel_destruct He; assumption).
    assert (Hnr' : nrec s' = knrec t') by (brel_destruct He; assumption).
    rewrite Hns', Hnr'.
    set (r := if silent then bit (bsil b) (knsil t') else bit (brec b) (knrec t')).
    assert (H1 : brel n (setcol (setscal (setamp s' (app_proj n q r (amp s'))) (pmul psqrt2inv (scal s'))) q CZc)
                        (ksetcol (ksetk (ksetpsi t' (aapp1 (projf r) q (kpsi t'))) (ev psqrt2inv * kk t')) q CZc)).
    { apply brel_setcol, brel_setscal; [apply brel_setamp; [exact He|] |].
      - rewrite (st_proj' n q r _ Hq).
        brel_destruct He. rewrite Hpsi. reflexivity.
      - cbn [scal setamp]. rewrite ev_mul. brel_destruct He. rewrite Hk. reflexivity. }
    set (s1 := setcol _ q CZc) in *. set (t1 := ksetcol _ q CZc) in *.
    assert (G : nrec s1 = knrec t1 /\ nsil s1 = knsil t1 /\ nerr s1 = knerr t1 /\ ncorr s1 = kncorr t1 /\ recq s1 = krecq t1 /\ Forall (fun q => (q < n)%nat) (recq s1)).
    { brel_destruct H1. repeat split; assumption. }
    destruct G as (G1 & G2 & G3 & G4 & G5 & G6).
    destruct silent.
    - rewrite G1, G2, G3, G4, G5. apply brel_cnt; [exact H1 | rewrite <- G5; exact G6].
    - rewrite G1, G2, G3, G4, G5. apply brel_cnt; [exact H1 |]. rewrite <- G5. apply Forall_app. split; [exact G6 | constructor; [exact Hq | constructor]].
  Qed.
  Lemma brel_do_err n b s t c q idx : brel n s t -> (q < n)%nat -> brel n (do_err n b s c q idx) (kdo_err b t c q idx).
  Proof.
    intros H Hq. unfold do_err, kdo_err.
    pose proof (brel_ensure n s t q H Hq) as He.
    apply brel_setcol. destruct (bit (berr b) idx); [|exact He].
    apply brel_setamp; [exact He|].
    rewrite (st_app1' n q _ _ Hq).
    brel_destruct He. rewrite Hpsi. reflexivity.
  Qed.

  Lemma meas_case n b s t q p silent (restore : bool) : brel n s t -> (q < n)%nat ->
    brel n
      (let noisy := match Qcompare 0 p with Lt => true | _ => false end in
       let s := if noisy then do_err n b (mkL (amp s) (scal s) (exists_ s) (colour_ s) (nrec s) (nsil s) (nerr s) (ncorr s) (recq s) (chans s ++ [ChError p]) (corrp s) (ok s)) CXc q (nerr s) else s in
       let s := do_meas n b s q silent in
       if noisy then
         let s := if restore then do_err n b s CXc q (nerr s) else s in
         mkL (amp s) (scal s) (exists_ s) (colour_ s) (nrec s) (nsil s) (S (nerr s)) (ncorr s) (recq s) (chans s) (corrp s) (ok s)
       else s)
      (let noisy := match Qcompare 0 p with Lt => true | _ => false end in
       let s := if noisy then kdo_err b t CXc q (knerr t) else t in
       let s := kdo_meas b s q silent in
       if noisy then
         let s := if restore then kdo_err b s CXc q (knerr s) else s in
         kcnt s (knrec s) (knsil s) (S (knerr s)) (kncorr s) (krecq s)
       else s).
  Proof.
    intros H Hw. pose proof H as H'. brel_destruct H'.
    destruct (Qcompare 0 p); cbv zeta; [apply brel_do_meas; assumption | | apply brel_do_meas; assumption].
    assert (H1 : brel n (do_err n b (mkL (amp s) (scal s) (exists_ s) (colour_ s) (nrec s) (nsil s) (nerr s) (ncorr s) (recq s) (chans s ++ [ChError p]) (corrp s) (ok s)) CXc q (nerr s)) (kdo_err b t CXc q (knerr t))).
    { rewrite Hne at 2. apply brel_do_err; [brel_split; assumption | exact Hw]. }
    pose proof (brel_do_meas n b _ _ q silent H1 Hw) as H2.
    set (s2 := do_meas n b _ q silent) in *. set (t2 := kdo_meas b _ q silent) in *.
    assert (H3 : brel n (if restore then do_err n b s2 CXc q (nerr s2) else s2) (if restore then kdo_err b t2 CXc q (knerr t2) else t2)).
    { destruct restore; [|exact H2]. pose proof H2 as H2'. destruct H2' as (_ & _ & _ & _ & _ & _ & Hne2 & _). rewrite Hne2. apply brel_do_err; [exact H2 | exact Hw]. }
    set (s3 := if restore then _ else s2) in *. set (t3 := if restore then _ else t2) in *.
    pose proof H3 as H3'. destruct H3' as (_ & _ & _ & _ & Hnr3 & Hns3 & Hne3 & Hnc3 & Hrq3 & _ & Hlt3).
    rewrite Hnr3, Hns3, Hne3, Hnc3, Hrq3. apply brel_cnt; [exact H3 | rewrite <- Hrq3; exact Hlt3].
  Qed.

  Lemma reset_case n b s t q (trace : bool) : brel n s t -> (q < n)%nat ->
    brel n
      (if negb (nth q (exists_ s) false) then setcol (setex s q) q CXc
       else
         let s := if trace then do_meas n b s q true else s in
         let col := nth q (colour_ s) CXc in
         let s := match col with
                  | CZc => setamp s (app_cut n q p1 p1 (amp s))
                  | CXc => setamp s (app_cut n q psqrt2 p0 (amp s))
                  end in
         setcol s q CXc)
      (if negb (kex t q) then ksetcol (ksetex t q) q CXc
       else
         let s := if trace then kdo_meas b t q true else t in
         let s := match kcol s q with
                  | CZc => ksetpsi s (aapp1 (cutf p1 p1) q (kpsi s))
                  | CXc => ksetpsi s (aapp1 (cutf psqrt2 p0) q (kpsi s))
                  end in
         ksetcol s q CXc).
  Proof.
    intros H Hw. rewrite (brel_ex n s t q H Hw).
    destruct (kex t q); cbn [negb]; [|apply brel_setcol, brel_setex; exact H].
    cbv zeta.
    assert (H1 : brel n (if trace then do_meas n b s q true else s) (if trace then kdo_meas b t q true else t))
      by (destruct trace; [apply brel_do_meas; assumption | exact H]).
    set (s1 := if trace then do_meas n b s q true else s) in *. set (t1 := if trace then kdo_meas b t q true else t) in *.
    rewrite (brel_col n s1 t1 q H1 Hw). apply brel_setcol.
    destruct (kcol t1 q); (apply brel_setamp; [exact H1|]); rewrite (st_cut' n q _ _ _ Hw); destruct H1 as (Hpsi & _); rewrite Hpsi; reflexivity.
  Qed.
  Lemma feedback_case n b s t (is_cx : bool) ridx tgt : brel n s t -> (tgt < n)%nat ->
    brel n
      (let r := bit (brec b) ridx in
       let cq := nth ridx (recq s) 0%nat in
       let s := ensure (ensure s cq) tgt in
       let s := if r then setamp s (Lane.app1 n tgt (if is_cx then mX else mZ) (amp s)) else s in
       setcol (setcol s cq CZc) tgt (if is_cx then CXc else CZc))
      (let r := bit (brec b) ridx in
       let cq := nth ridx (krecq t) 0%nat in
       let s := kensure (kensure t cq) tgt in
       let s := if r then ksetpsi s (aapp1 (m2f_of (if is_cx then mX else mZ)) tgt (kpsi s)) else s in
       ksetcol (ksetcol s cq CZc) tgt (if is_cx then CXc else CZc)).
  Proof.
    intros H Hw. cbv zeta. pose proof H as H'. brel_destruct H'. rewrite Hrq.
    assert (Hcq : (nth ridx (krecq t) 0 < n)%nat).
    { rewrite <- Hrq. destruct (Nat.ltb_spec ridx (List.length (recq s))) as [Hl|Hl].
      - rewrite Forall_forall in Hlt. apply Hlt. apply nth_In. exact Hl.
      - rewrite nth_overflow by exact Hl. lia. }
    pose proof (brel_ensure n _ _ tgt (brel_ensure n s t _ H Hcq) Hw) as He.
    apply brel_setcol, brel_setcol. destruct (bit (brec b) ridx); [|exact He].
    apply brel_setamp; [exact He|]. rewrite (st_app1' n tgt _ _ Hw). destruct He as (Hp & _). rewrite Hp. reflexivity.
  Qed.

  (* ---- well-formed primitives on n lanes ---- *)
  Fixpoint wf_op (n : nat) (o : op nat) : bool :=
    match o with
    | OSpider _ q _ | OErr _ q _ _ | OH q | OI q | OMeas q _ _ _ | OReset q _ => Nat.ltb q n
    | OSwap a c => Nat.ltb a n && Nat.ltb c n && negb (Nat.eqb a c)
    | OCxCz _ a c None => Nat.ltb a n && Nat.ltb c n && negb (Nat.eqb a c)
    | OCxCz is_cx ctl tgt (Some (c0, c1)) =>
        let '(ctl, tgt, c0, c1) := if c1 && negb is_cx then (tgt, ctl, c1, c0) else (ctl, tgt, c0, c1) in
        if c1 then true
        else if negb c0 then Nat.ltb ctl n && Nat.ltb tgt n && negb (Nat.eqb ctl tgt)
        else Nat.ltb tgt n
    | OIfLane q body => Nat.ltb q n && forallb (wf_op n) body
    | _ => true
    end.

  Lemma brel_two n (is_cx : bool) a c s t : brel n s t -> (a < n)%nat -> (c < n)%nat -> a <> c ->
    brel n (setcol (setcol (setamp (ensure (ensure s a) c) (if is_cx then app_cx n a c (amp (ensure (ensure s a) c)) else app_cz n a c (amp (ensure (ensure s a) c)))) a CZc) c (if is_cx then CXc else CZc))
           (ksetcol (ksetcol (ksetpsi (kensure (kensure t a) c) (aapp2 (if is_cx then cx4 else cz4) a c (kpsi (kensure (kensure t a) c)))) a CZc) c (if is_cx then CXc else CZc)).
  Proof.
    intros H Ha Hc Hac.
    pose proof (brel_ensure n _ _ c (brel_ensure n s t a H Ha) Hc) as He.
    apply brel_setcol, brel_setcol, brel_setamp; [exact He|].
    destruct is_cx.
    - rewrite (st_cx' n a c _ Ha Hc Hac).
      brel_destruct He. rewrite Hpsi. reflexivity.
    - rewrite (st_cz' n a c _ Ha Hc Hac).
      brel_destruct He. rewrite Hpsi. reflexivity.
  Qed.

  Lemma brel_fold n b f : (forall o s t, brel n s t -> wf_op n o = true -> brel n (step f n b s o) (kstep f b t o)) ->
    forall body s t, brel n s t -> forallb (wf_op n) body = true -> brel n (fold_left (step f n b) body s) (fold_left (kstep f b) body t).
  Proof.
    intros IH body. induction body as [|o body IHb]; intros s t H Hw; cbn [fold_left]; [exact H|].
    cbn [forallb] in Hw. apply andb_true_iff in Hw. destruct Hw as [Hw1 Hw2].
    apply IHb; [apply IH; assumption | exact Hw2].
  Qed.

  Theorem step_bridge n b fuel : forall o s t, brel n s t -> wf_op n o = true -> brel n (step fuel n b s o) (kstep fuel b t o).
  Proof.
    induction fuel as [|f IHf]; intros o s t H Hw.
    all: destruct o as [c q e | c q rel corr | q | is_cx ctl tgt cc | a c | q | q p silent restore | q trace | e | k | ch | k | p | q body |].
    all: try (cbn [wf_op] in Hw; apply Nat.ltb_lt in Hw).
    (* the cases that do not depend on the fuel are solved by the same script for both values *)
    all: try match goal with |- brel _ (step _ _ _ _ (OSpider _ _ _)) _ =>
      cbn [step kstep]; pose proof (brel_ensure n s t q H Hw) as He; apply brel_setcol, brel_setamp; [exact He|];
      rewrite (st_app1' n q _ _ Hw);
      destruct He as (Hpsi & _); rewrite Hpsi; reflexivity end.
    all: try match goal with |- brel _ (step _ _ _ _ (OErr _ _ _ _)) _ =>
      cbn [step kstep]; pose proof H as H'; destruct H' as (Hpsi & Hk & Hex & Hcol & Hnr & Hns & Hne & Hnc & Hrq & Hok & Hlt); rewrite Hne, Hnc;
      apply brel_do_err; [exact H | exact Hw] end.
    all: try match goal with |- brel _ (step _ _ _ _ (OH _)) _ =>
      cbn [step kstep]; pose proof (brel_ensure n s t q H Hw) as He; apply brel_setamp; [exact He|];
      rewrite (st_app1' n q _ _ Hw);
      destruct He as (Hpsi & _); rewrite Hpsi; reflexivity end.
    all: try match goal with |- brel _ (step _ _ _ _ (OI _)) _ => cbn [step kstep]; apply brel_ensure; assumption end.
    all: try match goal with |- brel _ (step _ _ _ _ (OPhase _)) _ =>
      cbn [step kstep]; apply brel_setscal; [exact H|]; rewrite ev_mul; destruct H as (_ & Hk & _); rewrite Hk; reflexivity end.
    all: try match goal with |- brel _ (step _ _ _ _ (OPower _)) _ =>
      cbn [step kstep]; apply brel_setscal; [exact H|]; rewrite ev_mul; destruct H as (_ & Hk & _); rewrite Hk; reflexivity end.
    all: try match goal with |- brel _ (step _ _ _ _ (OChan _)) _ =>
      cbn [step kstep]; destruct H as (Hpsi & Hk & Hex & Hcol & Hnr & Hns & Hne & Hnc & Hrq & Hok & Hlt); brel_split; assumption end.
    all: try match goal with |- brel _ (step _ _ _ _ (OBumpErr _)) _ =>
      cbn [step kstep]; pose proof H as H'; destruct H' as (Hpsi & Hk & Hex & Hcol & Hnr & Hns & Hne & Hnc & Hrq & Hok & Hlt);
      rewrite Hnr, Hns, Hne, Hnc, Hrq; apply brel_cnt; [exact H | rewrite <- Hrq; exact Hlt] end.
    all: try match goal with |- brel _ (step _ _ _ _ (OCorrProb _)) _ =>
      cbn [step kstep]; pose proof H as H'; destruct H' as (Hpsi & Hk & Hex & Hcol & Hnr & Hns & Hne & Hnc & Hrq & Hok & Hlt);
      rewrite Hnr, Hns, Hne, Hnc, Hrq; apply brel_cnt; [exact H | rewrite <- Hrq; exact Hlt] end.
    all: try match goal with |- brel _ (step _ _ _ _ OFinalize) _ =>
      cbn [step kstep]; unfold finalize_corr, kfinalize; pose proof H as H'; destruct H' as (Hpsi & Hk & Hex & Hcol & Hnr & Hns & Hne & Hnc & Hrq & Hok & Hlt);
      rewrite Hnc; destruct (kncorr t); [exact H|]; rewrite Hnr, Hns, Hne, Hrq; apply brel_cnt; [exact H | rewrite <- Hrq; exact Hlt] end.
    all: try match goal with |- brel _ (step _ _ _ _ (OSwap _ _)) _ =>
      cbn [step kstep]; cbn [wf_op] in Hw; apply andb_true_iff in Hw; destruct Hw as [Hw Hac]; apply andb_true_iff in Hw; destruct Hw as [Ha Hc];
      apply Nat.ltb_lt in Ha, Hc; apply negb_true_iff, Nat.eqb_neq in Hac;
      pose proof (brel_ensure n _ _ c (brel_ensure n s t a H Ha) Hc) as He;
      rewrite (brel_col n _ _ a He Ha), (brel_col n _ _ c He Hc);
      apply brel_setcol, brel_setcol, brel_setamp; [exact He|];
      rewrite (st_swap' n a c _ Ha Hc Hac);
      destruct He as (Hpsi & _); rewrite Hpsi; reflexivity end.
    all: try match goal with |- brel _ (step _ _ _ _ (OMeas _ _ _ _)) _ => cbn [step kstep]; apply meas_case; assumption end.
    all: try match goal with |- brel _ (step _ _ _ _ (OReset _ _)) _ => cbn [step kstep]; apply reset_case; assumption end.
    all: try match goal with |- brel _ (step _ _ _ _ (OCxCz _ _ _ _)) _ =>
      destruct cc as [[c0 c1]|]; cbn [wf_op] in Hw;
      [ cbn [step kstep];
        destruct (c1 && negb is_cx)%bool;
        [ destruct c0; [apply brel_fail; exact H|]; destruct c1; cbn [negb] in *;
          [ apply Nat.ltb_lt in Hw; apply feedback_case; assumption
          | apply andb_true_iff in Hw; destruct Hw as [Hw Hac]; apply andb_true_iff in Hw; destruct Hw as [Ha Hc];
            apply Nat.ltb_lt in Ha, Hc; apply negb_true_iff, Nat.eqb_neq in Hac; apply brel_two; assumption ]
        | destruct c1; [apply brel_fail; exact H|]; destruct c0; cbn [negb] in *;
          [ apply Nat.ltb_lt in Hw; apply feedback_case; assumption
          | apply andb_true_iff in Hw; destruct Hw as [Hw Hac]; apply andb_true_iff in Hw; destruct Hw as [Ha Hc];
            apply Nat.ltb_lt in Ha, Hc; apply negb_true_iff, Nat.eqb_neq in Hac; apply brel_two; assumption ] ]
      | cbn [step kstep]; apply andb_true_iff in Hw; destruct Hw as [Hw Hac]; apply andb_true_iff in Hw; destruct Hw as [Ha Hc];
        apply Nat.ltb_lt in Ha, Hc; apply negb_true_iff, Nat.eqb_neq in Hac; apply brel_two; assumption ] end.
    - cbn [step kstep]. apply brel_fail. exact H.
    - cbn [wf_op] in Hw. apply andb_true_iff in Hw. destruct Hw as [Hq Hb]. apply Nat.ltb_lt in Hq.
      cbn [step kstep]. rewrite (brel_ex n s t q H Hq). destruct (kex t q); [|exact H].
      apply (brel_fold n b f IHf); assumption.
  Qed.

  Theorem run_bridge n b ops : forall s t, brel n s t -> forallb (wf_op n) ops = true -> brel n (run n b ops s) (krun b ops t).
  Proof. intros s t H Hw. unfold run, krun. apply (brel_fold n b 8 (step_bridge n b 8)); assumption. Qed.

  (* the initial state: no lane exists, every lane holds |0> *)
  Definition kinit : kst := mkK rI (fun x => rI) (fun _ => false) (fun _ => CXc) 0 0 0 0 [] true.

  (* ---- the bookkeeping (flags, counters, record lanes) never looks at the bits, the amplitudes or the scalar ---- *)
  Definition skel_eq (t t' : kst) : Prop :=
    kex t = kex t' /\ kcol t = kcol t' /\ knrec t = knrec t' /\ knsil t = knsil t' /\ knerr t = knerr t' /\ kncorr t = kncorr t' /\
    krecq t = krecq t' /\ kok t = kok t'.
  Ltac skel_destruct H := destruct H as (Kex & Kcol & Knr & Kns & Kne & Knc & Krq & Kok).
  Ltac skel_split := unfold skel_eq; cbn [kk kpsi kex kcol knrec knsil knerr kncorr krecq kok]; repeat match goal with |- _ /\ _ => split end.
  Lemma skel_refl t : skel_eq t t.
  Proof. skel_split; reflexivity. Qed.
  Lemma skel_setpsi t t' p p' : skel_eq t t' -> skel_eq (ksetpsi t p) (ksetpsi t' p').
  Proof. intro H. skel_destruct H. unfold ksetpsi. skel_split; assumption. Qed.
  Lemma skel_setk t t' k k' : skel_eq t t' -> skel_eq (ksetk t k) (ksetk t' k').
  Proof. intro H. skel_destruct H. unfold ksetk. skel_split; assumption. Qed.
  Lemma skel_setcol t t' q c : skel_eq t t' -> skel_eq (ksetcol t q c) (ksetcol t' q c).
  Proof. intro H. skel_destruct H. unfold ksetcol. skel_split; try assumption. rewrite Kcol. reflexivity. Qed.
  Lemma skel_setex t t' q : skel_eq t t' -> skel_eq (ksetex t q) (ksetex t' q).
  Proof. intro H. skel_destruct H. unfold ksetex. skel_split; try assumption. rewrite Kex. reflexivity. Qed.
  Lemma skel_fail t t' : skel_eq t t' -> skel_eq (kfail t) (kfail t').
  Proof. intro H. skel_destruct H. unfold kfail. skel_split; try assumption. reflexivity. Qed.
  Lemma skel_cnt t t' nr ns ne nc rq : skel_eq t t' -> skel_eq (kcnt t nr ns ne nc rq) (kcnt t' nr ns ne nc rq).
  Proof. intro H. skel_destruct H. unfold kcnt. skel_split; try assumption; reflexivity. Qed.
  Lemma skel_ensure t t' q : skel_eq t t' -> skel_eq (kensure t q) (kensure t' q).
  Proof.
    intro H. pose proof H as H'. skel_destruct H'. unfold kensure. rewrite Kex. destruct (kex t' q); [exact H|].
    apply skel_setcol, skel_setex, skel_setk. exact H.
  Qed.
  Lemma skel_do_meas b b' t t' q silent : skel_eq t t' -> skel_eq (kdo_meas b t q silent) (kdo_meas b' t' q silent).
  Proof.
    intro H. unfold kdo_meas. pose proof (skel_ensure t t' q H) as He.
    set (u := kensure t q) in *. set (u' := kensure t' q) in *.
    set (r := if silent then bit (bsil b) (knsil u) else bit (brec b) (knrec u)).
    set (r' := if silent then bit (bsil b') (knsil u') else bit (brec b') (knrec u')).
    assert (H1 : skel_eq (ksetcol (ksetk (ksetpsi u (aapp1 (projf r) q (kpsi u))) (ev psqrt2inv * kk u)) q CZc)
                         (ksetcol (ksetk (ksetpsi u' (aapp1 (projf r') q (kpsi u'))) (ev psqrt2inv * kk u')) q CZc))
      by (apply skel_setcol, skel_setk, skel_setpsi; exact He).
    set (v := ksetcol _ q CZc) in *. set (v' := ksetcol _ q CZc) in *.
    pose proof H1 as H1'. skel_destruct H1'. destruct silent; rewrite Knr, Kns, Kne, Knc, Krq; apply skel_cnt; exact H1.
  Qed.
  Lemma skel_do_err b b' t t' c q idx idx' : skel_eq t t' -> skel_eq (kdo_err b t c q idx) (kdo_err b' t' c q idx').
  Proof.
    intro H. unfold kdo_err. pose proof (skel_ensure t t' q H) as He. apply skel_setcol.
    destruct (bit (berr b) idx), (bit (berr b') idx'); try apply skel_setpsi; try exact He.
  Qed.

  Lemma skel_fold f b b' : (forall o t t', skel_eq t t' -> skel_eq (kstep f b t o) (kstep f b' t' o)) ->
    forall body t t', skel_eq t t' -> skel_eq (fold_left (kstep f b) body t) (fold_left (kstep f b') body t').
  Proof.
    intros IH body. induction body as [|o body IHb]; intros t t' H; cbn [fold_left]; [exact H|]. apply IHb, IH, H.
  Qed.
  Theorem skel_step b b' fuel : forall o t t', skel_eq t t' -> skel_eq (kstep fuel b t o) (kstep fuel b' t' o).
  Proof.
    induction fuel as [|f IHf]; intros o t t' H.
    all: destruct o as [c q e | c q rel corr | q | is_cx ctl tgt cc | a c | q | q p silent restore | q trace | e | k | ch | k | p | q body |];
      cbn [kstep]; pose proof H as H'; skel_destruct H'.
    all: try (apply skel_setcol, skel_setpsi, skel_ensure; exact H).
    all: try (rewrite Kne, Knc; apply skel_do_err; exact H).
    all: try (apply skel_setpsi, skel_ensure; exact H).
    all: try (apply skel_ensure; exact H).
    all: try (apply skel_setk; exact H).
    all: try exact H.
    all: try (rewrite ?Knr, ?Kns, ?Kne, ?Knc, ?Krq; apply skel_cnt; exact H).
    all: try (unfold kfinalize; rewrite Knc; destruct (kncorr t'); [exact H|]; rewrite Knr, Kns, Kne, Krq; apply skel_cnt; exact H).
    all: try match goal with |- context [sw4] =>
      pose proof (skel_ensure _ _ c (skel_ensure t t' a H)) as He; pose proof He as He'; destruct He' as (_ & Kc2 & _); rewrite Kc2;
      apply skel_setcol, skel_setcol, skel_setpsi; exact He end.
    all: try match goal with |- context [Qcompare 0 ?pp] =>
      destruct (Qcompare 0 pp); cbv zeta; [apply skel_do_meas; exact H | | apply skel_do_meas; exact H];
      pose proof (skel_do_err b b' t t' CXc q (knerr t) (knerr t') H) as H1;
      pose proof (skel_do_meas b b' _ _ q silent H1) as H2;
      set (t2 := kdo_meas b _ q silent) in *; set (t2' := kdo_meas b' _ q silent) in *;
      assert (H3 : skel_eq (if restore then kdo_err b t2 CXc q (knerr t2) else t2) (if restore then kdo_err b' t2' CXc q (knerr t2') else t2'))
        by (destruct restore; [apply skel_do_err; exact H2 | exact H2]);
      set (t3 := if restore then _ else t2) in *; set (t3' := if restore then _ else t2') in *;
      pose proof H3 as H3'; destruct H3' as (_ & _ & Knr3 & Kns3 & Kne3 & Knc3 & Krq3 & _);
      rewrite Knr3, Kns3, Kne3, Knc3, Krq3; apply skel_cnt; exact H3 end.
    all: try match goal with |- context [cutf] =>
      rewrite Kex; destruct (kex t' q); cbn [negb]; [|apply skel_setcol, skel_setex; exact H]; cbv zeta;
      assert (H1 : skel_eq (if trace then kdo_meas b t q true else t) (if trace then kdo_meas b' t' q true else t'))
        by (destruct trace; [apply skel_do_meas; exact H | exact H]);
      set (t1 := if trace then _ else t) in *; set (t1' := if trace then _ else t') in *;
      pose proof H1 as H1'; destruct H1' as (_ & Kc1 & _); rewrite Kc1;
      apply skel_setcol; destruct (kcol t1' q); apply skel_setpsi; exact H1 end.
    all: try match goal with |- context [fold_left] => rewrite Kex; destruct (kex t' q); [|exact H]; apply (skel_fold f b b' IHf); exact H end.
    all: try (apply skel_fail; exact H).
    all: try match goal with |- context [cx4] =>
      destruct cc as [[c0 c1]|];
      [ destruct (c1 && negb is_cx)%bool;
        [ destruct c0; [apply skel_fail; exact H|]; destruct c1; cbn [negb]
        | destruct c1; [apply skel_fail; exact H|]; destruct c0; cbn [negb] ] | ];
      try (apply skel_setcol, skel_setcol, skel_setpsi, skel_ensure, skel_ensure; exact H);
      rewrite Krq;
      match goal with |- context [kensure (kensure _ ?cq) ?tg] =>
        pose proof (skel_ensure _ _ tg (skel_ensure t t' cq H)) as He end;
      apply skel_setcol, skel_setcol; destruct (bit (brec b) _), (bit (brec b') _); try apply skel_setpsi; try exact He end.
  Qed.
  Theorem skel_run b b' ops t t' : skel_eq t t' -> skel_eq (krun b ops t) (krun b' ops t').
  Proof. intro H. unfold krun. apply (skel_fold 8 b b' (skel_step b b' 8)). exact H. Qed.

  (* ---- the interpreter does not look at the payload of OChan, and at the probability of OMeas only through `0 < p` ---- *)
  Definition noisy_p (p : prob) : bool := match Qcompare 0 p with Lt => true | _ => false end.
  Definition op_same (o o' : op nat) : Prop :=
    match o, o' with
    | OChan _, OChan _ => True
    | OMeas q p s r, OMeas q' p' s' r' => q = q' /\ s = s' /\ r = r' /\ noisy_p p = noisy_p p'
    | _, _ => o = o'
    end.
  Lemma kstep_same f b t o o' : op_same o o' -> kstep f b t o = kstep f b t o'.
  Proof.
    destruct o, o'; cbn [op_same]; intro H; try (rewrite H; reflexivity); try (injection H; intros; subst; reflexivity); try discriminate H; try contradiction.
    all: try (destruct H as (-> & -> & -> & Hn); unfold noisy_p in Hn; destruct f; cbn [kstep]; rewrite Hn; reflexivity).
    all: try (destruct f; reflexivity).
  Qed.
  Lemma krun_same b ops ops' : Forall2 op_same ops ops' -> forall t, krun b ops t = krun b ops' t.
  Proof.
    unfold krun. induction 1 as [|o o' l l' Ho Hl IH]; intro t; cbn [fold_left]; [reflexivity|]. rewrite (kstep_same 8 b t o o' Ho). apply IH.
  Qed.
  Lemma op_same_refl o : op_same o o.
  Proof. destruct o; cbn [op_same]; auto. Qed.
  Lemma Forall2_same_refl ops : Forall2 op_same ops ops.
  Proof. induction ops; constructor; [apply op_same_refl | assumption]. Qed.
  Lemma wf_op_same n o o' : op_same o o' -> wf_op n o = wf_op n o'.
  Proof.
    destruct o, o'; cbn [op_same]; intro H; try (rewrite H; reflexivity); try discriminate H; try contradiction; try reflexivity.
    destruct H as (-> & _). reflexivity.
  Qed.

  (* ---- every recorded measurement lane exists, and there is one recorded lane per record bit ---- *)
  Definition kinv (t : kst) : Prop := List.length (krecq t) = knrec t /\ Forall (fun q => kex t q = true) (krecq t).
  Lemma kinv_setpsi t p : kinv t -> kinv (ksetpsi t p). Proof. intro H; exact H. Qed.
  Lemma kinv_setk t k : kinv t -> kinv (ksetk t k). Proof. intro H; exact H. Qed.
  Lemma kinv_setcol t q c : kinv t -> kinv (ksetcol t q c). Proof. intro H; exact H. Qed.
  Lemma kinv_fail t : kinv t -> kinv (kfail t). Proof. intro H; exact H. Qed.
  Lemma kinv_setex t q : kinv t -> kinv (ksetex t q).
  Proof.
    intros [H1 H2]. split; [exact H1|]. cbn [krecq kex ksetex]. rewrite Forall_forall in *. intros x Hx. unfold fupd.
    destruct (Nat.eqb x q); [reflexivity | apply H2; exact Hx].
  Qed.
  Lemma kinv_cnt_same t ns ne nc : kinv t -> kinv (kcnt t (knrec t) ns ne nc (krecq t)). Proof. intro H; exact H. Qed.
  Lemma kinv_ensure t q : kinv t -> kinv (kensure t q).
  Proof. intro H. unfold kensure. destruct (kex t q); [exact H|]. apply kinv_setcol, kinv_setex, kinv_setk. exact H. Qed.
  Lemma kensure_ex t q : kex (kensure t q) q = true.
  Proof. unfold kensure. destruct (kex t q) eqn:Eq; [exact Eq|]. cbn [kex ksetcol ksetex ksetk]. unfold fupd. rewrite Nat.eqb_refl. reflexivity. Qed.
  Lemma kinv_do_meas b t q silent : kinv t -> kinv (kdo_meas b t q silent).
  Proof.
    intro H. unfold kdo_meas. pose proof (kinv_ensure t q H) as He. pose proof (kensure_ex t q) as Hex.
    set (u := kensure t q) in *. destruct He as [H1 H2]. destruct silent; unfold kinv, kcnt, ksetcol, ksetk, ksetpsi; cbn [knrec krecq kex].
    - split; assumption.
    - split; [rewrite app_length, H1; cbn; lia | apply Forall_app; split; [exact H2 | constructor; [exact Hex | constructor]]].
  Qed.
  Lemma kinv_do_err b t c q idx : kinv t -> kinv (kdo_err b t c q idx).
  Proof. intro H. unfold kdo_err. apply kinv_setcol. destruct (bit (berr b) idx); [apply kinv_setpsi|]; apply kinv_ensure; exact H. Qed.
  Lemma kinv_fold f b : (forall o t, kinv t -> kinv (kstep f b t o)) -> forall body t, kinv t -> kinv (fold_left (kstep f b) body t).
  Proof. intros IH body. induction body as [|o body IHb]; intros t H; cbn [fold_left]; [exact H | apply IHb, IH, H]. Qed.
  Theorem kinv_step b fuel : forall o t, kinv t -> kinv (kstep fuel b t o).
  Proof.
    induction fuel as [|f IHf]; intros o t H.
    all: destruct o as [c q e | c q rel corr | q | is_cx ctl tgt cc | a c | q | q p silent restore | q trace | e | k | ch | k | p | q body |]; cbn [kstep].
    all: try (apply kinv_setcol, kinv_setpsi, kinv_ensure; exact H).
    all: try (apply kinv_do_err; exact H).
    all: try (apply kinv_setpsi, kinv_ensure; exact H).
    all: try (apply kinv_ensure; exact H).
    all: try exact H.
    all: try (apply kinv_fail; exact H).
    all: try match goal with |- context [sw4] => apply kinv_setcol, kinv_setcol, kinv_setpsi, kinv_ensure, kinv_ensure; exact H end.
    all: try match goal with |- kinv (kfinalize _) => unfold kfinalize; destruct (kncorr t); exact H end.
    all: try match goal with |- context [Qcompare 0 ?pp] =>
      destruct (Qcompare 0 pp); cbv zeta; try (apply kinv_do_meas; exact H);
      match goal with |- kinv (kcnt ?u _ _ _ _ _) => assert (Hu : kinv u) by (destruct restore; [apply kinv_do_err|]; apply kinv_do_meas, kinv_do_err; exact H); exact Hu end end.
    all: try match goal with |- context [cutf] =>
      destruct (negb (kex t q)); [apply kinv_setcol, kinv_setex; exact H|]; cbv zeta; apply kinv_setcol;
      match goal with |- kinv (match kcol ?u ?qq with _ => _ end) => assert (Hu : kinv u) by (destruct trace; [apply kinv_do_meas|]; exact H); destruct (kcol u qq); apply kinv_setpsi; exact Hu end end.
    all: try match goal with |- context [fold_left] => destruct (kex t q); [apply (kinv_fold f b IHf); exact H | exact H] end.
    all: destruct cc as [[c0 c1]|]; [|apply kinv_setcol, kinv_setcol, kinv_setpsi, kinv_ensure, kinv_ensure; exact H].
    all: destruct c0, c1, is_cx; cbn [andb negb]; try (apply kinv_fail; exact H);
      try (apply kinv_setcol, kinv_setcol, kinv_setpsi, kinv_ensure, kinv_ensure; exact H);
      (apply kinv_setcol, kinv_setcol; match goal with |- context [bit (brec ?bb) ?i] => destruct (bit (brec bb) i) end; [apply kinv_setpsi | idtac]; apply kinv_ensure, kinv_ensure; exact H).
  Qed.
  Theorem kinv_run b ops t : kinv t -> kinv (krun b ops t).
  Proof. intro H. unfold krun. apply (kinv_fold 8 b (kinv_step b 8)). exact H. Qed.

  (* ---- lanes that do not exist yet hold |0>: the amplitude vanishes wherever such a lane reads 1 ---- *)
  Definition ksupp (n : nat) (t : kst) : Prop := forall u, (u < n)%nat -> kex t u = false -> forall x, x u = true -> kpsi t x = rO.
  Lemma ksupp_setk n t k : ksupp n t -> ksupp n (ksetk t k). Proof. intro H; exact H. Qed.
  Lemma ksupp_setcol n t q c : ksupp n t -> ksupp n (ksetcol t q c). Proof. intro H; exact H. Qed.
  Lemma ksupp_fail n t : ksupp n t -> ksupp n (kfail t). Proof. intro H; exact H. Qed.
  Lemma ksupp_cnt n t nr ns ne nc rq : ksupp n t -> ksupp n (kcnt t nr ns ne nc rq). Proof. intro H; exact H. Qed.
  Lemma ksupp_setex n t q : ksupp n t -> ksupp n (ksetex t q).
  Proof.
    intros H u Hn Hu x Hx. cbn [kex kpsi ksetex] in *. unfold fupd in Hu. destruct (Nat.eqb u q); [discriminate | apply (H u Hn Hu x Hx)].
  Qed.
  Lemma ksupp_ensure n t q : ksupp n t -> ksupp n (kensure t q).
  Proof. intro H. unfold kensure. destruct (kex t q); [exact H|]. apply ksupp_setcol, ksupp_setex, ksupp_setk. exact H. Qed.
  Lemma ksupp_app1 n t M q : ksupp n t -> kex t q = true -> ksupp n (ksetpsi t (aapp1 M q (kpsi t))).
  Proof.
    intros H Hq u Hn Hu x Hx. cbn [kex kpsi ksetpsi] in *.
    assert (Huq : q <> u) by (intro; subst u; congruence).
    unfold Amp.app1, Amp.sum2. rewrite !(H u Hn Hu) by (rewrite (upd_other x q u) by exact Huq; exact Hx). ring.
  Qed.
  Lemma ksupp_app2 n t M a c : ksupp n t -> kex t a = true -> kex t c = true -> ksupp n (ksetpsi t (aapp2 M a c (kpsi t))).
  Proof.
    intros H Ha Hc u Hn Hu x Hx. cbn [kex kpsi ksetpsi] in *.
    assert (Hua : a <> u) by (intro; subst u; congruence). assert (Huc : c <> u) by (intro; subst u; congruence).
    unfold Amp.app2, Amp.sum2. rewrite !(H u Hn Hu) by (rewrite (upd_other _ c u) by exact Huc; rewrite (upd_other x a u) by exact Hua; exact Hx). ring.
  Qed.
  Lemma kensure_ex_mono t q u : kex t u = true -> kex (kensure t q) u = true.
  Proof.
    intro H. unfold kensure. destruct (kex t q); [exact H|]. cbn [kex ksetcol ksetex ksetk]. unfold fupd. destruct (Nat.eqb u q); [reflexivity | exact H].
  Qed.
  Lemma ksupp_do_meas n b t q silent : ksupp n t -> ksupp n (kdo_meas b t q silent).
  Proof.
    intro H. unfold kdo_meas. pose proof (ksupp_ensure n t q H) as He. pose proof (kensure_ex t q) as Hex.
    set (u := kensure t q) in *. destruct silent; apply ksupp_cnt, ksupp_setcol, ksupp_setk, ksupp_app1; assumption.
  Qed.
  Lemma ksupp_do_err n b t c q idx : ksupp n t -> ksupp n (kdo_err b t c q idx).
  Proof.
    intro H. unfold kdo_err. apply ksupp_setcol. destruct (bit (berr b) idx); [apply ksupp_app1; [apply ksupp_ensure; exact H | apply kensure_ex] | apply ksupp_ensure; exact H].
  Qed.
  Lemma kdo_meas_ex b t q silent : kex (kdo_meas b t q silent) q = true.
  Proof. unfold kdo_meas. destruct silent; cbn [kex kcnt ksetcol ksetk ksetpsi]; apply kensure_ex. Qed.
  Lemma ksupp_fold n f b : (forall o t, ksupp n t -> ksupp n (kstep f b t o)) -> forall body t, ksupp n t -> ksupp n (fold_left (kstep f b) body t).
  Proof. intros IH body. induction body as [|o body IHb]; intros t H; cbn [fold_left]; [exact H | apply IHb, IH, H]. Qed.
  Theorem ksupp_step n b fuel : forall o t, ksupp n t -> ksupp n (kstep fuel b t o).
  Proof.
    induction fuel as [|f IHf]; intros o t H.
    all: destruct o as [c q e | c q rel corr | q | is_cx ctl tgt cc | a c | q | q p silent restore | q trace | e | k | ch | k | p | q body |]; cbn [kstep].
    all: try (apply ksupp_setcol, ksupp_app1; [apply ksupp_ensure; exact H | apply kensure_ex]).
    all: try (apply ksupp_do_err; exact H).
    all: try (apply ksupp_app1; [apply ksupp_ensure; exact H | apply kensure_ex]).
    all: try (apply ksupp_ensure; exact H).
    all: try exact H.
    all: try (apply ksupp_fail; exact H).
    all: try match goal with |- ksupp _ (kfinalize _) => unfold kfinalize; destruct (kncorr t); exact H end.
    all: try match goal with |- context [sw4] =>
      apply ksupp_setcol, ksupp_setcol, ksupp_app2; [apply ksupp_ensure, ksupp_ensure; exact H | apply kensure_ex_mono, kensure_ex | apply kensure_ex] end.
    all: try match goal with |- context [Qcompare 0 ?pp] =>
      destruct (Qcompare 0 pp); cbv zeta; try (apply ksupp_do_meas; exact H);
      match goal with |- ksupp ?nn (kcnt ?u _ _ _ _ _) => assert (Hu : ksupp nn u) by (destruct restore; [apply ksupp_do_err|]; apply ksupp_do_meas, ksupp_do_err; exact H); exact Hu end end.
    all: try match goal with |- context [cutf] =>
      destruct (negb (kex t q)) eqn:Eq; [apply ksupp_setcol, ksupp_setex; exact H|]; cbv zeta; apply ksupp_setcol;
      match goal with |- ksupp ?nn (match kcol ?u ?qq with _ => _ end) =>
        assert (Hu : ksupp nn u /\ kex u qq = true) by (destruct trace; [split; [apply ksupp_do_meas; exact H | apply kdo_meas_ex] | split; [exact H | apply negb_false_iff; exact Eq]]);
        destruct Hu as [Hu1 Hu2]; destruct (kcol u qq); apply ksupp_app1; assumption end end.
    all: try match goal with |- context [fold_left] => destruct (kex t q); [apply (ksupp_fold n f b IHf); exact H | exact H] end.
    all: destruct cc as [[c0 c1]|]; [|apply ksupp_setcol, ksupp_setcol, ksupp_app2; [apply ksupp_ensure, ksupp_ensure; exact H | apply kensure_ex_mono, kensure_ex | apply kensure_ex]].
    all: destruct c0, c1, is_cx; cbn [andb negb]; try (apply ksupp_fail; exact H);
      try (apply ksupp_setcol, ksupp_setcol, ksupp_app2; [apply ksupp_ensure, ksupp_ensure; exact H | apply kensure_ex_mono, kensure_ex | apply kensure_ex]);
      (apply ksupp_setcol, ksupp_setcol; match goal with |- context [bit (brec ?bb) ?i] => destruct (bit (brec bb) i) end;
       [apply ksupp_app1; [apply ksupp_ensure, ksupp_ensure; exact H | apply kensure_ex] | apply ksupp_ensure, ksupp_ensure; exact H]).
  Qed.
  Theorem ksupp_run n b ops t : ksupp n t -> ksupp n (krun b ops t).
  Proof. intro H. unfold krun. apply (ksupp_fold n 8 b (ksupp_step n b 8)). exact H. Qed.
End Kraus.
