(* Lemmas for C14 (randomness discipline).  Plain stdlib style.

   Method: a static LINEARITY CHECKER `check` over the (call-free) key programs -- a variable holding keys may
   be used (split / consumed / turned into a key / moved) only while it is "available", and using it makes
   it unavailable; loops must re-establish the variables they started with -- is proved sound w.r.t. the
   interpreter of Model/KeyFlow.v for ALL oracles (loop counts, split widths).  The regenerated programs are
   then checked by computation. *)
From Coq Require Import ZArith String List Bool Arith Lia.
Import ListNotations.
Require Import TV.Base.KeyTree TV.gen.Gen_keyflow TV.Model.KeyFlow.
Local Open Scope string_scope.
Local Open Scope list_scope.

(* ====================================================================== induction principle for stmt *)
Section StmtInd.
  Variable P : stmt -> Prop.
  Hypothesis HSplit : forall s d0 d1, P (Split s d0 d1).
  Hypothesis HSplitN : forall s a l, P (SplitN s a l).
  Hypothesis HConsume : forall k s d, P (Consume k s d).
  Hypothesis HMkKey : forall d s, P (MkKey d s).
  Hypothesis HMove : forall d s, P (Move d s).
  Hypothesis HLoop : forall l body, Forall P body -> P (Loop l body).
  Hypothesis HFor : forall a e body, Forall P body -> P (ForKeys a e body).
  Hypothesis HCall : forall f a r, P (Call f a r).

  Fixpoint stmt_ind' (s : stmt) : P s :=
    match s with
    | Split s d0 d1 => HSplit s d0 d1
    | SplitN s a l => HSplitN s a l
    | Consume k s d => HConsume k s d
    | MkKey d s => HMkKey d s
    | Move d s => HMove d s
    | Loop l body =>
        HLoop l body ((fix go (b : list stmt) : Forall P b :=
                         match b with [] => Forall_nil P | x :: r => Forall_cons x (stmt_ind' x) (go r) end) body)
    | ForKeys a e body =>
        HFor a e body ((fix go (b : list stmt) : Forall P b :=
                          match b with [] => Forall_nil P | x :: r => Forall_cons x (stmt_ind' x) (go r) end) body)
    | Call f a r => HCall f a r
    end.
End StmtInd.

(* ====================================================================== logs *)
Lemma used_app : forall t t', used (t ++ t') = used t ++ used t'.
Proof. intros. unfold used. apply flat_map_app. Qed.

Lemma origin_mono : forall t t' k, origin_ok t k -> origin_ok (t ++ t') k.
Proof.
  intros t t' [s|k'|p i] H; cbn in *.
  - exact I.
  - apply in_or_app. left. exact H.
  - destruct H as (n & Hin & Hlt). exists n. split; [apply in_or_app; left; exact Hin | exact Hlt].
Qed.

Lemma in_used : forall t e k, In e t -> In k (ev_used e) -> In k (used t).
Proof. intros t e k He Hk. unfold used. apply in_flat_map. exists e. split; assumption. Qed.

Lemma snoc_cases : forall (A : Type) (t t1 t2 : list A) (e e' : A),
  t ++ [e] = t1 ++ e' :: t2 ->
  (t2 = [] /\ t1 = t /\ e' = e) \/ (exists t2', t2 = t2' ++ [e] /\ t = t1 ++ e' :: t2').
Proof.
  intros A t t1 t2 e e' H.
  destruct t2 as [|x t2].
  - left. apply app_inj_tail in H. destruct H as [H1 H2]. auto.
  - right. destruct (@exists_last A (x :: t2)) as (l' & a & Hl); [discriminate|].
    rewrite Hl in H. change (e' :: l' ++ [a]) with ((e' :: l') ++ [a]) in H. rewrite app_assoc in H.
    apply app_inj_tail in H. destruct H as [H1 H2]. subst a. exists l'. split; [exact Hl|].
    rewrite H1. reflexivity.
Qed.

Definition key_ok (t : list event) (k : key) : Prop := ~ In k (used t) /\ origin_ok t k.

Lemma disciplined_nil : disciplined [].
Proof. intros t1 e t2 H. destruct t1; discriminate. Qed.

Lemma disciplined_snoc : forall t e, disciplined t -> (forall k, In k (ev_used e) -> key_ok t k) -> disciplined (t ++ [e]).
Proof.
  intros t e Hd He t1 e' t2 Heq k Hk.
  apply snoc_cases in Heq. destruct Heq as [(-> & -> & ->) | (t2' & -> & ->)].
  - apply He. exact Hk.
  - apply (Hd t1 e' t2' eq_refl k Hk).
Qed.

(* every used key of a disciplined log has its origin in the log *)
Lemma used_has_origin : forall t k, disciplined t -> In k (used t) -> origin_ok t k.
Proof.
  intros t k Hd Hk. unfold used in Hk. apply in_flat_map in Hk. destruct Hk as (e & He & Hke).
  apply in_split in He. destruct He as (t1 & t2 & ->).
  destruct (Hd t1 e t2 eq_refl k Hke) as [_ Ho]. apply origin_mono. exact Ho.
Qed.

Lemma disciplined_NoDup : forall t, disciplined t -> NoDup (used t).
Proof.
  induction t as [|e t IH] using rev_ind; intros Hd.
  - constructor.
  - assert (Hdt : disciplined t).
    { intros t1 e' t2 Heq. apply (Hd t1 e' (t2 ++ [e])). rewrite Heq. rewrite <- app_assoc. reflexivity. }
    rewrite used_app. cbn [used flat_map]. rewrite app_nil_r.
    specialize (IH Hdt).
    destruct e as [k|k n|k]; cbn [ev_used].
    + rewrite app_nil_r. exact IH.
    + destruct (Hd t (EvSplit k n) [] eq_refl k (or_introl eq_refl)) as [Hnu _].
      apply NoDup_rev in IH. rewrite <- (rev_involutive (used t ++ [k])). apply NoDup_rev.
      rewrite rev_app_distr. cbn. constructor; [rewrite <- in_rev; exact Hnu | exact IH].
    + destruct (Hd t (EvConsume k) [] eq_refl k (or_introl eq_refl)) as [Hnu _].
      apply NoDup_rev in IH. rewrite <- (rev_involutive (used t ++ [k])). apply NoDup_rev.
      rewrite rev_app_distr. cbn. constructor; [rewrite <- in_rev; exact Hnu | exact IH].
Qed.

(* appending one event per key of a duplicate-free list of unused keys *)
Lemma disciplined_uses : forall (mk : key -> event), (forall k, ev_used (mk k) = [k]) ->
  forall ks t, disciplined t -> NoDup ks -> (forall k, In k ks -> key_ok t k) -> disciplined (t ++ map mk ks).
Proof.
  intros mk Hmk ks. induction ks as [|k ks IH]; intros t Hd Hnd Hok.
  - cbn. rewrite app_nil_r. exact Hd.
  - cbn [map]. change (t ++ mk k :: map mk ks) with (t ++ [mk k] ++ map mk ks). rewrite app_assoc.
    inversion Hnd as [|k0 ks0 Hnotin Hnd']; subst.
    apply IH.
    + apply disciplined_snoc; [exact Hd|]. intros k' Hk'. rewrite Hmk in Hk'. destruct Hk' as [<-|[]].
      apply Hok. left. reflexivity.
    + exact Hnd'.
    + intros k' Hk'. destruct (Hok k' (or_intror Hk')) as [Hnu Ho]. split.
      * rewrite used_app. intros Hin. apply in_app_or in Hin. destruct Hin as [Hin|Hin]; [exact (Hnu Hin)|].
        cbn [used flat_map] in Hin. rewrite Hmk in Hin. cbn in Hin. destruct Hin as [<-|[]]. exact (Hnotin Hk').
      * apply origin_mono. exact Ho.
Qed.

Lemma disciplined_roots : forall ks t, disciplined t -> disciplined (t ++ map EvRoot ks).
Proof.
  induction ks as [|k ks IH]; intros t Hd.
  - cbn. rewrite app_nil_r. exact Hd.
  - cbn [map]. change (t ++ EvRoot k :: map EvRoot ks) with (t ++ [EvRoot k] ++ map EvRoot ks). rewrite app_assoc.
    apply IH. apply disciplined_snoc; [exact Hd|]. intros k' [].
Qed.

Lemma used_map_uses : forall (mk : key -> event), (forall k, ev_used (mk k) = [k]) -> forall ks, used (map mk ks) = ks.
Proof.
  intros mk Hmk. induction ks as [|k ks IH]; [reflexivity|].
  cbn [map used flat_map]. rewrite Hmk. cbn. f_equal. exact IH.
Qed.

Lemma used_map_roots : forall ks, used (map EvRoot ks) = [].
Proof. induction ks as [|k ks IH]; [reflexivity|]. cbn. exact IH. Qed.

(* offspring of a key: its children and the root derived from it *)
Definition offspring (k y : key) : Prop := y = RDerived k \/ exists i, y = Child k i.

Lemma offspring_no_origin : forall t k y, key_ok t k -> offspring k y -> ~ origin_ok t y.
Proof.
  intros t k y [Hnu _] [-> | (i & ->)] Ho; cbn in Ho.
  - apply Hnu. apply (in_used t (EvConsume k) k Ho). left. reflexivity.
  - destruct Ho as (n & Hin & _). apply Hnu. apply (in_used t (EvSplit k n) k Hin). left. reflexivity.
Qed.

(* ====================================================================== contexts *)
Definition mem (v : string) (G : list string) : bool := existsb (String.eqb v) G.
Definition rem (v : string) (G : list string) : list string := filter (fun w => negb (String.eqb w v)) G.
Definition subset (A B : list string) : bool := forallb (fun v => mem v B) A.

Lemma mem_In : forall v G, mem v G = true <-> In v G.
Proof.
  intros v G. unfold mem. rewrite existsb_exists. split.
  - intros (x & Hx & Heq). apply String.eqb_eq in Heq. subst. exact Hx.
  - intros H. exists v. split; [exact H | apply String.eqb_refl].
Qed.

Lemma In_rem : forall x v G, In x (rem v G) <-> In x G /\ x <> v.
Proof.
  intros x v G. unfold rem. rewrite filter_In. split.
  - intros [H1 H2]. split; [exact H1|]. intros ->. rewrite String.eqb_refl in H2. discriminate.
  - intros [H1 H2]. split; [exact H1|]. apply String.eqb_neq in H2. rewrite H2. reflexivity.
Qed.

Lemma subset_incl : forall A B, subset A B = true -> forall v, In v A -> In v B.
Proof.
  intros A B H v Hv. unfold subset in H. rewrite forallb_forall in H. apply mem_In. apply H. exact Hv.
Qed.

Lemma upd_same : forall e v ks, upd e v ks v = ks.
Proof. intros. unfold upd. rewrite String.eqb_refl. reflexivity. Qed.

Lemma upd_other : forall e v ks w, w <> v -> upd e v ks w = e w.
Proof. intros e v ks w H. unfold upd. apply String.eqb_neq in H. rewrite H. reflexivity. Qed.

(* ====================================================================== the checker *)
Fixpoint check (s : stmt) (G : list string) {struct s} : option (list string) :=
  let check_list :=
    (fix go (l : list stmt) (G : list string) {struct l} : option (list string) :=
       match l with
       | [] => Some G
       | x :: r => match check x G with Some G1 => go r G1 | None => None end
       end) in
  match s with
  | Split src d0 d1 =>
      if mem src G && negb (String.eqb d0 d1) then Some (d0 :: d1 :: rem d0 (rem d1 (rem src G))) else None
  | SplitN src arr _ => if mem src G then Some (arr :: rem arr (rem src G)) else None
  | Consume _ src dst =>
      if mem src G then Some (match dst with Some d => d :: rem d (rem src G) | None => rem src G end) else None
  | MkKey dst src => if mem src G then Some (dst :: rem dst (rem src G)) else None
  | Move dst src => if mem src G then Some (dst :: rem dst (rem src G)) else None
  | Loop _ body =>
      match check_list body G with
      | Some G1 => if subset G G1 then Some G else None
      | None => None
      end
  | ForKeys arr elem body =>
      if mem arr G && negb (String.eqb arr elem) then
        match check_list body (elem :: rem elem G) with
        | Some G1 => if subset (rem elem G) G1 then Some (rem elem G) else None
        | None => None
        end
      else None
  | Call _ _ _ => None
  end.

Definition check_list : list stmt -> list string -> option (list string) :=
  fix go (l : list stmt) (G : list string) {struct l} : option (list string) :=
    match l with
    | [] => Some G
    | x :: r => match check x G with Some G1 => go r G1 | None => None end
    end.

(* ====================================================================== the invariant *)
Record Inv (G : list string) (st : state) : Prop := mkInv {
  inv_trace : disciplined (st_trace st);
  inv_live : forall v, In v G -> NoDup (st_env st v) /\ forall k, In k (st_env st v) -> key_ok (st_trace st) k;
  inv_disj : forall v w, In v G -> In w G -> v <> w -> forall k, In k (st_env st v) -> ~ In k (st_env st w)
}.

Lemma inv_weaken : forall G1 G2 st, (forall v, In v G2 -> In v G1) -> Inv G1 st -> Inv G2 st.
Proof.
  intros G1 G2 st Hincl [Ht Hl Hd]. constructor.
  - exact Ht.
  - intros v Hv. apply Hl. apply Hincl. exact Hv.
  - intros v w Hv Hw. apply Hd; apply Hincl; assumption.
Qed.

Lemma inv_oracle : forall G e t o o', Inv G (mkState e t o) -> Inv G (mkState e t o').
Proof. intros G e t o o' [Ht Hl Hd]. constructor; assumption. Qed.

(* keys born from the keys of an available variable are new: not used, and held by no available variable *)
Lemma offspring_fresh : forall G st src k y, Inv G st -> In src G -> In k (st_env st src) -> offspring k y ->
  ~ In y (used (st_trace st)) /\ forall v, In v G -> ~ In y (st_env st v).
Proof.
  intros G st src k y HI Hsrc Hk Hoff.
  destruct (inv_live G st HI src Hsrc) as [_ Hok]. specialize (Hok k Hk).
  pose proof (offspring_no_origin _ _ _ Hok Hoff) as Hno.
  split.
  - intros Hu. apply Hno. apply used_has_origin; [apply (inv_trace G st HI) | exact Hu].
  - intros v Hv Hin. destruct (inv_live G st HI v Hv) as [_ Hokv]. apply Hno. apply (Hokv y Hin).
Qed.

(* step A: use all keys of an available variable *)
Lemma inv_use : forall (mk : key -> event), (forall k, ev_used (mk k) = [k]) ->
  forall G e t o o' src, Inv G (mkState e t o) -> In src G ->
  Inv (rem src G) (mkState e (t ++ map mk (e src)) o').
Proof.
  intros mk Hmk G e t o o' src HI Hsrc.
  destruct HI as [Ht Hl Hd]. cbn [st_env st_trace] in *.
  destruct (Hl src Hsrc) as [Hnd Hok].
  constructor; cbn [st_env st_trace].
  - apply disciplined_uses; assumption.
  - intros v Hv. apply In_rem in Hv. destruct Hv as [Hv Hne].
    destruct (Hl v Hv) as [Hndv Hokv]. split; [exact Hndv|].
    intros k Hk. destruct (Hokv k Hk) as [Hnu Ho]. split.
    + rewrite used_app, (used_map_uses mk Hmk). intros Hin. apply in_app_or in Hin.
      destruct Hin as [Hin|Hin]; [exact (Hnu Hin)|]. exact (Hd v src Hv Hsrc Hne k Hk Hin).
    + apply origin_mono. exact Ho.
  - intros v w Hv Hw. apply In_rem in Hv. apply In_rem in Hw. apply Hd; tauto.
Qed.

(* step B: bind a variable to new keys *)
Lemma inv_assign : forall G e t o d new, Inv G (mkState e t o) -> NoDup new ->
  (forall y, In y new -> key_ok t y) ->
  (forall y, In y new -> forall v, In v G -> v <> d -> ~ In y (e v)) ->
  Inv (d :: rem d G) (mkState (upd e d new) t o).
Proof.
  intros G e t o d new [Ht Hl Hd] Hnd Hok Hfresh. cbn [st_env st_trace] in *.
  constructor; cbn [st_env st_trace].
  - exact Ht.
  - intros v [<-|Hv].
    + rewrite upd_same. split; assumption.
    + apply In_rem in Hv. destruct Hv as [Hv Hne]. rewrite upd_other by exact Hne. apply Hl. exact Hv.
  - intros v w Hv Hw Hne k Hk.
    destruct Hv as [<-|Hv]; destruct Hw as [<-|Hw].
    + contradiction.
    + apply In_rem in Hw. destruct Hw as [Hw Hwd]. rewrite upd_same in Hk. rewrite upd_other by exact Hwd.
      apply (Hfresh k Hk w Hw Hwd).
    + apply In_rem in Hv. destruct Hv as [Hv Hvd]. rewrite upd_other in Hk by exact Hvd. rewrite upd_same.
      intros Hin. exact (Hfresh k Hin v Hv Hvd Hk).
    + apply In_rem in Hv. apply In_rem in Hw. destruct Hv as [Hv Hvd]. destruct Hw as [Hw Hwd].
      rewrite upd_other in Hk by exact Hvd. rewrite upd_other by exact Hwd. apply (Hd v w Hv Hw Hne k Hk).
Qed.

Lemma NoDup_app_intro : forall (A : Type) (a b : list A), NoDup a -> NoDup b -> (forall x, In x a -> ~ In x b) -> NoDup (a ++ b).
Proof.
  intros A a b Ha Hb Hab. induction a as [|x a IH]; [exact Hb|].
  inversion Ha as [|x0 a0 Hx Ha']; subst. cbn. constructor.
  - intros Hin. apply in_app_or in Hin. destruct Hin as [Hin|Hin]; [exact (Hx Hin)|]. apply (Hab x (or_introl eq_refl) Hin).
  - apply IH; [exact Ha'|]. intros y Hy. apply Hab. right. exact Hy.
Qed.

Lemma NoDup_map_inj : forall (A B : Type) (f : A -> B) l, (forall x y, f x = f y -> x = y) -> NoDup l -> NoDup (map f l).
Proof.
  intros A B f l Hinj Hnd. induction Hnd as [|x l Hx Hnd IH]; cbn; constructor.
  - intros Hin. apply in_map_iff in Hin. destruct Hin as (y & Hy & Hyl). apply Hinj in Hy. subst. exact (Hx Hyl).
  - exact IH.
Qed.

Lemma NoDup_children : forall ks n, NoDup ks -> NoDup (flat_map (fun k => children k n) ks).
Proof.
  intros ks n Hnd. induction Hnd as [|k ks Hk Hnd IH]; cbn [flat_map]; [constructor|].
  apply NoDup_app_intro.
  - unfold children. apply NoDup_map_inj; [intros x y H; injection H; auto | apply seq_NoDup].
  - exact IH.
  - intros x Hx Hin. unfold children in Hx. apply in_map_iff in Hx. destruct Hx as (i & <- & _).
    apply in_flat_map in Hin. destruct Hin as (k' & Hk' & Hc). unfold children in Hc.
    apply in_map_iff in Hc. destruct Hc as (j & Heq & _). injection Heq as -> _. exact (Hk Hk').
Qed.

(* ====================================================================== soundness of the checker *)
Definition sound (s : stmt) : Prop :=
  forall G G' st, check s G = Some G' -> Inv G st -> Inv G' (exec s st).
Definition sound_list (l : list stmt) : Prop :=
  forall G G' st, check_list l G = Some G' -> Inv G st -> Inv G' (exec_list l st).

Lemma sound_list_of : forall l, Forall sound l -> sound_list l.
Proof.
  induction l as [|x r IH]; intros HF G G' st Hc HI.
  - cbn in Hc. injection Hc as <-. exact HI.
  - inversion HF as [|x0 r0 Hx Hr]; subst.
    change (check_list (x :: r) G) with (match check x G with Some G1 => check_list r G1 | None => None end) in Hc.
    destruct (check x G) as [G1|] eqn:Hcx; [|discriminate].
    change (exec_list (x :: r) st) with (exec_list r (exec x st)).
    apply (IH Hr G1 G' _ Hc). apply (Hx G G1 st Hcx HI).
Qed.

Lemma iter_inv : forall (G : list string) (f : state -> state), (forall st, Inv G st -> Inv G (f st)) ->
  forall n st, Inv G st -> Inv G (iter n f st).
Proof. intros G f Hf. induction n as [|n IH]; intros st HI; cbn [iter]; [exact HI | apply IH, Hf, HI]. Qed.

Lemma state_eta : forall st, st = mkState (st_env st) (st_trace st) (st_oracle st).
Proof. intros []. reflexivity. Qed.

Lemma Child_inj : forall i x y, Child x i = Child y i -> x = y.
Proof. intros i x y H. injection H. auto. Qed.

Lemma sound_Split : forall src d0 d1, sound (Split src d0 d1).
Proof.
  intros src d0 d1 G G' st Hc HI. cbn [check] in Hc.
  destruct (mem src G && negb (String.eqb d0 d1)) eqn:Hcond; [|discriminate]. injection Hc as <-.
  apply andb_true_iff in Hcond. destruct Hcond as [Hm Hne]. apply mem_In in Hm.
  apply negb_true_iff, String.eqb_neq in Hne.
  rewrite (state_eta st) in HI. cbn [exec].
  set (e := st_env st) in *. set (t := st_trace st) in *. set (o := st_oracle st) in *. set (ks := e src).
  set (t' := t ++ map (fun k => EvSplit k 2) ks).
  pose proof (inv_use (fun k => EvSplit k 2) (fun k => eq_refl) G e t o o src HI Hm) as HA. fold ks t' in HA.
  assert (Hoff : forall i y, In y (map (fun k => Child k i) ks) ->
            (~ In y (used t) /\ forall v, In v G -> ~ In y (e v)) /\ exists k, In k ks /\ y = Child k i).
  { intros i y Hy. apply in_map_iff in Hy. destruct Hy as (k & <- & Hk). split; [|exists k; auto].
    apply (offspring_fresh G (mkState e t o) src k (Child k i) HI Hm Hk). right. exists i. reflexivity. }
  assert (Hnd : NoDup ks) by (apply (inv_live _ _ HI src Hm)).
  assert (Hkok : forall i, i < 2 -> forall y, In y (map (fun k => Child k i) ks) -> key_ok t' y).
  { intros i Hi y Hy. destruct (Hoff i y Hy) as ((Hnu & Hnl) & k & Hk & ->). split.
    - unfold t'. rewrite used_app, (used_map_uses (fun k0 => EvSplit k0 2) (fun k0 => eq_refl)).
      intros Hin. apply in_app_or in Hin. destruct Hin as [Hin|Hin]; [exact (Hnu Hin)|]. exact (Hnl src Hm Hin).
    - cbn. exists 2. split; [|exact Hi]. unfold t'. apply in_or_app. right.
      apply in_map_iff. exists k. auto. }
  (* bind d0 *)
  pose proof (inv_assign (rem src G) e t' o d0 (map (fun k => Child k 0) ks) HA
                (NoDup_map_inj _ _ _ ks (Child_inj _) Hnd)
                (Hkok 0 ltac:(lia))) as HB0.
  assert (HB0' : Inv (d0 :: rem d0 (rem src G)) (mkState (upd e d0 (map (fun k => Child k 0) ks)) t' o)).
  { apply HB0. intros y Hy v Hv _. apply In_rem in Hv. destruct (Hoff 0 y Hy) as ((_ & Hnl) & _). apply Hnl. tauto. }
  (* bind d1 *)
  pose proof (inv_assign (d0 :: rem d0 (rem src G)) (upd e d0 (map (fun k => Child k 0) ks)) t' o d1
                (map (fun k => Child k 1) ks) HB0'
                (NoDup_map_inj _ _ _ ks (Child_inj _) Hnd)
                (Hkok 1 ltac:(lia))) as HB1.
  assert (HB1' : Inv (d1 :: rem d1 (d0 :: rem d0 (rem src G)))
                     (mkState (upd (upd e d0 (map (fun k => Child k 0) ks)) d1 (map (fun k => Child k 1) ks)) t' o)).
  { apply HB1. intros y Hy v Hv Hvd. destruct Hv as [<-|Hv].
    - rewrite upd_same. intros Hin. apply in_map_iff in Hin. destruct Hin as (k & Hk0 & _).
      apply in_map_iff in Hy. destruct Hy as (k' & Hk1 & _). rewrite <- Hk1 in Hk0. discriminate.
    - apply In_rem in Hv. destruct Hv as [Hv Hv0]. rewrite upd_other by exact Hv0.
      apply In_rem in Hv. destruct (Hoff 1 y Hy) as ((_ & Hnl) & _). apply Hnl. tauto. }
  eapply inv_weaken; [|exact HB1'].
  intros v [<-|[<-|Hv]].
  - right. apply In_rem. split; [left; reflexivity | exact Hne].
  - left. reflexivity.
  - apply In_rem in Hv. destruct Hv as [Hv Hv0]. apply In_rem in Hv. destruct Hv as [Hv Hv1].
    right. apply In_rem. split; [|exact Hv1]. right. apply In_rem. split; assumption.
Qed.

Lemma sound_SplitN : forall src arr lbl, sound (SplitN src arr lbl).
Proof.
  intros src arr lbl G G' st Hc HI. cbn [check] in Hc.
  destruct (mem src G) eqn:Hm; [|discriminate]. injection Hc as <-. apply mem_In in Hm.
  rewrite (state_eta st) in HI. cbn [exec].
  set (e := st_env st) in *. set (t := st_trace st) in *. set (o := st_oracle st) in *. set (ks := e src).
  set (n := fst (pop o)). set (t' := t ++ map (fun k => EvSplit k n) ks).
  pose proof (inv_use (fun k => EvSplit k n) (fun k => eq_refl) G e t o (snd (pop o)) src HI Hm) as HA. fold ks t' in HA.
  assert (Hnd : NoDup ks) by (apply (inv_live _ _ HI src Hm)).
  apply inv_assign; [exact HA | apply NoDup_children; exact Hnd | |].
  - intros y Hy. apply in_flat_map in Hy. destruct Hy as (k & Hk & Hc). unfold children in Hc.
    apply in_map_iff in Hc. destruct Hc as (i & <- & Hi). apply in_seq in Hi.
    destruct (offspring_fresh G (mkState e t o) src k (Child k i) HI Hm Hk ltac:(right; exists i; reflexivity)) as [Hnu Hnl].
    split.
    + unfold t'. rewrite used_app, (used_map_uses (fun k0 => EvSplit k0 n) (fun k0 => eq_refl)).
      intros Hin. apply in_app_or in Hin. destruct Hin as [Hin|Hin]; [exact (Hnu Hin)|]. exact (Hnl src Hm Hin).
    + cbn. exists n. split; [|lia]. unfold t'. apply in_or_app. right. apply in_map_iff. exists k. auto.
  - intros y Hy v Hv _. apply in_flat_map in Hy. destruct Hy as (k & Hk & Hc). unfold children in Hc.
    apply in_map_iff in Hc. destruct Hc as (i & <- & _). apply In_rem in Hv.
    destruct (offspring_fresh G (mkState e t o) src k (Child k i) HI Hm Hk ltac:(right; exists i; reflexivity)) as [_ Hnl].
    apply Hnl. tauto.
Qed.

Lemma sound_Consume : forall kind src dst, sound (Consume kind src dst).
Proof.
  intros kind src dst G G' st Hc HI. cbn [check] in Hc.
  destruct (mem src G) eqn:Hm; [|discriminate]. injection Hc as <-. apply mem_In in Hm.
  rewrite (state_eta st) in HI. cbn [exec].
  set (e := st_env st) in *. set (t := st_trace st) in *. set (o := st_oracle st) in *. set (ks := e src).
  set (t' := t ++ map EvConsume ks).
  pose proof (inv_use EvConsume (fun k => eq_refl) G e t o o src HI Hm) as HA. fold ks t' in HA.
  destruct dst as [d|]; [|exact HA].
  assert (Hnd : NoDup ks) by (apply (inv_live _ _ HI src Hm)).
  apply inv_assign; [exact HA | apply NoDup_map_inj; [intros x y H; injection H; auto | exact Hnd] | |].
  - intros y Hy. apply in_map_iff in Hy. destruct Hy as (k & <- & Hk).
    destruct (offspring_fresh G (mkState e t o) src k (RDerived k) HI Hm Hk ltac:(left; reflexivity)) as [Hnu Hnl].
    split.
    + unfold t'. rewrite used_app, (used_map_uses EvConsume (fun k0 => eq_refl)).
      intros Hin. apply in_app_or in Hin. destruct Hin as [Hin|Hin]; [exact (Hnu Hin)|]. exact (Hnl src Hm Hin).
    + cbn. unfold t'. apply in_or_app. right. apply in_map_iff. exists k. auto.
  - intros y Hy v Hv _. apply in_map_iff in Hy. destruct Hy as (k & <- & Hk). apply In_rem in Hv.
    destruct (offspring_fresh G (mkState e t o) src k (RDerived k) HI Hm Hk ltac:(left; reflexivity)) as [_ Hnl].
    apply Hnl. tauto.
Qed.

(* moving the keys of an available variable to another variable *)
Lemma inv_move : forall G e t o dst src, Inv G (mkState e t o) -> In src G ->
  Inv (dst :: rem dst (rem src G)) (mkState (upd e dst (e src)) t o).
Proof.
  intros G e t o dst src HI Hm.
  assert (HA : Inv (rem src G) (mkState e t o)).
  { eapply inv_weaken; [|exact HI]. intros v Hv. apply In_rem in Hv. tauto. }
  apply inv_assign; [exact HA | apply (inv_live _ _ HI src Hm) | apply (inv_live _ _ HI src Hm) |].
  intros y Hy v Hv _. apply In_rem in Hv. destruct Hv as [Hv Hne].
  intros Hin. exact (inv_disj _ _ HI v src Hv Hm Hne y Hin Hy).
Qed.

Lemma sound_Move : forall dst src, sound (Move dst src).
Proof.
  intros dst src G G' st Hc HI. cbn [check] in Hc.
  destruct (mem src G) eqn:Hm; [|discriminate]. injection Hc as <-. apply mem_In in Hm.
  rewrite (state_eta st) in HI. cbn [exec]. apply inv_move; assumption.
Qed.

Lemma sound_MkKey : forall dst src, sound (MkKey dst src).
Proof.
  intros dst src G G' st Hc HI. cbn [check] in Hc.
  destruct (mem src G) eqn:Hm; [|discriminate]. injection Hc as <-. apply mem_In in Hm.
  rewrite (state_eta st) in HI. cbn [exec].
  set (e := st_env st) in *. set (t := st_trace st) in *. set (o := st_oracle st) in *.
  apply inv_move; [|exact Hm].
  destruct HI as [Ht Hl Hd]. cbn [st_env st_trace] in *. constructor; cbn [st_env st_trace].
  - apply disciplined_roots. exact Ht.
  - intros v Hv. destruct (Hl v Hv) as [Hnd Hok]. split; [exact Hnd|]. intros k Hk.
    destruct (Hok k Hk) as [Hnu Ho]. split.
    + rewrite used_app, used_map_roots, app_nil_r. exact Hnu.
    + apply origin_mono. exact Ho.
  - exact Hd.
Qed.

Lemma sound_Loop : forall lbl body, Forall sound body -> sound (Loop lbl body).
Proof.
  intros lbl body HF G G' st Hc HI.
  change (check (Loop lbl body) G) with
    (match check_list body G with Some G1 => if subset G G1 then Some G else None | None => None end) in Hc.
  destruct (check_list body G) as [G1|] eqn:Hb; [|discriminate].
  destruct (subset G G1) eqn:Hs; [|discriminate]. injection Hc as <-.
  change (exec (Loop lbl body) st) with
    (iter (fst (pop (st_oracle st))) (exec_list body) (mkState (st_env st) (st_trace st) (snd (pop (st_oracle st))))).
  apply iter_inv.
  - intros st' HI'. eapply inv_weaken; [apply (subset_incl _ _ Hs)|].
    apply (sound_list_of body HF G G1 st' Hb HI').
  - rewrite (state_eta st) in HI. eapply inv_oracle. exact HI.
Qed.

Lemma inv_take_key : forall G arr elem st, Inv G st -> In arr G -> arr <> elem ->
  Inv (elem :: rem elem G) (take_key arr elem st).
Proof.
  intros G arr elem st HI Harr Hne. unfold take_key.
  destruct (st_env st arr) as [|k rest] eqn:Hks.
  - rewrite (state_eta st) in HI. apply inv_assign; [exact HI | constructor | intros y [] | intros y []].
  - rewrite (state_eta st) in HI.
    set (e := st_env st) in *. set (t := st_trace st) in *. set (o := st_oracle st) in *.
    destruct (inv_live _ _ HI arr Harr) as [Hnd Hok]. cbn [st_env st_trace] in Hnd, Hok. rewrite Hks in Hnd, Hok.
    inversion Hnd as [|k0 r0 Hk Hnd']; subst.
    (* arr := rest *)
    assert (H1 : Inv G (mkState (upd e arr rest) t o)).
    { destruct HI as [Ht Hl Hd]. cbn [st_env st_trace] in *. constructor; cbn [st_env st_trace].
      - exact Ht.
      - intros v Hv. destruct (String.eqb_spec v arr) as [->|Hva].
        + rewrite upd_same. split; [exact Hnd'|]. intros y Hy. apply Hok. right. exact Hy.
        + rewrite upd_other by exact Hva. apply Hl. exact Hv.
      - intros v w Hv Hw Hvw y Hy.
        destruct (String.eqb_spec v arr) as [->|Hva]; destruct (String.eqb_spec w arr) as [->|Hwa].
        + contradiction.
        + rewrite upd_same in Hy. rewrite upd_other by exact Hwa.
          apply (Hd arr w Hv Hw Hvw y). rewrite Hks. right. exact Hy.
        + rewrite upd_other in Hy by exact Hva. rewrite upd_same. intros Hin.
          apply (Hd v arr Hv Hw Hvw y Hy). rewrite Hks. right. exact Hin.
        + rewrite upd_other in Hy by exact Hva. rewrite upd_other by exact Hwa. apply (Hd v w Hv Hw Hvw y Hy). }
    apply inv_assign; [exact H1 | constructor; [intros [] | constructor] | |].
    + intros y [<-|[]]. apply Hok. left. reflexivity.
    + intros y [<-|[]] v Hv Hve. destruct (String.eqb_spec v arr) as [->|Hva].
      * rewrite upd_same. exact Hk.
      * rewrite upd_other by exact Hva. intros Hin.
        apply (inv_disj _ _ HI v arr Hv Harr Hva k Hin). cbn [st_env]. fold e. rewrite Hks. left. reflexivity.
Qed.

Lemma sound_ForKeys : forall arr elem body, Forall sound body -> sound (ForKeys arr elem body).
Proof.
  intros arr elem body HF G G' st Hc HI.
  change (check (ForKeys arr elem body) G) with
    (if mem arr G && negb (String.eqb arr elem) then
       match check_list body (elem :: rem elem G) with
       | Some G1 => if subset (rem elem G) G1 then Some (rem elem G) else None
       | None => None
       end
     else None) in Hc.
  destruct (mem arr G && negb (String.eqb arr elem)) eqn:Hcond; [|discriminate].
  apply andb_true_iff in Hcond. destruct Hcond as [Hm Hne]. apply mem_In in Hm.
  apply negb_true_iff, String.eqb_neq in Hne.
  destruct (check_list body (elem :: rem elem G)) as [G1|] eqn:Hb; [|discriminate].
  destruct (subset (rem elem G) G1) eqn:Hs; [|discriminate]. injection Hc as <-.
  change (exec (ForKeys arr elem body) st) with
    (iter (length (st_env st arr)) (fun s' => exec_list body (take_key arr elem s')) st).
  assert (Harr0 : In arr (rem elem G)) by (apply In_rem; split; assumption).
  apply iter_inv.
  - intros st' HI'. eapply inv_weaken; [apply (subset_incl _ _ Hs)|].
    apply (sound_list_of body HF (elem :: rem elem G) G1 _ Hb).
    eapply inv_weaken; [|apply (inv_take_key (rem elem G) arr elem st' HI' Harr0 Hne)].
    intros v [<-|Hv]; [left; reflexivity|]. right. apply In_rem. split; [exact Hv|]. apply In_rem in Hv. tauto.
  - eapply inv_weaken; [|exact HI]. intros v Hv. apply In_rem in Hv. tauto.
Qed.

Theorem check_sound : forall s, sound s.
Proof.
  induction s using stmt_ind'.
  - apply sound_Split.
  - apply sound_SplitN.
  - apply sound_Consume.
  - apply sound_MkKey.
  - apply sound_Move.
  - apply sound_Loop. assumption.
  - apply sound_ForKeys. assumption.
  - intros G G' st Hc. discriminate.
Qed.

Theorem check_list_sound : forall l, sound_list l.
Proof. intros l. apply sound_list_of. apply Forall_forall. intros s _. apply check_sound. Qed.

(* ====================================================================== the regenerated programs pass the check *)
Definition stored : list string := [gen_sampler_key; gen_channel_key].

Definition checks_to (p : list stmt) (G : list string) : bool :=
  match check_list p G with Some G' => subset stored G' | None => false end.

(* __init__: from the seed alone to both stored keys available *)
Lemma gen_init_checks : checks_to prog_init [gen_seed_var] = true.
Proof. vm_compute. reflexivity. Qed.

(* every call: from both stored keys available to both stored keys available *)
Lemma gen_entry_checks : forall e, checks_to (prog_of e) stored = true.
Proof. intros []; vm_compute; reflexivity. Qed.

Lemma stored_distinct : gen_sampler_key <> gen_channel_key.
Proof. vm_compute. discriminate. Qed.

Lemma checks_to_sound : forall p G st, checks_to p G = true -> Inv G st -> Inv stored (exec_list p st).
Proof.
  intros p G st Hc HI. unfold checks_to in Hc.
  destruct (check_list p G) as [G'|] eqn:Hcl; [|discriminate].
  eapply inv_weaken; [apply (subset_incl _ _ Hc)|]. apply (check_list_sound p G G' st Hcl HI).
Qed.

Lemma inv_init : forall seed, Inv [gen_seed_var] (init_state seed).
Proof.
  intros seed. unfold init_state. constructor; cbn [st_env st_trace].
  - apply disciplined_nil.
  - intros v [<-|[]]. rewrite upd_same. split; [constructor; [intros []|constructor]|].
    intros k [<-|[]]. split; [intros [] | exact I].
  - intros v w [<-|[]] [<-|[]] Hne. contradiction.
Qed.

Lemma inv_created : forall seed, Inv stored (created seed).
Proof. intros seed. unfold created. apply (checks_to_sound _ _ _ gen_init_checks (inv_init seed)). Qed.

Lemma inv_run_call : forall st c, Inv stored st -> Inv stored (run_call st c).
Proof.
  intros st [e counts] HI. unfold run_call. cbn [fst snd].
  apply (checks_to_sound _ _ _ (gen_entry_checks e)).
  rewrite (state_eta st) in HI. eapply inv_oracle. exact HI.
Qed.

(* the invariant "both stored keys are unused (and distinct)" holds after every history *)
Lemma fold_left_preserves : forall (A B : Type) (P : A -> Prop) (f : A -> B -> A),
  (forall a b, P a -> P (f a b)) -> forall l a, P a -> P (fold_left f l a).
Proof.
  intros A B P f Hf. induction l as [|b l IH]; intros a Ha; cbn [fold_left]; [exact Ha|]. apply IH, Hf, Ha.
Qed.

Lemma inv_fold_calls : forall h st, Inv stored st -> Inv stored (fold_left run_call h st).
Proof. exact (fold_left_preserves state call (Inv stored) run_call inv_run_call). Qed.

Theorem inv_run : forall seed h, Inv stored (run seed h).
Proof. intros seed h. unfold run. apply inv_fold_calls. apply inv_created. Qed.

(* ====================================================================== consequences for the log *)
Lemma consumed_splits_of_used : forall t,
  NoDup (used t) ->
  NoDup (consumed t) /\ NoDup (splits t) /\
  (forall k, In k (consumed t) -> In k (used t)) /\ (forall k, In k (splits t) -> In k (used t)) /\
  (forall k, In k (consumed t) -> ~ In k (splits t)).
Proof.
  induction t as [|e t IH]; intros Hnd.
  - cbn. repeat split; try constructor; intros k [].
  - change (used (e :: t)) with (ev_used e ++ used t) in *.
    destruct e as [k0|k0 n|k0]; cbn [ev_used app] in Hnd.
    + destruct (IH Hnd) as (H1 & H2 & H3 & H4 & H5). cbn. repeat split; assumption.
    + inversion Hnd as [|x l Hx Hnd']; subst. destruct (IH Hnd') as (H1 & H2 & H3 & H4 & H5).
      change (consumed (EvSplit k0 n :: t)) with (consumed t).
      change (splits (EvSplit k0 n :: t)) with (k0 :: splits t).
      change (ev_used (EvSplit k0 n) ++ used t) with (k0 :: used t).
      split; [exact H1|]. split; [constructor; [intros Hin; apply Hx, H4, Hin | exact H2]|].
      split; [intros k Hk; right; apply H3, Hk|]. split; [intros k [<-|Hk]; [left; reflexivity | right; apply H4, Hk]|].
      intros k Hk [<-|Hin]; [apply Hx, H3, Hk | exact (H5 k Hk Hin)].
    + inversion Hnd as [|x l Hx Hnd']; subst. destruct (IH Hnd') as (H1 & H2 & H3 & H4 & H5).
      change (consumed (EvConsume k0 :: t)) with (k0 :: consumed t).
      change (splits (EvConsume k0 :: t)) with (splits t).
      change (ev_used (EvConsume k0) ++ used t) with (k0 :: used t).
      split; [constructor; [intros Hin; apply Hx, H3, Hin | exact H1]|]. split; [exact H2|].
      split; [intros k [<-|Hk]; [left; reflexivity | right; apply H3, Hk]|]. split; [intros k Hk; right; apply H4, Hk|].
      intros k [<-|Hk] Hin; [apply Hx, H4, Hin | exact (H5 k Hk Hin)].
Qed.

Theorem keys_fresh : forall seed h,
  let st := run seed h in
  let t := st_trace st in
  NoDup (used t) /\
  NoDup (consumed t) /\ NoDup (splits t) /\ (forall k, In k (consumed t) -> ~ In k (splits t)) /\
  (forall t1 e t2, t = t1 ++ e :: t2 -> forall k, In k (ev_used e) -> ~ In k (used t1) /\ origin_ok t1 k) /\
  (forall k, In k (st_env st gen_sampler_key) \/ In k (st_env st gen_channel_key) -> ~ In k (used t) /\ origin_ok t k) /\
  (forall k, In k (st_env st gen_sampler_key) -> ~ In k (st_env st gen_channel_key)).
Proof.
  intros seed h st t. pose proof (inv_run seed h) as HI. fold st in HI.
  pose proof (disciplined_NoDup _ (inv_trace _ _ HI)) as Hnd. fold t in Hnd.
  destruct (consumed_splits_of_used t Hnd) as (H1 & H2 & _ & _ & H5).
  split; [exact Hnd|]. split; [exact H1|]. split; [exact H2|]. split; [exact H5|].
  split; [exact (inv_trace _ _ HI)|]. split.
  - intros k [Hk|Hk].
    + apply (inv_live _ _ HI gen_sampler_key (or_introl eq_refl)). exact Hk.
    + apply (inv_live _ _ HI gen_channel_key (or_intror (or_introl eq_refl))). exact Hk.
  - intros k Hk. apply (inv_disj _ _ HI gen_sampler_key gen_channel_key (or_introl eq_refl) (or_intror (or_introl eq_refl)) stored_distinct k Hk).
Qed.

(* ====================================================================== the log only grows; seeds *)
Definition extends (f : state -> state) : Prop := forall st, exists t', st_trace (f st) = st_trace st ++ t'.

Lemma extends_iter : forall f, extends f -> forall n, extends (iter n f).
Proof.
  intros f Hf. induction n as [|n IH]; intros st; cbn [iter].
  - exists []. symmetry. apply app_nil_r.
  - destruct (Hf st) as (t1 & H1). destruct (IH (f st)) as (t2 & H2). exists (t1 ++ t2). rewrite H2, H1, app_assoc. reflexivity.
Qed.

Lemma extends_list : forall l, Forall (fun s => extends (exec s)) l -> extends (exec_list l).
Proof.
  induction l as [|x r IH]; intros HF st.
  - exists []. symmetry. apply app_nil_r.
  - inversion HF as [|x0 r0 Hx Hr]; subst. change (exec_list (x :: r) st) with (exec_list r (exec x st)).
    destruct (Hx st) as (t1 & H1). destruct (IH Hr (exec x st)) as (t2 & H2). exists (t1 ++ t2).
    rewrite H2, H1, app_assoc. reflexivity.
Qed.

Lemma exec_extends : forall s, extends (exec s).
Proof.
  induction s using stmt_ind'; intros st.
  - cbn [exec st_trace]. eexists. reflexivity.
  - cbn [exec st_trace]. eexists. reflexivity.
  - cbn [exec st_trace]. eexists. reflexivity.
  - cbn [exec st_trace]. eexists. reflexivity.
  - cbn [exec st_trace]. exists []. symmetry. apply app_nil_r.
  - change (exec (Loop l body) st) with
      (iter (fst (pop (st_oracle st))) (exec_list body) (mkState (st_env st) (st_trace st) (snd (pop (st_oracle st))))).
    destruct (extends_iter _ (extends_list body H) (fst (pop (st_oracle st)))
                (mkState (st_env st) (st_trace st) (snd (pop (st_oracle st))))) as (t' & Ht').
    exists t'. exact Ht'.
  - change (exec (ForKeys a e body) st) with
      (iter (length (st_env st a)) (fun s' => exec_list body (take_key a e s')) st).
    apply extends_iter. intros st'. destruct (extends_list body H (take_key a e st')) as (t' & Ht').
    exists t'. rewrite Ht'. unfold take_key. destruct (st_env st' a); reflexivity.
  - exists []. symmetry. apply app_nil_r.
Qed.

Lemma exec_list_extends : forall l, extends (exec_list l).
Proof. intros l. apply extends_list. apply Forall_forall. intros s _. apply exec_extends. Qed.

Lemma run_app : forall seed h1 h2, run seed (h1 ++ h2) = fold_left run_call h2 (run seed h1).
Proof. intros. unfold run. apply fold_left_app. Qed.

Lemma run_call_extends : forall c st, exists t', st_trace (run_call st c) = st_trace st ++ t'.
Proof.
  intros c st. destruct (exec_list_extends (prog_of (fst c)) (mkState (st_env st) (st_trace st) (snd c))) as (t1 & H1).
  exists t1. unfold run_call. rewrite H1. reflexivity.
Qed.

Lemma fold_left_extends : forall (B : Type) (f : state -> B -> state),
  (forall b st, exists t', st_trace (f st b) = st_trace st ++ t') ->
  forall l st, exists t', st_trace (fold_left f l st) = st_trace st ++ t'.
Proof.
  intros B f Hf. induction l as [|b l IH]; intros st; cbn [fold_left].
  - exists []. symmetry. apply app_nil_r.
  - destruct (IH (f st b)) as (t2 & H2). destruct (Hf b st) as (t1 & H1).
    exists (t1 ++ t2). rewrite H2, H1, app_assoc. reflexivity.
Qed.

Lemma calls_extend : forall h st, exists t', st_trace (fold_left run_call h st) = st_trace st ++ t'.
Proof. exact (fold_left_extends call run_call run_call_extends). Qed.

Lemma consumed_app : forall t t', consumed (t ++ t') = consumed t ++ consumed t'.
Proof. intros. unfold consumed. apply flat_map_app. Qed.

(* the log, hence every draw, of a history is a function of (seed, history) and is not changed by later calls *)
Theorem history_prefix : forall seed h1 h2,
  exists t', st_trace (run seed (h1 ++ h2)) = st_trace (run seed h1) ++ t'.
Proof. intros. rewrite run_app. apply calls_extend. Qed.

Theorem draws_prefix : forall (A : Type) (prng : key -> A) seed h1 h2,
  exists later, draws prng (run seed (h1 ++ h2)) = draws prng (run seed h1) ++ later.
Proof.
  intros A prng seed h1 h2. destruct (history_prefix seed h1 h2) as (t' & Ht').
  exists (map prng (consumed t')). unfold draws. rewrite Ht', consumed_app, map_app. reflexivity.
Qed.

(* all keys of a run descend from the run's seed *)
Definition seeded (s : Z) (st : state) : Prop :=
  (forall v k, In k (st_env st v) -> seed_of k = s) /\ (forall e, In e (st_trace st) -> seed_of (ev_key e) = s).

Definition keeps_seed (f : state -> state) : Prop := forall s st, seeded s st -> seeded s (f st).

Lemma keeps_seed_iter : forall f, keeps_seed f -> forall n, keeps_seed (iter n f).
Proof. intros f Hf. induction n as [|n IH]; intros s st H; cbn [iter]; [exact H | apply IH, Hf, H]. Qed.

Lemma keeps_seed_list : forall l, Forall (fun x => keeps_seed (exec x)) l -> keeps_seed (exec_list l).
Proof.
  induction l as [|x r IH]; intros HF s st H; [exact H|].
  inversion HF as [|x0 r0 Hx Hr]; subst. change (exec_list (x :: r) st) with (exec_list r (exec x st)).
  apply (IH Hr). apply Hx. exact H.
Qed.

Lemma seeded_upd : forall s e t o v ks, seeded s (mkState e t o) -> (forall k, In k ks -> seed_of k = s) ->
  forall t' o', (forall ev, In ev t' -> In ev t \/ seed_of (ev_key ev) = s) -> seeded s (mkState (upd e v ks) t' o').
Proof.
  intros s e t o v ks [He Ht] Hks t' o' Ht'. split; cbn [st_env st_trace] in *.
  - intros w k Hk. unfold upd in Hk. destruct (String.eqb w v); [apply Hks, Hk | apply (He w k Hk)].
  - intros ev Hev. destruct (Ht' ev Hev) as [Hin|Hs]; [apply Ht, Hin | exact Hs].
Qed.

Lemma in_app_map_seed : forall s (t : list event) (mk : key -> event) ks,
  (forall k, ev_key (mk k) = k) -> (forall k, In k ks -> seed_of k = s) ->
  forall ev, In ev (t ++ map mk ks) -> In ev t \/ seed_of (ev_key ev) = s.
Proof.
  intros s t mk ks Hmk Hks ev Hev. apply in_app_or in Hev. destruct Hev as [H|H]; [left; exact H|].
  right. apply in_map_iff in H. destruct H as (k & <- & Hk). rewrite Hmk. apply Hks, Hk.
Qed.

Lemma exec_keeps_seed : forall x, keeps_seed (exec x).
Proof.
  induction x using stmt_ind'; intros sd st Hsd; rewrite (state_eta st) in Hsd.
  - cbn [exec]. destruct Hsd as [He Ht]. cbn [st_env st_trace] in *.
    assert (Hks : forall k, In k (st_env st s) -> seed_of k = sd) by (intros k Hk; apply (He s k Hk)).
    eapply (seeded_upd sd (upd (st_env st) d0 _) (st_trace st ++ map (fun k => EvSplit k 2) (st_env st s)) (st_oracle st)).
    + eapply (seeded_upd sd (st_env st) (st_trace st) (st_oracle st)); [split; assumption | |].
      * intros k Hk. apply in_map_iff in Hk. destruct Hk as (k' & <- & Hk'). cbn. apply Hks, Hk'.
      * apply (in_app_map_seed sd (st_trace st) (fun k => EvSplit k 2)); [reflexivity | exact Hks].
    + intros k Hk. apply in_map_iff in Hk. destruct Hk as (k' & <- & Hk'). cbn. apply Hks, Hk'.
    + intros ev Hev. left. exact Hev.
  - cbn [exec]. destruct Hsd as [He Ht]. cbn [st_env st_trace] in *.
    assert (Hks : forall k, In k (st_env st s) -> seed_of k = sd) by (intros k Hk; apply (He s k Hk)).
    eapply (seeded_upd sd (st_env st) (st_trace st) (st_oracle st)); [split; assumption | |].
    + intros k Hk. apply in_flat_map in Hk. destruct Hk as (k' & Hk' & Hc). unfold children in Hc.
      apply in_map_iff in Hc. destruct Hc as (i & <- & _). cbn. apply Hks, Hk'.
    + apply (in_app_map_seed sd (st_trace st) (fun k => EvSplit k _)); [reflexivity | exact Hks].
  - cbn [exec]. destruct Hsd as [He Ht]. cbn [st_env st_trace] in *.
    assert (Hks : forall y, In y (st_env st s) -> seed_of y = sd) by (intros y Hy; apply (He s y Hy)).
    destruct d as [d|].
    + eapply (seeded_upd sd (st_env st) (st_trace st) (st_oracle st)); [split; assumption | |].
      * intros y Hy. apply in_map_iff in Hy. destruct Hy as (k' & <- & Hk'). cbn. apply Hks, Hk'.
      * apply (in_app_map_seed sd (st_trace st) EvConsume); [reflexivity | exact Hks].
    + split; cbn [st_env st_trace]; [exact He|]. intros ev Hev.
      destruct (in_app_map_seed sd (st_trace st) EvConsume _ (fun y => eq_refl) Hks ev Hev) as [H|H]; [apply Ht, H | exact H].
  - cbn [exec]. destruct Hsd as [He Ht]. cbn [st_env st_trace] in *.
    assert (Hks : forall k, In k (st_env st s) -> seed_of k = sd) by (intros k Hk; apply (He s k Hk)).
    eapply (seeded_upd sd (st_env st) (st_trace st) (st_oracle st)); [split; assumption | exact Hks |].
    apply (in_app_map_seed sd (st_trace st) EvRoot); [reflexivity | exact Hks].
  - cbn [exec]. destruct Hsd as [He Ht]. cbn [st_env st_trace] in *.
    eapply (seeded_upd sd (st_env st) (st_trace st) (st_oracle st)); [split; assumption | |].
    + intros k Hk. apply (He s k Hk).
    + intros ev Hev. left. exact Hev.
  - change (exec (Loop l body) st) with
      (iter (fst (pop (st_oracle st))) (exec_list body) (mkState (st_env st) (st_trace st) (snd (pop (st_oracle st))))).
    apply keeps_seed_iter; [apply keeps_seed_list; exact H|]. destruct Hsd as [He Ht]. split; assumption.
  - change (exec (ForKeys a e body) st) with
      (iter (length (st_env st a)) (fun s' => exec_list body (take_key a e s')) st).
    apply keeps_seed_iter; [|rewrite (state_eta st); exact Hsd].
    intros sd' st' Hsd'. apply (keeps_seed_list body H). unfold take_key.
    rewrite (state_eta st') in Hsd'.
    destruct (st_env st' a) as [|k rest] eqn:Hks.
    + eapply (seeded_upd sd' (st_env st') (st_trace st') (st_oracle st')); [exact Hsd' | intros k [] | intros ev Hev; left; exact Hev].
    + assert (Hall : forall k', In k' (k :: rest) -> seed_of k' = sd').
      { intros k' Hk'. destruct Hsd' as [He _]. cbn [st_env] in He. apply (He a k'). rewrite Hks. exact Hk'. }
      eapply (seeded_upd sd' (upd (st_env st') a rest) (st_trace st') (st_oracle st')).
      * eapply (seeded_upd sd' (st_env st') (st_trace st') (st_oracle st')); [exact Hsd' | | intros ev Hev; left; exact Hev].
        intros k' Hk'. apply Hall. right. exact Hk'.
      * intros k' [<-|[]]. apply Hall. left. reflexivity.
      * intros ev Hev. left. exact Hev.
  - cbn [exec]. rewrite <- (state_eta st) in Hsd. exact Hsd.
Qed.

Lemma exec_list_keeps_seed : forall l, keeps_seed (exec_list l).
Proof. intros l. apply keeps_seed_list. apply Forall_forall. intros x _. apply exec_keeps_seed. Qed.

Lemma seeded_init : forall seed, seeded seed (init_state seed).
Proof.
  intros seed. unfold init_state. split; cbn [st_env st_trace].
  - intros v k Hk. unfold upd in Hk. destruct (String.eqb v gen_seed_var); [|destruct Hk].
    destruct Hk as [<-|[]]. reflexivity.
  - intros e [].
Qed.

Lemma seeded_run_call : forall seed st c, seeded seed st -> seeded seed (run_call st c).
Proof.
  intros seed st c Hst. unfold run_call. apply exec_list_keeps_seed. destruct Hst as [He Ht]. split; assumption.
Qed.

Lemma seeded_fold_calls : forall seed h st, seeded seed st -> seeded seed (fold_left run_call h st).
Proof. intros seed. exact (fold_left_preserves state call (seeded seed) run_call (seeded_run_call seed)). Qed.

Theorem run_seeded : forall seed h, seeded seed (run seed h).
Proof.
  intros seed h. unfold run. apply seeded_fold_calls. unfold created. apply exec_list_keeps_seed. apply seeded_init.
Qed.

(* samplers created with different seeds never touch a common key *)
Theorem distinct_seeds_disjoint : forall s1 s2 h1 h2, s1 <> s2 ->
  forall e1 e2, In e1 (st_trace (run s1 h1)) -> In e2 (st_trace (run s2 h2)) -> ev_key e1 <> ev_key e2.
Proof.
  intros s1 s2 h1 h2 Hne e1 e2 H1 H2 Heq.
  destruct (run_seeded s1 h1) as [_ Ht1]. destruct (run_seeded s2 h2) as [_ Ht2].
  apply Hne. rewrite <- (Ht1 e1 H1), <- (Ht2 e2 H2), Heq. reflexivity.
Qed.
