From Coq Require Import ZArith QArith Qcanon List Bool String Ring_theory.
Import ListNotations.
Require Import TV.Base.EP TV.Base.EPSound TV.Model.Lane TV.Spec.RotGates TV.gen.Gen_instructions TV.gen.Gen_stim_gates
  TV.Model.GateCheck TV.Model.InverseCheck TV.Proofs.GateProofs.
Set Default Timeout 120.
Lemma inv_table_ok : forallb check_inv_row gate_table = true.
Proof. vm_compute. reflexivity. Qed.
Lemma inv_T_ok : check_inv_T = true. Proof. vm_compute. reflexivity. Qed.
Lemma inv_rot_ok : check_inv_rot = true. Proof. vm_compute. reflexivity. Qed.
Lemma inv_u3_ok : check_inv_u3 = true. Proof. vm_compute. reflexivity. Qed.
