(* Two-qubit Pauli channels inside the composition theorem: on amplitudes, scalar, flags and counters the program drawn for
   PAULI_CHANNEL_2 / DEPOLARIZE2 on (qi, qj) is the program of PAULI_CHANNEL_1 on qi followed by PAULI_CHANNEL_1 on qj
   (error bits e0,e1 select the Pauli on qi, e2,e3 the Pauli on qj); only the probability table differs, which the interpreter
   does not look at. *)
From Coq Require Import ZArith QArith Qcanon List Bool String Lia Ring Ring_theory.
Import ListNotations.
Require Import TV.Base.EP TV.Base.EPSound TV.Base.Amp TV.Model.Lane TV.gen.Gen_instructions TV.Proofs.CircuitProofs TV.Proofs.DenseBridge TV.Proofs.KrausSem.
Set Default Timeout 200.

Section KN2.
  Variable R : Type.
  Variables (rO rI : R) (radd rmul : R -> R -> R) (ropp : R -> R).
  Variable E : Qc -> R.
  Variable half : R.
  Variables ta tb tc : Qc.
  Notation kst := (kst R).
  Notation kstep := (kstep R rO rI radd rmul ropp E half ta tb tc).
  Notation krun := (krun R rO rI radd rmul ropp E half ta tb tc).
  Notation kdo_err := (kdo_err R rO rI radd rmul ropp E half ta tb tc).

  (* the error-bit counter only matters for the index at which a later primitive reads *)
  Lemma err_idx f b t c q rel : kstep f b t (OErr c q rel false) = kdo_err b t c q (knerr R t + Z.to_nat rel)%nat.
  Proof. destruct f; reflexivity. Qed.
  Lemma bump f b t k : kstep f b t (OBumpErr k) = kcnt R t (knrec R t) (knsil R t) (knerr R t + Z.to_nat k)%nat (kncorr R t) (krecq R t).
  Proof. destruct f; reflexivity. Qed.
  Lemma chan f b t c : kstep f b t (OChan c) = t.
  Proof. destruct f; reflexivity. Qed.
  Lemma do_err_cnt b t c q idx nr ns ne nc rq :
    kdo_err b (kcnt R t nr ns ne nc rq) c q idx = kcnt R (kdo_err b t c q idx) nr ns ne nc rq.
  Proof.
    unfold KrausSem.kdo_err, KrausSem.kensure, kcnt. cbn [kex kpsi kk kcol knrec knsil knerr kncorr krecq kok].
    destruct (kex R t q), (bit (berr b) idx); reflexivity.
  Qed.
  Lemma do_err_counters b t c q idx :
    knrec R (kdo_err b t c q idx) = knrec R t /\ knsil R (kdo_err b t c q idx) = knsil R t /\ knerr R (kdo_err b t c q idx) = knerr R t /\
    kncorr R (kdo_err b t c q idx) = kncorr R t /\ krecq R (kdo_err b t c q idx) = krecq R t.
  Proof.
    unfold KrausSem.kdo_err, KrausSem.kensure. destruct (kex R t q), (bit (berr b) idx); cbn [knrec knsil knerr kncorr krecq ksetcol ksetpsi ksetex ksetk]; repeat split; reflexivity.
  Qed.

  (* reading at a given index and then bumping = bumping first and reading at the shifted offset *)
  Lemma idx_eq b t c q i j : i = j -> kdo_err b t c q i = kdo_err b t c q j.
  Proof. intros ->. reflexivity. Qed.
  Lemma kcnt_kcnt t nr ns ne nc rq nr' ns' ne' nc' rq' : kcnt R (kcnt R t nr ns ne nc rq) nr' ns' ne' nc' rq' = kcnt R t nr' ns' ne' nc' rq'.
  Proof. reflexivity. Qed.
  Lemma kcnt_proj t nr ns ne nc rq : knrec R (kcnt R t nr ns ne nc rq) = nr /\ knsil R (kcnt R t nr ns ne nc rq) = ns /\ knerr R (kcnt R t nr ns ne nc rq) = ne
    /\ kncorr R (kcnt R t nr ns ne nc rq) = nc /\ krecq R (kcnt R t nr ns ne nc rq) = rq.
  Proof. repeat split; reflexivity. Qed.

  Theorem pc2_is_two_pc1 b qi qj (a1 a2 a3 a4 a5 a6 a7 a8 a9 a10 a11 a12 a13 a14 a15 x1 y1 z1 x2 y2 z2 : prob) t :
    krun b (g_pauli_channel_2 qi qj a1 a2 a3 a4 a5 a6 a7 a8 a9 a10 a11 a12 a13 a14 a15) t
    = krun b (g_pauli_channel_1 qi x1 y1 z1 ++ g_pauli_channel_1 qj x2 y2 z2) t.
  Proof.
    unfold KrausSem.krun, g_pauli_channel_2, g_pauli_channel_1. cbn [app fold_left].
    rewrite ?chan, ?err_idx, ?bump, ?err_idx, ?chan.
    (* name the intermediate states of the left-hand side and record that the error reads keep all counters *)
    set (n := knerr R t).
    set (u1 := kdo_err b t CZc qi (n + Z.to_nat 0)).
    destruct (do_err_counters b t CZc qi (n + Z.to_nat 0)) as (A1 & A2 & A3 & A4 & A5). fold u1 in A1, A2, A3, A4, A5.
    rewrite ?A3. fold n.
    set (u2 := kdo_err b u1 CXc qi (n + Z.to_nat 1)).
    destruct (do_err_counters b u1 CXc qi (n + Z.to_nat 1)) as (B1 & B2 & B3 & B4 & B5). fold u2 in B1, B2, B3, B4, B5.
    rewrite ?B1, ?B2, ?B3, ?B4, ?B5, ?A1, ?A2, ?A3, ?A4, ?A5. fold n.
    set (u3 := kdo_err b u2 CZc qj (n + Z.to_nat 2)).
    destruct (do_err_counters b u2 CZc qj (n + Z.to_nat 2)) as (C1 & C2 & C3 & C4 & C5). fold u3 in C1, C2, C3, C4, C5.
    rewrite ?C3, ?B3, ?A3. fold n.
    set (u4 := kdo_err b u3 CXc qj (n + Z.to_nat 3)).
    destruct (do_err_counters b u3 CXc qj (n + Z.to_nat 3)) as (D1 & D2 & D3 & D4 & D5). fold u4 in D1, D2, D3, D4, D5.
    (* right-hand side: push the reads of the second half through the first bump *)
    rewrite !do_err_cnt. cbn [knerr kcnt]. rewrite ?do_err_cnt. cbn [knerr kcnt knrec knsil kncorr krecq].
    rewrite (idx_eq b u2 CZc qj (n + Z.to_nat 2 + Z.to_nat 0)%nat (n + Z.to_nat 2)%nat) by lia. fold u3.
    rewrite ?C1, ?C2, ?C3, ?C4, ?C5, ?B1, ?B2, ?B3, ?B4, ?B5, ?A1, ?A2, ?A3, ?A4, ?A5. fold n.
    rewrite (idx_eq b u3 CXc qj (n + Z.to_nat 2 + Z.to_nat 1)%nat (n + Z.to_nat 3)%nat) by (cbn; lia). fold u4.
    rewrite ?D1, ?D2, ?D3, ?D4, ?D5, ?C1, ?C2, ?C3, ?C4, ?C5, ?B1, ?B2, ?B3, ?B4, ?B5, ?A1, ?A2, ?A3, ?A4, ?A5. fold n.
    unfold kcnt. cbn [kk kpsi kex kcol knrec knsil knerr kncorr krecq kok]. f_equal. cbn. lia.
  Qed.

  Lemma pc1_counters b q x y z t :
    let t' := krun b (g_pauli_channel_1 q x y z) t in
    knrec R t' = knrec R t /\ knsil R t' = knsil R t /\ knerr R t' = (knerr R t + 2)%nat.
  Proof.
    unfold KrausSem.krun, g_pauli_channel_1. cbn [app fold_left]. rewrite ?chan, ?err_idx, ?bump.
    destruct (do_err_counters b t CZc q (knerr R t + Z.to_nat 0)) as (A1 & A2 & A3 & _).
    set (u1 := kdo_err b t CZc q (knerr R t + Z.to_nat 0)) in *.
    destruct (do_err_counters b u1 CXc q (knerr R u1 + Z.to_nat 1)) as (B1 & B2 & B3 & _).
    cbn [knrec knsil knerr kcnt]. rewrite B1, B2, B3, A1, A2, A3. repeat split; reflexivity.
  Qed.
End KN2.
