(* Lemmas for C13 (sampler API contract).  Plain stdlib style. *)
From Coq Require Import Arith ZArith NArith List Bool Lia.
Import ListNotations.
Require Import TV.Spec.DetSamplerSpec TV.gen.Gen_sampler_flags TV.Model.SamplerApi.
Local Open Scope nat_scope.

(* ====================================================================== rows: _sample_batches *)

Lemma ceil_div_bounds : forall s b, 1 <= b -> 1 <= s ->
  1 <= ceil_div s b /\ s <= ceil_div s b * b /\ ceil_div s b * b < s + b.
Proof.
  intros s b Hb Hs. unfold ceil_div.
  pose proof (Nat.div_mod (s + b - 1) b ltac:(lia)) as Hdm.
  pose proof (Nat.mod_upper_bound (s + b - 1) b ltac:(lia)) as Hub.
  set (q := (s + b - 1) / b) in *. set (r := (s + b - 1) mod b) in *.
  assert (Hq : 1 <= q).
  { destruct q as [|q']; [|lia]. rewrite Nat.mul_0_r in Hdm. lia. }
  lia.
Qed.

(* ceil_div is THE least number of batches of size b that cover s rows *)
Lemma ceil_div_least : forall s b n, 1 <= b -> 1 <= s -> s <= n * b -> ceil_div s b <= n.
Proof.
  intros s b n Hb Hs Hn.
  destruct (ceil_div_bounds s b Hb Hs) as (_ & _ & Hlt).
  destruct (le_lt_dec (ceil_div s b) n) as [H|H]; [exact H|].
  assert (Hmul : (n + 1) * b <= ceil_div s b * b) by (apply Nat.mul_le_mono_r; lia).
  lia.
Qed.

Lemma length_concat_blocks : forall (row : Type) (f : nat -> list row) b a n,
  (forall i, length (f i) = b) -> length (concat (map f (seq a n))) = n * b.
Proof.
  intros row f b a n Hf. revert a. induction n as [|n IH]; intros a; cbn [seq map concat].
  - reflexivity.
  - rewrite app_length, Hf, IH. lia.
Qed.

Lemma nth_concat_blocks : forall (row : Type) (f : nat -> list row) b d, 1 <= b ->
  (forall i, length (f i) = b) ->
  forall n a k, k < n * b -> nth k (concat (map f (seq a n))) d = nth (k mod b) (f (a + k / b)) d.
Proof.
  intros row f b d Hb Hf n. induction n as [|n IH]; intros a k Hk.
  - lia.
  - cbn [seq map concat]. destruct (lt_dec k b) as [Hlt|Hge].
    + rewrite app_nth1 by (rewrite Hf; exact Hlt).
      rewrite Nat.div_small, Nat.mod_small by exact Hlt. rewrite Nat.add_0_r. reflexivity.
    + rewrite app_nth2 by (rewrite Hf; lia). rewrite Hf.
      assert (Hk' : k - b < n * b) by (cbn [Nat.mul] in Hk; lia).
      rewrite (IH (S a) (k - b) Hk').
      assert (Hsplit : k = (k - b) + 1 * b) by lia.
      rewrite Hsplit at 3 4.
      rewrite Nat.div_add, Nat.mod_add by lia.
      f_equal. f_equal. lia.
Qed.

Lemma firstn_prefix : forall (A : Type) n (l : list A), exists rest, l = firstn n l ++ rest.
Proof. intros A n l. exists (skipn n l). symmetry. apply firstn_skipn. Qed.

Lemma nth_firstn_lt : forall (A : Type) n (l : list A) k d, k < n -> nth k (firstn n l) d = nth k l d.
Proof.
  intros A n. induction n as [|n IH]; intros l k d Hk; [lia|].
  destruct l as [|x l]; [destruct k; reflexivity|].
  destruct k as [|k]; cbn [firstn nth]; [reflexivity|]. apply IH. lia.
Qed.

Section Rows.
  Context {row : Type}.
  Variable draw : nat -> nat -> list row.
  (* what sample_program returns: one row per row of f_params, i.e. `n` rows when asked for n *)
  Hypothesis draw_rows : forall i n, length (draw i n) = n.

  Lemma all_batches_length : forall shots bs,
    length (all_batches draw shots bs) = n_batches shots bs * effective_batch shots bs.
  Proof.
    intros shots bs. unfold all_batches.
    apply length_concat_blocks. intros i. apply draw_rows.
  Qed.

  Lemma sample_batches_rows : forall shots bs,
    1 <= shots -> (forall b, bs = Some b -> 1 <= b) ->
    let b := effective_batch shots bs in
    let n := n_batches shots bs in
    let out := sample_batches draw shots bs in
    (* exactly `shots` rows *)
    length out = shots /\
    (* a prefix of the concatenated batches *)
    (exists rest, all_batches draw shots bs = out ++ rest) /\
    (* n = ceil(shots / b): enough batches, none superfluous, and the least such number *)
    1 <= n /\ shots <= n * b /\ n * b < shots + b /\ (forall m, shots <= m * b -> n <= m) /\
    (* row k of the result is row (k mod b) of batch (k / b) *)
    (forall k d, k < shots -> nth k out d = nth (k mod b) (draw (k / b) b) d).
  Proof.
    intros shots bs Hs Hbs b n out.
    assert (Hb : 1 <= b).
    { subst b. destruct bs as [b0|]; cbn [effective_batch]; [apply Hbs; reflexivity | exact Hs]. }
    destruct (ceil_div_bounds shots b Hb Hs) as (Hn1 & Hcover & Htight).
    change (ceil_div shots b) with n in Hn1, Hcover, Htight.
    pose proof (all_batches_length shots bs) as Hlen.
    change (n_batches shots bs) with n in Hlen. change (effective_batch shots bs) with b in Hlen.
    split; [|split; [|split; [|split; [|split; [|split]]]]].
    - subst out. unfold sample_batches. rewrite firstn_length, Hlen. lia.
    - subst out. unfold sample_batches. apply firstn_prefix.
    - exact Hn1.
    - exact Hcover.
    - exact Htight.
    - intros m Hm. change n with (ceil_div shots b). apply ceil_div_least; assumption.
    - intros k d Hk. subst out. unfold sample_batches.
      rewrite nth_firstn_lt by exact Hk.
      unfold all_batches. change (n_batches shots bs) with n. change (effective_batch shots bs) with b.
      rewrite (nth_concat_blocks row (fun i => draw i b) b d Hb (fun i => draw_rows i b) n 0 k) by lia.
      reflexivity.
  Qed.

  (* batch_size=None: a single batch of `shots` rows, returned whole *)
  Lemma sample_batches_none : forall shots, 1 <= shots ->
    n_batches shots None = 1 /\ sample_batches draw shots None = draw 0 shots.
  Proof.
    intros shots Hs.
    assert (Hn : n_batches shots None = 1).
    { unfold n_batches, effective_batch, ceil_div.
      replace (shots + shots - 1) with ((shots - 1) + 1 * shots) by lia.
      rewrite Nat.div_add by lia. rewrite Nat.div_small by lia. reflexivity. }
    split; [exact Hn|].
    unfold sample_batches, all_batches. rewrite Hn. cbn [seq map concat effective_batch].
    rewrite app_nil_r. rewrite <- (draw_rows 0 shots) at 1. apply firstn_all.
  Qed.
End Rows.

(* the number of columns never depends on the batch size: every returned row is a row of some batch *)
Lemma sample_batches_rows_from_batches : forall (row : Type) (draw : nat -> nat -> list row) shots bs r,
  In r (sample_batches draw shots bs) ->
  exists i, i < n_batches shots bs /\ In r (draw i (effective_batch shots bs)).
Proof.
  intros row draw shots bs r Hin. unfold sample_batches in Hin.
  assert (Hin' : In r (all_batches draw shots bs)).
  { rewrite <- (firstn_skipn shots (all_batches draw shots bs)). apply in_or_app. left. exact Hin. }
  unfold all_batches in Hin'. apply in_concat in Hin'. destruct Hin' as (blk & Hblk & Hr).
  apply in_map_iff in Hblk. destruct Hblk as (i & Hi & Hseq). apply in_seq in Hseq.
  exists i. split; [lia|]. rewrite Hi. exact Hr.
Qed.

(* ====================================================================== packing *)

Lemma list_ind8 (P : list bool -> Prop) :
  (forall l, length l < 8 -> P l) ->
  (forall b0 b1 b2 b3 b4 b5 b6 b7 r, P r -> P (b0 :: b1 :: b2 :: b3 :: b4 :: b5 :: b6 :: b7 :: r)) ->
  forall l, P l.
Proof.
  intros Hshort Hstep l.
  assert (H : forall n l0, length l0 <= n -> P l0).
  { induction n as [|n IH]; intros l0 Hl.
    - apply Hshort. lia.
    - destruct l0 as [|b0 [|b1 [|b2 [|b3 [|b4 [|b5 [|b6 [|b7 r]]]]]]]]; try (apply Hshort; cbn [length]; lia).
      apply Hstep. apply IH. cbn [length] in Hl. lia. }
  apply (H (length l)). lia.
Qed.

Lemma chunks8_short : forall l, 1 <= length l -> length l < 8 -> chunks8 l = [l].
Proof.
  intros l H1 H8.
  destruct l as [|b0 [|b1 [|b2 [|b3 [|b4 [|b5 [|b6 [|b7 r]]]]]]]]; cbn [length] in *; try reflexivity; lia.
Qed.

Lemma nth_skipn : forall (A : Type) n (l : list A) i d, nth i (skipn n l) d = nth (n + i) l d.
Proof.
  intros A n. induction n as [|n IH]; intros l i d; [reflexivity|].
  destruct l as [|x l]; cbn [skipn Nat.add nth]; [destruct i; reflexivity | apply IH].
Qed.

Lemma div8_step : forall n, (8 + n + 7) / 8 = S ((n + 7) / 8).
Proof.
  intros n. replace (8 + n + 7) with ((n + 7) + 1 * 8) by lia. rewrite Nat.div_add by lia. lia.
Qed.

Lemma chunks8_index : forall l,
  chunks8 l = map (fun k => firstn 8 (skipn (8 * k) l)) (seq 0 ((length l + 7) / 8)).
Proof.
  intros l. induction l as [l Hlen | b0 b1 b2 b3 b4 b5 b6 b7 r IH] using list_ind8.
  - destruct l as [|b l'].
    + reflexivity.
    + rewrite chunks8_short by (cbn [length] in *; lia).
      assert (Hd : (length (b :: l') + 7) / 8 = 1).
      { replace (length (b :: l') + 7) with ((length (b :: l') - 1) + 1 * 8) by (cbn [length]; lia).
        rewrite Nat.div_add by lia. rewrite Nat.div_small by lia. reflexivity. }
      rewrite Hd. cbn [seq map]. change (8 * 0) with 0. cbn [skipn]. rewrite firstn_all2 by lia. reflexivity.
  - change (chunks8 (b0 :: b1 :: b2 :: b3 :: b4 :: b5 :: b6 :: b7 :: r))
      with ([b0; b1; b2; b3; b4; b5; b6; b7] :: chunks8 r).
    change (length (b0 :: b1 :: b2 :: b3 :: b4 :: b5 :: b6 :: b7 :: r)) with (8 + length r).
    rewrite div8_step. rewrite IH. cbn [seq map]. rewrite <- seq_shift, map_map.
    f_equal. apply map_ext. intros k.
    replace (8 * S k) with (8 + 8 * k) by lia. reflexivity.
Qed.

Lemma packbits_little_is_spec : forall row, packbits true row = pack_le row.
Proof.
  intros row. unfold packbits, pack_le, byte_of. rewrite chunks8_index, map_map. reflexivity.
Qed.

Lemma testbit_byte_le : forall bits j, N.testbit (byte_le bits) (N.of_nat j) = nth j bits false.
Proof.
  induction bits as [|b r IH]; intros j.
  - cbn [byte_le]. rewrite N.bits_0. destruct j; reflexivity.
  - cbn [byte_le]. rewrite N.add_comm. destruct j as [|j].
    + cbn [N.of_nat nth]. apply N.testbit_0_r.
    + rewrite Nat2N.inj_succ. cbn [nth]. rewrite N.testbit_succ_r. apply IH.
Qed.

Lemma byte_le_bound : forall bits, (byte_le bits < 2 ^ N.of_nat (length bits))%N.
Proof.
  induction bits as [|b r IH].
  - cbn. lia.
  - cbn [byte_le length]. rewrite Nat2N.inj_succ, N.pow_succ_r'.
    destruct b; cbn [N.b2n]; lia.
Qed.

Lemma pack_le_length : forall row, length (pack_le row) = (length row + 7) / 8.
Proof. intros row. unfold pack_le. rewrite map_length, seq_length. reflexivity. Qed.

Lemma div8_cover : forall n, n <= 8 * ((n + 7) / 8).
Proof.
  intros n. pose proof (Nat.div_mod (n + 7) 8 ltac:(lia)) as H.
  pose proof (Nat.mod_upper_bound (n + 7) 8 ltac:(lia)) as H2. lia.
Qed.

Lemma pack_le_bit : forall row k j, j < 8 ->
  N.testbit (nth k (pack_le row) 0%N) (N.of_nat j) = nth (8 * k + j) row false.
Proof.
  intros row k j Hj. unfold pack_le.
  destruct (lt_dec k ((length row + 7) / 8)) as [Hk|Hk].
  - rewrite (nth_indep _ 0%N (byte_le (firstn 8 (skipn (8 * 0) row)))) by (rewrite map_length, seq_length; exact Hk).
    rewrite (map_nth (fun k0 => byte_le (firstn 8 (skipn (8 * k0) row)))).
    rewrite seq_nth by exact Hk. cbn [Nat.add].
    rewrite testbit_byte_le, nth_firstn_lt by exact Hj. apply nth_skipn.
  - rewrite nth_overflow by (rewrite map_length, seq_length; lia).
    rewrite N.bits_0. symmetry. apply nth_overflow.
    pose proof (div8_cover (length row)) as Hc.
    assert (Hm : 8 * ((length row + 7) / 8) <= 8 * k) by (apply Nat.mul_le_mono_l; lia).
    lia.
Qed.

Lemma pack_le_byte_range : forall row b, In b (pack_le row) -> (b < 256)%N.
Proof.
  intros row b Hin. unfold pack_le in Hin. apply in_map_iff in Hin. destruct Hin as (k & Hb & _). subst b.
  pose proof (byte_le_bound (firstn 8 (skipn (8 * k) row))) as Hbd.
  assert (Hl : length (firstn 8 (skipn (8 * k) row)) <= 8) by (rewrite firstn_length; lia).
  eapply N.lt_le_trans; [exact Hbd|].
  change 256%N with (2 ^ N.of_nat 8)%N. apply N.pow_le_mono_r; lia.
Qed.

Lemma bits_of_byte_le : forall c, length c <= 8 -> bits_of_byte (byte_le c) = pad8 c.
Proof.
  intros c Hc. unfold bits_of_byte.
  rewrite (map_ext _ (fun j => nth j c false)) by (intros j; apply testbit_byte_le).
  unfold pad8.
  destruct c as [|b0 [|b1 [|b2 [|b3 [|b4 [|b5 [|b6 [|b7 [|b8 r]]]]]]]]]; try reflexivity.
  cbn [length] in Hc. lia.
Qed.

Lemma unpack_pack_le : forall row, unpackbits_le (length row) (packbits true row) = row.
Proof.
  intros row. unfold unpackbits_le, packbits, byte_of.
  induction row as [l Hlen | b0 b1 b2 b3 b4 b5 b6 b7 r IH] using list_ind8.
  - destruct l as [|b l']; [reflexivity|].
    rewrite chunks8_short by (cbn [length] in *; lia).
    cbn [map flat_map]. rewrite app_nil_r, bits_of_byte_le by lia. unfold pad8.
    rewrite firstn_app, firstn_all, Nat.sub_diag. cbn [firstn]. apply app_nil_r.
  - change (chunks8 (b0 :: b1 :: b2 :: b3 :: b4 :: b5 :: b6 :: b7 :: r))
      with ([b0; b1; b2; b3; b4; b5; b6; b7] :: chunks8 r).
    cbn [map flat_map]. rewrite bits_of_byte_le by (cbn [length]; lia).
    change (pad8 [b0; b1; b2; b3; b4; b5; b6; b7]) with [b0; b1; b2; b3; b4; b5; b6; b7].
    cbn [length app firstn]. rewrite IH. reflexivity.
Qed.

(* the other bit order is a different function: witness that `bitorder` matters *)
Lemma packbits_big_differs : packbits false [true] <> packbits true [true].
Proof. vm_compute. discriminate. Qed.

(* ====================================================================== flags *)

(* symbolic evaluation of the column expressions: a row is [D | O]; an expression that only cuts at the
   boundary `num_detectors` denotes a list of parts.  Anything else (e.g. a cut at num_detectors+1) has no
   symbolic value, and then the table lemma below does not check. *)
Inductive part := PD | PO.

Definition part_sel (s : shot) (p : part) : list bool := match p with PD => fst s | PO => snd s end.
Definition parts_row (ps : list part) (s : shot) : list bool := flat_map (part_sel s) ps.

Fixpoint mexpr_sym (e : mexpr) : option (list part) :=
  match e with
  | MSamples => Some [PD; PO]
  | MSlice MSamples lo hi =>
      match lo, hi with
      | BNone, BDet 0%Z | BConst 0%Z, BDet 0%Z => Some [PD]
      | BDet 0%Z, BNone => Some [PO]
      | BNone, BNone | BConst 0%Z, BNone => Some [PD; PO]
      | _, _ => None
      end
  | MSlice _ _ _ => None
  | MCatNil => Some []
  | MCat a b =>
      match mexpr_sym a, mexpr_sym b with
      | Some x, Some y => Some (x ++ y)
      | _, _ => None
      end
  end.

Lemma slice_det_prefix : forall (D O : list bool) lo, lo = BNone \/ lo = BConst 0%Z ->
  slice_row (Z.of_nat (length D)) lo (BDet 0%Z) (D ++ O) = D.
Proof.
  intros D O lo Hlo. unfold slice_row.
  assert (Hl : resolve_bound (Z.of_nat (length D)) (Z.of_nat (length (D ++ O))) lo 0%Z = 0%Z).
  { destruct Hlo as [-> | ->]; cbn [resolve_bound]; [reflexivity|]. unfold norm_index. cbn. lia. }
  rewrite Hl. cbn [Z.to_nat skipn resolve_bound]. unfold norm_index.
  rewrite app_length. rewrite Z.add_0_r.
  destruct (Z.ltb_spec (Z.of_nat (length D)) 0) as [Hneg|_]; [lia|].
  rewrite Z.min_l by lia. rewrite Nat2Z.id.
  rewrite firstn_app, firstn_all, Nat.sub_diag. cbn [firstn]. apply app_nil_r.
Qed.

Lemma slice_obs_suffix : forall (D O : list bool),
  slice_row (Z.of_nat (length D)) (BDet 0%Z) BNone (D ++ O) = O.
Proof.
  intros D O. unfold slice_row. cbn [resolve_bound]. unfold norm_index.
  rewrite app_length. rewrite Z.add_0_r.
  destruct (Z.ltb_spec (Z.of_nat (length D)) 0) as [Hneg|_]; [lia|].
  rewrite Z.min_l by lia. rewrite !Nat2Z.id.
  rewrite <- app_length, firstn_all. rewrite skipn_app, skipn_all, Nat.sub_diag. reflexivity.
Qed.

Lemma slice_all : forall nd (r : list bool) lo, lo = BNone \/ lo = BConst 0%Z -> slice_row nd lo BNone r = r.
Proof.
  intros nd r lo Hlo. unfold slice_row.
  assert (Hl : resolve_bound nd (Z.of_nat (length r)) lo 0%Z = 0%Z).
  { destruct Hlo as [-> | ->]; cbn [resolve_bound]; [reflexivity|]. unfold norm_index. cbn. lia. }
  rewrite Hl. cbn [Z.to_nat skipn resolve_bound]. rewrite Nat2Z.id. apply firstn_all.
Qed.

Lemma mexpr_sym_sound : forall e ps (s : shot), mexpr_sym e = Some ps ->
  mexpr_row (Z.of_nat (length (fst s))) (fst s ++ snd s) e = parts_row ps s.
Proof.
  induction e as [|m IHm lo hi| |a IHa b IHb]; intros ps s Hsym.
  - cbn in Hsym. injection Hsym as <-. cbn. rewrite app_nil_r. reflexivity.
  - destruct m; cbn [mexpr_sym] in Hsym; try discriminate.
    cbn [mexpr_row].
    destruct lo as [|c|off], hi as [|c'|off']; try discriminate.
    + injection Hsym as <-. rewrite slice_all by (left; reflexivity). cbn. rewrite app_nil_r. reflexivity.
    + destruct off' as [| |]; try discriminate. injection Hsym as <-.
      rewrite slice_det_prefix by (left; reflexivity). cbn. rewrite app_nil_r. reflexivity.
    + destruct c as [| |]; try discriminate. injection Hsym as <-.
      rewrite slice_all by (right; reflexivity). cbn. rewrite app_nil_r. reflexivity.
    + destruct c as [| |]; try discriminate.
    + destruct c as [| |]; try discriminate. destruct off' as [| |]; try discriminate. injection Hsym as <-.
      rewrite slice_det_prefix by (right; reflexivity). cbn. rewrite app_nil_r. reflexivity.
    + destruct off as [| |]; try discriminate. injection Hsym as <-.
      rewrite slice_obs_suffix. cbn. rewrite app_nil_r. reflexivity.
    + destruct off as [| |]; discriminate.
    + destruct off as [| |]; discriminate.
  - cbn in Hsym. injection Hsym as <-. reflexivity.
  - cbn [mexpr_sym] in Hsym.
    destruct (mexpr_sym a) as [x|] eqn:Ha; [|discriminate].
    destruct (mexpr_sym b) as [y|] eqn:Hb; [|discriminate].
    injection Hsym as <-. cbn [mexpr_row]. rewrite (IHa x s eq_refl), (IHb y s eq_refl).
    unfold parts_row. rewrite flat_map_app. reflexivity.
Qed.

Definition sym_value := (list part * packmode)%type.

Definition rexpr_sym (r : rexpr) : option sym_value :=
  match r with
  | RMaybePack bp m => match mexpr_sym m with Some ps => Some (ps, gen_maybe_bit_pack bp) | None => None end
  end.

Definition outcome_sym (o : outcome) : option (det_result sym_value) :=
  match o with
  | ORaiseValueError => Some SReject
  | OOne r => match rexpr_sym r with Some v => Some (SOne v) | None => None end
  | OPair r1 r2 => match rexpr_sym r1, rexpr_sym r2 with Some v1, Some v2 => Some (SPair v1 v2) | _, _ => None end
  end.

(* Stim's contract, as a table over the 16 combinations *)
Definition expected_sym (prepend append separate bit_packed : bool) : det_result sym_value :=
  let pm := if bit_packed then PackBits true else PackNo in
  if separate then
    if prepend || append then SReject else SPair ([PD], pm) ([PO], pm)
  else SOne ((if prepend then [PO] else []) ++ [PD] ++ (if append then [PO] else []), pm).

(* THE finite check over the regenerated decision function: all 16 combinations, by computation *)
Lemma gen_flags_table : forall p a s bp,
  outcome_sym (gen_detector_sample p a s bp) = Some (expected_sym p a s bp).
Proof. intros [] [] [] []; vm_compute; reflexivity. Qed.

Definition sym_interp (shots : list shot) (v : sym_value) : cells :=
  apply_packmode (snd v) (map (parts_row (fst v)) shots).

Lemma rexpr_sym_sound : forall r v nd (shots : list shot),
  rexpr_sym r = Some v -> (forall s, In s shots -> length (fst s) = nd) ->
  rexpr_eval (Z.of_nat nd) (map (fun s => fst s ++ snd s) shots) r = sym_interp shots v.
Proof.
  intros [bp m] v nd shots Hsym Hnd. cbn [rexpr_sym] in Hsym.
  destruct (mexpr_sym m) as [ps|] eqn:Hm; [|discriminate]. injection Hsym as <-.
  unfold rexpr_eval, sym_interp. cbn [fst snd]. f_equal. rewrite map_map.
  apply map_ext_in. intros s Hs. rewrite <- (Hnd s Hs). apply mexpr_sym_sound. exact Hm.
Qed.

Lemma expected_sym_is_spec : forall p a s bp shots,
  map_result (sym_interp shots) (expected_sym p a s bp) = stim_detector_sample p a s bp shots.
Proof.
  intros p a s bp shots. unfold stim_detector_sample, stim_layout, expected_sym.
  assert (Hfmt : forall ps,
            sym_interp shots (ps, if bp then PackBits true else PackNo) = stim_format bp (map (parts_row ps) shots)).
  { intros ps. unfold sym_interp, stim_format. cbn [fst snd].
    destruct bp; cbn [apply_packmode]; [|reflexivity].
    f_equal. apply map_ext. intros row. apply packbits_little_is_spec. }
  destruct s.
  - destruct (p || a); cbn [map_result]; [reflexivity|].
    rewrite !Hfmt. f_equal; f_equal; apply map_ext; intros sh; cbn; apply app_nil_r.
  - cbn [map_result]. rewrite Hfmt. f_equal. f_equal. apply map_ext. intros sh.
    unfold stim_row, parts_row. rewrite !flat_map_app.
    destruct p, a; cbn; rewrite ?app_nil_r; reflexivity.
Qed.

Lemma detector_sample_model_is_spec : forall p a s bp nd (shots : list shot),
  (forall sh, In sh shots -> length (fst sh) = nd) ->
  detector_sample_model p a s bp (Z.of_nat nd) (map (fun sh => fst sh ++ snd sh) shots)
  = stim_detector_sample p a s bp shots.
Proof.
  intros p a s bp nd shots Hnd.
  rewrite <- expected_sym_is_spec.
  pose proof (gen_flags_table p a s bp) as Htab.
  unfold detector_sample_model.
  destruct (gen_detector_sample p a s bp) as [|r|r1 r2]; cbn [outcome_sym] in Htab.
  - injection Htab as <-. reflexivity.
  - destruct (rexpr_sym r) as [v|] eqn:Hr; [|discriminate]. injection Htab as <-.
    cbn [map_result]. f_equal. apply rexpr_sym_sound; assumption.
  - destruct (rexpr_sym r1) as [v1|] eqn:Hr1; [|discriminate].
    destruct (rexpr_sym r2) as [v2|] eqn:Hr2; [|discriminate]. injection Htab as <-.
    cbn [map_result]. f_equal; apply rexpr_sym_sound; assumption.
Qed.

(* rejection happens exactly where Stim rejects *)
Lemma detector_sample_rejects_iff : forall p a s bp nd samples,
  detector_sample_model p a s bp nd samples = SReject <-> s && (p || a) = true.
Proof.
  intros p a s bp nd samples. unfold detector_sample_model.
  pose proof (gen_flags_table p a s bp) as Htab.
  destruct (gen_detector_sample p a s bp) as [|r|r1 r2]; cbn [outcome_sym] in Htab.
  - injection Htab as Htab. unfold expected_sym in Htab.
    destruct s; [destruct (p || a)|]; try discriminate. split; reflexivity.
  - destruct (rexpr_sym r); [|discriminate]. injection Htab as Htab. unfold expected_sym in Htab.
    destruct s; [destruct (p || a)|]; try discriminate; split; discriminate.
  - destruct (rexpr_sym r1); [|discriminate]. destruct (rexpr_sym r2); [|discriminate].
    injection Htab as Htab. unfold expected_sym in Htab.
    destruct s; [destruct (p || a)|]; try discriminate; split; discriminate.
Qed.

Lemma gen_pack_modes : gen_maybe_bit_pack false = PackNo /\ gen_maybe_bit_pack true = PackBits true.
Proof. split; vm_compute; reflexivity. Qed.

Lemma pack_contract :
  (gen_maybe_bit_pack false = PackNo /\ gen_maybe_bit_pack true = PackBits true) /\
  forall row : list bool,
    packbits true row = pack_le row /\
    length (pack_le row) = (length row + 7) / 8 /\
    (forall b, In b (pack_le row) -> (b < 256)%N) /\
    (forall k j, j < 8 -> N.testbit (nth k (pack_le row) 0%N) (N.of_nat j) = nth (8 * k + j) row false) /\
    unpackbits_le (length row) (packbits true row) = row.
Proof.
  split; [exact gen_pack_modes|]. intros row.
  split; [apply packbits_little_is_spec|]. split; [apply pack_le_length|]. split; [apply pack_le_byte_range|].
  split; [apply pack_le_bit|]. apply unpack_pack_le.
Qed.
