(* Model/Parse.weight -- the exact number the correspondence run evaluates inside Coq for every record and error assignment and
   compares (after normalisation) with the distribution tsim's sampler uses -- is, for every text whose parse is the lane program
   of its elaborated circuit, |C|^2 times the sum over the silent bits of the squared norms of the ordered product of the documented
   Kraus operators applied to |0...0>: the Born weight of the record for that error assignment, up to one constant that depends on
   neither. *)
From Coq Require Import ZArith QArith Qcanon List Bool String Lia Ring Ring_theory.
Import ListNotations.
Require Import TV.Base.EP TV.Base.EPSound TV.Base.Amp TV.Model.Lane TV.Model.InstrCheck TV.Model.Parse TV.Proofs.DenseBridge TV.Proofs.KrausSem
  TV.Proofs.KrausGates TV.Proofs.KrausCircuit TV.Proofs.KrausBorn TV.Proofs.ParseElab TV.Proofs.ParseBorn.

Section PWeights.
  Variable R : Type.
  Variables (rO rI : R) (radd rmul rsub : R -> R -> R) (ropp : R -> R).
  Variable Rth : ring_theory rO rI radd rmul rsub ropp eq.
  Add Ring RringPW : Rth.
  Variable E : Qc -> R.
  Hypothesis E_add : forall a b, E (a + b)%Qc = rmul (E a) (E b).
  Hypothesis E_0 : E 0%Qc = rI.
  Hypothesis E_1 : E 1%Qc = ropp rI.
  Variable half : R.
  Hypothesis half_2 : radd half half = rI.
  Variable conj : R -> R.
  Hypothesis conj_add : forall a b, conj (radd a b) = radd (conj a) (conj b).
  Hypothesis conj_mul : forall a b, conj (rmul a b) = rmul (conj a) (conj b).
  Hypothesis conj_1 : conj rI = rI.
  Hypothesis conj_E : forall q, conj (E q) = E (- q)%Qc.
  Hypothesis conj_half : conj half = half.
  Variables ta tb tc : Qc.
  Notation ev := (eval R rO rI radd rmul ropp E half ta tb tc).
  Notation sq2 := (sq2 R rO rI radd rmul ropp E half ta tb tc).
  Notation cspec := (cspec R rO rI radd rmul ropp E half ta tb tc).
  Notation ccircuit_ok := (ccircuit_ok R rO rI radd rmul ropp E half ta tb tc).
  Notation sqabs := (sqabs R rmul conj).
  Notation rsum := (rsum R rO radd).
  Infix "+" := radd.
  Infix "*" := rmul.

  Lemma ev_fold_padd {A} (f : A -> ep) l : forall a, ev (fold_left (fun acc x => padd acc (f x)) l a) = ev a + rsum (map (fun x => ev (f x)) l).
  Proof.
    induction l as [|x l IH]; intro a; cbn [fold_left map].
    - unfold KrausBorn.rsum. cbn [fold_left]. ring.
    - rewrite IH, (eval_padd R rO rI radd rmul rsub ropp Rth E E_add E_0 E_1 half half_2 ta tb tc),
        (rsum_cons R rO rI radd rmul rsub ropp Rth). ring.
  Qed.

  (* the Born weight of one bit assignment, in terms of the documented operators *)
  Definition kraus_norm (n : nat) (cs : list cinstr) (b : bits) : R :=
    rsum (map (fun i => sqabs (cspec b (kinit R rO rI n) cs (kpsi R (kinit R rO rI n)) (Nat.testbit i))) (seq 0 (dim n))).

  Theorem parsed_weight n aux c cs ps :
    build aux c = Some ps -> parse_is_circuit aux c cs = true ->
    forallb (cinstr_lanes_ok n) cs = true -> ccircuit_ok (kinit R rO rI n) cs = true ->
    exists C, sq2 C /\ forall rec err,
      ev (weight n (pops ps) rec err)
      = sqabs C * rsum (map (fun sil => kraus_norm n cs (mkB rec sil err)) (bitvecs (snd (fst (counts n (pops ps)))))).
  Proof.
    intros Hb Hp Hl Hok.
    destruct (parsed_born_weight R rO rI radd rmul rsub ropp Rth E E_add E_0 E_1 half half_2 conj conj_add conj_mul conj_1 conj_E conj_half
                ta tb tc n aux c cs ps Hb Hp Hl Hok) as (C & HC & H).
    exists C. split; [exact HC|]. intros rec err. unfold weight.
    destruct (counts n (pops ps)) as [[nr ns] ne]. cbn [fst snd].
    rewrite (ev_fold_padd (fun sil => norm2 (final_vec (run n (mkB rec sil err) (pops ps) (init_state n))))).
    rewrite (eval_p0 R rO rI radd rmul rsub ropp Rth E E_add E_0 E_1 half half_2 ta tb tc).
    rewrite <- (rsum_scale R rO rI radd rmul rsub ropp Rth), map_map.
    replace (rO + rsum (map (fun x => ev (norm2 (final_vec (run n (mkB rec x err) (pops ps) (init_state n))))) (bitvecs ns)))
      with (rsum (map (fun x => ev (norm2 (final_vec (run n (mkB rec x err) (pops ps) (init_state n))))) (bitvecs ns))) by ring.
    f_equal. apply map_ext. intro sil. rewrite (H (mkB rec sil err)). reflexivity.
  Qed.
End PWeights.
