(* Lemmas for C20: soundness of the boolean checks, the finite facts about the two encoders (vm_compute over the
   regenerated tables), the index theorems (all programs, any number of logical qubits) and the premise-carrying
   program theorem. *)
From Coq Require Import ZArith NArith List Bool String Lia.
Import ListNotations.
Require Import TV.Base.PauliTableau TV.gen.Gen_encoder TV.Model.Encoder.
Open Scope Z_scope.
Set Default Timeout 60.

(* ================================================================== 1. soundness of the boolean checks *)
Lemma pprod_xs : forall (L : list (list Z)) (s : list bool),
  pprod (select s (map xs_on L)) = mkP 0 (xor_select s (map mask L)) 0.
Proof.
  induction L as [|g L IH]; intros s.
  - destruct s; reflexivity.
  - destruct s as [|b s]; [reflexivity|]. cbn [map select xor_select]. destruct b.
    + cbn [pprod fold_right]. change (fold_right pmul pone (select s (map xs_on L))) with (pprod (select s (map xs_on L))).
      rewrite IH. unfold pmul, xs_on. cbn [pph px pz]. rewrite N.land_0_l. reflexivity.
    + rewrite IH. rewrite N.lxor_0_l. reflexivity.
Qed.
Lemma pprod_zs : forall (L : list (list Z)) (s : list bool),
  pprod (select s (map zs_on L)) = mkP 0 0 (xor_select s (map mask L)).
Proof.
  induction L as [|g L IH]; intros s.
  - destruct s; reflexivity.
  - destruct s as [|b s]; [reflexivity|]. cbn [map select xor_select]. destruct b.
    + cbn [pprod fold_right]. change (fold_right pmul pone (select s (map zs_on L))) with (pprod (select s (map zs_on L))).
      rewrite IH. unfold pmul, zs_on. cbn [pph px pz]. rewrite N.land_0_r. reflexivity.
    + rewrite IH. rewrite N.lxor_0_l. reflexivity.
Qed.

Lemma in_group_sound e P : in_group e P = true -> InGroup e P.
Proof.
  unfold in_group. intro H.
  apply andb_true_iff in H. destruct H as [H Hz]. apply andb_true_iff in H. destruct H as [Hp Hx].
  destruct (find_span (gen_masks e) (px P)) as [sx|] eqn:Ex; [|discriminate].
  destruct (find_span (gen_masks e) (pz P)) as [sz|] eqn:Ez; [|discriminate].
  apply find_span_sound in Ex. apply find_span_sound in Ez. destruct Ex as [Ex _], Ez as [Ez _].
  exists sx, sz. unfold stab_x, stab_z. rewrite pprod_xs, pprod_zs. unfold gen_masks in Ex, Ez. rewrite Ex, Ez.
  unfold pmul. cbn [pph px pz]. rewrite N.land_0_l, N.lxor_0_r, N.lxor_0_l.
  apply Z.eqb_eq in Hp. destruct P as [p x z]. cbn [pph px pz] in *. subst p. reflexivity.
Qed.
Lemma in_group2_sound e P : in_group2 e P = true -> InGroup2 e P.
Proof.
  unfold in_group2. intro H.
  apply andb_true_iff in H. destruct H as [H H3]. apply andb_true_iff in H. destruct H as [H1 H2].
  exists (plow (nN e) P), (phigh (nN e) P). split; [apply in_group_sound; exact H1|].
  split; [apply in_group_sound; exact H2|]. apply peqb_eq. exact H3.
Qed.
Lemma rel_ok_sound (ing : pauli -> bool) (G : pauli -> Prop) want oimg :
  (forall s, ing s = true -> G s) -> rel_ok ing want oimg = true ->
  exists img s, oimg = Some img /\ G s /\ img = pmul want s.
Proof.
  intros HG H. unfold rel_ok in H. destruct oimg as [img|]; [|discriminate].
  apply andb_true_iff in H. destruct H as [H1 H2].
  exists img, (pmul (pinv want) img). split; [reflexivity|]. split; [apply HG; exact H1|]. apply peqb_eq. exact H2.
Qed.

Lemma preserves_stab_sound e ops : preserves_stab_b e ops = true -> PreservesStab e ops.
Proof.
  unfold preserves_stab_b, PreservesStab. intros H g Hg. rewrite forallb_forall in H. specialize (H g Hg).
  destruct (conj_ops ops g) as [img|]; [|discriminate]. exists img. split; [reflexivity|]. apply in_group_sound. exact H.
Qed.
Lemma induces1_sound e ops g : induces1_b e ops g = true -> Induces1 e ops g.
Proof.
  unfold induces1_b, Induces1. destruct (img1 g) as [tb|]; [|discriminate]. intro H. exists tb. split; [reflexivity|].
  intros u Hu. rewrite forallb_forall in H. specialize (H u Hu).
  apply (rel_ok_sound (in_group e) (InGroup e)); [apply in_group_sound | exact H].
Qed.
Lemma preserves_stab2_sound e ops : preserves_stab2_b e ops = true -> PreservesStab2 e ops.
Proof.
  unfold preserves_stab2_b, PreservesStab2. intros H g Hg. rewrite forallb_forall in H. specialize (H g Hg).
  destruct (conj_ops ops g) as [img|]; [|discriminate]. exists img. split; [reflexivity|]. apply in_group2_sound. exact H.
Qed.
Lemma induces2_sound e ops g : induces2_b e ops g = true -> Induces2 e ops g.
Proof.
  unfold induces2_b, Induces2. destruct (img2 g) as [tb|]; [|discriminate]. intro H. exists tb. split; [reflexivity|].
  intros u Hu. rewrite forallb_forall in H. specialize (H u Hu).
  apply (rel_ok_sound (in_group2 e) (InGroup2 e)); [apply in_group2_sound | exact H].
Qed.

Lemma range_In n i : In i (range n) <-> 0 <= i < n.
Proof.
  unfold range. rewrite in_map_iff. split.
  - intros [k [Hk Hin]]. apply in_seq in Hin. lia.
  - intro H. exists (Z.to_nat i). split; [lia|]. apply in_seq. lia.
Qed.

Lemma encode_b_sound e : encode_b e = true -> EncodeCorrect e.
Proof.
  unfold encode_b, EncodeCorrect. intro H.
  repeat (apply andb_true_iff in H; let H' := fresh "H" in destruct H as [H H']).
  split; [exact H|]. split.
  { intros i Hi. rewrite forallb_forall in H5. specialize (H5 i (proj2 (range_In _ _) Hi)).
    apply Bool.eqb_prop in H5. split.
    - intros Hin Heq. assert (Hex : existsb (Z.eqb i) (enc_resets e) = true).
      { apply existsb_exists. exists i. split; [exact Hin | apply Z.eqb_refl]. }
      rewrite Hex in H5. symmetry in H5. apply negb_true_iff in H5. apply Z.eqb_neq in H5. contradiction.
    - intro Hne. apply Z.eqb_neq in Hne. rewrite Hne in H5. cbn [negb] in H5. apply existsb_exists in H5.
      destruct H5 as [x [Hx Hxe]]. apply Z.eqb_eq in Hxe. subst x. exact Hx. }
  split.
  { intros i Hi Hne. rewrite forallb_forall in H4. specialize (H4 i (proj2 (range_In _ _) Hi)).
    apply Z.eqb_neq in Hne. rewrite Hne in H4. cbn [orb] in H4.
    destruct (conj_ops (enc_unitary e) (zs_on [i])) as [img|]; [|discriminate].
    exists img. split; [reflexivity | apply in_group_sound; exact H4]. }
  split.
  { destruct (rel_ok_sound _ (InGroup e) _ _ (in_group_sound e) H3) as [img [s [E [Hs Himg]]]].
    exists s. split; [exact Hs|]. rewrite E, Himg. reflexivity. }
  split.
  { destruct (rel_ok_sound _ (InGroup e) _ _ (in_group_sound e) H2) as [img [s [E [Hs Himg]]]].
    exists s. split; [exact Hs|]. rewrite E, Himg. reflexivity. }
  split; [exact H1 | apply Z.eqb_eq; exact H0].
Qed.

(* ================================================================== 2. finite facts, both encoders *)
Lemma encode_steane : EncodeCorrect steane.
Proof. apply encode_b_sound. vm_compute. reflexivity. Qed.
Lemma encode_color5 : EncodeCorrect color5.
Proof. apply encode_b_sound. vm_compute. reflexivity. Qed.

Definition gates1_b (e : enc_table) : bool :=
  forallb (fun g => preserves_stab_b e (transversal1 e g) && induces1_b e (transversal1 e g) g) logical_gates1.
Definition gates2_b (e : enc_table) : bool :=
  forallb (fun g => preserves_stab2_b e (transversal2 e g) && induces2_b e (transversal2 e g) g) logical_gates2.
Lemma gates1_sound e : gates1_b e = true ->
  forall g, In g logical_gates1 -> PreservesStab e (transversal1 e g) /\ Induces1 e (transversal1 e g) g.
Proof.
  unfold gates1_b. intros H g Hg. rewrite forallb_forall in H. specialize (H g Hg). apply andb_true_iff in H.
  destruct H as [H1 H2]. split; [apply preserves_stab_sound | apply induces1_sound]; assumption.
Qed.
Lemma gates2_sound e : gates2_b e = true ->
  forall g, In g logical_gates2 -> PreservesStab2 e (transversal2 e g) /\ Induces2 e (transversal2 e g) g.
Proof.
  unfold gates2_b. intros H g Hg. rewrite forallb_forall in H. specialize (H g Hg). apply andb_true_iff in H.
  destruct H as [H1 H2]. split; [apply preserves_stab2_sound | apply induces2_sound]; assumption.
Qed.
Lemma gate1_steane : forall g, In g logical_gates1 ->
  PreservesStab steane (transversal1 steane g) /\ Induces1 steane (transversal1 steane g) g.
Proof. apply gates1_sound. vm_compute. reflexivity. Qed.
Lemma gate1_color5 : forall g, In g logical_gates1 ->
  PreservesStab color5 (transversal1 color5 g) /\ Induces1 color5 (transversal1 color5 g) g.
Proof. apply gates1_sound. vm_compute. reflexivity. Qed.
Lemma gate2_steane : forall g, In g logical_gates2 ->
  PreservesStab2 steane (transversal2 steane g) /\ Induces2 steane (transversal2 steane g) g.
Proof. apply gates2_sound. vm_compute. reflexivity. Qed.
Lemma gate2_color5 : forall g, In g logical_gates2 ->
  PreservesStab2 color5 (transversal2 color5 g) /\ Induces2 color5 (transversal2 color5 g) g.
Proof. apply gates2_sound. vm_compute. reflexivity. Qed.

(* the expansions matter: without the table's corrections the Steane transversal S is NOT the logical S *)
Lemma steane_bare_S_is_not_logical_S :
  induces1_b steane (transform (e_n steane) (trans_offsets steane) [] (e_stabs steane) (e_obs steane)
                               [mkI "S" 0 true [[0]] []]) "S" = false.
Proof. vm_compute. reflexivity. Qed.

Definition meas_b (e : enc_table) : bool :=
  forallb (fun gen => in_group e (zs_on gen)) (e_stabs e) && Nat.eqb (List.length (e_obs e)) 1.
Lemma meas_sound e :
  presolve [] (transversal e meas_prog)
    = map (fun gen => ("DETECTOR"%string, 1, map Some gen)) (e_stabs e)
      ++ [("OBSERVABLE_INCLUDE"%string, 2, map Some (obs_support e))] ->
  meas_b e = true -> MeasCorrect e.
Proof.
  intros H1 H2. unfold MeasCorrect. split; [exact H1|]. unfold meas_b in H2. apply andb_true_iff in H2.
  destruct H2 as [H2 H3]. split.
  - intros gen Hg. rewrite forallb_forall in H2. apply in_group_sound. apply H2. exact Hg.
  - split; [reflexivity | apply Nat.eqb_eq; exact H3].
Qed.
Lemma meas_steane : MeasCorrect steane.
Proof. apply meas_sound; vm_compute; reflexivity. Qed.
Lemma meas_color5 : MeasCorrect color5.
Proof. apply meas_sound; vm_compute; reflexivity. Qed.

(* ================================================================== 3. index theorems (all programs, any number of blocks) *)
(* block j occupies [j*n, (j+1)*n) and blocks are disjoint *)
Lemma bt_index_block n t off : 0 <= off < n -> t * n <= bt_index t n off < (t + 1) * n.
Proof. intro H. unfold bt_index. nia. Qed.
Lemma bt_index_inj n t off t' off' : 0 <= off < n -> 0 <= off' < n ->
  bt_index t n off = bt_index t' n off' -> t = t' /\ off = off'.
Proof. intros H H'. unfold bt_index. intro E. assert (t = t') by nia. subst. split; [reflexivity|lia]. Qed.

Lemma flat_map_singletons {A B} (f : list A -> list B) (qs : list A) :
  flat_map f (map (fun q => [q]) qs) = flat_map (fun q => f [q]) qs.
Proof. induction qs as [|q r IH]; [reflexivity|]. cbn [map flat_map]. rewrite IH. reflexivity. Qed.

(* a one-qubit logical instruction on logical qubits qs acts on the whole blocks of qs, block after block *)
Lemma broadcast_1q n qs :
  broadcast_targets (map (fun q => [q]) qs) n (range n) = flat_map (block n) qs.
Proof.
  unfold broadcast_targets. rewrite flat_map_singletons. apply flat_map_ext. intro q.
  unfold block. induction (range n) as [|off r IH]; [reflexivity|].
  cbn [flat_map]. rewrite IH. cbn [map app]. unfold bt_index. reflexivity.
Qed.
(* a two-qubit logical instruction pairs up equal offsets of the two blocks *)
Lemma broadcast_2q n pairs :
  broadcast_targets (map (fun ab => [fst ab; snd ab]) pairs) n (range n) = pair_targets n pairs.
Proof.
  unfold broadcast_targets, pair_targets. induction pairs as [|ab r IH]; [reflexivity|].
  cbn [map flat_map]. rewrite IH. f_equal.
Qed.
(* singleton groups in general *)
Lemma singletons_concat gs : singletons gs = true -> gs = map (fun q => [q]) (List.concat gs).
Proof.
  induction gs as [|g r IH]; [reflexivity|]. cbn [singletons forallb]. intro H. apply andb_true_iff in H.
  destruct H as [Hg Hr]. destruct g as [|q [|q' g']]; try discriminate. cbn [List.concat app map]. f_equal. apply IH. exact Hr.
Qed.

(* ---- the record: block after block, and the rewritten look-backs *)
Lemma block_length n q : List.length (block n q) = Z.to_nat n.
Proof. unfold block, range. rewrite !map_length, seq_length. reflexivity. Qed.
Lemma nth_error_seq a N k : (k < N)%nat -> nth_error (seq a N) k = Some (a + k)%nat.
Proof.
  revert a k. induction N as [|N IH]; intros a k Hk; [lia|].
  destruct k as [|k]; cbn [seq nth_error]; [f_equal; lia|]. rewrite IH by lia. f_equal. lia.
Qed.
Lemma block_nth n q k : (k < Z.to_nat n)%nat -> nth_error (block n q) k = Some (q * n + Z.of_nat k).
Proof.
  intro Hk. unfold block, range. rewrite !nth_error_map. rewrite nth_error_seq by exact Hk. reflexivity.
Qed.
Lemma flat_block_length n l : List.length (flat_map (block n) l) = (List.length l * Z.to_nat n)%nat.
Proof. induction l as [|q r IH]; [reflexivity|]. cbn [flat_map List.length]. rewrite app_length, block_length, IH. lia. Qed.
Lemma flat_block_nth n l i k : (k < Z.to_nat n)%nat ->
  nth_error (flat_map (block n) l) (i * Z.to_nat n + k) = option_map (fun q => q * n + Z.of_nat k) (nth_error l i).
Proof.
  intro Hk. revert i. induction l as [|q r IH]; intro i.
  - cbn [flat_map]. destruct i; cbn [nth_error option_map]; destruct (_ + k)%nat; reflexivity.
  - cbn [flat_map]. destruct i as [|i].
    + cbn [Nat.mul Nat.add nth_error option_map]. rewrite nth_error_app1; [|rewrite block_length; exact Hk].
      apply block_nth. exact Hk.
    + rewrite nth_error_app2; [|rewrite block_length; lia]. rewrite block_length.
      replace (S i * Z.to_nat n + k - Z.to_nat n)%nat with (i * Z.to_nat n + k)%nat by lia.
      cbn [nth_error]. apply IH.
Qed.

(* the key arithmetic fact: look-back v*n+off into the physical record is offset `off` of the block that
   look-back v of the logical record refers to *)
Lemma rec_lookup_block n lrec v off : 0 <= off < n ->
  rec_lookup (flat_map (block n) lrec) (v * n + off) = option_map (fun q => q * n + off) (rec_lookup lrec v).
Proof.
  intro Hoff. unfold rec_lookup. rewrite flat_block_length.
  destruct (v <? 0) eqn:Ev.
  - apply Z.ltb_lt in Ev. assert (Hlt : v * n + off < 0) by nia. apply Z.ltb_lt in Hlt. rewrite Hlt.
    destruct (Z.of_nat (List.length lrec) + v <? 0) eqn:Ei.
    + apply Z.ltb_lt in Ei.
      assert (Hlt2 : Z.of_nat (List.length lrec * Z.to_nat n) + (v * n + off) < 0) by nia.
      apply Z.ltb_lt in Hlt2. rewrite Hlt2. reflexivity.
    + apply Z.ltb_ge in Ei.
      assert (Hge : ~ Z.of_nat (List.length lrec * Z.to_nat n) + (v * n + off) < 0) by nia.
      apply Z.ltb_nlt in Hge. rewrite Hge.
      replace (Z.to_nat (Z.of_nat (List.length lrec * Z.to_nat n) + (v * n + off)))
        with (Z.to_nat (Z.of_nat (List.length lrec) + v) * Z.to_nat n + Z.to_nat off)%nat by nia.
      rewrite flat_block_nth by lia. rewrite Z2Nat.id by lia. reflexivity.
  - apply Z.ltb_ge in Ev. assert (Hge : ~ v * n + off < 0) by nia. apply Z.ltb_nlt in Hge. rewrite Hge. reflexivity.
Qed.

Lemma mark_nil vs : mark vs [] = map OQ vs.
Proof. induction vs as [|v r IH]; [reflexivity|]. cbn [mark map]. rewrite IH. reflexivity. Qed.
Lemma oq_values_mark vs fs : oq_values (mark vs fs) = vs.
Proof.
  revert fs. induction vs as [|v r IH]; intro fs; [reflexivity|].
  destruct fs as [|b fs]; cbn [mark]; [|destruct (b && bt_keeps_inversion)]; unfold oq_values in *; cbn [flat_map app]; rewrite IH; reflexivity.
Qed.

(* ---- presolve over instruction blocks *)
Lemma presolve_skip rc ops rest :
  (forall o, In o ops -> is_meas (oname o) = false /\ is_annot (oname o) = false) ->
  presolve rc (ops ++ rest) = presolve rc rest.
Proof.
  induction ops as [|o r IH]; intro H; [reflexivity|].
  cbn [app presolve]. destruct (H o (or_introl eq_refl)) as [H1 H2]. rewrite H1, H2.
  apply IH. intros o' Ho'. apply H. right. exact Ho'.
Qed.
Lemma presolve_annots rc nm meta (F : list Z -> list otarget) sups rest :
  is_meas nm = false -> is_annot nm = true ->
  presolve rc (map (fun sup => mkO nm meta (F sup)) sups ++ rest)
  = map (fun sup => (nm, meta, map (otarget_lookup rc) (F sup))) sups ++ presolve rc rest.
Proof.
  intros H1 H2. induction sups as [|s r IH]; [reflexivity|].
  cbn [map app presolve oname ometa otargets]. rewrite H1, H2. rewrite IH. reflexivity.
Qed.

Lemma annot_targets_lookup e (idx : Z -> Z -> Z -> Z) groups sup lrec :
  (forall t off, idx t (e_n e) off = t * e_n e + off) ->
  0 < e_n e -> (forall off, In off sup -> 0 <= off < e_n e) ->
  map (otarget_lookup (flat_map (block (e_n e)) lrec)) (annot_targets idx groups (e_n e) sup)
  = flat_map (block_of (e_n e) sup) (map (rec_lookup lrec) (List.concat groups)).
Proof.
  intros Hidx Hn Hsup. unfold annot_targets.
  induction groups as [|g r IH]; [reflexivity|].
  cbn [flat_map List.concat]. rewrite map_app, map_app, flat_map_app. rewrite IH. f_equal.
  clear IH. induction g as [|t g IH]; [reflexivity|].
  cbn [flat_map map]. rewrite map_app. rewrite IH. f_equal.
  unfold block_of. rewrite map_map. apply map_ext_in. intros off Hin. cbn [otarget_lookup].
  rewrite Hidx. apply rec_lookup_block. apply Hsup. exact Hin.
Qed.

Lemma lookup_safe exps nm l : exps_safe exps = true -> lookup nm exps = Some l ->
  forall g, In g l -> is_meas g = false /\ is_annot g = false.
Proof.
  induction exps as [|[k v] r IH]; intros Hs Hl; [discriminate|].
  cbn [exps_safe forallb fst snd] in Hs. apply andb_true_iff in Hs. destruct Hs as [Hkv Hr].
  cbn [lookup] in Hl. destruct (String.eqb nm k).
  - injection Hl as <-. apply andb_true_iff in Hkv. destruct Hkv as [_ Hv]. rewrite forallb_forall in Hv.
    intros g Hg. specialize (Hv g Hg). apply andb_true_iff in Hv. destruct Hv as [A B].
    apply negb_true_iff in A. apply negb_true_iff in B. split; assumption.
  - apply IH; assumption.
Qed.
Lemma lookup_meas_none exps nm : exps_safe exps = true -> is_meas nm = true -> lookup nm exps = None.
Proof.
  induction exps as [|[k v] r IH]; intros Hs Hm; [reflexivity|].
  cbn [exps_safe forallb fst snd] in Hs. apply andb_true_iff in Hs. destruct Hs as [Hkv Hr].
  cbn [lookup]. destruct (String.eqb nm k) eqn:E.
  - apply String.eqb_eq in E. subst k. apply andb_true_iff in Hkv. destruct Hkv as [Hk _].
    apply andb_true_iff in Hk. destruct Hk as [Hk _]. rewrite Hm in Hk. discriminate.
  - apply IH; assumption.
Qed.

Lemma sups_ok_facts e : sups_ok e = true ->
  0 < e_n e /\ nonempty (e_stabs e) = true /\ nonempty (e_obs e) = true /\
  (forall sup, In sup (e_stabs e ++ e_obs e) -> forall off, In off sup -> 0 <= off < e_n e).
Proof.
  unfold sups_ok. intro H. repeat (apply andb_true_iff in H; let H' := fresh "H" in destruct H as [H H']).
  split; [apply Z.ltb_lt; exact H0|]. split; [exact H2|]. split; [exact H1|].
  intros sup Hs off Ho. rewrite forallb_forall in H. specialize (H sup Hs). rewrite forallb_forall in H.
  specialize (H off Ho). apply andb_true_iff in H. destruct H as [A B]. apply Z.leb_le in A. apply Z.ltb_lt in B. lia.
Qed.

(* THE index theorem: for every logical program (any number of logical qubits, any interleaving of gates,
   measurements and annotations), the annotations of the encoded program add up exactly the physical
   measurements at the listed supports inside the blocks of the logical measurements the original annotation
   refers to; the physical record is the logical record, block after block. *)
Theorem index_annotations e : sups_ok e = true -> exps_safe (e_exps e) = true ->
  forall prog lrec, forallb wf_instr prog = true ->
  presolve (flat_map (block (e_n e)) lrec) (transversal e prog) = flat_map (expand_annot e) (lresolve lrec prog).
Proof.
  intros Hs Hx. destruct (sups_ok_facts e Hs) as [Hn [Hst [Hob Hsup]]].
  induction prog as [|i r IH]; intros lrec Hwf; [reflexivity|].
  cbn [forallb] in Hwf. apply andb_true_iff in Hwf. destruct Hwf as [Hwi Hwr].
  unfold transversal in *. cbn [transform flat_map]. fold (transform (trans_stride (e_n e) (e_encq e)) (trans_offsets e) (e_exps e) (e_stabs e) (e_obs e) r).
  unfold transform_instr. cbn [lresolve]. unfold wf_instr in Hwi.
  destruct (ihas i) eqn:Ehas; cbn [negb].
  - (* instruction with targets *)
    destruct (is_meas (iname i)) eqn:Em.
    + (* measurement *)
      assert (En : iname i = "M"%string) by (apply String.eqb_eq; exact Em).
      rewrite En. cbn [String.eqb Ascii.eqb Bool.eqb andb].
      unfold gate_seq. rewrite (lookup_meas_none _ "M"%string Hx eq_refl).
      cbn [map app presolve oname otargets]. change (is_meas "M") with true. cbv iota.
      apply andb_true_iff in Hwi. destruct Hwi as [Hsing _].
      rewrite (singletons_concat _ Hsing) at 1.
      unfold trans_stride, trans_offsets, trans_offsets_hi. rewrite broadcast_1q.
      rewrite oq_values_mark.
      rewrite <- flat_map_app. apply IH. exact Hwr.
    + destruct (String.eqb (iname i) "DETECTOR") eqn:Ed.
      * (* DETECTOR *)
        rewrite Hst. cbn [andb].
        assert (Ea : is_annot (iname i) = true) by (unfold is_annot; rewrite Ed; reflexivity).
        rewrite Ea. rewrite (presolve_annots _ (iname i) (imeta i) (fun gen => annot_targets det_index (igroups i) (trans_stride (e_n e) (e_encq e)) gen) (e_stabs e) _ Em Ea).
        cbn [flat_map expand_annot negb]. rewrite Ed. f_equal; [|apply IH; exact Hwr].
        apply map_ext_in. intros gen Hg. f_equal. unfold trans_stride.
        apply annot_targets_lookup; [intros; reflexivity | exact Hn |].
        apply Hsup. apply in_or_app. left. exact Hg.
      * cbn [andb]. destruct (String.eqb (iname i) "OBSERVABLE_INCLUDE") eqn:Eo.
        -- (* OBSERVABLE_INCLUDE *)
           rewrite Hob. cbn [andb].
           assert (Ea : is_annot (iname i) = true) by (unfold is_annot; rewrite Eo; apply orb_true_r).
           rewrite Ea. rewrite (presolve_annots _ (iname i) (imeta i) (fun sup => annot_targets obs_index (igroups i) (trans_stride (e_n e) (e_encq e)) sup) (e_obs e) _ Em Ea).
           cbn [flat_map expand_annot negb]. rewrite Ed. f_equal; [|apply IH; exact Hwr].
           apply map_ext_in. intros sup Hg. f_equal. unfold trans_stride.
           apply annot_targets_lookup; [intros; reflexivity | exact Hn |].
           apply Hsup. apply in_or_app. right. exact Hg.
        -- (* any other instruction: a gate, noise, ... *)
           cbn [andb].
           assert (Ea : is_annot (iname i) = false) by (unfold is_annot; rewrite Ed, Eo; reflexivity).
           rewrite Ea. rewrite presolve_skip; [apply IH; exact Hwr|].
           intros o Ho. apply in_map_iff in Ho. destruct Ho as [g [<- Hg]]. cbn [oname].
           unfold gate_seq in Hg. destruct (lookup (iname i) (e_exps e)) as [l|] eqn:El.
           ++ exact (lookup_safe _ _ _ Hx El g Hg).
           ++ destruct Hg as [<-|[]]. split; assumption.
  - (* instruction without targets: copied *)
    cbn [app presolve oname ometa otargets].
    destruct (is_meas (iname i)) eqn:Em.
    + apply andb_true_iff in Hwi. destruct Hwi as [_ Hne]. cbn [orb] in Hne. apply negb_true_iff in Hne.
      destruct (igroups i) as [|g gs] eqn:Eg; [|discriminate]. cbn [oq_values flat_map List.concat]. rewrite !app_nil_r.
      apply IH. exact Hwr.
    + destruct (is_annot (iname i)) eqn:Ea.
      * cbn [flat_map expand_annot map negb app]. f_equal. apply IH. exact Hwr.
      * apply IH. exact Hwr.
Qed.

(* corollary in the form "the look-backs hit exactly the measurements of the block": after any logical record lrec,
   measuring logical qubits qs transversally and referring to look-back -j (1 <= j <= |qs|) with offset off reads
   the measurement of physical qubit q*n+off, q the j-th last measured logical qubit *)
Lemma lookback_hits_block n lrec qs j off : 0 < n -> 0 <= off < n -> (1 <= j <= List.length qs)%nat ->
  rec_lookup (flat_map (block n) (lrec ++ qs)) (- Z.of_nat j * n + off)
  = Some (nth (List.length qs - j) qs 0 * n + off).
Proof.
  intros Hn Hoff Hj. rewrite rec_lookup_block by exact Hoff. unfold rec_lookup.
  assert (Hneg : - Z.of_nat j <? 0 = true) by (apply Z.ltb_lt; lia). rewrite Hneg.
  rewrite app_length.
  assert (Hi : Z.of_nat (List.length lrec + List.length qs) + - Z.of_nat j <? 0 = false) by (apply Z.ltb_ge; lia).
  rewrite Hi.
  replace (Z.to_nat (Z.of_nat (List.length lrec + List.length qs) + - Z.of_nat j))
    with (List.length lrec + (List.length qs - j))%nat by lia.
  rewrite nth_error_app2 by lia.
  replace (List.length lrec + (List.length qs - j) - List.length lrec)%nat with (List.length qs - j)%nat by lia.
  rewrite (nth_error_nth' qs 0) by lia. reflexivity.
Qed.

(* placement of transversal gates *)
Lemma transversal_1q e g meta qs :
  String.eqb g "DETECTOR" = false -> String.eqb g "OBSERVABLE_INCLUDE" = false ->
  transversal e [mkI g meta true (map (fun q => [q]) qs) []]
  = map (fun nm => mkO nm meta (map OQ (flat_map (block (e_n e)) qs))) (gate_seq (e_exps e) g).
Proof.
  intros Hd Ho. unfold transversal, transform. cbn [flat_map]. rewrite app_nil_r.
  unfold transform_instr. cbn [ihas negb iname imeta igroups iinv]. rewrite Hd, Ho. cbn [andb].
  unfold trans_stride, trans_offsets, trans_offsets_hi. rewrite broadcast_1q. cbn [broadcast_flags flat_map]. rewrite mark_nil. reflexivity.
Qed.
Lemma transversal_2q e g meta pairs :
  String.eqb g "DETECTOR" = false -> String.eqb g "OBSERVABLE_INCLUDE" = false ->
  transversal e [mkI g meta true (map (fun ab => [fst ab; snd ab]) pairs) []]
  = map (fun nm => mkO nm meta (map OQ (pair_targets (e_n e) pairs))) (gate_seq (e_exps e) g).
Proof.
  intros Hd Ho. unfold transversal, transform. cbn [flat_map]. rewrite app_nil_r.
  unfold transform_instr. cbn [ihas negb iname imeta igroups iinv]. rewrite Hd, Ho. cbn [andb].
  unfold trans_stride, trans_offsets, trans_offsets_hi. rewrite broadcast_2q. cbn [broadcast_flags flat_map]. rewrite mark_nil. reflexivity.
Qed.
Lemma transversal_app e p1 p2 : transversal e (p1 ++ p2) = transversal e p1 ++ transversal e p2.
Proof. unfold transversal, transform. apply flat_map_app. Qed.

(* the encoding circuit of block j is the encoding circuit shifted by j*n: every qubit target t of the encoding
   program becomes t + n*j (for each block j of the list, in order, target group by target group) *)
Lemma encoding_broadcast e groups blocks :
  broadcast_targets groups (init_enc_stride (e_n e) (e_encq e)) (map (init_enc_offset (e_n e) (e_encq e)) blocks)
  = flat_map (fun g => flat_map (fun j => map (fun t => t + e_n e * j) g) blocks) groups.
Proof.
  unfold broadcast_targets. apply flat_map_ext. intro g. rewrite flat_map_concat_map, map_map, <- flat_map_concat_map.
  apply flat_map_ext. intro j. apply map_ext. intro t. unfold bt_index, init_enc_stride, init_enc_offset. ring.
Qed.
Lemma encoding_target_in_block n t j : 0 <= t < n -> j * n <= t + n * j < (j + 1) * n.
Proof. nia. Qed.
(* state preparation instructions of `initialize` act on the input qubit of each block *)
Lemma prep_broadcast e groups :
  broadcast_targets groups (init_prep_stride (e_n e) (e_encq e)) (init_prep_offsets (e_n e) (e_encq e))
  = map (fun t => t * e_n e + e_encq e) (List.concat groups).
Proof.
  induction groups as [|g r IH]; [reflexivity|].
  cbn [List.concat]. rewrite map_app, <- IH. unfold broadcast_targets, init_prep_stride, init_prep_offsets.
  cbn [flat_map]. rewrite app_nil_r. reflexivity.
Qed.

(* ================================================================== 4. programs (premise-carrying) *)
Section Program.
  Variable e : enc_table.
  Hypothesis Hsups : sups_ok e = true.
  Hypothesis Hexps : exps_safe (e_exps e) = true.
  Hypothesis Henc : EncodeCorrect e.
  Hypothesis Hg1 : forall g, In g logical_gates1 -> PreservesStab e (transversal1 e g) /\ Induces1 e (transversal1 e g) g.
  Hypothesis Hg2 : forall g, In g logical_gates2 -> PreservesStab2 e (transversal2 e g) /\ Induces2 e (transversal2 e g) g.

  (* abstract physics: see PhysicsPremises in Model/Encoder.v *)
  Variable implements : list oinstr -> list instr -> Prop.
  Variable prepares : Prop.
  Variable agree : list oinstr -> list (string * Z * list (option Z)) -> list instr
                   -> list (string * Z * bool * list (option Z)) -> Prop.
  Hypothesis Hphys : PhysicsPremises e implements prepares agree.

  Lemma gate_not_annot g : In g (logical_gates1 ++ logical_gates2) ->
    String.eqb g "DETECTOR" = false /\ String.eqb g "OBSERVABLE_INCLUDE" = false.
  Proof. cbn [logical_gates1 logical_gates2 app In]. intro H. repeat (destruct H as [<-|H]; [split; reflexivity|]). destruct H. Qed.

  Lemma gate_instr_implemented i : gate_instr i -> implements (transversal e [i]) [i].
  Proof.
    intro Hi. destruct Hi as [g meta qs Hg Hne Hnd | g meta pairs Hg Hne Hnd].
    - destruct (gate_not_annot g (in_or_app _ _ _ (or_introl Hg))) as [Hd Ho].
      rewrite (transversal_1q e g meta qs Hd Ho).
      destruct (Hg1 g Hg) as [HP HI]. unfold transversal1 in HP, HI.
      change [[0]] with (map (fun q : Z => [q]) [0]) in HP, HI.
      rewrite (transversal_1q e g 0 [0] Hd Ho) in HP, HI. cbn [flat_map] in HP, HI. rewrite app_nil_r in HP, HI.
      destruct Hphys as [_ [_ [std_lemma_1 _]]]. apply std_lemma_1; assumption.
    - destruct (gate_not_annot g (in_or_app _ _ _ (or_intror Hg))) as [Hd Ho].
      rewrite (transversal_2q e g meta pairs Hd Ho).
      destruct (Hg2 g Hg) as [HP HI]. unfold transversal2 in HP, HI.
      change [[0; 1]] with (map (fun ab : Z * Z => [fst ab; snd ab]) [(0, 1)]) in HP, HI.
      rewrite (transversal_2q e g 0 [(0, 1)] Hd Ho) in HP, HI.
      destruct Hphys as [_ [_ [_ [std_lemma_2 _]]]]. apply std_lemma_2; assumption.
  Qed.

  (* every program of listed logical gates, on any number of logical qubits: the encoded program implements it *)
  Theorem program_unitary : forall gates, Forall gate_instr gates -> implements (transversal e gates) gates.
  Proof.
    induction gates as [|i r IH]; intro H.
    - destruct Hphys as [impl_nil _]. exact impl_nil.
    - destruct Hphys as [_ [impl_app _]]. inversion H as [|i' r' Hi Hr]; subst. change (i :: r) with ([i] ++ r). rewrite transversal_app.
      apply impl_app; [apply gate_instr_implemented; exact Hi | apply IH; exact Hr].
  Qed.

  (* gates, then measurements and annotations (any number, any look-backs inside the record): detectors are 0 and
     the observables are distributed as the logical program's *)
  Theorem program_distribution : forall gates tail, prepares ->
    Forall gate_instr gates -> forallb wf_instr tail = true -> all_some (lresolve [] tail) ->
    agree (transversal e gates) (presolve [] (transversal e tail)) gates (lresolve [] tail).
  Proof.
    intros gates tail Hprep Hgates Hwf Hsome.
    change (@nil Z) with (flat_map (block (e_n e)) []) at 1.
    rewrite (index_annotations e Hsups Hexps tail [] Hwf).
    destruct Hphys as [_ [_ [_ [_ meas_lemma]]]].
    apply meas_lemma; [exact Henc | exact Hprep | apply program_unitary; exact Hgates | exact Hsome].
  Qed.
End Program.

Lemma sups_ok_steane : sups_ok steane = true. Proof. vm_compute. reflexivity. Qed.
Lemma sups_ok_color5 : sups_ok color5 = true. Proof. vm_compute. reflexivity. Qed.
Lemma exps_safe_steane : exps_safe (e_exps steane) = true. Proof. vm_compute. reflexivity. Qed.
Lemma exps_safe_color5 : exps_safe (e_exps color5) = true. Proof. vm_compute. reflexivity. Qed.

(* ================================================================== 5. non-vacuity witnesses *)
Ltac nodup_tac := repeat (constructor; [let HH := fresh "HH" in cbn [In]; intro HH; repeat (destruct HH as [HH|HH]; [discriminate HH|]); exact HH|]); constructor.
Lemma gate_prog_example :
  Forall gate_instr [mkI "H" 0 true (map (fun q => [q]) [0; 2]) []; mkI "S" 1 true (map (fun q => [q]) [1]) [];
                     mkI "CX" 2 true (map (fun ab => [fst ab; snd ab]) [(0, 1)]) []].
Proof.
  constructor; [|constructor; [|constructor; [|constructor]]].
  - apply gate_1q; [cbn; tauto | discriminate | nodup_tac].
  - apply gate_1q; [cbn; tauto | discriminate | nodup_tac].
  - apply gate_2q; [cbn; tauto | discriminate | cbn [flat_map fst snd app]; nodup_tac].
Qed.
Definition example_tail : list instr :=
  [mkI "M" 0 true [[0]; [1]; [2]] []; mkI "DETECTOR" 1 true [[-1]] []; mkI "DETECTOR" 2 true [[-3]; [-2]] [];
   mkI "OBSERVABLE_INCLUDE" 3 true [[-2]] []]%string.
Lemma tail_example :
  forallb wf_instr example_tail = true /\ all_some (lresolve [] example_tail) /\
  presolve [] (transversal steane example_tail) =
    [("DETECTOR"%string, 1, map Some [14; 15; 16; 17]); ("DETECTOR"%string, 1, map Some [15; 16; 18; 19]);
     ("DETECTOR"%string, 1, map Some [16; 17; 18; 20]);
     ("DETECTOR"%string, 2, map Some [0; 1; 2; 3; 7; 8; 9; 10]); ("DETECTOR"%string, 2, map Some [1; 2; 4; 5; 8; 9; 11; 12]);
     ("DETECTOR"%string, 2, map Some [2; 3; 4; 6; 9; 10; 11; 13]);
     ("OBSERVABLE_INCLUDE"%string, 3, map Some [7; 8; 12])].
Proof.
  split; [vm_compute; reflexivity|]. split; [|vm_compute; reflexivity].
  intros a Ha o Ho. vm_compute in Ha.
  repeat (destruct Ha as [Ha|Ha]; [subst a; cbn [snd In] in Ho; repeat (destruct Ho as [Ho|Ho]; [subst o; discriminate|]); destruct Ho|]).
  destruct Ha.
Qed.
Lemma premises_consistent : forall e, PhysicsPremises e (fun _ _ => True) True (fun _ _ _ _ => True).
Proof. intro e. unfold PhysicsPremises. repeat split. Qed.

(* ================================================================== 6. every entry of the expansion table is a correct logical gate
   (whatever gates the table lists, also beyond the gate set of the property; unknown names fail closed) *)
Definition entry_ok_b (e : enc_table) (g : string) : bool :=
  match img1 g with
  | Some _ => preserves_stab_b e (transversal1 e g) && induces1_b e (transversal1 e g) g
  | None => preserves_stab2_b e (transversal2 e g) && induces2_b e (transversal2 e g) g
  end.
Definition EntryOk (e : enc_table) (g : string) : Prop :=
  (PreservesStab e (transversal1 e g) /\ Induces1 e (transversal1 e g) g) \/
  (PreservesStab2 e (transversal2 e g) /\ Induces2 e (transversal2 e g) g).
Lemma entries_sound e : forallb (fun kv => entry_ok_b e (fst kv)) (e_exps e) = true ->
  forall g, In g (map fst (e_exps e)) -> EntryOk e g.
Proof.
  intros H g Hg. apply in_map_iff in Hg. destruct Hg as [kv [<- Hin]]. rewrite forallb_forall in H. specialize (H kv Hin).
  unfold entry_ok_b in H. unfold EntryOk. destruct (img1 (fst kv)).
  - left. apply andb_true_iff in H. destruct H as [A B]. split; [apply preserves_stab_sound | apply induces1_sound]; assumption.
  - right. apply andb_true_iff in H. destruct H as [A B]. split; [apply preserves_stab2_sound | apply induces2_sound]; assumption.
Qed.
Lemma entries_steane : forall g, In g (map fst (e_exps steane)) -> EntryOk steane g.
Proof. apply entries_sound. vm_compute. reflexivity. Qed.
Lemma entries_color5 : forall g, In g (map fst (e_exps color5)) -> EntryOk color5 g.
Proof. apply entries_sound. vm_compute. reflexivity. Qed.
