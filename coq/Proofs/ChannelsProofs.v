(* Proofs for C07: every pass of the channel simplification pipeline (Model/Channels.v) preserves the exact
   distribution fdist (Base/Dist.v), for all channel lists and signature matrices. *)
From Coq Require Import List NArith QArith Bool Arith Lia Permutation Setoid Morphisms.
Import ListNotations.
Require Import TV.Base.Dist TV.Model.Channels.
Set Default Timeout 60.
Open Scope Q_scope.

(* ================================================================================================ *)
(* A. equality of distributions of channel lists                                                     *)
(* ================================================================================================ *)

Definition deq (sigs : list N) (l l' : list channel) : Prop := forall v, fdist l sigs v == fdist l' sigs v.
(* two channels with the same pushforward, in test-function form *)
Definition heq (sigs : list N) (ch ch' : channel) : Prop := forall G : N -> Q, hsum sigs ch G == hsum sigs ch' G.

Lemma deq_refl sigs l : deq sigs l l.
Proof. intros v. reflexivity. Qed.
Lemma deq_sym sigs l l' : deq sigs l l' -> deq sigs l' l.
Proof. intros H v. symmetry. apply H. Qed.
Lemma deq_trans sigs l l' l'' : deq sigs l l' -> deq sigs l' l'' -> deq sigs l l''.
Proof. intros H1 H2 v. rewrite (H1 v). apply H2. Qed.

Lemma hsum_ext sigs ch G G' : (forall w, G w == G' w) -> hsum sigs ch G == hsum sigs ch G'.
Proof.
  intros H. unfold hsum. apply qsum_map_ext. intros idx _. rewrite (H _). reflexivity.
Qed.

Lemma deq_cons sigs ch l l' : deq sigs l l' -> deq sigs (ch :: l) (ch :: l').
Proof.
  intros H v. rewrite !fdist_cons. apply hsum_ext. intros w. apply H.
Qed.

Lemma deq_head sigs ch ch' l : heq sigs ch ch' -> deq sigs (ch :: l) (ch' :: l).
Proof. intros H v. rewrite !fdist_cons. apply H. Qed.

Lemma lxor_swap3 (v x y : N) : N.lxor (N.lxor v x) y = N.lxor (N.lxor v y) x.
Proof. rewrite !N.lxor_assoc, (N.lxor_comm x y). reflexivity. Qed.

Lemma deq_swap sigs a b l : deq sigs (a :: b :: l) (b :: a :: l).
Proof.
  intros v. rewrite (fdist_cons a), (fdist_cons b).
  rewrite (hsum_ext sigs a _ (fun w => hsum sigs b (fun w' => fdist l sigs (N.lxor (N.lxor v w) w'))))
    by (intros w; apply fdist_cons).
  rewrite (hsum_ext sigs b _ (fun w => hsum sigs a (fun w' => fdist l sigs (N.lxor (N.lxor v w) w'))))
    by (intros w; apply fdist_cons).
  unfold hsum.
  rewrite (qsum_map_ext _ (fun i => qsum (map (fun j =>
             nth i (ch_probs a) 0 * (nth j (ch_probs b) 0 *
               fdist l sigs (N.lxor (N.lxor v (sig_of sigs (ch_cols a) i)) (sig_of sigs (ch_cols b) j))))
             (seq 0 (length (ch_probs b)))))).
  2:{ intros i _. rewrite qsum_map_scale. reflexivity. }
  rewrite qsum_swap. apply qsum_map_ext. intros j _.
  rewrite <- qsum_map_scale. apply qsum_map_ext. intros i _.
  rewrite (lxor_swap3 v (sig_of sigs (ch_cols a) i)). ring.
Qed.

Lemma deq_perm sigs l l' : Permutation l l' -> deq sigs l l'.
Proof.
  induction 1 as [|x l l' _ IH|x y l|l l' l'' _ IH1 _ IH2].
  - apply deq_refl.
  - apply deq_cons. exact IH.
  - apply deq_swap.
  - eapply deq_trans; eassumption.
Qed.

Lemma deq_app_l sigs l1 l2 l2' : deq sigs l2 l2' -> deq sigs (l1 ++ l2) (l1 ++ l2').
Proof. intros H. induction l1 as [|x l1 IH]; [exact H|]. cbn [app]. apply deq_cons. exact IH. Qed.

Lemma deq_app_r sigs l1 l1' l2 : deq sigs l1 l1' -> deq sigs (l1 ++ l2) (l1' ++ l2).
Proof.
  intros H.
  eapply deq_trans; [apply deq_perm, Permutation_app_comm|].
  eapply deq_trans; [apply deq_app_l, H|].
  apply deq_perm, Permutation_app_comm.
Qed.

Lemma deq_app sigs l1 l1' l2 l2' : deq sigs l1 l1' -> deq sigs l2 l2' -> deq sigs (l1 ++ l2) (l1' ++ l2').
Proof.
  intros H1 H2. eapply deq_trans; [apply deq_app_r, H1|]. apply deq_app_l, H2.
Qed.

(* ================================================================================================ *)
(* B. the scatter (index remapping) lemma                                                            *)
(* ================================================================================================ *)

Lemma nth_map_seq {A} (f : nat -> A) m j d : (j < m)%nat -> nth j (map f (seq 0 m)) d = f j.
Proof.
  intros H. rewrite (nth_indep _ d (f 0%nat)) by (rewrite map_length, seq_length; exact H).
  rewrite map_nth, seq_nth by exact H. reflexivity.
Qed.

Lemma scatter_length m items : length (scatter m items) = m.
Proof. unfold scatter. rewrite map_length, seq_length. reflexivity. Qed.

Lemma nth_scatter m items j :
  (j < m)%nat ->
  nth j (scatter m items) 0 == qsum (map (fun it => if Nat.eqb (fst it) j then snd it else 0) items).
Proof.
  intros H. unfold scatter. rewrite nth_map_seq by exact H.
  rewrite Qred_correct. apply (qsum_filter (fun it : nat * Q => Nat.eqb (fst it) j) snd).
Qed.

Lemma hsum_scatter sigs m items cols G :
  (forall it, In it items -> (fst it < m)%nat) ->
  hsum sigs (scatter m items, cols) G == qsum (map (fun it => snd it * G (sig_of sigs cols (fst it))) items).
Proof.
  intros Hb. unfold hsum. cbn [ch_probs ch_cols fst snd]. rewrite scatter_length.
  rewrite (qsum_map_ext _ (fun j => qsum (map (fun it : nat * Q =>
             if Nat.eqb (fst it) j then snd it * G (sig_of sigs cols j) else 0) items))).
  2:{ intros j Hj. apply in_seq in Hj. rewrite nth_scatter by lia.
      rewrite Qmult_comm, <- qsum_map_scale. apply qsum_map_ext. intros it _.
      destruct (Nat.eqb (fst it) j); ring. }
  rewrite qsum_swap. apply qsum_map_ext. intros it Hit.
  rewrite (qsum_delta_seq (fun j => snd it * G (sig_of sigs cols j)) (fst it) 0 m); [reflexivity|].
  specialize (Hb it Hit). lia.
Qed.

(* THE INDEX-REMAPPING LEMMA: pushing a table forward along g preserves the pushforward whenever the
   signature of the new index equals the signature of the old one *)
Lemma heq_remap sigs g m probs cols cols' :
  (forall idx, (idx < length probs)%nat ->
     (g idx < m)%nat /\ sig_of sigs cols' (g idx) = sig_of sigs cols idx) ->
  heq sigs (scatter m (remap_items g probs), cols') (probs, cols).
Proof.
  intros H G. rewrite hsum_scatter.
  - unfold remap_items, hsum. cbn [ch_probs ch_cols fst snd]. rewrite map_map. cbn [fst snd].
    apply qsum_map_ext. intros idx Hidx. apply in_seq in Hidx.
    destruct (H idx) as [_ ->]; [lia|reflexivity].
  - intros it Hit. unfold remap_items in Hit. apply in_map_iff in Hit. destruct Hit as (idx & <- & Hidx).
    apply in_seq in Hidx. cbn [fst]. apply H. lia.
Qed.

(* XOR convolution: the pushforward of the convolved table is the convolution of the pushforwards, from linearity of the
   signature in the index *)
Lemma hsum_xor_convolve sigs pa pb cols G :
  length pb = length pa ->
  (forall a b, (a < length pa)%nat -> (b < length pa)%nat ->
     (Nat.lxor a b < length pa)%nat /\
     sig_of sigs cols (Nat.lxor a b) = N.lxor (sig_of sigs cols a) (sig_of sigs cols b)) ->
  hsum sigs (xor_convolve pa pb, cols) G ==
  hsum sigs (pa, cols) (fun w => hsum sigs (pb, cols) (fun w' => G (N.lxor w w'))).
Proof.
  intros Hlen H. unfold xor_convolve. rewrite hsum_scatter.
  - rewrite qsum_flat_map. unfold hsum at 1. cbn [ch_probs ch_cols fst snd].
    apply qsum_map_ext. intros a Ha. apply in_seq in Ha.
    rewrite map_map. cbn [fst snd]. unfold hsum. cbn [ch_probs ch_cols fst snd].
    rewrite Hlen, <- qsum_map_scale. apply qsum_map_ext. intros b Hb. apply in_seq in Hb.
    destruct (H a b) as [_ ->]; [lia|lia|]. ring.
  - intros it Hit. apply in_flat_map in Hit. destruct Hit as (a & Ha & Hit).
    apply in_map_iff in Hit. destruct Hit as (b & <- & Hb).
    apply in_seq in Ha. apply in_seq in Hb. cbn [fst]. apply H; lia.
Qed.

Lemma deq_xor_convolve sigs pa pb cols l :
  length pb = length pa ->
  (forall a b, (a < length pa)%nat -> (b < length pa)%nat ->
     (Nat.lxor a b < length pa)%nat /\
     sig_of sigs cols (Nat.lxor a b) = N.lxor (sig_of sigs cols a) (sig_of sigs cols b)) ->
  deq sigs ((xor_convolve pa pb, cols) :: l) ((pa, cols) :: (pb, cols) :: l).
Proof.
  intros Hlen H v. rewrite (fdist_cons (xor_convolve pa pb, cols)), (fdist_cons (pa, cols)).
  rewrite hsum_xor_convolve by assumption.
  apply hsum_ext. intros w. rewrite fdist_cons. apply hsum_ext. intros w'.
  rewrite N.lxor_assoc. reflexivity.
Qed.

(* ================================================================================================ *)
(* C. bit-level facts about signatures                                                               *)
(* ================================================================================================ *)

Lemma odd_b2n_add b x : Nat.odd (Nat.b2n b + 2 * x) = b.
Proof. rewrite Nat.odd_add_mul_2. destruct b; reflexivity. Qed.

Lemma div2_b2n_add b x : Nat.div2 (Nat.b2n b + 2 * x) = x.
Proof.
  destruct b; cbn [Nat.b2n].
  - change (1 + 2 * x)%nat with (S (2 * x)). apply Nat.div2_succ_double.
  - rewrite Nat.add_0_l. apply Nat.div2_double.
Qed.

Lemma odd_lxor a b : Nat.odd (Nat.lxor a b) = xorb (Nat.odd a) (Nat.odd b).
Proof. rewrite <- !Nat.bit0_odd. apply Nat.lxor_spec. Qed.

Lemma div2_lxor a b : Nat.div2 (Nat.lxor a b) = Nat.lxor (Nat.div2 a) (Nat.div2 b).
Proof. rewrite !Nat.div2_spec. apply Nat.shiftr_lxor. Qed.

Lemma Nlxor4 (a b c d : N) : N.lxor (N.lxor a b) (N.lxor c d) = N.lxor (N.lxor a c) (N.lxor b d).
Proof.
  rewrite !N.lxor_assoc. f_equal. rewrite <- !N.lxor_assoc. f_equal. apply N.lxor_comm.
Qed.

Lemma sig_rows_0 rows : sig_rows rows 0 = 0%N.
Proof. induction rows as [|r rs IH]; [reflexivity|]. cbn [sig_rows Nat.odd Nat.div2]. rewrite IH. reflexivity. Qed.

(* linearity of the signature in the table index *)
Lemma sig_rows_lxor rows a b : sig_rows rows (Nat.lxor a b) = N.lxor (sig_rows rows a) (sig_rows rows b).
Proof.
  revert a b. induction rows as [|r rs IH]; intros a b; [reflexivity|].
  cbn [sig_rows]. rewrite odd_lxor, div2_lxor, IH, Nlxor4. f_equal.
  destruct (Nat.odd a), (Nat.odd b); cbn [xorb];
    rewrite ?N.lxor_nilpotent, ?N.lxor_0_r, ?N.lxor_0_l; reflexivity.
Qed.

Lemma sig_rows_pow2 rows k : (k < length rows)%nat -> sig_rows rows (2 ^ k) = nth k rows 0%N.
Proof.
  revert k. induction rows as [|r rs IH]; intros k Hk; cbn [length] in Hk; [lia|].
  destruct k as [|k].
  - cbn [Nat.pow sig_rows nth]. change (Nat.odd 1) with true. change (Nat.div2 1) with 0%nat.
    rewrite sig_rows_0. apply N.lxor_0_r.
  - rewrite Nat.pow_succ_r'. cbn [sig_rows nth].
    rewrite Nat.div2_double.
    replace (Nat.odd (2 * 2 ^ k)) with false.
    + rewrite N.lxor_0_l. apply IH. lia.
    + symmetry. rewrite <- Nat.negb_even, Nat.even_mul. reflexivity.
Qed.

Lemma lxor_lt_pow2 a b n : (a < 2 ^ n)%nat -> (b < 2 ^ n)%nat -> (Nat.lxor a b < 2 ^ n)%nat.
Proof.
  intros Ha Hb.
  destruct (Nat.eq_dec (Nat.lxor a b) 0) as [E|E]; [rewrite E; lia|].
  apply Nat.log2_lt_pow2; [lia|].
  eapply Nat.le_lt_trans; [apply Nat.log2_lxor|].
  destruct (Nat.eq_dec n 0) as [->|Hn].
  - cbn in Ha, Hb. assert (a = 0%nat) by lia. assert (b = 0%nat) by lia. subst. exfalso. apply E. reflexivity.
  - apply Nat.max_lub_lt.
    + destruct (Nat.eq_dec a 0) as [->|Ha0]; [cbn; lia|]. apply Nat.log2_lt_pow2; lia.
    + destruct (Nat.eq_dec b 0) as [->|Hb0]; [cbn; lia|]. apply Nat.log2_lt_pow2; lia.
Qed.

Lemma nth_map_row sigs cols k : (k < length cols)%nat -> nth k (map (row sigs) cols) 0%N = row sigs (nth k cols 0%nat).
Proof.
  intros H. rewrite (nth_indep _ 0%N (row sigs 0%nat)) by (rewrite map_length; exact H). apply map_nth.
Qed.

Lemma sig_of_lxor sigs cols a b :
  sig_of sigs cols (Nat.lxor a b) = N.lxor (sig_of sigs cols a) (sig_of sigs cols b).
Proof. apply sig_rows_lxor. Qed.

(* the signature read position by position: bit p of idx selects the row of cols[p] *)
Definition xorl (l : list N) : N := fold_right N.lxor 0%N l.

Lemma xorl_perm l l' : Permutation l l' -> xorl l = xorl l'.
Proof.
  induction 1 as [|x l l' _ IH|x y l|l l' l'' _ IH1 _ IH2]; cbn [xorl fold_right].
  - reflexivity.
  - fold (xorl l). fold (xorl l'). rewrite IH. reflexivity.
  - fold (xorl l). rewrite <- !N.lxor_assoc, (N.lxor_comm x y). reflexivity.
  - rewrite IH1. exact IH2.
Qed.

Definition sel (sigs : list N) (cols : list nat) (idx p : nat) : N :=
  if Nat.testbit idx p then row sigs (nth p cols 0%nat) else 0%N.

Lemma sig_of_positional sigs cols idx :
  sig_of sigs cols idx = xorl (map (sel sigs cols idx) (seq 0 (length cols))).
Proof.
  unfold sig_of. revert idx. induction cols as [|c cs IH]; intros idx; [reflexivity|].
  cbn [map sig_rows length seq xorl fold_right].
  rewrite IH. f_equal.
  rewrite <- seq_shift, map_map. reflexivity.
Qed.

(* ---- reduce_null_bits: compress ---------------------------------------------------------------------------- *)
Lemma sig_compress sigs null cols idx :
  row sigs null = 0%N ->
  sig_of sigs (filter (non_null null) cols) (compress (map (non_null null) cols) idx) = sig_of sigs cols idx.
Proof.
  intros Hnull. unfold sig_of. revert idx. induction cols as [|c cs IH]; intros idx; [reflexivity|].
  cbn [map filter compress]. destruct (non_null null c) eqn:E.
  - cbn [map sig_rows]. rewrite odd_b2n_add, div2_b2n_add, IH. reflexivity.
  - cbn [map sig_rows]. rewrite IH.
    unfold non_null in E. apply negb_false_iff, Nat.eqb_eq in E. subst c. rewrite Hnull.
    destruct (Nat.odd idx); rewrite N.lxor_0_l; reflexivity.
Qed.

Lemma compress_lt f (cols : list nat) idx : (compress (map f cols) idx < 2 ^ length (filter f cols))%nat.
Proof.
  revert idx. induction cols as [|c cs IH]; intros idx; [cbn; lia|].
  cbn [map filter compress]. destruct (f c).
  - cbn [length]. rewrite Nat.pow_succ_r'. specialize (IH (Nat.div2 idx)).
    destruct (Nat.odd idx); cbn [Nat.b2n]; lia.
  - apply IH.
Qed.

(* ---- normalize_channels: stable argsort and axis permutation ---------------------------------------------- *)
Lemma insert_stable_perm key p l : Permutation (insert_stable key p l) (p :: l).
Proof.
  induction l as [|q r IH]; cbn [insert_stable]; [apply Permutation_refl|].
  destruct (key p <? key q)%nat; [apply Permutation_refl|].
  eapply Permutation_trans; [apply perm_skip, IH|]. apply perm_swap.
Qed.

Lemma fold_insert_stable_perm key l acc :
  Permutation (fold_left (fun acc p => insert_stable key p acc) l acc) (acc ++ l).
Proof.
  revert acc. induction l as [|p l IH]; intros acc; cbn [fold_left].
  - rewrite app_nil_r. apply Permutation_refl.
  - eapply Permutation_trans; [apply IH|].
    eapply Permutation_trans; [apply Permutation_app_tail, insert_stable_perm|].
    cbn [app]. apply Permutation_middle.
Qed.

Lemma argsort_stable_perm cols : Permutation (argsort_stable cols) (seq 0 (length cols)).
Proof. unfold argsort_stable. apply (fold_insert_stable_perm _ _ []). Qed.

Lemma sig_gather sigs cols perm idx :
  sig_of sigs (map (fun p => nth p cols 0%nat) perm) (gather_bits perm idx) = xorl (map (sel sigs cols idx) perm).
Proof.
  unfold sig_of. induction perm as [|p ps IH]; [reflexivity|].
  cbn [map sig_rows gather_bits xorl fold_right]. rewrite odd_b2n_add, div2_b2n_add, IH. reflexivity.
Qed.

Lemma gather_bits_lt perm idx : (gather_bits perm idx < 2 ^ length perm)%nat.
Proof.
  induction perm as [|p ps IH]; [cbn; lia|].
  cbn [gather_bits length]. rewrite Nat.pow_succ_r'. destruct (Nat.testbit idx p); cbn [Nat.b2n]; lia.
Qed.

Lemma sig_normalize sigs cols idx :
  sig_of sigs (map (fun p => nth p cols 0%nat) (argsort_stable cols)) (gather_bits (argsort_stable cols) idx)
  = sig_of sigs cols idx.
Proof.
  rewrite sig_gather, sig_of_positional. apply xorl_perm, Permutation_map, argsort_stable_perm.
Qed.

(* ---- expand_channel (fixed: XOR) ---------------------------------------------------------------------------- *)
Lemma index_of_spec c t : In c t -> (index_of c t < length t)%nat /\ nth (index_of c t) t 0%nat = c.
Proof.
  induction t as [|y r IH]; intros H; [destruct H|].
  cbn [index_of]. destruct (Nat.eqb_spec c y) as [->|Hne].
  - cbn. split; [lia|reflexivity].
  - destruct H as [->|H]; [congruence|]. destruct (IH H) as [H1 H2]. cbn [length nth]. split; [lia|exact H2].
Qed.

Lemma sig_expand sigs target cols idx :
  incl cols target ->
  sig_of sigs target (expand_idx target cols idx) = sig_of sigs cols idx.
Proof.
  revert idx. induction cols as [|c cs IH]; intros idx Hincl.
  - cbn [expand_idx]. unfold sig_of. rewrite sig_rows_0. reflexivity.
  - cbn [expand_idx]. rewrite sig_of_lxor, IH by (intros x Hx; apply Hincl; right; exact Hx).
    change (sig_of sigs (c :: cs) idx)
      with (N.lxor (if Nat.odd idx then row sigs c else 0%N) (sig_of sigs cs (Nat.div2 idx))).
    f_equal. destruct (Nat.odd idx).
    + destruct (index_of_spec c target) as [H1 H2]; [apply Hincl; left; reflexivity|].
      unfold sig_of. rewrite sig_rows_pow2 by (rewrite map_length; exact H1).
      rewrite nth_map_row by exact H1. rewrite H2. reflexivity.
    + unfold sig_of. apply sig_rows_0.
Qed.

Lemma expand_idx_lt target cols idx : incl cols target -> (expand_idx target cols idx < 2 ^ length target)%nat.
Proof.
  revert idx. induction cols as [|c cs IH]; intros idx Hincl.
  - cbn [expand_idx]. pose proof (Nat.pow_nonzero 2 (length target)). lia.
  - cbn [expand_idx]. apply lxor_lt_pow2.
    + destruct (Nat.odd idx).
      * apply Nat.pow_lt_mono_r; [lia|]. apply index_of_spec. apply Hincl. left. reflexivity.
      * pose proof (Nat.pow_nonzero 2 (length target)). lia.
    + apply IH. intros x Hx. apply Hincl. right. exact Hx.
Qed.

(* ================================================================================================ *)
(* D. the passes                                                                                     *)
(* ================================================================================================ *)

Lemma map_nth_seq {A} (l : list A) d : map (fun i => nth i l d) (seq 0 (length l)) = l.
Proof.
  induction l as [|x l IH]; [reflexivity|].
  cbn [length seq map nth]. f_equal. rewrite <- seq_shift, map_map. exact IH.
Qed.

Lemma hsum_const sigs ch G c :
  (forall idx, sig_of sigs (ch_cols ch) idx = c) -> hsum sigs ch G == qsum (ch_probs ch) * G c.
Proof.
  intros H. unfold hsum.
  rewrite (qsum_map_ext _ (fun idx => G c * nth idx (ch_probs ch) 0)).
  2:{ intros idx _. rewrite H. ring. }
  rewrite qsum_map_scale. rewrite map_nth_seq. ring.
Qed.

(* ---- reduce_null_bits -------------------------------------------------------------------------------------- *)
Lemma reduce_null_channel_ok sigs null ch l :
  row sigs null = 0%N -> normalized ch ->
  deq sigs (reduce_null_channel null ch ++ l) (ch :: l).
Proof.
  intros Hnull Hnorm. unfold normalized in Hnorm. unfold reduce_null_channel. cbv zeta.
  destruct (filter (non_null null) (ch_cols ch)) as [|c0 cs0] eqn:E.
  - cbn [app]. intros v. rewrite fdist_cons.
    rewrite (hsum_const sigs ch _ 0%N).
    + rewrite Hnorm, N.lxor_0_r. ring.
    + intros idx. rewrite <- (sig_compress sigs null _ idx Hnull), E. reflexivity.
  - cbn [app]. rewrite <- E. destruct ch as [probs cols]. cbn [ch_probs ch_cols fst snd] in *.
    apply deq_head. apply heq_remap. intros idx _. split.
    + apply compress_lt.
    + apply sig_compress. exact Hnull.
Qed.

Theorem reduce_null_ok sigs null chs :
  (forall c, null = Some c -> row sigs c = 0%N) -> Forall normalized chs ->
  deq sigs (reduce_null_bits null chs) chs.
Proof.
  intros Hnull Hn. destruct null as [c|]; cbn [reduce_null_bits]; [|apply deq_refl].
  specialize (Hnull c eq_refl).
  induction Hn as [|ch r Hch _ IH]; cbn [flat_map]; [apply deq_refl|].
  eapply deq_trans; [apply deq_app_l, IH|]. apply reduce_null_channel_ok; assumption.
Qed.

Lemma reduce_null_wf null chs : Forall wf_channel chs -> Forall wf_channel (reduce_null_bits null chs).
Proof.
  intros H. destruct null as [c|]; cbn [reduce_null_bits]; [|exact H].
  induction H as [|ch r Hch _ IH]; cbn [flat_map]; [constructor|].
  apply Forall_app. split; [|exact IH].
  unfold reduce_null_channel. cbv zeta. destruct (filter (non_null c) (ch_cols ch)) as [|c0 cs0]; constructor; [|constructor].
  unfold wf_channel. cbn [ch_probs ch_cols fst snd]. apply scatter_length.
Qed.

(* ---- normalize_channels ------------------------------------------------------------------------------------ *)
Lemma normalize_channel_heq sigs ch : heq sigs (normalize_channel ch) ch.
Proof.
  destruct ch as [probs cols]. unfold normalize_channel. cbn [ch_probs ch_cols fst snd].
  apply heq_remap. intros idx _. split; [apply gather_bits_lt|apply sig_normalize].
Qed.

Theorem normalize_ok sigs chs : deq sigs (normalize_channels chs) chs.
Proof.
  induction chs as [|ch r IH]; cbn [normalize_channels map]; [apply deq_refl|].
  eapply deq_trans; [apply deq_cons, IH|]. apply deq_head, normalize_channel_heq.
Qed.

Lemma normalize_wf chs : Forall wf_channel (normalize_channels chs).
Proof.
  unfold normalize_channels. apply Forall_forall. intros ch' Hin. apply in_map_iff in Hin.
  destruct Hin as (ch & <- & _). unfold wf_channel, normalize_channel. cbn [ch_probs ch_cols fst snd].
  rewrite scatter_length, map_length. reflexivity.
Qed.

(* ---- expand_channel ---------------------------------------------------------------------------------------- *)
Theorem expand_ok sigs ch target : incl (ch_cols ch) target -> heq sigs (expand_channel ch target) ch.
Proof.
  intros Hincl. destruct ch as [probs cols]. unfold expand_channel, expand_channel_with. cbn [ch_probs ch_cols fst snd] in *.
  apply heq_remap. intros idx _. split; [apply expand_idx_lt|apply sig_expand]; exact Hincl.
Qed.

Lemma expand_wf ch target : wf_channel (expand_channel ch target).
Proof. unfold wf_channel, expand_channel, expand_channel_with. cbn [ch_probs ch_cols fst snd]. apply scatter_length. Qed.

(* ---- xor_convolve on well-formed tables ---------------------------------------------------------------------- *)
Lemma xor_convolve_length pa pb : length (xor_convolve pa pb) = length pa.
Proof. unfold xor_convolve. apply scatter_length. Qed.

Theorem xor_convolve_ok sigs pa pb cols l :
  length pa = (2 ^ length cols)%nat -> length pb = (2 ^ length cols)%nat ->
  deq sigs ((xor_convolve pa pb, cols) :: l) ((pa, cols) :: (pb, cols) :: l).
Proof.
  intros Ha Hb. apply deq_xor_convolve; [congruence|].
  intros a b Hla Hlb. split; [|apply sig_of_lxor].
  rewrite Ha in *. apply lxor_lt_pow2; assumption.
Qed.

(* ---- merge_identical_channels -------------------------------------------------------------------------------- *)
Lemma list_nat_eqb_eq a b : list_nat_eqb a b = true -> a = b.
Proof.
  revert b. induction a as [|x a IH]; intros [|y b] H; cbn [list_nat_eqb] in H; try discriminate; [reflexivity|].
  apply andb_true_iff in H. destruct H as [H1 H2]. apply Nat.eqb_eq in H1. f_equal; [exact H1|apply IH, H2].
Qed.

Lemma insert_group_ok sigs acc ch :
  Forall wf_channel acc -> wf_channel ch ->
  deq sigs (insert_group acc ch) (acc ++ [ch]) /\ Forall wf_channel (insert_group acc ch).
Proof.
  intros Hacc Hch. induction Hacc as [|g r Hg Hr IH]; cbn [insert_group app].
  - split; [apply deq_refl|constructor; [exact Hch|constructor]].
  - destruct (list_nat_eqb (ch_cols g) (ch_cols ch)) eqn:E.
    + apply list_nat_eqb_eq in E. destruct g as [pg cg], ch as [pc cc]. cbn [ch_probs ch_cols fst snd] in *. subst cc.
      unfold wf_channel in Hg, Hch. cbn [ch_probs ch_cols fst snd] in Hg, Hch. split.
      * eapply deq_trans; [apply xor_convolve_ok; assumption|].
        apply deq_cons. apply deq_perm. change ((pc, cg) :: r) with ([(pc, cg)] ++ r). apply Permutation_app_comm.
      * constructor; [|exact Hr]. unfold wf_channel. cbn [ch_probs ch_cols fst snd]. rewrite xor_convolve_length. exact Hg.
    + destruct IH as [IH1 IH2]. split; [apply deq_cons, IH1|constructor; assumption].
Qed.

Lemma fold_insert_group_ok sigs chs acc :
  Forall wf_channel acc -> Forall wf_channel chs ->
  deq sigs (fold_left insert_group chs acc) (acc ++ chs) /\ Forall wf_channel (fold_left insert_group chs acc).
Proof.
  intros Hacc Hchs. revert acc Hacc. induction Hchs as [|ch r Hch _ IH]; intros acc Hacc; cbn [fold_left].
  - rewrite app_nil_r. split; [apply deq_refl|exact Hacc].
  - destruct (insert_group_ok sigs acc ch Hacc Hch) as [H1 H2].
    destruct (IH _ H2) as [H3 H4]. split; [|exact H4].
    eapply deq_trans; [exact H3|].
    replace (acc ++ ch :: r) with ((acc ++ [ch]) ++ r) by (rewrite <- app_assoc; reflexivity).
    apply deq_app_r, H1.
Qed.

Theorem merge_ok sigs chs : Forall wf_channel chs -> deq sigs (merge_identical_channels chs) chs.
Proof. intros H. apply (fold_insert_group_ok sigs chs [] (Forall_nil _) H). Qed.

Lemma merge_wf chs : Forall wf_channel chs -> Forall wf_channel (merge_identical_channels chs).
Proof. intros H. apply (fold_insert_group_ok [] chs [] (Forall_nil _) H). Qed.

(* ================================================================================================ *)
(* E. absorb_subset_channels                                                                         *)
(* ================================================================================================ *)

Lemma mem_In x l : mem x l = true <-> In x l.
Proof.
  unfold mem. rewrite existsb_exists. split.
  - intros (y & Hy & E). apply Nat.eqb_eq in E. subst y. exact Hy.
  - intros H. exists x. split; [exact H|apply Nat.eqb_refl].
Qed.

Lemma mem_false x l : mem x l = false <-> ~ In x l.
Proof.
  split.
  - intros E H. apply mem_In in H. congruence.
  - intros H. destruct (mem x l) eqn:E; [|reflexivity]. exfalso. apply H, mem_In, E.
Qed.

Lemma subset_incl a b : subset a b = true -> incl a b.
Proof.
  unfold subset. rewrite forallb_forall. intros H x Hx. apply mem_In, H, Hx.
Qed.

Lemma insert_by_len_perm ch l : Permutation (insert_by_len ch l) (ch :: l).
Proof.
  induction l as [|x r IH]; cbn [insert_by_len]; [apply Permutation_refl|].
  destruct (length (ch_cols x) <? length (ch_cols ch))%nat; [apply Permutation_refl|].
  eapply Permutation_trans; [apply perm_skip, IH|]. apply perm_swap.
Qed.

Lemma fold_insert_by_len_perm l acc :
  Permutation (fold_left (fun acc ch => insert_by_len ch acc) l acc) (acc ++ l).
Proof.
  revert acc. induction l as [|p l IH]; intros acc; cbn [fold_left].
  - rewrite app_nil_r. apply Permutation_refl.
  - eapply Permutation_trans; [apply IH|].
    eapply Permutation_trans; [apply Permutation_app_tail, insert_by_len_perm|].
    cbn [app]. apply Permutation_middle.
Qed.

Lemma sort_by_len_perm chs : Permutation (sort_by_len chs) chs.
Proof. unfold sort_by_len. apply (fold_insert_by_len_perm chs []). Qed.

(* the channels of l whose position has not been absorbed *)
Definition live (l : list (nat * channel)) (absorbed : list nat) : list channel :=
  map snd (filter (fun jc => negb (mem (fst jc) absorbed)) l).

Lemma live_skip j cj r absorbed : mem j absorbed = true -> live ((j, cj) :: r) absorbed = live r absorbed.
Proof. intros E. unfold live. cbn [filter fst]. rewrite E. reflexivity. Qed.

Lemma live_keep j cj r absorbed : mem j absorbed = false -> live ((j, cj) :: r) absorbed = cj :: live r absorbed.
Proof. intros E. unfold live. cbn [filter fst]. rewrite E. reflexivity. Qed.

Lemma live_add j r absorbed : ~ In j (map fst r) -> live r (j :: absorbed) = live r absorbed.
Proof.
  intros H. unfold live. f_equal. apply filter_ext_in. intros [k ck] Hk. cbn [fst].
  unfold mem. cbn [existsb]. destruct (Nat.eqb_spec k j) as [->|Hne]; [|reflexivity].
  exfalso. apply H. apply in_map_iff. exists (j, ck). split; [reflexivity|exact Hk].
Qed.

Lemma live_nil l : live l [] = map snd l.
Proof.
  unfold live. f_equal. induction l as [|x l IH]; [reflexivity|]. cbn [filter mem existsb negb]. f_equal. exact IH.
Qed.

Lemma absorb_inner_ok sigs mb cols_i rest : forall cur absorbed,
  NoDup (map fst rest) -> Forall wf_channel (map snd rest) -> length cur = (2 ^ length cols_i)%nat ->
  let res := absorb_inner_with expand_channel mb cols_i cur rest absorbed in
  deq sigs ((fst res, cols_i) :: live rest (snd res)) ((cur, cols_i) :: live rest absorbed)
  /\ length (fst res) = (2 ^ length cols_i)%nat
  /\ (forall x, In x absorbed -> In x (snd res))
  /\ (forall x, In x (snd res) -> In x absorbed \/ In x (map fst rest)).
Proof.
  induction rest as [|[j cj] r IH]; intros cur absorbed Hnd Hwf Hlen; cbn zeta.
  - cbn [absorb_inner_with fst snd]. split; [apply deq_refl|split; [exact Hlen|split; tauto]].
  - cbn [map fst snd] in Hnd, Hwf. inversion Hnd as [|? ? Hj Hnd']; subst. inversion Hwf as [|? ? Hcj Hwf']; subst.
    cbn [absorb_inner_with].
    destruct (mem j absorbed) eqn:E1.
    + destruct (IH cur absorbed Hnd' Hwf' Hlen) as (D & L & M & S). cbn zeta in D, L, M, S.
      set (res := absorb_inner_with expand_channel mb cols_i cur r absorbed) in *.
      split; [|split; [|split]].
      * rewrite (live_skip j cj r (snd res)) by (apply mem_In, M, mem_In, E1).
        rewrite (live_skip j cj r absorbed) by exact E1. exact D.
      * exact L.
      * exact M.
      * intros x Hx. destruct (S x Hx) as [H|H]; [left; exact H|right; cbn [map fst]; right; exact H].
    + destruct (strict_subset (ch_cols cj) cols_i && (length (dedup cols_i) <=? mb)%nat) eqn:E2.
      * apply andb_true_iff in E2. destruct E2 as [E2 _].
        unfold strict_subset in E2. apply andb_true_iff in E2. destruct E2 as [E2 _]. apply subset_incl in E2.
        assert (Hlen' : length (xor_convolve cur (ch_probs (expand_channel cj cols_i))) = (2 ^ length cols_i)%nat)
          by (rewrite xor_convolve_length; exact Hlen).
        destruct (IH _ (j :: absorbed) Hnd' Hwf' Hlen') as (D & L & M & S). cbn zeta in D, L, M, S.
        set (res := absorb_inner_with expand_channel mb cols_i
                      (xor_convolve cur (ch_probs (expand_channel cj cols_i))) r (j :: absorbed)) in *.
        split; [|split; [|split]].
        -- rewrite (live_skip j cj r (snd res)) by (apply mem_In, M; left; reflexivity).
           rewrite (live_keep j cj r absorbed) by exact E1.
           rewrite (live_add j r absorbed Hj) in D.
           eapply deq_trans; [exact D|].
           eapply deq_trans.
           { apply xor_convolve_ok; [exact Hlen|]. apply (expand_wf cj cols_i). }
           apply deq_cons.
           change (ch_probs (expand_channel cj cols_i), cols_i) with (expand_channel cj cols_i).
           apply deq_head. apply expand_ok. exact E2.
        -- exact L.
        -- intros x Hx. apply M. right. exact Hx.
        -- intros x Hx. destruct (S x Hx) as [[H|H]|H].
           ++ right. cbn [map fst]. left. exact H.
           ++ left. exact H.
           ++ right. cbn [map fst]. right. exact H.
      * destruct (IH cur absorbed Hnd' Hwf' Hlen) as (D & L & M & S). cbn zeta in D, L, M, S.
        set (res := absorb_inner_with expand_channel mb cols_i cur r absorbed) in *.
        assert (E3 : mem j (snd res) = false).
        { apply mem_false. intros H. destruct (S j H) as [H'|H']; [|exact (Hj H')].
          apply mem_In in H'. congruence. }
        split; [|split; [|split]].
        -- rewrite (live_keep j cj r (snd res)) by exact E3.
           rewrite (live_keep j cj r absorbed) by exact E1.
           eapply deq_trans; [apply deq_swap|]. eapply deq_trans; [apply deq_cons, D|]. apply deq_swap.
        -- exact L.
        -- exact M.
        -- intros x Hx. destruct (S x Hx) as [H|H]; [left; exact H|right; cbn [map fst]; right; exact H].
Qed.

Lemma absorb_outer_ok sigs mb l : forall absorbed,
  NoDup (map fst l) -> Forall wf_channel (map snd l) ->
  deq sigs (absorb_outer_with expand_channel mb l absorbed) (live l absorbed)
  /\ Forall wf_channel (absorb_outer_with expand_channel mb l absorbed).
Proof.
  induction l as [|[i ci] r IH]; intros absorbed Hnd Hwf.
  - cbn [absorb_outer_with]. split; [apply deq_refl|constructor].
  - cbn [map fst snd] in Hnd, Hwf. inversion Hnd as [|? ? Hi Hnd']; subst. inversion Hwf as [|? ? Hci Hwf']; subst.
    cbn [absorb_outer_with]. destruct (mem i absorbed) eqn:E1.
    + rewrite (live_skip i ci r absorbed E1). apply IH; assumption.
    + cbv zeta. rewrite (live_keep i ci r absorbed E1).
      destruct (absorb_inner_ok sigs mb (ch_cols ci) r (ch_probs ci) absorbed Hnd' Hwf' Hci) as (D & L & _ & _).
      cbn zeta in D, L.
      set (res := absorb_inner_with expand_channel mb (ch_cols ci) (ch_probs ci) r absorbed) in *.
      destruct (IH (snd res) Hnd' Hwf') as [IH1 IH2]. split.
      * eapply deq_trans; [apply deq_cons, IH1|]. destruct ci as [pi ci']. exact D.
      * constructor; [exact L|exact IH2].
Qed.

Lemma map_fst_combine_seq {A} (s : list A) n : map fst (combine (seq n (length s)) s) = seq n (length s).
Proof. revert n. induction s as [|x s IH]; intros n; [reflexivity|]. cbn [length seq combine map fst]. f_equal. apply IH. Qed.
Lemma map_snd_combine_seq {A} (s : list A) n : map snd (combine (seq n (length s)) s) = s.
Proof. revert n. induction s as [|x s IH]; intros n; [reflexivity|]. cbn [length seq combine map snd]. f_equal. apply IH. Qed.

Lemma absorb_ok_wf sigs mb chs :
  Forall wf_channel chs ->
  deq sigs (absorb_subset_channels mb chs) chs /\ Forall wf_channel (absorb_subset_channels mb chs).
Proof.
  intros Hwf. unfold absorb_subset_channels, absorb_subset_channels_with. cbv zeta.
  assert (Hs : Forall wf_channel (sort_by_len chs)).
  { apply Forall_forall. intros x Hx. rewrite Forall_forall in Hwf. apply Hwf.
    eapply Permutation_in; [apply sort_by_len_perm|exact Hx]. }
  destruct (absorb_outer_ok sigs mb (combine (seq 0 (length (sort_by_len chs))) (sort_by_len chs)) []) as [H1 H2].
  - rewrite map_fst_combine_seq. apply seq_NoDup.
  - rewrite map_snd_combine_seq. exact Hs.
  - split; [|exact H2]. eapply deq_trans; [exact H1|].
    rewrite live_nil, map_snd_combine_seq. apply deq_perm, sort_by_len_perm.
Qed.

Theorem absorb_ok sigs mb chs : Forall wf_channel chs -> deq sigs (absorb_subset_channels mb chs) chs.
Proof. intros H. apply absorb_ok_wf, H. Qed.

(* ---- simplify_channels ------------------------------------------------------------------------------------- *)
Theorem simplify_ok sigs mb null chs :
  Forall wf_channel chs -> Forall normalized chs ->
  (forall c, null = Some c -> row sigs c = 0%N) ->
  deq sigs (simplify_channels mb null chs) chs.
Proof.
  intros Hwf Hn Hnull. unfold simplify_channels, simplify_channels_with.
  eapply deq_trans; [apply (absorb_ok sigs mb), merge_wf, normalize_wf|].
  eapply deq_trans; [apply merge_ok, normalize_wf|].
  eapply deq_trans; [apply normalize_ok|].
  apply reduce_null_ok; assumption.
Qed.

Lemma simplify_wf mb null chs : Forall wf_channel chs -> Forall wf_channel (simplify_channels mb null chs).
Proof.
  intros Hwf. unfold simplify_channels, simplify_channels_with.
  apply (absorb_ok_wf [] mb), merge_wf, normalize_wf.
Qed.

(* ================================================================================================ *)
(* F. ChannelSampler.__init__ (column dedup, null_col_id) and the bit extraction of _sample_channels  *)
(* ================================================================================================ *)

Lemma insert_uniq_In x l y : In y (insert_uniq x l) <-> y = x \/ In y l.
Proof.
  induction l as [|z r IH]; cbn [insert_uniq].
  - cbn. intuition.
  - destruct (N.ltb_spec x z) as [_|_].
    + cbn [In]. intuition.
    + destruct (N.eqb_spec x z) as [->|_].
      * cbn [In]. intuition.
      * cbn [In]. rewrite IH. intuition.
Qed.

Lemma fold_insert_uniq_In l acc y :
  In y (fold_left (fun acc c => insert_uniq c acc) l acc) <-> In y acc \/ In y l.
Proof.
  revert acc. induction l as [|c l IH]; intros acc; cbn [fold_left].
  - cbn. intuition.
  - rewrite IH, insert_uniq_In. cbn [In]. intuition.
Qed.

Lemma unique_cols_In cols c : In c cols -> In c (unique_cols cols).
Proof. intros H. unfold unique_cols. apply fold_insert_uniq_In. right. exact H. Qed.

Lemma index_ofN_spec c u : In c u -> (index_ofN c u < length u)%nat /\ nth (index_ofN c u) u 0%N = c.
Proof.
  induction u as [|y r IH]; intros H; [destruct H|].
  cbn [index_ofN]. destruct (N.eqb_spec c y) as [->|Hne].
  - cbn. split; [lia|reflexivity].
  - destruct H as [->|H]; [congruence|]. destruct (IH H) as [H1 H2]. cbn [length nth]. split; [lia|exact H2].
Qed.

Lemma find_zero_spec u : forall i z, find_zero u i = Some z -> (i <= z)%nat /\ nth (z - i) u 0%N = 0%N.
Proof.
  induction u as [|x r IH]; intros i z H; cbn [find_zero] in H; [discriminate|].
  destruct (N.eqb_spec x 0) as [->|Hne].
  - injection H as <-. rewrite Nat.sub_diag. split; [lia|reflexivity].
  - destruct (IH _ _ H) as [H1 H2]. split; [lia|].
    replace (z - i)%nat with (S (z - S i)) by lia. exact H2.
Qed.

(* fdist only looks at the tables and at the rows the column ids select *)
Lemma fdist_ext sigs sigs' l l' :
  Forall2 (fun ch ch' => ch_probs ch = ch_probs ch' /\
                         map (row sigs) (ch_cols ch) = map (row sigs') (ch_cols ch')) l l' ->
  forall v, fdist l sigs v = fdist l' sigs' v.
Proof.
  intros H.
  assert (K : outcomes l = outcomes l' /\
              forall o, osig sigs l o = osig sigs' l' o /\ oprob l o = oprob l' o).
  { induction H as [|ch ch' r r' [Hp Hc] _ [IH1 IH2]]; [split; [reflexivity|intros o; split; reflexivity]|].
    split.
    - cbn [outcomes]. rewrite Hp, IH1. reflexivity.
    - intros [|i o]; [split; reflexivity|]. cbn [osig oprob]. destruct (IH2 o) as [-> ->].
      unfold sig_of. rewrite Hp, Hc. split; reflexivity. }
  destruct K as [K1 K2]. intros v. unfold fdist. rewrite K1. f_equal. apply map_ext. intros o.
  destruct (K2 o) as [-> ->]. reflexivity.
Qed.

Lemma map_nth_seq_off {A} (d : A) : forall off l k,
  (off + k <= length l)%nat -> map (fun j => nth j l d) (seq off k) = firstn k (skipn off l).
Proof.
  induction off as [|off IH]; intros l k H.
  - cbn [skipn]. revert k H. induction l as [|x l IHl]; intros k H.
    + cbn [length] in H. assert (k = 0%nat) by lia. subst k. reflexivity.
    + destruct k as [|k]; [reflexivity|]. cbn [seq map nth firstn]. f_equal.
      rewrite <- seq_shift, map_map. cbn [nth]. apply IHl. cbn [length] in H. lia.
  - destruct l as [|x l].
    + cbn [length] in H. lia.
    + cbn [skipn]. rewrite <- seq_shift, map_map. cbn [nth]. apply IH. cbn [length] in H. lia.
Qed.

Lemma skipn_skipn' {A} k off (l : list A) : skipn k (skipn off l) = skipn (off + k) l.
Proof.
  revert l. induction off as [|off IH]; intros l; [reflexivity|].
  destruct l as [|x l]; [cbn; destruct k; reflexivity|]. cbn [skipn Nat.add]. apply IH.
Qed.

Definition pow2_table (t : list Q) : Prop := length t = (2 ^ Nat.log2 (length t))%nat.

Lemma make_channels_spec u cols :
  (forall c, In c cols -> In c u) ->
  forall tables off,
  Forall pow2_table tables ->
  (off + total_bits tables <= length cols)%nat ->
  let inverse := map (fun c => index_ofN c u) cols in
  Forall wf_channel (make_channels tables (skipn off inverse)) /\
  Forall2 (fun ch ch' => ch_probs ch = ch_probs ch' /\
                         map (row u) (ch_cols ch) = map (row cols) (ch_cols ch'))
          (make_channels tables (skipn off inverse)) (raw_channels tables off).
Proof.
  intros Hu tables off Hp. revert off. induction Hp as [|t r Ht _ IH]; intros off Hb; cbn zeta.
  - cbn [make_channels raw_channels]. split; constructor.
  - cbn [total_bits fold_right] in Hb. fold (total_bits r) in Hb.
    cbn [make_channels raw_channels]. cbv zeta.
    set (k := Nat.log2 (length t)) in *. set (inverse := map (fun c => index_ofN c u) cols).
    assert (Hinv : map (row u) inverse = cols).
    { unfold inverse. rewrite map_map. rewrite <- (map_id cols) at 2. apply map_ext_in.
      intros c Hc. unfold row. apply index_ofN_spec, Hu, Hc. }
    assert (Hlen : length inverse = length cols) by (unfold inverse; apply map_length).
    rewrite skipn_skipn'. destruct (IH (off + k)%nat) as [IH1 IH2]; [lia|]. cbn zeta in IH1, IH2. split.
    + constructor; [|exact IH1]. unfold wf_channel. cbn [ch_probs ch_cols fst snd].
      rewrite firstn_length_le; [exact Ht|]. rewrite skipn_length. lia.
    + constructor; [|exact IH2]. cbn [ch_probs ch_cols fst snd]. split; [reflexivity|].
      rewrite <- firstn_map, <- skipn_map, Hinv. symmetry.
      unfold row. apply map_nth_seq_off. lia.
Qed.

Theorem sampler_ok mb tables cols :
  Forall pow2_table tables -> Forall (fun t => qsum t == 1) tables ->
  (total_bits tables <= length cols)%nat ->
  forall v, fdist (fst (sampler_init mb tables cols)) (snd (sampler_init mb tables cols)) v
            == fdist (raw_channels tables 0) cols v.
Proof.
  intros Hp Hn Hb v. unfold sampler_init. cbv zeta. cbn [fst snd].
  destruct (make_channels_spec (unique_cols cols) cols (unique_cols_In cols) tables 0 Hp Hb) as [Hwf Hext].
  cbn zeta in Hwf, Hext. cbn [skipn] in Hwf, Hext.
  rewrite <- (fdist_ext _ _ _ _ Hext v).
  apply simplify_ok.
  - exact Hwf.
  - clear Hwf Hext Hb Hp. generalize (map (fun c => index_ofN c (unique_cols cols)) cols) as inv.
    induction Hn as [|t r Ht _ IH]; intros inv; cbn [make_channels]; constructor; [exact Ht|apply IH].
  - intros c Hc. apply find_zero_spec in Hc. destruct Hc as [_ Hc]. rewrite Nat.sub_0_r in Hc. exact Hc.
Qed.

(* ---- bit extraction of _sample_channels -------------------------------------------------------------------- *)
Lemma fold_left_ext_in {A B} (f g : A -> B -> A) l : forall a,
  (forall a x, In x l -> f a x = g a x) -> fold_left f l a = fold_left g l a.
Proof.
  induction l as [|x l IH]; intros a H; [reflexivity|]. cbn [fold_left].
  rewrite H by (left; reflexivity). apply IH. intros a' y Hy. apply H. right. exact Hy.
Qed.

Lemma fold_testbit_sig sigs idx cols : forall off res,
  fold_left (fun res ic => N.lxor res (if Nat.testbit idx (fst ic) then row sigs (snd ic) else 0%N))
            (combine (seq off (length cols)) cols) res
  = N.lxor res (sig_rows (map (row sigs) cols) (Nat.shiftr idx off)).
Proof.
  induction cols as [|c cs IH]; intros off res.
  - cbn. rewrite N.lxor_0_r. reflexivity.
  - cbn [length seq combine fold_left fst snd map sig_rows]. rewrite IH.
    rewrite Nat.testbit_odd, Nat.div2_spec, Nat.shiftr_shiftr, Nat.add_1_r, N.lxor_assoc. reflexivity.
Qed.

Lemma sample_contrib_ok sigs ch idx res :
  wf_channel ch -> sample_contrib sigs ch idx res = N.lxor res (sig_of sigs (ch_cols ch) idx).
Proof.
  intros Hwf. unfold sample_contrib. cbv zeta. unfold wf_channel in Hwf. rewrite Hwf, Nat.log2_pow2 by lia.
  rewrite (fold_left_ext_in _ (fun res ic => N.lxor res (if Nat.testbit idx (fst ic) then row sigs (snd ic) else 0%N))).
  - rewrite fold_testbit_sig. rewrite Nat.shiftr_0_r. reflexivity.
  - intros a [i c] Hin. apply in_combine_l in Hin. apply in_seq in Hin. cbn [fst snd].
    unfold extract_bits. rewrite nth_map_seq by lia. rewrite Nat.testbit_odd. reflexivity.
Qed.

Theorem sample_row_ok sigs chs : forall o,
  Forall wf_channel chs -> length o = length chs -> sample_row sigs chs o = osig sigs chs o.
Proof.
  unfold sample_row.
  assert (K : forall o res, Forall wf_channel chs -> length o = length chs ->
            fold_left (fun res ci => sample_contrib sigs (fst ci) (snd ci) res) (combine chs o) res
            = N.lxor res (osig sigs chs o)).
  { induction chs as [|ch r IH]; intros o res Hwf Hlen.
    - cbn. rewrite N.lxor_0_r. reflexivity.
    - destruct o as [|i o]; [discriminate|]. inversion Hwf as [|? ? Hch Hr]; subst.
      cbn [combine fold_left fst snd osig]. rewrite sample_contrib_ok by exact Hch.
      rewrite IH by (try assumption; cbn [length] in Hlen; lia). apply N.lxor_assoc. }
  intros o Hwf Hlen. rewrite K by assumption. apply N.lxor_0_l.
Qed.

(* ================================================================================================ *)
(* G. statements in pushforward form, and the refutation of the pre-fix OR expansion                 *)
(* ================================================================================================ *)

Lemma heq_push sigs ch ch' : heq sigs ch ch' -> forall v, push ch sigs v == push ch' sigs v.
Proof. intros H v. unfold push. apply (deq_head sigs ch ch' [] H). Qed.

Theorem remap_push sigs g m probs cols cols' :
  (forall idx, (idx < length probs)%nat ->
     (g idx < m)%nat /\ sig_of sigs cols' (g idx) = sig_of sigs cols idx) ->
  forall v, push (scatter m (remap_items g probs), cols') sigs v == push (probs, cols) sigs v.
Proof. intros H. apply heq_push, heq_remap, H. Qed.

Theorem expand_push sigs ch target :
  incl (ch_cols ch) target -> forall v, push (expand_channel ch target) sigs v == push ch sigs v.
Proof. intros H. apply heq_push, expand_ok, H. Qed.

Theorem xor_convolve_push sigs pa pb cols :
  length pa = (2 ^ length cols)%nat -> length pb = (2 ^ length cols)%nat ->
  forall v, push (xor_convolve pa pb, cols) sigs v == fdist [(pa, cols); (pb, cols)] sigs v.
Proof. intros Ha Hb. apply (xor_convolve_ok sigs pa pb cols [] Ha Hb). Qed.

(* a PAULI_CHANNEL_1 whose two bits share signature row 1, next to a 2-bit channel on rows 0 and 1 *)
Definition or_witness_chs : list channel :=
  [([1#2; 1#4; 1#8; 1#8], [0; 1]%nat); ([1#2; 1#8; 1#4; 1#8], [1; 1]%nat)].
Definition or_witness_sigs : list N := [1; 2]%N.

Theorem simplify_or_refuted :
  exists chs sigs v, Forall wf_channel chs /\ Forall normalized chs /\
    ~ fdist (simplify_channels_or 4 None chs) sigs v == fdist chs sigs v.
Proof.
  exists or_witness_chs, or_witness_sigs, 0%N. split; [|split].
  - repeat constructor.
  - repeat constructor.
  - intros H. vm_compute in H. discriminate H.
Qed.
