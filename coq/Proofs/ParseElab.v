(* From program text to the composition theorem.

   Model/Parse.v is the hand model of tsim/core/parse.py: a flattened Stim circuit (list of instructions with typed targets) ->
   the lane program the parser draws.  Its output distribution is compared with the implementation's on every run.
   Proofs/KrausCircuit.v proves, for circuits written in the small vocabulary `cinstr` (gate applications, measurements, resets,
   Pauli channels, record-controlled Paulis), that the lane program `ccircuit_ops` denotes the ordered product of the documented
   operators.  This file joins the two:

     * `elab_instr` / `elab_circuit` read a parsed instruction list as a `cinstr` circuit -- a few lines per instruction family,
       meant to be read as the statement of WHAT the text means (H 0 1 = H on 0, then H on 1; M(p) !3 = noisy inverted Z
       measurement of 3; CX rec[-1] 2 = X on 2 controlled by the record bit; MPP X0*Z1 = the controlled-Pauli circuit of C01_mpp);
     * `ops_sameb` decides that the lane program Parse.build produces IS the lane program of that circuit (up to the payload of
       channel-table entries and the value of positive measurement-flip probabilities, which the interpreter never reads);
     * `parse_kraus`: whenever that decidable check succeeds, the dense run of the parse model's program on |0...0>, for every
       assignment of record / silent / error bits, is the ordered product of the documented operators of the elaborated circuit
       (bit-independent power of sqrt 2, unit phase).

   The check is evaluated by the harness on every circuit of the model comparison (coverage is reported in the evidence), and
   `elab_example_ok` below shows a circuit with every instruction family inside it.  Every instruction the parse model reads is covered. *)
From Coq Require Import ZArith QArith Qcanon List Bool String Ring.
Import ListNotations.
Require Import TV.Base.EP TV.Base.Amp TV.Model.Lane TV.gen.Gen_instructions TV.Model.GateCheck TV.Model.InstrCheck TV.Model.Parse
  TV.Model.KrausCheck TV.Proofs.CircuitTheorem TV.Proofs.DenseBridge TV.Proofs.KrausSem TV.Proofs.KrausFeedback TV.Proofs.KrausGates
  TV.Proofs.KrausCircuit.
Local Open Scope bool_scope.

(* ---------------- deciding op_same ---------------- *)
Definition col_eqb (a b : colour) : bool := match a, b with CZc, CZc | CXc, CXc => true | _, _ => false end.
Definition expo_eqb (x y : expo) : bool := Z.eqb (c0 x) (c0 y) && Z.eqb (s1 x) (s1 y) && Z.eqb (s2 x) (s2 y) && Z.eqb (s3 x) (s3 y).
Definition q_eqb (x y : Q) : bool := Z.eqb (Qnum x) (Qnum y) && Pos.eqb (Qden x) (Qden y).
Definition cc_eqb (x y : option (bool * bool)) : bool :=
  match x, y with
  | None, None => true
  | Some (a, b), Some (a', b') => Bool.eqb a a' && Bool.eqb b b'
  | _, _ => false
  end.
Lemma col_eqb_eq a b : col_eqb a b = true -> a = b. Proof. destruct a, b; cbn; congruence. Qed.
Lemma expo_eqb_eq x y : expo_eqb x y = true -> x = y.
Proof.
  destruct x, y; unfold expo_eqb; cbn. intro H.
  apply andb_true_iff in H. destruct H as [H H4]. apply andb_true_iff in H. destruct H as [H H3]. apply andb_true_iff in H. destruct H as [H1 H2].
  apply Z.eqb_eq in H1, H2, H3, H4. subst. reflexivity.
Qed.
Lemma q_eqb_eq x y : q_eqb x y = true -> x = y.
Proof.
  destruct x, y; unfold q_eqb; cbn. intro H. apply andb_true_iff in H. destruct H as [H1 H2].
  apply Z.eqb_eq in H1. apply Pos.eqb_eq in H2. subst. reflexivity.
Qed.
Lemma cc_eqb_eq x y : cc_eqb x y = true -> x = y.
Proof.
  destruct x as [[a b]|], y as [[a' b']|]; cbn; try congruence. intro H. apply andb_true_iff in H. destruct H as [H1 H2].
  apply Bool.eqb_prop in H1, H2. subst. reflexivity.
Qed.
(* strict equality of the ops that occur inside `if lane exists:` bodies *)
Definition op_eqb0 (o o' : op nat) : bool :=
  match o, o' with
  | OH q, OH q' => Nat.eqb q q'
  | OI q, OI q' => Nat.eqb q q'
  | OSpider c q e, OSpider c' q' e' => col_eqb c c' && Nat.eqb q q' && expo_eqb e e'
  | OPhase e, OPhase e' => expo_eqb e e'
  | OPower k, OPower k' => Z.eqb k k'
  | _, _ => false
  end.
Lemma op_eqb0_eq o o' : op_eqb0 o o' = true -> o = o'.
Proof.
  destruct o, o'; cbn [op_eqb0]; try discriminate; intro H.
  - apply andb_true_iff in H. destruct H as [H H3]. apply andb_true_iff in H. destruct H as [H1 H2].
    apply col_eqb_eq in H1. apply Nat.eqb_eq in H2. apply expo_eqb_eq in H3. subst. reflexivity.
  - apply Nat.eqb_eq in H. subst. reflexivity.
  - apply Nat.eqb_eq in H. subst. reflexivity.
  - apply expo_eqb_eq in H. subst. reflexivity.
  - apply Z.eqb_eq in H. subst. reflexivity.
Qed.
Fixpoint list_eqb0 (l l' : list (op nat)) : bool :=
  match l, l' with
  | [], [] => true
  | x :: r, y :: r' => op_eqb0 x y && list_eqb0 r r'
  | _, _ => false
  end.
Lemma list_eqb0_eq l : forall l', list_eqb0 l l' = true -> l = l'.
Proof.
  induction l as [|x r IH]; intros [|y r']; cbn [list_eqb0]; try discriminate; [reflexivity|].
  intro H. apply andb_true_iff in H. destruct H as [H1 H2]. apply op_eqb0_eq in H1. apply IH in H2. subst. reflexivity.
Qed.
Definition op_sameb (o o' : op nat) : bool :=
  match o, o' with
  | OSpider c q e, OSpider c' q' e' => col_eqb c c' && Nat.eqb q q' && expo_eqb e e'
  | OErr c q r k, OErr c' q' r' k' => col_eqb c c' && Nat.eqb q q' && Z.eqb r r' && Bool.eqb k k'
  | OH q, OH q' => Nat.eqb q q'
  | OCxCz x a b cc, OCxCz x' a' b' cc' => Bool.eqb x x' && Nat.eqb a a' && Nat.eqb b b' && cc_eqb cc cc'
  | OSwap a b, OSwap a' b' => Nat.eqb a a' && Nat.eqb b b'
  | OI q, OI q' => Nat.eqb q q'
  | OMeas q p s r, OMeas q' p' s' r' => Nat.eqb q q' && Bool.eqb s s' && Bool.eqb r r' && Bool.eqb (noisy_p p) (noisy_p p')
  | OReset q t, OReset q' t' => Nat.eqb q q' && Bool.eqb t t'
  | OPhase e, OPhase e' => expo_eqb e e'
  | OPower k, OPower k' => Z.eqb k k'
  | OChan _, OChan _ => true
  | OBumpErr k, OBumpErr k' => Z.eqb k k'
  | OCorrProb p, OCorrProb p' => q_eqb p p'
  | OIfLane q body, OIfLane q' body' => Nat.eqb q q' && list_eqb0 body body'
  | OFinalize, OFinalize => true
  | _, _ => false
  end.
Ltac split_andb H :=
  repeat match type of H with
  | (_ && _) = true => let H1 := fresh "Hb" in let H2 := fresh "Hb" in apply andb_true_iff in H; destruct H as [H1 H2]; try split_andb H1
  end.
Lemma op_sameb_same o o' : op_sameb o o' = true -> op_same o o'.
Proof.
  destruct o, o'; cbn [op_sameb op_same]; try discriminate; intro H; try exact I.
  - apply andb_true_iff in H. destruct H as [H H3]. apply andb_true_iff in H. destruct H as [H1 H2].
    apply col_eqb_eq in H1. apply Nat.eqb_eq in H2. apply expo_eqb_eq in H3. subst. reflexivity.
  - apply andb_true_iff in H. destruct H as [H H4]. apply andb_true_iff in H. destruct H as [H H3]. apply andb_true_iff in H. destruct H as [H1 H2].
    apply col_eqb_eq in H1. apply Nat.eqb_eq in H2. apply Z.eqb_eq in H3. apply Bool.eqb_prop in H4. subst. reflexivity.
  - apply Nat.eqb_eq in H. subst. reflexivity.
  - apply andb_true_iff in H. destruct H as [H H4]. apply andb_true_iff in H. destruct H as [H H3]. apply andb_true_iff in H. destruct H as [H1 H2].
    apply Bool.eqb_prop in H1. apply Nat.eqb_eq in H2, H3. apply cc_eqb_eq in H4. subst. reflexivity.
  - apply andb_true_iff in H. destruct H as [H1 H2]. apply Nat.eqb_eq in H1, H2. subst. reflexivity.
  - apply Nat.eqb_eq in H. subst. reflexivity.
  - apply andb_true_iff in H. destruct H as [H H4]. apply andb_true_iff in H. destruct H as [H H3]. apply andb_true_iff in H. destruct H as [H1 H2].
    apply Nat.eqb_eq in H1. apply Bool.eqb_prop in H2, H3, H4. auto.
  - apply andb_true_iff in H. destruct H as [H1 H2]. apply Nat.eqb_eq in H1. apply Bool.eqb_prop in H2. subst. reflexivity.
  - apply expo_eqb_eq in H. subst. reflexivity.
  - apply Z.eqb_eq in H. subst. reflexivity.
  - apply Z.eqb_eq in H. subst. reflexivity.
  - apply q_eqb_eq in H. subst. reflexivity.
  - apply andb_true_iff in H. destruct H as [H1 H2]. apply Nat.eqb_eq in H1. apply list_eqb0_eq in H2. subst. reflexivity.
  - reflexivity.
Qed.
Fixpoint ops_sameb (l l' : list (op nat)) : bool :=
  match l, l' with
  | [], [] => true
  | x :: r, y :: r' => op_sameb x y && ops_sameb r r'
  | _, _ => false
  end.
Lemma ops_sameb_same l : forall l', ops_sameb l l' = true -> Forall2 op_same l l'.
Proof.
  induction l as [|x r IH]; intros [|y r']; cbn [ops_sameb]; try discriminate; [constructor|].
  intro H. apply andb_true_iff in H. destruct H as [H1 H2]. constructor; [apply op_sameb_same; exact H1 | apply IH; exact H2].
Qed.

(* ---------------- what the text means ---------------- *)
Definition fb_name (fn : string) (rec_first : bool) : option string :=
  if rec_first then
    (if String.eqb fn "cnot" then Some "CX rec q" else if String.eqb fn "cy" then Some "CY rec q" else if String.eqb fn "cz" then Some "CZ rec q" else None)%string
  else
    (if String.eqb fn "cz" then Some "CZ q rec" else if String.eqb fn "xcz" then Some "XCZ q rec" else if String.eqb fn "ycz" then Some "YCZ q rec" else None)%string.

(* one application of the instruction `name` (gate function `fn` of GATE_TABLE) to one group of targets *)
Definition elab_chunk (name fn : string) (args : list Q) (nmeas : nat) (chunk : list target) : option (list cinstr) :=
  match chunk with
  | [TQ q inv] =>
      match assoc fn meas_fns with
      | Some _ =>                                     (* M MX MY MR MRX MRY: `!q` inverts the reported bit; an argument is the flip probability *)
          match args with
          | [] => Some [CM fn inv q]
          | [p] => if noisy_p p then Some [CMp fn p inv q] else Some [CM fn inv q]      (* M(0) q: no flip *)
          | _ => None
          end
      | None =>
          if inv then None else
          match assoc fn reset_fns, args with
          | Some _, [] => Some [CR fn q]              (* R RX RY *)
          | Some _, _ => None
          | None, [] => if String.eqb name "T" || String.eqb name "T_DAG" then Some [CU name [] q]      (* S[T] / S_DAG[T] *)
                        else Some [CG (GA1 name q)]   (* a one-qubit gate of Stim's table *)
          | None, _ => Some [CN fn args q]            (* X_ERROR Y_ERROR Z_ERROR DEPOLARIZE1 PAULI_CHANNEL_1 *)
          end
      end
  | [TQ a false; TQ b false] =>
      match args with
      | [] => Some [CG (GA2 name a b)]                (* a two-qubit gate of Stim's table *)
      | _ => if String.eqb fn "depolarize2" || String.eqb fn "pauli_channel_2" then Some [CN2 args a b] else None
      end
  | [TRec k; TQ q false] =>                           (* CX / CY / CZ rec[-k] q *)
      match fb_name fn true, tvalue nmeas (TRec k), args with
      | Some nm, Some r, [] => Some [CF nm r q]
      | _, _, _ => None
      end
  | [TQ q false; TRec k] =>                           (* CZ / XCZ / YCZ q rec[-k] *)
      match fb_name fn false, tvalue nmeas (TRec k), args with
      | Some nm, Some r, [] => Some [CF nm r q]
      | _, _, _ => None
      end
  | _ => None
  end.
Fixpoint concat_opt {A} (l : list (option (list A))) : option (list A) :=
  match l with
  | [] => Some []
  | None :: _ => None
  | Some x :: r => match concat_opt r with Some y => Some (x ++ y) | None => None end
  end.
Definition elab_instr (aux nmeas : nat) (i : instr) : option (list cinstr) :=
  let name := iname i in
  if mem_str name skipped then Some [] else
  let name := match name, itag i with "S"%string, TagT => "T"%string | "S_DAG"%string, TagT => "T_DAG"%string | n, _ => n end in
  match name, itag i with
  | "I"%string, TagRot g angles =>                    (* I[R_Z(theta=..*pi)] etc.: one rotation per target *)
      concat_opt (map (fun t => match t with TQ q _ => Some [CU g angles q] | _ => None end) (itargets i))
  | _, _ =>
  if String.eqb name "TICK" then Some []
  else if String.eqb name "DETECTOR" || String.eqb name "OBSERVABLE_INCLUDE" then Some []     (* annotations draw nothing *)
  else if String.eqb name "MPP" then
    match iargs i, mpp_products_of (itargets i) [] false with
    | [], Some prods => Some (flat_map (fun pr => mpp_circuit aux (fst pr) (snd pr)) prods)
    | [p], Some prods =>                              (* MPP(p): the measurement of the auxiliary qubit is the noisy one *)
        Some (flat_map (fun pr => removelast (mpp_circuit aux (fst pr) (snd pr))
                                  ++ [if noisy_p p then CMp "m" p (snd pr) aux else CM "m" (snd pr) aux]) prods)
    | _, _ => None
    end
  else if String.eqb name "E" || String.eqb name "ELSE_CORRELATED_ERROR" then        (* one element of a correlated-error chain *)
    match all_some (map (fun t => match t with TPauli P q _ => Some (P, q) | _ => None end) (itargets i)), iargs i with
    | Some pq, p :: _ => Some [CE (String.eqb name "E") pq p 0]
    | _, _ => None
    end
  else
    match assoc name gate_table with
    | None => None
    | Some (fn, ar) =>
        match chunks_fuel (S (List.length (itargets i))) ar (itargets i) with
        | Some chs => concat_opt (map (elab_chunk name fn (iargs i) nmeas) chs)      (* broadcast: one application per group, in order *)
        | None => None
        end
    end
  end.
(* the record count that resolves rec[-k] is the parse model's own *)
Fixpoint elab_from (aux : nat) (s : pstate) (c : list instr) : option (list cinstr) :=
  match c with
  | [] => Some []
  | i :: r =>
      match elab_instr aux (pnmeas s) i, step_instr aux s i with
      | Some cs, Some s' => match elab_from aux s' r with Some cs' => Some (cs ++ cs') | None => None end
      | _, _ => None
      end
  end.
(* the chain bit of an element is numbered when the chain is closed (next E or end of the program): error bits that other
   channels take in between come first (Model/Parse.fix_corr does the same on the lane program) *)
Fixpoint fix_cs (cs : list cinstr) : list cinstr * Z :=
  match cs with
  | [] => ([], 0%Z)
  | i :: r =>
      let '(r', acc) := fix_cs r in
      match i with
      | CE first tg p rel => (CE first tg p (rel + acc)%Z :: r', if first then 0%Z else acc)
      | _ => (i :: r', match cinstr_ops i with Some o => (acc + snd (fix_corr o))%Z | None => acc end)
      end
  end.
Definition elab_circuit (aux : nat) (c : list instr) : option (list cinstr) :=
  match elab_from aux (mkPS [] 0 [] []) c with Some cs => Some (fst (fix_cs cs)) | None => None end.

(* the decidable tie: the parse model accepts the text and draws exactly the lane program of the elaborated circuit *)
Definition parse_is_circuit (aux : nat) (c : list instr) (cs : list cinstr) : bool :=
  match build aux c, ccircuit_ops cs with
  | Some ps, Some o => ops_sameb (pops ps) (o ++ [OFinalize])
  | _, _ => false
  end.

(* the bookkeeping hypothesis of the theorem (every record a feedback instruction refers to exists), evaluated in the one-element ring:
   it only looks at counters and lane flags, which never depend on amplitudes (KrausSem.skel_step).  Used by the harness to report how
   many circuits satisfy every hypothesis of parse_kraus. *)
Definition ccircuit_ok_unit (n : nat) (cs : list cinstr) : bool :=
  ccircuit_ok unit tt tt (fun _ _ => tt) (fun _ _ => tt) (fun _ => tt) (fun _ => tt) tt 0%Qc 0%Qc 0%Qc (kinit unit tt tt n) cs.

Section PK.
  Variable R : Type.
  Variables (rO rI : R) (radd rmul rsub : R -> R -> R) (ropp : R -> R).
  Variable Rth : ring_theory rO rI radd rmul rsub ropp eq.
  Add Ring RringPK : Rth.
  Variable E : Qc -> R.
  Hypothesis E_add : forall a b, E (a + b)%Qc = rmul (E a) (E b).
  Hypothesis E_0 : E 0%Qc = rI.
  Hypothesis E_1 : E 1%Qc = ropp rI.
  Variable half : R.
  Hypothesis half_2 : radd half half = rI.
  Variables ta tb tc : Qc.
  Notation st_of := (st_of R rO rI radd rmul ropp E half ta tb tc).
  Notation krun := (krun R rO rI radd rmul ropp E half ta tb tc).
  Notation kfinal := (kfinal R rmul).
  Notation cspec := (cspec R rO rI radd rmul ropp E half ta tb tc).
  Notation sq2 := (sq2 R rO rI radd rmul ropp E half ta tb tc).
  Notation ccircuit_ok := (ccircuit_ok R rO rI radd rmul ropp E half ta tb tc).
  Notation kinit := (kinit R rO rI).

  Lemma kfinal_finalize t : kfinal (kfinalize R t) = kfinal t.
  Proof. unfold kfinalize. destruct (kncorr R t); reflexivity. Qed.

  Lemma krun_snoc_finalize b o t : krun b (o ++ [OFinalize]) t = kfinalize R (krun b o t).
  Proof. unfold KrausSem.krun. rewrite fold_left_app. reflexivity. Qed.

  Theorem parse_kraus n aux c cs ps :
    build aux c = Some ps -> parse_is_circuit aux c cs = true ->
    forallb (cinstr_lanes_ok n) cs = true -> ccircuit_ok (kinit n) cs = true ->
    exists C, sq2 C /\ forall b, exists e : Qc,
      st_of n (final_vec (run n b (pops ps) (init_state n)))
      = Amp.scale R rmul (rmul (E e) C) (cspec b (kinit n) cs (kpsi R (kinit n))).
  Proof.
    intros Hb Hp Hl Hok. unfold parse_is_circuit in Hp. rewrite Hb in Hp.
    destruct (ccircuit_ops cs) as [o|] eqn:Ho; [|discriminate Hp].
    apply ops_sameb_same in Hp.
    destruct (circuit_kraus R rO rI radd rmul rsub ropp Rth E E_add E_0 E_1 half half_2 ta tb tc cs o Ho (kinit n)
                (kinv_init R rO rI n) Hok) as (C & HC & H).
    exists C. split; [exact HC|]. intro b.
    destruct (H b (kinit n) (skel_refl R (kinit n))) as (e & He). exists e.
    assert (Hwf : forallb (wf_op n) (pops ps) = true).
    { rewrite (wf_all_same n _ _ Hp), forallb_app, (ccircuit_wf n cs o Ho Hl). reflexivity. }
    rewrite (dense_is_kraus R rO rI radd rmul rsub ropp Rth E E_add E_0 E_1 half half_2 ta tb tc n b (pops ps) Hwf).
    rewrite (krun_same R rO rI radd rmul ropp E half ta tb tc b _ _ Hp).
    rewrite (krun_snoc_finalize b o (kinit n)).
    rewrite kfinal_finalize, He. f_equal. unfold KrausSem.kfinal. cbn [kk KrausCircuit.kinit].
    rewrite (scale_one R rO rI radd rmul rsub ropp Rth). reflexivity.
  Qed.
End PK.

(* ---------------- a circuit with every covered instruction family ---------------- *)
Definition elab_example : list instr :=
  [ mkI "H" [] TagNone [TQ 0 false; TQ 1 false];
    mkI "CX" [] TagNone [TQ 0 false; TQ 1 false; TQ 1 false; TQ 2 false];
    mkI "S" [] TagT [TQ 1 false];
    mkI "QUBIT_COORDS" [1 # 1; 2 # 1] TagNone [TQ 0 false];
    mkI "M" [] TagNone [TQ 0 false; TQ 1 true];
    mkI "CX" [] TagNone [TRec 1; TQ 2 false];
    mkI "CZ" [] TagNone [TQ 0 false; TRec 2];
    mkI "TICK" [] TagNone [];
    mkI "X_ERROR" [1 # 4] TagNone [TQ 1 false];
    mkI "PAULI_CHANNEL_1" [1 # 8; 1 # 16; 1 # 32] TagNone [TQ 2 false];
    mkI "DEPOLARIZE2" [1 # 8] TagNone [TQ 0 false; TQ 1 false];
    mkI "MPP" [] TagNone [TPauli PX 0 false; TComb; TPauli PZ 1 true; TPauli PY 2 false];
    mkI "MPP" [1 # 32] TagNone [TPauli PZ 0 true; TPauli PY 1 false; TComb; TPauli PY 2 false];
    mkI "MX" [0 # 1] TagNone [TQ 1 false];
    mkI "E" [1 # 4] TagNone [TPauli PX 0 false; TPauli PY 2 false];
    mkI "ELSE_CORRELATED_ERROR" [1 # 2] TagNone [TPauli PZ 1 false];
    mkI "Z_ERROR" [1 # 8] TagNone [TQ 0 false];
    mkI "ELSE_CORRELATED_ERROR" [1 # 8] TagNone [TPauli PY 1 false; TPauli PX 2 false];
    mkI "MRX" [1 # 16] TagNone [TQ 2 true];
    mkI "E" [1 # 16] TagNone [TPauli PZ 2 false];
    mkI "RY" [] TagNone [TQ 0 false];
    mkI "S_DAG" [] TagT [TQ 0 false];
    mkI "I" [] (TagRot "R_X" [mkE 1 2 0 0]) [TQ 0 false; TQ 1 false];
    mkI "I" [] (TagRot "U3" [mkE 0 0 2 0; mkE 2 0 0 0; mkE (-1) 0 0 2]) [TQ 2 false];
    mkI "I" [] (TagRot "R_Y" [mkE 0 0 (-2) 4]) [TQ 0 false];
    mkI "MY" [] TagNone [TQ 0 false];
    mkI "DETECTOR" [] TagNone [TRec 1; TRec 2];
    mkI "OBSERVABLE_INCLUDE" [0 # 1] TagNone [TRec 1] ]%string.
Lemma elab_example_ok :
  match elab_circuit 3 elab_example with
  | Some cs => parse_is_circuit 3 elab_example cs && forallb (cinstr_lanes_ok 4) cs && Nat.ltb 20 (List.length cs)
  | None => false
  end = true.
Proof. vm_compute. reflexivity. Qed.
