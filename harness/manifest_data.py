"""Per-property manifest text.  `python -m harness.mkmanifest` writes /verif/MANIFEST.json from this."""

PROPS = ["C%02d" % i for i in range(1, 21)]

# pid -> dict(text=..., note=..., technique=..., design_ref=...)
CLAIMED: dict[str, dict] = {
    "C09": dict(
        text=("Machine-checked proof (Coq 8.16.1) over a model of ExactScalarArray: the bilinear form _scalar_mul and the "
              "phase tables are REGENERATED from /repo/src by a fail-closed Python-ast translator on every run and proved to be "
              "the product of Z[w]/(w^4+1) in every commutative ring with w^4=-1 (symbolic, all inputs), associative/commutative/"
              "unital, tables = w^k and 1+w^k; the hand model of reduce/sum/prod with explicit int32 wrap is proved value-"
              "preserving, terminating, bracketing-independent, and exact under a 1-norm no-wrap guard (any length); stabilizer-"
              "type factor lists of ANY length never wrap. The hand model is tied to the running JAX code by a bit-exact "
              "correspondence (vm_compute vs implementation) on generated int32 inputs; implementation results are also compared "
              "with exact python-int arithmetic to turn a broken tie into a replayable input."),
        note=("Trusted: Coq kernel + vm_compute; translator translate/exact_scalar.py; hand model Model/ExactScalar.v (tied by "
              "correspondence only); JAX int32 wrap semantics as modelled; to_complex rounding only by tolerance comparison. "
              "Print Assumptions of every C09_* theorem: closed under the global context."),
        technique="Coq proof (ring identity by cofactor, induction over factor lists, finite closure by vm_compute) + ast translator + vm_compute correspondence",
        design_ref="DESIGN.md 4.C09",
    ),
}

NOT_YET = "check not built yet in this session (work in progress; see DESIGN.md section 9 build order)"

# properties whose check has been integrated, run on the unchanged tree and reviewed by the lead
READY = ["C01", "C02", "C03", "C04", "C05", "C06", "C07", "C08", "C09", "C10", "C11", "C12", "C13", "C14", "C15", "C16", "C17", "C18", "C19", "C20"]
