"""Run the executable Coq model on generated cases (`cases_*.v` + `Eval vm_compute`) and parse what it prints.

Each `Eval vm_compute in <term>.` prints `     = <value>\n     : <type>`.  <value> is parsed by a
small reader that understands numbers (with optional %Z/%N/%nat/%positive), true/false, tt,
None / Some v, lists [a; b], tuples (a, b, c), strings "..." and constructor applications
`C a b` (returned as ("C", a, b)).
"""
from __future__ import annotations

import re
import os
from pathlib import Path

from harness.common import COQBUILD, Lock, sh

CASES = COQBUILD / "cases"

HEADER = """Set Printing Depth 100000000.
Set Printing Width 1000000.
Unset Printing Notations.
Set Printing Notations.
"""

_tok = re.compile(r'\s*(?:(-?\d+)(?:%[A-Za-z]+)?|("(?:[^"]|"")*")(?:%[A-Za-z]+)?|([A-Za-z_][A-Za-z0-9_\'.]*)|(\[|\]|\(|\)|;|,))')


class _P:
    def __init__(self, s):
        self.toks = []
        pos = 0
        s = s.strip()
        while pos < len(s):
            m = _tok.match(s, pos)
            if not m:
                raise ValueError("cannot tokenise Coq output at: " + s[pos:pos + 60])
            pos = m.end()
            if m.group(1) is not None:
                self.toks.append(("n", int(m.group(1))))
            elif m.group(2) is not None:
                self.toks.append(("s", m.group(2)[1:-1].replace('""', '"')))
            elif m.group(3) is not None:
                self.toks.append(("i", m.group(3)))
            else:
                self.toks.append(("p", m.group(4)))
        self.i = 0

    def peek(self):
        return self.toks[self.i] if self.i < len(self.toks) else ("e", None)

    def next(self):
        t = self.peek()
        self.i += 1
        return t

    def atom(self):
        k, v = self.next()
        if k == "n":
            return v
        if k == "s":
            return v
        if k == "i":
            if v == "true":
                return True
            if v == "false":
                return False
            if v == "None":
                return None
            if v == "tt":
                return ()
            return ("@", v)
        if k == "p" and v == "[":
            out = []
            if self.peek() == ("p", "]"):
                self.next()
                return out
            while True:
                out.append(self.app())
                k2, v2 = self.next()
                if (k2, v2) == ("p", "]"):
                    return out
                if (k2, v2) != ("p", ";"):
                    raise ValueError(f"expected ; or ] got {v2}")
        if k == "p" and v == "(":
            items = [self.app()]
            while True:
                k2, v2 = self.next()
                if (k2, v2) == ("p", ")"):
                    break
                if (k2, v2) != ("p", ","):
                    raise ValueError(f"expected , or ) got {v2}")
                items.append(self.app())
            return tuple(items) if len(items) > 1 else items[0]
        raise ValueError(f"unexpected token {k} {v}")

    def app(self):
        head = self.atom()
        if isinstance(head, tuple) and len(head) == 2 and head[0] == "@":
            name = head[1]
            args = []
            while True:
                k, v = self.peek()
                if k in ("n", "s", "i") or (k == "p" and v in ("[", "(")):
                    args.append(self.atom())
                else:
                    break
            if name == "Some" and len(args) == 1:
                return ("Some", args[0])
            args = [a[1] if (isinstance(a, tuple) and len(a) == 2 and a[0] == "@") else a for a in args]
            return (name, *args) if args else name
        return head


def parse_value(s: str):
    p = _P(s)
    v = p.app()
    if p.i != len(p.toks):
        raise ValueError("trailing tokens in Coq output")
    return v


def parse_evals(out: str) -> list:
    """all values printed by Eval commands, in order"""
    vals = []
    # split on lines starting with '     = '
    parts = re.split(r"^\s*= ", out, flags=re.M)[1:]
    for part in parts:
        # the value ends at the last '\n     : ' type annotation
        idx = part.rfind("\n     : ")
        body = part[:idx] if idx >= 0 else part
        vals.append(parse_value(body))
    return vals


def run_cases(tag: str, imports: str, body: str, timeout=900) -> tuple[int, str]:
    """write cases/<tag>.v and compile it with coqc (needs the imported .vo to be built)."""
    CASES.mkdir(parents=True, exist_ok=True)
    p = CASES / f"{tag}.v"
    p.write_text(imports + "\n" + HEADER + body)
    rc, out = sh(["bash", "-c", f"ulimit -s unlimited 2>/dev/null; exec coqc -Q . TV cases/{tag}.v"], cwd=COQBUILD, timeout=timeout)
    for ext in (".vo", ".vok", ".vos", ".glob"):
        q = p.with_suffix(ext)
        if q.exists():
            q.unlink()
    aux = p.parent / f".{tag}.aux"
    if aux.exists():
        aux.unlink()
    return rc, out


def eval_terms(tag: str, imports: str, terms: list[str], timeout=900, defs: str = "") -> list:
    body = defs + "\n" + "\n".join(f"Eval vm_compute in ({t})." for t in terms) + "\n"
    rc, out = run_cases(tag, imports, body, timeout)
    if rc != 0:
        raise RuntimeError(f"coqc failed on cases/{tag}.v:\n{out[-2000:]}")
    vals = parse_evals(out)
    if len(vals) != len(terms):
        raise RuntimeError(f"expected {len(terms)} values, got {len(vals)}:\n{out[-800:]}")
    return vals


# -- helpers to write Coq literals ----------------------------------------------------

def z(n: int) -> str:
    return f"({n})%Z" if n < 0 else f"{n}%Z"


def zlist(xs) -> str:
    return "[" + "; ".join(z(int(x)) for x in xs) + "]"


def ztuple(xs) -> str:
    return "(" + ", ".join(z(int(x)) for x in xs) + ")"


def nat(n: int) -> str:
    return f"{n}%nat"


def blist(xs) -> str:
    return "[" + "; ".join("true" if x else "false" for x in xs) + "]"


def lst(xs) -> str:
    return "[" + "; ".join(xs) + "]"
