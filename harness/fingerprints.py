"""AST fingerprints of the tsim functions whose Coq model is written by hand (tie B).

The hand models are compared with the running code on generated inputs; in addition each one is pinned to the source
it was written against: `hand_model_fingerprints.json` (committed) records, per property, the fingerprint of every
hand-modelled function.  A check recomputes them from /repo/src on every run; a mismatch is a broken tie
(`fingerprint:<function>`), which sends the check into its search and -- if no failing input is found -- is reported as
`no-failing-input-found`.  After reviewing an edit of tsim and updating the model, regenerate the file with
`python -m harness.tools.update_fingerprints`.
Docstrings and comments do not count."""
from __future__ import annotations

import ast
import hashlib
import json
from pathlib import Path

from harness.common import REPO_SRC, VERIF

FILE = VERIF / "hand_model_fingerprints.json"

# property -> list of "relative/file.py::qualname"
HAND_MODELLED = {
    "C06": ["sampler.py::_sample_component", "sampler.py::sample_component", "sampler.py::sample_program",
            "sampler.py::CompiledStateProbs.probability_of", "compile/pipeline.py::_plug_outputs", "compile/pipeline.py::_compile_component"],
    "C07": ["noise/channels.py::xor_convolve", "noise/channels.py::reduce_null_bits", "noise/channels.py::normalize_channels",
            "noise/channels.py::expand_channel", "noise/channels.py::merge_identical_channels", "noise/channels.py::absorb_subset_channels",
            "noise/channels.py::simplify_channels", "noise/channels.py::_sample_channels", "noise/channels.py::ChannelSampler.__init__",
            "noise/channels.py::Channel.num_bits"],
    "C08": ["utils/linalg.py::find_basis", "core/graph.py::transform_error_basis"],
    "C09": ["core/exact_scalar.py::ExactScalarArray.reduce", "core/exact_scalar.py::ExactScalarArray.sum", "core/exact_scalar.py::ExactScalarArray.prod",
            "core/exact_scalar.py::ExactScalarArray.__mul__", "core/exact_scalar.py::ExactScalarArray.to_complex", "core/exact_scalar.py::_scalar_to_complex",
            "core/exact_scalar.py::_reduce_pow2", "core/exact_scalar.py::_scalar_mul_reduced"],
    "C10": ["compile/compile.py::compile_scalar_graphs", "compile/evaluate.py::evaluate", "compile/evaluate.py::_matmul_gf2"],
    "C11": ["core/graph.py::connected_components", "core/graph.py::_collect_vertices", "core/graph.py::_induced_subgraph",
            "compile/pipeline.py::_plug_outputs"],
    "C04": ["compile/pipeline.py::compile_program", "compile/pipeline.py::_compile_component", "compile/pipeline.py::_get_f_indices",
            "core/graph.py::get_params", "sampler.py::sample_program"],
    "C13": ["sampler.py::_CompiledSamplerBase._sample_batches", "sampler.py::_maybe_bit_pack", "sampler.py::CompiledMeasurementSampler.sample"],
    "C14": ["sampler.py::_CompiledSamplerBase.__init__", "sampler.py::_CompiledSamplerBase._sample_batches", "noise/channels.py::ChannelSampler.sample"],
    "C18": ["noise/dem.py::get_detector_error_model"],
    "C20": ["utils/encoder.py::broadcast_targets", "utils/encoder.py::_transform_circuit", "utils/encoder.py::TransversalEncoder.initialize",
            "utils/encoder.py::TransversalEncoder.encode_transversally"],
    "C03": ["core/instructions.py::detector", "core/instructions.py::observable_include", "sampler.py::CompiledDetectorSampler.sample"],
    "C02": ["noise/channels.py::correlated_error_probs", "core/instructions.py::finalize_correlated_error"],
}


def _strip_doc(node):
    for n in ast.walk(node):
        if isinstance(n, (ast.FunctionDef, ast.ClassDef, ast.AsyncFunctionDef)) and n.body and isinstance(n.body[0], ast.Expr) \
                and isinstance(n.body[0].value, ast.Constant) and isinstance(n.body[0].value.value, str):
            n.body = n.body[1:] or [ast.Pass()]
    return node


def fingerprint_of(spec: str) -> str:
    rel, qual = spec.split("::")
    mod = ast.parse((REPO_SRC / rel).read_text())
    node = mod
    for part in qual.split("."):
        found = None
        for n in node.body:
            if isinstance(n, (ast.FunctionDef, ast.ClassDef)) and n.name == part:
                found = n
        if found is None:
            return "MISSING"
        node = found
    return hashlib.sha1(ast.dump(_strip_doc(node), annotate_fields=False, include_attributes=False).encode()).hexdigest()[:16]


def current(pid: str) -> dict[str, str]:
    return {s: fingerprint_of(s) for s in HAND_MODELLED.get(pid, [])}


def check(ctx) -> list[str]:
    """append a broken tie for every hand-modelled function of this property whose source changed"""
    if not FILE.exists():
        return []
    want = json.loads(FILE.read_text()).get(ctx.pid, {})
    bad = []
    for s, h in current(ctx.pid).items():
        if want.get(s) != h:
            bad.append(s)
            ctx.broken.append(f"fingerprint:{s} changed (hand model written against {want.get(s)}, source now {h})")
    if HAND_MODELLED.get(ctx.pid):
        ctx.trusted.append("hand-modelled functions pinned by hand_model_fingerprints.json: " + ", ".join(HAND_MODELLED[ctx.pid]))
    return bad
