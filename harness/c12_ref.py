"""C12: reference semantics for the parts of Stim's vocabulary that harness/exactdist.py does not cover.

`ref_dist12(text, det)` walks the flattened circuit instruction by instruction.  Instructions and target kinds that
exactdist.ref_run already implements are delegated to it unchanged (one instruction at a time, on the SAME RefSim
state: `exactdist.RefSim` is swapped for a factory returning the running simulator while the single-instruction
circuit is executed -- exactdist.py itself is not edited).  Implemented here, from Stim's gate documentation:

  * sweep-bit controls (`CX sweep[k] q`, `CZ q sweep[k]`, ...): no sweep data exists in a sampler compiled from a
    circuit alone, Stim then takes every sweep bit as False, so the controlled Pauli never fires;
  * two classical operands (`CZ rec[-1] sweep[0]`, `CZ sweep[0] sweep[1]`): nothing quantum happens;
  * E / ELSE_CORRELATED_ERROR with `!P` (sign of a Pauli error is a global phase) and `*` (a product of Pauli
    errors is the same list of Paulis);
  * OBSERVABLE_INCLUDE with Pauli targets: a Pauli term contributes no measurement-record bit, so under the
    parity-of-the-record reading (DESIGN.md C03) it adds nothing;
  * MPAD(p), SPP / SPP_DAG, HERALDED_ERASE, HERALDED_PAULI_CHANNEL_1, II_ERROR (needed only when a mutated parser
    starts to accept them).
`NoReference` is raised where Stim itself has no semantics (its simulators refuse the instruction).
"""
from __future__ import annotations

import numpy as np
import stim

from harness import exactdist as ED


class NoReference(Exception):
    pass


def _delegate(sim, ins: stim.CircuitInstruction):
    c = stim.Circuit()
    c.append(ins)
    orig = ED.RefSim
    # ref_run builds its simulator through the module-level name RefSim (and uses its static helpers):
    # a subclass whose constructor hands back the running simulator
    ED.RefSim = type("RefSimShared", (orig,), {"__new__": staticmethod(lambda cls, n: sim)})
    try:
        ED.ref_run(c)
    finally:
        ED.RefSim = orig


def _pauli_of(t):
    return "X" if t.is_x_target else "Y" if t.is_y_target else "Z"


def _spp(sim, paulis, sign, dag):
    """phase the -1 eigenspace of the product P by i (SPP) or -i (SPP_DAG); `sign` = -1 if the product is negated"""
    ph = -1j if dag else 1j
    for br in sim.branches:
        Ppsi = br.psi
        for P, q in paulis:
            Ppsi = ED.RefSim.app1(Ppsi, ED._PAULI[P], q)
        Ppsi = sign * Ppsi
        br.psi = (br.psi + Ppsi) / 2 + ph * (br.psi - Ppsi) / 2


def ref_run12(text_or_circuit):
    c = text_or_circuit if isinstance(text_or_circuit, stim.Circuit) else stim.Circuit(text_or_circuit)
    c = c.flattened()
    n = max(c.num_qubits, 1)
    sim = ED.RefSim(n)
    for ins in c:
        name = ins.name
        targets = ins.targets_copy()
        args = ins.gate_args_copy()
        gd = stim.gate_data(name)
        if name == "OBSERVABLE_INCLUDE" and any(not t.is_measurement_record_target for t in targets):
            nm = len(sim.branches[0].rec)
            sim.observables.setdefault(int(args[0]), [])
            sim.observables[int(args[0])] += [nm + t.value for t in targets if t.is_measurement_record_target]
            continue
        if name in ("E", "ELSE_CORRELATED_ERROR") and any(t.is_combiner or t.is_inverted_result_target for t in targets):
            keep = [stim.target_x(t.value) if t.is_x_target else stim.target_y(t.value) if t.is_y_target else stim.target_z(t.value)
                    for t in targets if not t.is_combiner]
            _delegate(sim, stim.CircuitInstruction(name, keep, args))
            continue
        if name == "MPAD":
            p = args[0] if args else 0.0
            for t in targets:
                new = []
                for br in sim.branches:
                    if p > 0:
                        new.append(ED.Branch(br.p * (1 - p), br.psi, br.rec + (t.value,), br.fired))
                        new.append(ED.Branch(br.p * p, br.psi, br.rec + (t.value ^ 1,), br.fired))
                    else:
                        new.append(ED.Branch(br.p, br.psi, br.rec + (t.value,), br.fired))
                sim.branches = new
            continue
        if name in ("SPP", "SPP_DAG"):
            cur, sign = [], 1
            for i, t in enumerate(targets):
                if t.is_combiner:
                    continue
                cur.append((_pauli_of(t), t.value))
                if t.is_inverted_result_target:
                    sign = -sign
                if i + 1 >= len(targets) or not targets[i + 1].is_combiner:
                    _spp(sim, cur, sign, name == "SPP_DAG")
                    cur, sign = [], 1
            continue
        if name in ("HERALDED_ERASE", "HERALDED_PAULI_CHANNEL_1"):
            if any(t.is_inverted_result_target for t in targets):
                raise NoReference(f"{name} with an inverted target")
            for t in targets:
                q = t.value
                if name == "HERALDED_ERASE":
                    outs = [(args[0] / 4, P) for P in "IXYZ"]
                else:
                    outs = list(zip(args, "IXYZ"))
                new = []
                for br in sim.branches:
                    new.append(ED.Branch(br.p * (1 - sum(a for a, _ in outs)), br.psi, br.rec + (0,), br.fired))
                    for a, P in outs:
                        if a > 0:
                            psi = br.psi if P == "I" else ED.RefSim.app1(br.psi, ED._PAULI[P], q)
                            new.append(ED.Branch(br.p * a, psi, br.rec + (1,), br.fired))
                sim.branches = [b for b in new if b.p > 1e-15]
            continue
        if gd.is_two_qubit_gate and gd.is_unitary and any(t.is_sweep_bit_target or t.is_measurement_record_target for t in targets):
            for i in range(0, len(targets), 2):
                a, b = targets[i], targets[i + 1]
                ca = a.is_sweep_bit_target or a.is_measurement_record_target
                cb = b.is_sweep_bit_target or b.is_measurement_record_target
                # which side may be classical: the Z-type side(s) of the gate (Stim: otherwise "record editing")
                zside = {"CX": (True, False), "CY": (True, False), "CZ": (True, True), "XCZ": (False, True), "YCZ": (False, True)}.get(name)
                if zside is None or (ca and not zside[0]) or (cb and not zside[1]):
                    raise NoReference(f"{name}: classical operand on a non-Z side (Stim refuses: record editing)")
                if ca and cb:
                    continue                      # classical-classical: nothing quantum
                if a.is_sweep_bit_target or b.is_sweep_bit_target:
                    continue                      # sweep bits are False without sweep data
                _delegate(sim, stim.CircuitInstruction(name, [a, b], args))
            continue
        try:
            _delegate(sim, ins)
        except NotImplementedError as e:
            raise NoReference(str(e))
    return sim, c


def ref_dist12(text_or_circuit, det=False):
    """exact distribution of the measurement record, or of (detectors..., observables 0..K-1) as record parities"""
    sim, c = ref_run12(text_or_circuit)
    dist: dict[tuple, float] = {}
    if not det:
        for br in sim.branches:
            dist[br.rec] = dist.get(br.rec, 0.0) + br.p
        return dist
    K = c.num_observables
    for br in sim.branches:
        d = tuple(int(sum(br.rec[i] for i in det_) % 2) for det_ in sim.detectors)
        o = tuple(int(sum(br.rec[i] for i in sim.observables.get(k, [])) % 2) for k in range(K))
        dist[d + o] = dist.get(d + o, 0.0) + br.p
    return dist
