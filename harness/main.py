"""Entry point: python -m harness.main <ID> <quick|thorough> | <ID> --replay <path>"""
import importlib
import json
import os
import sys
import traceback

from harness.common import Ctx


def main(argv):
    if len(argv) < 2:
        print("usage: bin/check <ID> <quick|thorough> | <ID> --replay <path>")
        return 2
    pid = argv[0].upper()
    mod = importlib.import_module(f"harness.props.{pid.lower()}")
    if argv[1] == "--replay":
        ctx = Ctx(pid, os.environ.get("VERIF_TIER", "quick"))
        obj = json.load(open(argv[2]))
        if hasattr(mod, "replay"):
            return mod.replay(ctx, obj)
        print(json.dumps(obj, indent=1))
        return 1
    tier = argv[1]
    if tier not in ("quick", "thorough"):
        print("tier must be quick or thorough")
        return 2
    ctx = Ctx(pid, tier)
    escalate = tier == "quick" and os.environ.get("VERIF_NO_ESCALATE") != "1"
    ctx.defer_no_input = escalate
    rc = run_once(mod, ctx)
    deferred = [v for v in ctx.violations if v.get("deferred")]
    if not deferred:
        return rc
    if rc == 1 and len(deferred) == len(ctx.violations):
        # a proof obligation or tie is broken and the quick search found no input on which the property fails: search with the
        # budgets of the thorough tier before reporting "no failing input found"
        print(f"[{pid}] broken obligation / tie and no failing input in the quick search: escalating to the thorough search "
              f"({'; '.join(ctx.broken)[:300]})", flush=True)
        ctx2 = Ctx(pid, "thorough")
        ctx2.defer_no_input = False
        ctx2.cov["escalated_from_quick"] = True
        rc2 = run_once(mod, ctx2)
        if rc2 == 1 and ctx2.violations:
            return 1
        print(f"[{pid}] the escalated search ended with exit {rc2}; reporting the result of the quick search", flush=True)
    for v in deferred:
        ctx.print_violation(v)
    return 1 if ctx.violations else rc


def run_once(mod, ctx):
    try:
        return mod.run(ctx)
    except SystemExit:
        raise
    except Exception as e:
        tb = traceback.format_exc()
        traceback.print_exc()
        frames = traceback.extract_tb(e.__traceback__)
        in_impl = any("/tsim/" in (f.filename or "") and "/verif/" not in (f.filename or "") for f in frames)
        if in_impl or ctx.violations:
            # the implementation raised where the check did not anticipate it (behaviour the check relies on has changed): that is a
            # verdict, not an internal error.  Violations with a concrete input that were already reported stand; otherwise the broken
            # expectation is reported without a failing input.
            if not ctx.violations:
                ctx.violation("implementation-raised", f"tsim raised {e!r} inside a call the check relies on: {tb[-900:]}", {"error": tb[-3000:]},
                              no_failing_input=True)
            try:
                ctx.finish(rule="the run ended early: the implementation raised inside a call the check relies on", explanation=tb[-600:])
            except Exception:
                pass
            return 1
        # an internal error of the machinery is not a verdict; exit 2 (neither pass nor violation)
        return 2


if __name__ == "__main__":
    sys.exit(main(sys.argv[1:]))
