"""Entry point: python -m harness.main <ID> <quick|thorough> | <ID> --replay <path>"""
import importlib
import json
import os
import sys
import traceback

from harness.common import Ctx


def main(argv):
    if len(argv) < 2:
        print("usage: bin/check <ID> <quick|thorough> | <ID> --replay <path>")
        return 2
    pid = argv[0].upper()
    mod = importlib.import_module(f"harness.props.{pid.lower()}")
    if argv[1] == "--replay":
        ctx = Ctx(pid, os.environ.get("VERIF_TIER", "quick"))
        obj = json.load(open(argv[2]))
        if hasattr(mod, "replay"):
            return mod.replay(ctx, obj)
        print(json.dumps(obj, indent=1))
        return 1
    tier = argv[1]
    if tier not in ("quick", "thorough"):
        print("tier must be quick or thorough")
        return 2
    ctx = Ctx(pid, tier)
    try:
        return mod.run(ctx)
    except SystemExit:
        raise
    except Exception:
        traceback.print_exc()
        # an internal error of the machinery is not a verdict; exit 2 (neither pass nor violation)
        return 2


if __name__ == "__main__":
    sys.exit(main(sys.argv[1:]))
