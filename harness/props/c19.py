"""C19 -- sampling is invariant under semantics-preserving rewrites of the program (metamorphic)."""
from __future__ import annotations

import re
import time

import numpy as np

from harness.circgen import G1, gen
from harness.common import Ctx, report_broken_without_input, standard_model_phase
from harness.distcheck import MODEL_FILES, MODEL_TRANSLATORS, shrink_text, tolerance
from harness.exactdist import dist_diff, ref_dist, tsim_dist

MANIFEST = dict(
    text=("Machine-checked proof (Coq 8.16.1) of the rewrite rules that hold at the model level -- inserting TICK/QUBIT_COORDS/"
          "SHIFT_COORDS leaves the drawn program and annotations unchanged (all circuits), splitting/merging broadcast targets "
          "(all gate functions, arities, target kinds; induction over chunks), and the documented equivalences H H=I, S S=Z, "
          "T T=S, CX=H CZ H, U3=R_Z R_Y R_Z for every angle, R_Z(1/4)~T (C05), U U^-1 (C16) as matrix identities on the gate "
          "functions regenerated from instructions.py. For every rule incl. those not proved (injective qubit relabelling, REPEAT "
          "unrolling, reordering adjacent instructions on disjoint qubits, appended unitary+inverse) the EXACT output distributions "
          "of original and rewritten circuit, read through the real sampler by forced sampling, are compared on generated "
          "circuits (C01/C02 generators) and on larger Clifford+T circuits beyond the reference simulator."),
    note=("Trusted: as C01 (hand models pinned by fingerprints, pyzx/JAX oracles). The metamorphic comparison needs no reference "
          "simulator. Print Assumptions: closed under the global context."),
    technique="Coq proofs of model-level rewrite rules (induction, reflection) + metamorphic comparison of exact sampler distributions",
    design_ref="DESIGN.md 4.C19",
)
COQ_FILES = MODEL_FILES + ["Model/InverseCheck.v", "Model/RewriteCheck.v", "Proofs/RewriteProofs.v", "Props/C19.v"]

LINE = re.compile(r"^(\w+)(\([^)]*\))?\s*(.*)$")
RECORD_NAMES = ("M", "MX", "MY", "MZ", "MR", "MRX", "MRY", "MRZ", "MPP")


def parse(line):
    m = LINE.match(line.strip())
    return m.group(1), m.group(2) or "", m.group(3).split()


def qubits_of(line):
    name, _, ts = parse(line)
    return {int(x) for x in re.findall(r"(?<![\[\w-])!?[XYZ]?(\d+)", " " + " ".join(ts).replace("*", " "))} if "rec" not in line else None


def rule_layout(lines, rng):
    i = int(rng.integers(0, len(lines) + 1))
    ins = [["TICK"], ["QUBIT_COORDS(1, 2) 0"], ["SHIFT_COORDS(0, 1)"], ["TICK", "TICK"]][int(rng.integers(0, 4))]
    return lines[:i] + ins + lines[i:], "insert-layout"


def rule_identity(lines, rng):
    qs = sorted({q for l in lines for q in (qubits_of(l) or set())})
    if not qs:
        return None
    i = int(rng.integers(0, len(lines) + 1))
    q = qs[int(rng.integers(0, len(qs)))]
    ins = [[f"I {q}"], [f"H {q}", f"H {q}"], [f"S {q}", f"S {q}", f"Z {q}"], [f"X {q}", f"X {q}"]][int(rng.integers(0, 4))]
    # inserting gates before the first use of a qubit or between a measurement and its feedback is fine: they act as identity
    return lines[:i] + ins + lines[i:], "insert-identity"


def rule_split(lines, rng):
    idx = [i for i, l in enumerate(lines) if len(parse(l)[2]) >= 2 and parse(l)[0] in G1 + ["T", "T_DAG", "M", "MX", "MY", "MR", "R", "RX", "X_ERROR", "Z_ERROR", "R_X", "R_Z", "R_Y"]]
    if not idx:
        return None
    i = idx[int(rng.integers(0, len(idx)))]
    name, args, ts = parse(lines[i])
    k = int(rng.integers(1, len(ts)))
    return lines[:i] + [f"{name}{args} " + " ".join(ts[:k]), f"{name}{args} " + " ".join(ts[k:])] + lines[i + 1:], "split-broadcast"


def rule_split_obs(lines, rng):
    """OBSERVABLE_INCLUDE(k) a b  ==  OBSERVABLE_INCLUDE(k) a ; OBSERVABLE_INCLUDE(k) b   (and DETECTOR-free circuits get an observable first)"""
    idx = [i for i, l in enumerate(lines) if l.startswith("OBSERVABLE_INCLUDE") and len(l.split()) >= 3]
    if not idx:
        return None
    i = idx[int(rng.integers(0, len(idx)))]
    head, ts = lines[i].split()[0], lines[i].split()[1:]
    k = int(rng.integers(1, len(ts)))
    return lines[:i] + [f"{head} " + " ".join(ts[:k]), f"{head} " + " ".join(ts[k:])] + lines[i + 1:], "split-observable-include"


def rule_merge(lines, rng):
    for i in range(len(lines) - 1):
        a, b = parse(lines[i]), parse(lines[i + 1])
        if a[0] == b[0] and a[1] == b[1] and a[0] in G1 + ["T", "M", "MX", "X_ERROR"] and a[2] and b[2]:
            return lines[:i] + [f"{a[0]}{a[1]} " + " ".join(a[2] + b[2])] + lines[i + 2:], "merge-broadcast"
    return None


def rule_relabel(lines, rng):
    qs = sorted({int(x) for l in lines for x in re.findall(r"(?<![\[\w.(-])(\d+)(?![\w.\])])", re.sub(r"\([^)]*\)", "", l)) if "rec[" not in x})
    if not qs:
        return None
    perm = rng.permutation(np.arange(0, max(12, len(qs) + 2)))[: len(qs)]
    mp = {q: int(p) for q, p in zip(qs, perm)}

    def rel(line):
        name, args, ts = parse(line)
        out = []
        for t in ts:
            if t.startswith("rec["):
                out.append(t)
            else:
                out.append(re.sub(r"\d+", lambda m: str(mp[int(m.group(0))]), t))
        return f"{name}{args} " + " ".join(out)
    return [rel(l) if not l.startswith(("TICK", "SHIFT_COORDS")) else l for l in lines], "relabel-qubits"


def rule_equiv(lines, rng):
    cands = []
    for i, l in enumerate(lines):
        name, args, ts = parse(l)
        if name == "Z" and len(ts) == 1:
            cands.append((i, [f"S {ts[0]}", f"S {ts[0]}"]))
        if name == "S" and len(ts) == 1:
            cands.append((i, [f"T {ts[0]}", f"T {ts[0]}"]))
        if name == "T" and len(ts) == 1:
            cands.append((i, [f"R_Z(0.25) {ts[0]}"]))
        if name in ("CX", "CNOT", "ZCX") and len(ts) == 2 and "rec" not in l:
            cands.append((i, [f"H {ts[1]}", f"CZ {ts[0]} {ts[1]}", f"H {ts[1]}"]))
        if name == "SWAP" and len(ts) == 2:
            cands.append((i, [f"CX {ts[0]} {ts[1]}", f"CX {ts[1]} {ts[0]}", f"CX {ts[0]} {ts[1]}"]))
        if name == "U3" and len(ts) == 1:
            th, ph, la = [x.strip() for x in args.strip("()").split(",")]
            cands.append((i, [f"R_Z({la}) {ts[0]}", f"R_Y({th}) {ts[0]}", f"R_Z({ph}) {ts[0]}"]))
        # the same gate written with integer angle literals (Paulis as rotations by pi up to a global phase; `1.0` written `1`)
        if name in ("X", "Y", "Z") and len(ts) == 1:
            cands.append((i, [f"R_{name}({['1', '-1', '3', '1.0'][int(rng.integers(0, 4))]}) {ts[0]}"]))
        if name == "H" and len(ts) == 1:
            cands.append((i, [f"U3(0.5, 0, 1) {ts[0]}"]))
        if name == "S_DAG" and len(ts) == 1:
            cands.append((i, [f"R_Z(-0.5) {ts[0]}"]))
        if name in ("R_X", "R_Y", "R_Z", "U3") and ts:
            lits = [x.strip() for x in args.strip("()").split(",")]
            new_lits = []
            for x in lits:
                try:
                    v = float(x)
                except ValueError:
                    new_lits = None
                    break
                new_lits.append(str(int(v)) if v == int(v) and abs(v) < 100 else x)
            if new_lits is not None and new_lits != lits:
                cands.append((i, [f"{name}({', '.join(new_lits)}) {' '.join(ts)}"]))
    if not cands:
        return None
    i, rep = cands[int(rng.integers(0, len(cands)))]
    return lines[:i] + rep + lines[i + 1:], "gate-equivalent"


def rule_commute(lines, rng):
    idx = []
    for i in range(len(lines) - 1):
        a, b = lines[i], lines[i + 1]
        qa, qb = qubits_of(a), qubits_of(b)
        if qa is None or qb is None or (qa & qb) or not qa or not qb:
            continue
        na, nb = parse(a)[0], parse(b)[0]
        if na.startswith(("E", "ELSE", "DETECTOR", "OBSERVABLE", "TICK", "QUBIT", "SHIFT")) or nb.startswith(("E", "ELSE", "DETECTOR", "OBSERVABLE", "TICK", "QUBIT", "SHIFT")):
            continue
        if na in RECORD_NAMES and nb in RECORD_NAMES:
            continue      # would permute the columns
        # an instruction that appends records may not move across a record user
        idx.append(i)
    if not idx:
        return None
    i = idx[int(rng.integers(0, len(idx)))]
    # moving a measurement changes later lookbacks only if a record-producing and a rec-using line swap: excluded above (qubits_of None)
    return lines[:i] + [lines[i + 1], lines[i]] + lines[i + 2:], "commute-disjoint"


def rule_u_uinv(lines, rng, tsim):
    qs = sorted({q for l in lines for q in (qubits_of(l) or set())})
    if not qs:
        return None
    rngl = []
    for _ in range(int(rng.integers(1, 4))):
        if len(qs) >= 2 and rng.random() < 0.4:
            a, b = rng.choice(qs, size=2, replace=False)
            rngl.append(f"{['CX', 'CZ', 'ISWAP', 'SQRT_XX', 'XCY'][int(rng.integers(0, 5))]} {a} {b}")
        else:
            g = ["H", "S", "T", "SQRT_Y", "R_X(0.3)", "U3(0.1, -0.7, 1.3)", "R_Z(0.00001)", "C_XYZ"][int(rng.integers(0, 8))]
            rngl.append(f"{g} {qs[int(rng.integers(0, len(qs)))]}")
    u = tsim.Circuit("\n".join(rngl))
    block = str(u).split("\n") + str(u.inverse()).split("\n")
    i = int(rng.integers(0, len(lines) + 1))
    return lines[:i] + block + lines[i:], "append-U-Uinv"


def rule_repeat(lines, rng):
    # wrap a run of record-free lines in REPEAT 2 vs writing it twice
    idx = [i for i, l in enumerate(lines) if parse(l)[0] not in RECORD_NAMES and "rec[" not in l and not l.startswith(("DETECTOR", "OBSERVABLE", "E(", "ELSE"))]
    if not idx:
        return None
    i = idx[int(rng.integers(0, len(idx)))]
    rep = ["REPEAT 2 {", "    " + lines[i], "}"]
    return (lines[:i] + [lines[i], lines[i]] + lines[i + 1:], lines[:i] + rep + lines[i + 1:]), "unroll-repeat"


def run(ctx: Ctx) -> int:
    standard_model_phase(ctx, MODEL_TRANSLATORS, COQ_FILES, "Props.C19", "Props/C19.v")
    ctx.trusted += ["as C01: hand models Lane.v/Parse.v, pyzx/JAX oracles"]
    import tsim
    rng = ctx.np_rng()
    deadline = time.time() + (150 if ctx.quick else 1500)
    n = 45 if ctx.quick else 900
    rules = [rule_layout, rule_identity, rule_split, rule_merge, rule_relabel, rule_equiv, rule_commute, "uuinv", "repeat"]
    # observables fed by several OBSERVABLE_INCLUDE instructions vs one merged instruction (detector sampler)
    for text in ["H 0 1\nT 1\nH 1\nM 0 1\nOBSERVABLE_INCLUDE(0) rec[-1] rec[-2]", "H 0\nCX 0 1\nH 2\nT 2\nH 2\nM 0 1 2\nDETECTOR rec[-3] rec[-2]\nOBSERVABLE_INCLUDE(1) rec[-1] rec[-3] rec[-2]",
                 "H 0\nM 0\nX_ERROR(0.25) 1\nM 1\nH 2\nT 2\nH 2\nM 2\nOBSERVABLE_INCLUDE(0) rec[-3] rec[-1]\nOBSERVABLE_INCLUDE(2) rec[-2] rec[-1]"]:
        lines = text.split("\n")
        for _rep in range(2):
            r = rule_split_obs(lines, rng)
            if r is None:
                continue
            text2 = "\n".join(r[0])
            try:
                d1, _ = tsim_dist(tsim.Circuit(text), det=True)
                d2, _ = tsim_dist(tsim.Circuit(text2), det=True)
            except Exception as e:
                ctx.violation("rewrite-raises-split-observable:" + text2.replace("\n", ";")[:50], f"tsim raised {e!r} on a rewritten circuit", {"original": text, "rewritten": text2, "det": True})
                continue
            dd = dist_diff(d1, d2)
            ctx.count(("split-obs", text, text2), nontrivial=True, bucket="split-observable-include")
            if dd > tolerance(False):
                ctx.violation("rewrite-split-observable-include:" + text2.replace("\n", ";")[:60],
                              f"splitting an OBSERVABLE_INCLUDE into two instructions changed the exact detector-sampler distribution by {dd:.3g}",
                              {"original": text, "rewritten": text2, "det": True, "rule": "split-observable-include"})
    # the same rotation written with integer and with decimal angle literals, and Paulis as rotations by pi
    for text, text2 in [("X 0\nM 0", "R_X(1) 0\nM 0"), ("H 0\nT 0\nZ 0\nT 0\nH 0\nM 0", "H 0\nT 0\nR_Z(1) 0\nT 0\nH 0\nM 0"),
                        ("H 0\nCX 0 1\nY 1\nT 0\nH 0\nM 0 1", "H 0\nCX 0 1\nR_Y(-1) 1\nT 0\nH 0\nM 0 1"),
                        ("U3(0.4, -1.0, 0.3) 0\nH 0\nM 0", "U3(0.4, -1, 0.3) 0\nH 0\nM 0"), ("H 0\nR_Z(1.0) 0\nH 0\nM 0", "H 0\nR_Z(1) 0\nH 0\nM 0"),
                        ("R_X(0.3) 0\nR_X(2.0) 0\nM 0", "R_X(0.3) 0\nR_X(2) 0\nM 0"), ("H 0\nM 0", "U3(0.5, 0, 1) 0\nM 0"),
                        ("R_Y(3.0) 0 1\nCX 0 1\nM 0 1", "R_Y(3) 0 1\nCX 0 1\nM 0 1"), ("R_X(0.0) 0\nX 1\nM 0 1", "R_X(0) 0\nX 1\nM 0 1"),
                        # U3 with theta an even integer is a phase gate, not the identity: U3(0, phi, lambda) = R_Z(phi + lambda) up to phase
                        ("H 0\nU3(0, 0.5, 0.5) 0\nH 0\nM 0", "H 0\nZ 0\nH 0\nM 0"), ("H 0\nU3(0.0, 0.25, 0.1) 0\nH 0\nM 0", "H 0\nR_Z(0.35) 0\nH 0\nM 0"),
                        ("H 0\nU3(2, 0.3, 0.45) 0\nH 0\nM 0", "H 0\nR_Z(0.75) 0\nH 0\nM 0"), ("H 0 1\nCX 0 1\nU3(-2.0, 0.125, 0.125) 1\nCX 0 1\nH 0\nM 0 1", "H 0 1\nCX 0 1\nT 1\nCX 0 1\nH 0\nM 0 1"),
                        ("H 0\nU3(4, 1, 0.5) 0\nH 0\nM 0", "H 0\nS_DAG 0\nH 0\nM 0")]:
        try:
            d1, _ = tsim_dist(tsim.Circuit(text))
            d2, _ = tsim_dist(tsim.Circuit(text2))
        except Exception as e:
            ctx.violation("rewrite-raises-integer-literal:" + text2.replace("\n", ";")[:50], f"tsim raised {e!r} on a rewritten circuit", {"original": text, "rewritten": text2, "det": False})
            continue
        dd = dist_diff(d1, d2)
        ctx.count(("int-literal", text, text2), nontrivial=True, bucket="integer-angle-literal")
        if dd > tolerance(True):
            ctx.violation("rewrite-integer-literal:" + text2.replace("\n", ";")[:60],
                          f"writing an angle as an integer literal (or a Pauli as a rotation by pi) changed the exact output distribution by {dd:.3g}",
                          {"original": text, "rewritten": text2, "det": False, "rule": "integer-angle-literal"})
    # SWAP onto a qubit no earlier instruction touched, the vacated index used again afterwards (no initial resets): SWAP as three
    # CX, identities on the fresh qubit before the SWAP, split broadcast
    for text, text2 in [("H 0\nT 0\nSWAP 0 1\nH 0\nM 0 1", "H 0\nT 0\nCX 0 1\nCX 1 0\nCX 0 1\nH 0\nM 0 1"),
                        ("H 0\nSWAP 0 1\nX 0\nH 1\nM 0 1", "H 0\nI 1\nSWAP 0 1\nX 0\nH 1\nM 0 1"),
                        ("H 2\nT 2\nSWAP 2 5\nH 5\nCX 5 2\nM 2 5", "H 2\nT 2\nH 5\nH 5\nSWAP 2 5\nH 5\nCX 5 2\nM 2 5"),
                        ("H 0\nX_ERROR(0.25) 0\nT 0\nSWAP 0 1 2 3\nH 0 1\nM 0 1 2 3", "H 0\nX_ERROR(0.25) 0\nT 0\nTICK\nSWAP 0 1\nI 2\nSWAP 2 3\nH 0 1\nM 0 1 2 3"),
                        ("RX 1\nSWAP 1 0\nMX 0\nM 1", "RX 1\nSWAP 0 1\nMX 0\nM 1"), ("H 0\nISWAP 0 1\nH 0\nM 0 1", "H 0\nR 1\nISWAP 0 1\nH 0\nM 0 1"),
                        # a reset directly after noise on a qubit that is entangled with qubits measured later: a gate and its inverse
                        # (or a TICK) between the noise and the reset changes nothing
                        ("H 0\nCX 0 1\nZ_ERROR(1) 0\nR 0\nMX 1\nM 0", "H 0\nCX 0 1\nZ_ERROR(1) 0\nS 0\nS_DAG 0\nR 0\nMX 1\nM 0"),
                        ("H 0\nCX 0 1\nZ_ERROR(0.25) 0\nRX 0\nMX 1 0", "H 0\nCX 0 1\nZ_ERROR(0.25) 0\nH 0\nH 0\nRX 0\nMX 1 0"),
                        ("H 0\nCX 0 1\nT 1\nDEPOLARIZE1(0.375) 0\nRY 0\nMX 1\nMY 0", "H 0\nCX 0 1\nT 1\nDEPOLARIZE1(0.375) 0\nTICK\nX 0\nX 0\nRY 0\nMX 1\nMY 0"),
                        ("H 0\nCX 0 1\nX_ERROR(0.5) 0\nR 0\nM 1 0", "H 0\nCX 0 1\nX_ERROR(0.5) 0\nSQRT_X 0\nSQRT_X_DAG 0\nR 0\nM 1 0")]:
        try:
            d1, _ = tsim_dist(tsim.Circuit(text))
            d2, _ = tsim_dist(tsim.Circuit(text2))
        except Exception as e:
            ctx.violation("rewrite-raises-swap:" + text2.replace("\n", ";")[:50], f"tsim raised {e!r} on a rewritten circuit", {"original": text, "rewritten": text2, "det": False})
            continue
        dd = dist_diff(d1, d2)
        ctx.count(("swap-fresh", text, text2), nontrivial=True, bucket="swap-onto-fresh-qubit")
        if dd > tolerance(False):
            ctx.violation("rewrite-swap-fresh:" + text2.replace("\n", ";")[:60],
                          f"an equivalent way of writing the circuit (SWAP onto a fresh qubit as CX CX CX, identities or a gate and its inverse inserted before a SWAP / reset) changed the exact output distribution by {dd:.3g}",
                          {"original": text, "rewritten": text2, "det": False, "rule": "swap-onto-fresh-qubit"})
    # an extra measurement of a fresh qubit in |0> (outcome 0 with certainty) appended after a product measurement, noisy or not, plain or
    # inverted: the other columns keep their distribution and the new column is 0
    for text, extra, col in [("H 0\nMPP(0.125) X0*X1\nM 0 1", "MPP Z2", 1), ("H 0 1\nMPP(0.25) !Z0*X1\nMX 0 1", "MPP Z5", 1),
                             ("H 0\nT 0\nMPP(0.0625) Y0 X1\nM 0 1", "MPP Z2*Z3", 2), ("H 0\nCX 0 1\nMPP X0*X1\nM 0 1", "MPP !Z2", 1),
                             ("H 0\nM(0.25) 0\nMX 0", "M 1", 1), ("RY 0\nMPP(0.5) Y0\nMY 0", "MPP Z1 Z2", 1)]:
        lines = text.split("\n")
        pos = max(i for i, l in enumerate(lines) if l.startswith(("MPP", "M("))) + 1
        text2 = "\n".join(lines[:pos] + [extra] + lines[pos:])
        n_extra = len(extra.split()) - 1
        want_bit = 1 if "!" in extra else 0
        try:
            d1, _ = tsim_dist(tsim.Circuit(text))
            d2, _ = tsim_dist(tsim.Circuit(text2))
        except Exception as e:
            ctx.violation("rewrite-raises-extra-measurement:" + text2.replace("\n", ";")[:50], f"tsim raised {e!r} on a rewritten circuit", {"original": text, "rewritten": text2, "det": False})
            continue
        marg, off = {}, 0.0
        for k_, v in d2.items():
            if any(k_[col + j] != want_bit for j in range(n_extra)):
                off += v
            kk = tuple(x for i, x in enumerate(k_) if not (col <= i < col + n_extra))
            marg[kk] = marg.get(kk, 0.0) + v
        dd = max(dist_diff(d1, marg), off)
        ctx.count(("extra-meas", text, text2), nontrivial=True, bucket="extra-deterministic-measurement")
        if dd > tolerance(True):
            ctx.violation("rewrite-extra-measurement:" + text2.replace("\n", ";")[:60],
                          f"appending the measurement `{extra}` of fresh qubits after a (noisy) measurement changed the distribution of the other results by {dd:.3g}",
                          {"original": text, "rewritten": text2, "det": False, "rule": "extra-deterministic-measurement"})
    done = 0
    for k in range(n * 3):
        if done >= n or time.time() > deadline:
            break
        noisy = rng.random() < 0.4
        det = rng.random() < 0.25
        text, hist, generic = gen(rng, nq_max=3, max_meas=5, max_noise=(2 if noisy else 0), annotated=det, max_instr=12)
        lines = text.split("\n")
        rule = rules[int(rng.integers(0, len(rules)))]
        try:
            if rule == "uuinv":
                r = rule_u_uinv(lines, rng, tsim)
            elif rule == "repeat":
                r = rule_repeat(lines, rng)
                if r is not None:
                    (a, b), nm = r
                    text, r = "\n".join(a), (b, nm)
            else:
                r = rule(lines, rng)
        except Exception:
            r = None
        if r is None:
            continue
        new_lines, rname = r
        text2 = "\n".join(new_lines)
        tol = tolerance(True)
        try:
            d1, _ = tsim_dist(tsim.Circuit(text), det=det)
            d2, _ = tsim_dist(tsim.Circuit(text2), det=det)
        except Exception as e:
            ctx.violation(f"rewrite-raises-{rname}:" + text2.replace("\n", ";")[:50], f"tsim raised {e!r} on a rewritten circuit", {"original": text, "rewritten": text2, "det": det})
            continue
        done += 1
        dd = dist_diff(d1, d2)
        ctx.count((rname, text), nontrivial=len([p for p in d1.values() if p > 1e-9]) > 1, bucket=rname)
        if done <= 3:
            ctx.sample({"rule": rname, "original": text, "rewritten": text2, "max_abs_diff": dd})
        if dd > tol:
            ctx.violation(f"rewrite-{rname}:" + text2.replace("\n", ";")[:60],
                          f"rule {rname}: the exact output distribution changed by {dd:.3g}", {"original": text, "rewritten": text2, "det": det, "rule": rname})
    # correlated-error chains with a transparent instruction inserted BETWEEN the links (Stim keeps the chain across TICK, coords,
    # identities and gates on other qubits)
    for _ in range(10 if ctx.quick else 150):
        if time.time() > deadline + 30:
            break
        nq = int(rng.integers(2, 4))
        pre = [f"{['H', 'SQRT_X', 'S', 'H_YZ'][int(rng.integers(0, 4))]} {q}" for q in range(nq) if rng.random() < 0.7]
        links = []
        for j in range(int(rng.integers(2, 4))):
            qs = rng.choice(nq, size=int(rng.integers(1, nq + 1)), replace=False)
            links.append(f"{'E' if j == 0 else 'ELSE_CORRELATED_ERROR'}({[0.125, 0.25, 0.5, 1.0][int(rng.integers(0, 4))]}) " +
                         " ".join(f"{'XYZ'[int(rng.integers(0, 3))]}{int(q)}" for q in qs))
        post = ["M " + " ".join(map(str, range(nq)))] if rng.random() < 0.6 else ["MX " + " ".join(map(str, range(nq)))]
        spare = nq   # a qubit not used by the chain
        ins = [["TICK"], ["SHIFT_COORDS(0, 1)"], [f"QUBIT_COORDS(1, 2) {spare}"], [f"I {int(rng.integers(0, nq))}"], [f"H {spare}"], ["TICK", f"X {spare}"],
               [f"X_ERROR(0.25) {spare}"], [f"DEPOLARIZE1(0.125) {spare}"], [f"Z_ERROR(0.5) {spare}", "TICK"]][int(rng.integers(0, 9))]
        k = int(rng.integers(1, len(links)))
        text = "\n".join(pre + links + post)
        text2 = "\n".join(pre + links[:k] + ins + links[k:] + post)
        try:
            d1, _ = tsim_dist(tsim.Circuit(text))
            d2, _ = tsim_dist(tsim.Circuit(text2))
        except Exception as e:
            ctx.violation("rewrite-raises-chain:" + text2.replace("\n", ";")[:50], f"tsim raised {e!r} on a rewritten circuit", {"original": text, "rewritten": text2, "det": False})
            continue
        # the inserted gate may act on a spare qubit that is not measured: compare the distributions of the measured qubits only
        dd = dist_diff(d1, d2)
        ctx.count(("chain", text, text2), nontrivial=len([p_ for p_ in d1.values() if p_ > 1e-9]) > 1, bucket="insert-inside-chain")
        if dd > tolerance(False):
            ctx.violation("rewrite-insert-inside-chain:" + text2.replace("\n", ";")[:60],
                          f"inserting {ins} between the links of a correlated-error chain changed the exact output distribution by {dd:.3g}",
                          {"original": text, "rewritten": text2, "det": False, "rule": "insert-inside-chain"})
    # beyond the reference simulator: wider Clifford+T circuits, few measured qubits
    big = 4 if ctx.quick else 40
    for _ in range(big):
        if time.time() > deadline + 60:
            break
        nq = int(rng.integers(8, 15))
        lines = [f"H {q}" for q in range(nq) if rng.random() < 0.6]
        for _ in range(int(rng.integers(15, 30))):
            if rng.random() < 0.5:
                a, b = rng.choice(nq, size=2, replace=False)
                lines.append(f"{['CX', 'CZ', 'SWAP', 'SQRT_ZZ'][int(rng.integers(0, 4))]} {a} {b}")
            else:
                lines.append(f"{['H', 'S', 'SQRT_X', 'T', 'S_DAG'][int(rng.integers(0, 5))]} {int(rng.integers(0, nq))}")
        tcount = sum(1 for l in lines if l.startswith("T "))
        if tcount > 6:
            lines = [l for l in lines if not l.startswith("T ")]
        meas = sorted(int(x) for x in rng.choice(nq, size=6, replace=False))
        lines.append("M " + " ".join(map(str, meas)))
        text = "\n".join(lines)
        try:
            r = [rule_layout, rule_relabel, rule_equiv, rule_commute, rule_split][int(rng.integers(0, 5))](lines, rng)
        except Exception:
            r = None
        if r is None:
            continue
        text2 = "\n".join(r[0])
        try:
            d1, _ = tsim_dist(tsim.Circuit(text))
            d2, _ = tsim_dist(tsim.Circuit(text2))
        except Exception as e:
            ctx.violation("rewrite-raises-big", f"tsim raised {e!r}", {"original": text, "rewritten": text2})
            continue
        dd = dist_diff(d1, d2)
        ctx.count(("big", text), bucket="beyond-reference-" + r[1])
        if dd > 1e-6:
            ctx.violation(f"rewrite-big-{r[1]}", f"rule {r[1]} on a {nq}-qubit circuit changed the distribution by {dd:.3g}", {"original": text, "rewritten": text2, "rule": r[1]})
    if ctx.broken and not ctx.violations:
        report_broken_without_input(ctx)
    return ctx.finish(
        rule="pairs (circuit, rewritten circuit): circuits from the C01/C02/C03 generators (1-3 qubits, <=5 measurements, 40% noisy, 25% through "
             "the detector sampler) plus 8-14 qubit Clifford+T circuits with 6 measured qubits (beyond the dense reference); rules: insert "
             "TICK/coords, insert identities (I, HH, SSZ, XX), split/merge broadcast, injective relabelling, gate equivalents (Z=SS, S=TT, "
             "T=R_Z(0.25), CX=H CZ H, U3=RZ RY RZ), commute adjacent disjoint instructions, insert U;U.inverse(), REPEAT vs unrolled; the "
             "exact joint distributions of both circuits are compared on every outcome. non-trivial = more than one outcome possible",
        explanation="C19_layout_insertion, C19_broadcast_split, C19_gate_rules + metamorphic comparison",
        assumptions=["pyzx_param and JAX are oracles"],
    )


def replay(ctx: Ctx, obj) -> int:
    import tsim
    r = obj.get("replay") or {}
    d1, _ = tsim_dist(tsim.Circuit(r["original"]), det=bool(r.get("det")))
    d2, _ = tsim_dist(tsim.Circuit(r["rewritten"]), det=bool(r.get("det")))
    print("max diff", dist_diff(d1, d2))
    return 0 if dist_diff(d1, d2) <= 1e-5 else 1
