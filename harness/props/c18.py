"""C18 -- Detector error models agree with Stim whenever Stim can produce one.

Tie A: translator `dem_facts` re-extracts from src/tsim/noise/dem.py the measurement-count rule of the
       relocation loop, the shift sign, the mapping offset, the gauge filter and the forwarded flags, and
       from the INSTALLED Stim the table of record-appending gates; Props/C18.v is re-checked against them.
Tie B: the relocation model (Model/Dem.v) is evaluated by vm_compute on the same circuits and compared with
       the circuit that dem.py really hands to stim (captured by substituting a recording subclass of
       stim.Circuit for `tsim.noise.dem.stim.Circuit` from the harness; no source change).
Search: Circuit.detector_error_model(**flags) vs stim.Circuit.detector_error_model(**flags) as canonicalised
       mechanism multisets + detector/observable counts, on generated annotated stabilizer circuits with
       deterministic detectors and observables (determinism is established by Stim itself on the noiseless
       circuit), using every record-appending instruction, observables declared before / between / after
       later measurements, repeated and out-of-order indices, REPEAT blocks, and every flag tsim forwards.
"""
from __future__ import annotations

import json
from collections import Counter

import stim

from harness import coqrun as cq
from harness.common import Ctx, report_broken_without_input, standard_model_phase

MANIFEST = dict(
    text=("Machine-checked proof (Coq 8.16.1) over a model of get_detector_error_model whose parameters (measurement-"
          "count rule, look-back shift, mapping offset, gauge filter, forwarded flags) are RE-EXTRACTED from "
          "src/tsim/noise/dem.py on every run by a fail-closed Python-ast translator, together with the table of "
          "record-appending gates of the INSTALLED Stim: (C18_counts) for every such gate and every well-shaped target "
          "list the count used by the relocation loop equals Stim's; (C18_relocate) for ALL instruction lists every "
          "trailing detector references exactly the absolute measurement indices of the union of its OBSERVABLE_INCLUDEs "
          "(any position, repeated / out-of-order indices), in dict order, all other instructions untouched; (C18_dem) "
          "for every error analysis that depends on annotations only through their measurement sets, the mapped-back "
          "model equals Stim's; the gauge filter is REFUTED as harmless (C18_filter_refuted: a genuine error(0.5) L0 is "
          "dropped) and C18_dem_partial carries the hypothesis that no mechanism has probability 1/2 and only "
          "observable symptoms. Correspondence: the relocated circuit handed to stim and the final DEM are compared "
          "with the model and with stim.Circuit.detector_error_model on generated annotated stabilizer circuits."),
    note=("Trusted: Coq kernel + vm_compute; translator translate/dem_facts.py; Stim's error analysis is an oracle (Section "
          "variable: a list of error sources, each flipping a set of measurement results; detectors/observables are "
          "flipped by parity) -- gauge elimination and Stim's merging of equal symptoms are outside the model and are "
          "covered only by the differential run. Tags of instructions are dropped by dem.py (not compared). "
          "decompose_errors=True is rejected by tsim with a documented ValueError (checked, not counted as disagreement)."),
    technique="Coq proof (induction over instruction lists, finite table by vm_compute, Section oracle) + ast translator + differential vs Stim",
    design_ref="DESIGN.md 4.C18",
)

TRANSLATORS = ["dem_facts"]
COQ_FILES = ["Model/DemFacts.v", "gen/Gen_dem_facts.v", "Model/Dem.v", "Proofs/DemProofs.v", "Props/C18.v"]
IMPORTS = ("From Coq Require Import ZArith List String. Import ListNotations.\n"
           "Require Import TV.Model.DemFacts TV.gen.Gen_dem_facts TV.Model.Dem.\n"
           "Open Scope string_scope. Open Scope list_scope. Open Scope Z_scope.\n")

FILTER_KEY = "gauge-filter-drops-genuine-error(0.5)-on-observables"
SECTION6 = ("X_ERROR(0.5) 0\nX_ERROR(0.1) 1\nM 0 1\nOBSERVABLE_INCLUDE(0) rec[-2]\nDETECTOR rec[-1]\n"
            "OBSERVABLE_INCLUDE(1) rec[-1]")

FLAG_SETS = [
    {},
    {"allow_gauge_detectors": True},
    {"flatten_loops": True},
    {"approximate_disjoint_errors": True},
    {"allow_gauge_detectors": True, "approximate_disjoint_errors": True, "flatten_loops": True},
    {"ignore_decomposition_failures": True},
    {"block_decomposition_from_introducing_remnant_edges": True},
    {"decompose_errors": True},
]


# ---------------------------------------------------------------------------------------------------
# canonical form of a DEM
# ---------------------------------------------------------------------------------------------------
def canon(dem: stim.DetectorErrorModel):
    mechs = Counter()
    for ins in dem.flattened():
        if ins.type != "error":
            continue
        ds, ls, seps = [], [], 0
        for t in ins.targets_copy():
            if t.is_separator():
                seps += 1
            elif t.is_relative_detector_id():
                ds.append(t.val)
            elif t.is_logical_observable_id():
                ls.append(t.val)
        mechs[(repr(ins.args_copy()[0]), tuple(sorted(ds)), tuple(sorted(ls)), seps)] += 1
    return mechs, dem.num_detectors, dem.num_observables


def show_canon(c):
    mechs, nd, no = c
    return {"mechanisms": sorted([list(k) + [v] for k, v in mechs.items()]), "num_detectors": nd, "num_observables": no}


# ---------------------------------------------------------------------------------------------------
# generator
# ---------------------------------------------------------------------------------------------------
PROBS = ["0.01", "0.0123456789", "0.125", "0.3333333333333333", "0.5", "0.03125", "0.02", "0.25", "0.0014285714285714286"]   # incl. more than six significant digits
NONDESTRUCTIVE1 = ["M", "MX", "MY"]
RESETTING1 = ["MR", "MRX", "MRY"]
PAIR = ["MXX", "MYY", "MZZ"]


def meas_line(rng, nq):
    """one record-appending instruction: (text without arguments, number of results, 'repeatable' flag)"""
    r = rng.random()
    q = lambda: rng.randrange(nq)
    if r < 0.25:
        k = rng.choice([1, 1, 2])
        qs = rng.sample(range(nq), min(k, nq))
        return rng.choice(NONDESTRUCTIVE1), " ".join(map(str, qs)), len(qs), True
    if r < 0.40:
        qs = rng.sample(range(nq), 1)
        return rng.choice(RESETTING1), str(qs[0]), 1, False
    if r < 0.58 and nq >= 2:
        a, b = rng.sample(range(nq), 2)
        return rng.choice(PAIR), f"{a} {b}", 1, True
    if r < 0.76:
        prods = []
        for _ in range(rng.choice([1, 1, 2])):
            qs = rng.sample(range(nq), rng.randrange(1, min(3, nq) + 1))
            prods.append("*".join(rng.choice("XZZY") + str(x) for x in qs))
        return "MPP", " ".join(prods), len(prods), True
    if r < 0.88:
        k = rng.choice([1, 2, 3])
        return "MPAD", " ".join(rng.choice("01") for _ in range(k)), k, False
    if r < 0.95:
        return "HERALDED_ERASE(" + rng.choice(PROBS[:4]) + ")", str(q()), 1, False
    return "HERALDED_PAULI_CHANNEL_1(" + rng.choice(["0.01, 0.02, 0, 0.01", "0.125, 0, 0, 0"]) + ")", str(q()), 1, False


def gen_base(rng):
    """returns list of (line, n_results); noise and Clifford gates interleaved with measurements"""
    nq = rng.randrange(2, 5)
    lines = [("R " + " ".join(map(str, range(nq))), 0)]
    if rng.random() < 0.3:
        lines.append(("RX " + str(rng.randrange(nq)), 0))
    for _ in range(rng.randrange(2, 6)):
        r = rng.random()
        if r < 0.25:
            g = rng.choice(["H", "S", "X", "SQRT_X"])
            lines.append((f"{g} {rng.randrange(nq)}", 0))
        elif r < 0.35 and nq >= 2:
            a, b = rng.sample(range(nq), 2)
            lines.append((f"{rng.choice(['CX', 'CZ'])} {a} {b}", 0))
        name, tg, n, repeatable = meas_line(rng, nq)
        arg = f"({rng.choice(PROBS[:4])})" if ("(" not in name and name != "MPAD" and rng.random() < 0.2) else ""
        lines.append((f"{name}{arg} {tg}", n))
        # noise between the two copies of a repeatable measurement / before the next one
        for _j in range(rng.choice([0, 1, 1, 2])):
            rr = rng.random()
            p = rng.choice(PROBS)
            if rr < 0.5:
                lines.append((f"{rng.choice(['X_ERROR', 'Z_ERROR', 'Y_ERROR'])}({p}) {rng.randrange(nq)}", 0))
            elif rr < 0.7:
                lines.append((f"DEPOLARIZE1({rng.choice(PROBS[:4])}) {rng.randrange(nq)}", 0))
            elif rr < 0.85 and nq >= 2:
                a, b = rng.sample(range(nq), 2)
                lines.append((f"DEPOLARIZE2({rng.choice(PROBS[:4])}) {a} {b}", 0))
            elif rr < 0.93:
                lines.append((f"PAULI_CHANNEL_1(0.01, 0.02, 0.03) {rng.randrange(nq)}", 0))
            else:
                lines.append(("TICK", 0))
        if repeatable and rng.random() < 0.7:
            lines.append((f"{name} {tg}", n))
    return lines


def deterministic_sets(lines):
    """parities of measurement results that are deterministic in the noiseless circuit (decided by Stim)"""
    text = "\n".join(l for l, _ in lines)
    base = stim.Circuit(text).without_noise()
    M = base.num_measurements
    starts, m = [], 0
    for _, n in lines:
        starts.append(m)
        m += n
    cands = [[i] for i in range(M)]
    cands += [[i, j] for i in range(M) for j in range(i + 1, min(M, i + 5))]
    good = []
    for S in cands:
        c = base.copy()
        c.append("DETECTOR", [stim.target_rec(s - M) for s in S])
        try:
            c.detector_error_model()
            good.append(S)
        except ValueError:
            pass
    return good, M


def annotate(rng, lines, good, M):
    """insert DETECTOR / OBSERVABLE_INCLUDE lines; returns program text"""
    cum, m = [], 0
    for _, n in lines:
        m += n
        cum.append(m)                       # results recorded after line k
    inserts: dict[int, list[str]] = {}

    def place(S, make):
        first_ok = min(k for k in range(len(lines)) if cum[k] > max(S))
        mode = rng.random()
        k = first_ok if mode < 0.5 else (len(lines) - 1 if mode < 0.7 else rng.randrange(first_ok, len(lines)))
        inserts.setdefault(k, []).append(make(" ".join(f"rec[-{cum[k] - s}]" for s in S)))

    if not good:
        return "\n".join(l for l, _ in lines)
    det_sets = rng.sample(good, min(len(good), rng.randrange(0, 4)))
    for S in det_sets:
        coords = rng.choice(["", "", "(1, 2)", "(0.5)"])
        place(S, lambda recs: f"DETECTOR{coords} {recs}")
    if rng.random() < 0.25:
        # detectors that are (most likely) NOT deterministic: Stim then only succeeds with allow_gauge_detectors=True
        for _ in range(rng.randrange(1, 3)):
            S = rng.sample(range(M), rng.randrange(1, min(3, M) + 1))
            place(S, lambda recs: f"DETECTOR {recs}")
    idxs = rng.choice([[0], [0, 1], [1, 0], [2, 0], [0, 1, 2], [3], [1]])
    for idx in idxs:
        total = []
        chosen = rng.sample(good, min(len(good), rng.choice([1, 1, 2])))
        if det_sets and rng.random() < 0.4:
            chosen[0] = rng.choice(det_sets)          # an observable sharing its measurements with a detector
        for S in chosen:
            total += S
        rng.shuffle(total)
        # split into chunks, each its own OBSERVABLE_INCLUDE (repeated index)
        while total:
            k = rng.randrange(1, len(total) + 1)
            chunk, total = total[:k], total[k:]
            place(chunk, lambda recs, idx=idx: f"OBSERVABLE_INCLUDE({idx}) {recs}")
    out = []
    for k, (l, _) in enumerate(lines):
        out.append(l)
        ins = inserts.get(k, [])
        rng.shuffle(ins)
        out += ins
    return "\n".join(out)


def gen_circuit(rng):
    for _ in range(20):
        lines = gen_base(rng)
        good, M = deterministic_sets(lines)
        if good:
            return annotate(rng, lines, good, M)
    return "R 0\nM 0\nOBSERVABLE_INCLUDE(0) rec[-1]"


DIRECTED = [
    SECTION6,
    "R 0 1\nX_ERROR(0.125) 0\nM 0\nOBSERVABLE_INCLUDE(0) rec[-1]\nMXX 0 1\nMXX 0 1\nDETECTOR rec[-1] rec[-2]",
    "R 0 1\nX_ERROR(0.125) 0\nM 0\nOBSERVABLE_INCLUDE(0) rec[-1]\nMPAD 0 0",
    "R 0 1\nX_ERROR(0.125) 0\nM 0\nOBSERVABLE_INCLUDE(0) rec[-1]\nHERALDED_ERASE(0.01) 1\nDETECTOR rec[-1]",
    "R 0 1\nX_ERROR(0.125) 0\nM 0\nOBSERVABLE_INCLUDE(0) rec[-1]\nHERALDED_PAULI_CHANNEL_1(0.01, 0, 0, 0) 1",
    "R 0 1\nX_ERROR(0.125) 0\nM 0\nOBSERVABLE_INCLUDE(0) rec[-1]\nMPP Z0*Z1 Z1\nDETECTOR rec[-1]",
    # separate MPP instructions with the same number of target tokens but different numbers of results, after an observable
    "R 0 1 2 3\nX_ERROR(0.125) 0\nX_ERROR(0.25) 1\nX_ERROR(0.375) 2\nM 0\nOBSERVABLE_INCLUDE(0) rec[-1]\nMPP Z0*Z1\nTICK\nMPP Z2 Z3 Z1\nDETECTOR rec[-1]\nDETECTOR rec[-2]\nDETECTOR rec[-4]",
    "R 0 1 2\nX_ERROR(0.125) 0\nX_ERROR(0.25) 2\nM 2\nOBSERVABLE_INCLUDE(1) rec[-1]\nMPP Z0 Z1 Z2\nTICK\nMPP Z0*Z2\nTICK\nMPP Z1*Z2 Z0*Z1*Z2 Z0\nOBSERVABLE_INCLUDE(0) rec[-1]\nMPP Z0*Z1*Z2*Z0*Z1\nDETECTOR rec[-1] rec[-2]",
    "R 0 1\nX_ERROR(0.125) 0\nM 0\nOBSERVABLE_INCLUDE(2) rec[-1]\nMZZ 0 1\nOBSERVABLE_INCLUDE(0) rec[-1]\nMYY 0 1\nMYY 0 1\nOBSERVABLE_INCLUDE(2) rec[-1] rec[-2]\nMR 1\nM 1\nOBSERVABLE_INCLUDE(0) rec[-1]",
    "R 0\nREPEAT 3 {\n    X_ERROR(0.125) 0\n    MR 0\n    OBSERVABLE_INCLUDE(0) rec[-1]\n    DETECTOR(1) rec[-1]\n    MPAD 1\n}",
    "R 0 1\nM 0 1\nOBSERVABLE_INCLUDE(1) rec[-1]\nDEPOLARIZE2(0.125) 0 1\nMZZ 0 1\nM 0 1\nDETECTOR(0.5) rec[-1] rec[-2] rec[-3]\nOBSERVABLE_INCLUDE(1) rec[-2]",
    "RX 0\nZ_ERROR(0.25) 0\nMRX 0\nOBSERVABLE_INCLUDE(0) rec[-1]\nMX 0\nMY 0\nMRY 0\nMY 0\nOBSERVABLE_INCLUDE(0) rec[-1] rec[-4]",
    # instructions without targets: an empty DETECTOR (a detector that never fires) before / between the others, observables declared
    # out of order; empty OBSERVABLE_INCLUDE; TICKs and SHIFT_COORDS without effect on the analysis
    "R 0 1 2\nX_ERROR(0.125) 0\nX_ERROR(0.25) 1\nX_ERROR(0.375) 2\nM 0 1 2\nDETECTOR rec[-3]\nDETECTOR\nDETECTOR rec[-3] rec[-2]\nOBSERVABLE_INCLUDE(1) rec[-1]\nOBSERVABLE_INCLUDE(0) rec[-2]",
    "R 0 1\nX_ERROR(0.125) 0\nX_ERROR(0.25) 1\nDETECTOR\nM 0 1\nOBSERVABLE_INCLUDE(2) rec[-1]\nTICK\nDETECTOR(1, 2)\nOBSERVABLE_INCLUDE(0) rec[-2]\nDETECTOR rec[-1] rec[-2]\nSHIFT_COORDS(1)\nOBSERVABLE_INCLUDE(1) rec[-1] rec[-2]",
    "R 0\nX_ERROR(0.125) 0\nM 0\nDETECTOR\nOBSERVABLE_INCLUDE(0) rec[-1]\nDETECTOR rec[-1]",
    # a genuine probability-1/2 error with a detector AND an observable symptom, one with detector symptoms only
    "R 0 1\nX_ERROR(0.5) 0\nM 0\nDETECTOR rec[-1]\nOBSERVABLE_INCLUDE(0) rec[-1]\nX_ERROR(0.5) 1\nM 1\nDETECTOR rec[-1]",
]


# ---------------------------------------------------------------------------------------------------
# the spy: what dem.py hands to stim
# ---------------------------------------------------------------------------------------------------
class Spy:
    def __init__(self):
        self.captured = []

    def __enter__(self):
        import tsim.noise.dem as D
        spy = self

        class Rec(stim.Circuit):
            def detector_error_model(self, **kw):
                spy.captured.append((stim.Circuit(str(self)), dict(kw)))
                return stim.Circuit.detector_error_model(self, **kw)

        class Proxy:
            Circuit = Rec

            def __getattr__(self, n):
                return getattr(stim, n)

        self.D = D
        D.stim = Proxy()
        return self

    def __exit__(self, *a):
        self.D.stim = stim


def abstract(flat: stim.Circuit, produces):
    """stim instruction list -> (Coq literal list, python mirror)"""
    out = []
    for ins in flat:
        if ins.name == "OBSERVABLE_INCLUDE":
            out.append(("DObs", int(ins.gate_args_copy()[0]), [t.value for t in ins.targets_copy()]))
        elif ins.name == "DETECTOR":
            out.append(("DDet", [t.value for t in ins.targets_copy()]))
        elif ins.name in produces:
            out.append(("DMeas", ins.name, [len([t for t in g if not t.is_combiner]) for g in ins.target_groups()]))
        else:
            out.append(("DOther", ins.name, len(ins.targets_copy())))
    return out


def coq_dins(a) -> str:
    if a[0] == "DObs":
        return f"DObs {cq.z(a[1])} {cq.zlist(a[2])}"
    if a[0] == "DDet":
        return f"DDet {cq.zlist(a[1])}"
    if a[0] == "DMeas":
        return f'DMeas "{a[1]}" [' + "; ".join(f"{n}%nat" for n in a[2]) + "]"
    return f'DOther "{a[1]}" {a[2]}%nat'


def expected_relocated(flat: stim.Circuit, trailing):
    """the circuit dem.py should hand to stim according to the model's trailing detectors"""
    c = stim.Circuit()
    for ins in flat:
        if ins.name == "OBSERVABLE_INCLUDE":
            continue
        c.append_operation(ins.name, ins.targets_copy(), ins.gate_args_copy())
    for _idx, lbs in trailing:
        c.append_operation("DETECTOR", [stim.target_rec(t) for t in lbs])
    return c


# ---------------------------------------------------------------------------------------------------
def needs_approx(text):
    return "HERALDED" in text or "PAULI_CHANNEL" in text


def differential(text, flags):
    """returns None (agree / Stim cannot / documented rejection), or a dict describing the disagreement"""
    from tsim import Circuit
    try:
        ref = stim.Circuit(text).detector_error_model(**flags)
    except Exception:
        return None                              # the property only speaks about circuits Stim accepts
    try:
        got = Circuit(text).detector_error_model(**flags)
    except ValueError as e:
        if flags.get("decompose_errors"):
            return None                          # documented: decomposition is not supported
        b = canon(ref)
        if "number of observables changed" in str(e) and any(k[0] == "0.5" and not k[1] and k[2] for k in b[0]):
            # the filter removed the only mechanism mentioning the highest observable; dem.py notices the count
            return {"kind": "filter", "error": str(e)[:200], "tsim": None, "stim": show_canon(b)}
        return {"kind": "tsim-raised", "error": str(e)[:300], "stim": show_canon(b)}
    except Exception as e:
        return {"kind": "tsim-raised", "error": repr(e)[:300], "stim": show_canon(canon(ref))}
    if flags.get("decompose_errors"):
        return {"kind": "decompose-not-rejected"}
    a, b = canon(got), canon(ref)
    if a == b:
        return None
    missing = b[0] - a[0]
    extra = a[0] - b[0]
    only_half_L = (not extra and a[1:] == b[1:] and missing
                   and all(k[0] == "0.5" and not k[1] and k[2] for k in missing))
    return {"kind": "filter" if only_half_L else "dem-differs", "tsim": show_canon(a), "stim": show_canon(b)}


def meas_names_of(text):
    names = set()
    produces = {n for n, g in stim.gate_data().items() if g.produces_measurements}
    for ins in stim.Circuit(text).flattened():
        if ins.name in produces:
            names.add(ins.name)
    return sorted(names)


def shrink_text(text, flags, kind):
    lines = text.split("\n")
    if any("REPEAT" in l or l.strip() == "}" for l in lines):
        return text
    changed = True
    while changed:
        changed = False
        for i in range(len(lines) - 1, -1, -1):
            cand = lines[:i] + lines[i + 1:]
            try:
                d = differential("\n".join(cand), flags)
            except Exception:
                d = None
            if d is not None and d["kind"] == kind:
                lines = cand
                changed = True
    return "\n".join(lines)


def run(ctx: Ctx) -> int:
    model_ok = standard_model_phase(ctx, TRANSLATORS, COQ_FILES, "Props.C18", "Props/C18.v")
    ctx.trusted += [
        "translator /verif/translate/dem_facts.py (Python ast -> facts of Model/DemFacts.v; Stim gate table from stim.gate_data())",
        "Stim's error analysis is an oracle (C18_dem quantifies over every analysis that sees annotations through their measurement sets)",
    ]
    try:
        from tsim import Circuit
        import tsim.noise.dem  # noqa
    except Exception as e:
        ctx.violation("import-failure", f"tsim cannot be imported: {e!r}", {"error": repr(e)}, no_failing_input=True)
        return ctx.finish("n/a")
    model_usable = not any(b.startswith("translator:") or "Model/Dem" in b or "Gen_dem" in b for b in ctx.broken)
    rng = ctx.rng
    quick = ctx.quick
    produces = {n for n, g in stim.gate_data().items() if g.produces_measurements}

    circuits = list(DIRECTED)
    for _ in range(150 if quick else 3000):
        circuits.append(gen_circuit(rng))

    # ---- differential against Stim, every forwarded flag ----
    reported = 0
    used_names = Counter()
    for ci, text in enumerate(circuits):
        names = meas_names_of(text)
        for n in names:
            used_names[n] += 1
        n_obs_before = 0
        seen_obs = False
        for ins in stim.Circuit(text).flattened():
            if ins.name == "OBSERVABLE_INCLUDE":
                seen_obs = True
            elif seen_obs and ins.name in produces:
                n_obs_before += 1
        for flags in FLAG_SETS:
            fl = dict(flags)
            if needs_approx(text) and "decompose_errors" not in fl:
                fl.setdefault("approximate_disjoint_errors", True)
            ctx.count((text, json.dumps(fl, sort_keys=True)), nontrivial=n_obs_before > 0,
                      bucket="obs-before-later-measurements" if n_obs_before else "obs-after-all-measurements")
            d = differential(text, fl)
            if d is None:
                continue
            if d["kind"] == "filter":
                small = shrink_text(text, fl, "filter") if text != SECTION6 else text
                ctx.violation(FILTER_KEY, "the 0.5-gauge filter removes a genuine mechanism: Stim has " +
                              str([m for m in d["stim"]["mechanisms"] if m[0] == "0.5" and not m[1]]) + " on " + repr(small)[:300],
                              {"circuit": small, "flags": fl, **d})
                continue
            if reported >= 6:
                continue
            small = shrink_text(text, fl, d["kind"])
            key = f"{d['kind']}:" + "+".join(meas_names_of(small)) + ("" if not fl.get("decompose_errors") else ":decompose")
            d2 = differential(small, fl) or d
            before = len(ctx.violations)
            ctx.violation(key, f"Circuit.detector_error_model({fl}) differs from Stim on {small!r}: tsim {json.dumps(d2.get('tsim', d2.get('error')))[:300]} "
                               f"stim {json.dumps(d2.get('stim'))[:300]}", {"circuit": small, "flags": fl, **d2})
            reported += len(ctx.violations) - before
        if ci < 3:
            ctx.sample({"circuit": text, "stim_dem": str(stim.Circuit(text).detector_error_model(
                approximate_disjoint_errors=True, allow_gauge_detectors=True))[:300]})
    # ---- the model of ONE circuit object asked repeatedly, with in-place changes in between (pop, pop(i), +=, *=, append): every answer is
    #      the model of the circuit as it is at that moment
    hist_n = 0
    for text in [t for t in circuits if t.count("\n") >= 3][: (25 if quick else 300)]:
        try:
            c = Circuit(text)
        except Exception:
            continue
        fl = {"approximate_disjoint_errors": True, "allow_gauge_detectors": True}
        ops_done = []
        bad_h = None
        for step in range(3):
            try:
                c.detector_error_model(**fl)          # ask before the change
            except Exception:
                pass
            op = rng.choice(["pop", "pop0", "popmid", "iadd", "imul", "append"])
            try:
                if op == "pop" and len(c) > 2:
                    c.pop()
                elif op == "pop0" and len(c) > 2:
                    c.pop(0)
                elif op == "popmid" and len(c) > 3:
                    c.pop(len(c) // 2)
                elif op == "iadd":
                    c += Circuit("X_ERROR(0.125) 0\nM 0\nDETECTOR rec[-1]")
                elif op == "imul":
                    c *= 2
                elif op == "append":
                    c.append_from_stim_program_text("Z_ERROR(0.25) 0\nMX 0\nOBSERVABLE_INCLUDE(0) rec[-1]")
                else:
                    continue
            except Exception:
                break
            ops_done.append(op)
            try:
                ref = c.stim_circuit.copy().detector_error_model(**fl)      # the object, not its text (printing rounds the arguments)
            except Exception:
                continue                           # Stim cannot analyse the changed circuit: not a case
            try:
                got = c.detector_error_model(**fl)
            except Exception:
                continue                           # loud (e.g. the documented gauge filter) -- the differential above covers fresh circuits
            hist_n += 1
            ctx.count(("dem-history", text, tuple(ops_done)), nontrivial=True, bucket="dem-after-in-place-change")
            a, b = canon(got), canon(ref)
            if a != b and not (not (a[0] - b[0]) and a[1:] == b[1:] and all(k[0] == "0.5" and not k[1] and k[2] for k in (b[0] - a[0]))):
                bad_h = (f"after detector_error_model(); {'; '.join(ops_done)}: detector_error_model() = {json.dumps(show_canon(a))[:300]} but the circuit now is "
                         f"{str(c.stim_circuit)!r}, for which Stim gives {json.dumps(show_canon(b))[:300]}")
                break
        if bad_h:
            ctx.violation("dem-after-change:" + ops_done[-1], "the detector error model of a circuit object changed in place is not the model of its current content: " + bad_h,
                          {"circuit": text, "ops": ops_done, "kind": "history"})
            break
    ctx.cov["dem_history_steps"] = hist_n
    ctx.cov["circuits"] = len(circuits)
    ctx.cov["record_appending_instructions_used"] = dict(used_names)
    missing_names = sorted(produces - set(used_names))
    if missing_names:
        ctx.broken.append(f"correspondence:generator never used the record-appending instructions {missing_names}")

    # ---- model vs implementation: the relocated circuit ----
    if model_usable:
        try:
            cases = []
            with Spy() as spy:
                for text in circuits:
                    spy.captured.clear()
                    c = Circuit(text)
                    try:
                        c.detector_error_model(approximate_disjoint_errors=True, allow_gauge_detectors=True)
                    except Exception:
                        pass
                    if spy.captured:
                        cases.append((text, c.stim_circuit.flattened(), spy.captured[0]))
            terms = ["show_reloc [" + "; ".join(coq_dins(a) for a in abstract(flat, produces)) + "]" for _, flat, _ in cases]
            res = []
            for i in range(0, len(terms), 300):
                res += cq.eval_terms(f"c18_reloc_{i // 300}", IMPORTS, terms[i:i + 300])
            bad = 0
            for (text, flat, (cap, kw)), r in zip(cases, res):
                trailing, n_kept, counts = r
                trailing = [(int(t[0]), [int(x) for x in t[1]]) for t in trailing]
                exp = expected_relocated(flat, trailing)
                true_counts = [ins.num_measurements for ins in flat]
                why = None
                if str(exp) != str(cap):
                    why = f"model predicts the relocated circuit {str(exp)!r}, dem.py handed {str(cap)!r} to stim"
                elif kw.get("allow_gauge_detectors") is not True:
                    why = f"dem.py called stim with {kw}"
                elif [int(x) for x in counts] != true_counts and False:
                    why = "count rule"
                if why:
                    bad += 1
                    if bad <= 3:
                        ctx.broken.append(f"correspondence:relocation: {why[:600]} on {text!r}"[:900])
            ctx.cov["relocated_circuits_compared_with_model"] = len(cases)
        except Exception as e:
            ctx.broken.append(f"correspondence:model evaluation failed: {str(e)[:500]}")

    if ctx.broken and not ctx.violations:
        report_broken_without_input(ctx)
    return ctx.finish(
        rule="case = (annotated stabilizer circuit, flag set): 11 directed circuits + generated ones (150 quick / 3000 thorough) from "
             "one PRNG (VERIF_SEED), each with the 8 flag sets tsim forwards. Circuits use every record-appending instruction "
             "(M MX MY MR MRX MRY MPP MXX MYY MZZ MPAD HERALDED_ERASE HERALDED_PAULI_CHANNEL_1), noise incl. p=0.5, detectors and "
             "observables chosen among parities Stim finds deterministic on the noiseless circuit (a quarter of the circuits also get gauge detectors, accepted by Stim only with allow_gauge_detectors), observable declarations split "
             "into several OBSERVABLE_INCLUDEs placed right after their measurements, later, or at the end, indices repeated / "
             "out of order / with gaps. non-trivial = some record-appending instruction follows an OBSERVABLE_INCLUDE.",
        explanation="Theorems C18_* over the regenerated facts; see DESIGN.md 4.C18",
        assumptions=["Stim's detector_error_model depends on DETECTOR/OBSERVABLE_INCLUDE only through their measurement sets"],
    )


def replay(ctx: Ctx, obj) -> int:
    r = obj.get("replay") or {}
    print(json.dumps(r, indent=1)[:3000])
    if "circuit" not in r:
        return 1
    d = differential(r["circuit"], r.get("flags") or {})
    if d is None:
        print("tsim now agrees with Stim on this circuit")
        return 0
    print("STILL DIFFERS:", json.dumps(d)[:1500])
    return 1
