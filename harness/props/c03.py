"""C03 -- detector and observable samples are the parities of the measurement record."""
from __future__ import annotations

import time

from harness.circgen import gen
from harness.common import Ctx, report_broken_without_input, standard_model_phase
from harness.distcheck import MODEL_FILES, MODEL_TRANSLATORS, run_cases

MANIFEST = dict(
    text=("Machine-checked proof (Coq 8.16.1) of the column layout and parity bookkeeping: the order in which "
          "build_sampling_graph creates annotation outputs is REGENERATED from core/graph.py on every run and proved to be "
          "detectors in declaration order followed by observables 0..max index (any declaration order, any gaps, count = "
          "num_observables); in the parse model all OBSERVABLE_INCLUDE(k) accumulate, parities are additive, repeated targets "
          "cancel, lookbacks resolve to absolute measurement indices (all lists, by induction). That the annotation X spider "
          "computes the XOR is pyzx-level (oracle): the detector sampler's exact joint distribution (forced sampling) is compared "
          "on every run with the parities of the reference simulator's record distribution -- actual parities, no reference shot -- "
          "and with the Coq circuit model, on generated circuits with out-of-order, repeated and sparse observable indices."),
    note=("Trusted: as C01; translate/sampling_graph.py. The CompiledDetectorSampler column split is C13. "
          "Print Assumptions: closed under the global context."),
    technique="Coq proofs over a translated output-order function and the parse model (induction over lists) + exact detector-sampler distribution vs reference parities",
    design_ref="DESIGN.md 4.C03",
)
COQ_FILES = MODEL_FILES + ["gen/Gen_sampling_graph.v", "Proofs/AnnotProofs.v", "Props/C03.v"]


def run(ctx: Ctx) -> int:
    standard_model_phase(ctx, MODEL_TRANSLATORS + ["sampling_graph"], COQ_FILES, "Props.C03", "Props/C03.v")
    ctx.trusted += ["as C01: hand models Lane.v/Parse.v, pyzx/JAX oracles, reference simulator", "translate/sampling_graph.py"]
    rng = ctx.np_rng()
    import tsim
    corpus = ["X 0\nM 0 1\nOBSERVABLE_INCLUDE(1) rec[-2]\nOBSERVABLE_INCLUDE(0) rec[-1]",
              "X 0\nH 1\nM 0 1\nDETECTOR rec[-1]\nOBSERVABLE_INCLUDE(3) rec[-2]\nOBSERVABLE_INCLUDE(1) rec[-1] rec[-2]\nOBSERVABLE_INCLUDE(3) rec[-1]",
              "X 0\nM 0\nOBSERVABLE_INCLUDE(2) rec[-1]", "X 0\nM 0\nDETECTOR rec[-1]",
              "H 0\nCX 0 1\nX_ERROR(0.25) 1\nM 0 1\nDETECTOR rec[-1] rec[-2]\nOBSERVABLE_INCLUDE(0) rec[-1]",
              "X 0\nM 0\nOBSERVABLE_INCLUDE(0) rec[-1]\nM 0\nOBSERVABLE_INCLUDE(0) rec[-1] rec[-2]\nH 0\nM 0\nDETECTOR rec[-1] rec[-3]\nDETECTOR rec[-2]",
              "RX 0\nT 0\nMX 0\nDETECTOR rec[-1] rec[-1]\nOBSERVABLE_INCLUDE(1) rec[-1]",
              "X 0\nM 0\nDETECTOR rec[-1]\nOBSERVABLE_INCLUDE(0) rec[-1]\nMX 0\nDETECTOR rec[-1]"]
    # a correlated-error chain followed by another channel before the chain is finalized (bit numbering of the chain is fixed at the finalize)
    corpus = ["RY 4\nT_DAG 4\nSQRT_Y 4 4\nH_YZ 4\nE(0.25) X4\nH_XZ 4\nT 4\nDEPOLARIZE1(0.125) 4\nH_XY 4 4\nMY 4\nDETECTOR rec[-1]",
               "H 0\nE(0.25) X0\nELSE_CORRELATED_ERROR(0.5) Z0\nX_ERROR(0.125) 0\nM 0\nE(0.5) X0\nZ_ERROR(0.25) 0\nMX 0\nDETECTOR rec[-1] rec[-2]\nOBSERVABLE_INCLUDE(0) rec[-1]"] + corpus
    # a measurement that no annotation reads still collapses the state (detector sampler): unread mid-circuit measurements followed by
    # non-commuting gates and a measurement that IS read; unread measurements whose references cancel; unread MR
    corpus = ["H 0\nM 0\nH 0\nM 0\nDETECTOR rec[-1]", "H 0\nT 0\nH 0\nM 0\nH 0\nT 0\nH 0\nM 0\nOBSERVABLE_INCLUDE(0) rec[-1]",
              "H 0\nCX 0 1\nM 1\nH 0\nM 0\nDETECTOR rec[-1]", "H 0\nM 0\nDETECTOR rec[-1] rec[-1]\nH 0\nM 0\nDETECTOR rec[-1]",
              "RX 0\nMY 0\nMX 0\nM 0\nDETECTOR rec[-2]\nOBSERVABLE_INCLUDE(1) rec[-1]", "H 0\nMR 0\nH 0\nM 0\nM 0\nDETECTOR rec[-1] rec[-2]\nDETECTOR rec[-1]"] + corpus
    # more than ten observables, declared out of order with a gap (indices with two digits; index 5 never declared)
    obs_order = [3, 11, 0, 10, 7, 1, 9, 2, 8, 4, 6]
    corpus.append("X 0 2 3 7 10\nM 0 1 2 3 4 5 6 7 8 9 10 11\n" + "\n".join(f"OBSERVABLE_INCLUDE({k}) rec[-{12 - k}]" for k in obs_order) + "\nDETECTOR rec[-1] rec[-12]")
    corpus.append("H 10\nX 1\nM 0 1 2 3 4 5 6 7 8 9 10\n" + "\n".join(f"OBSERVABLE_INCLUDE({k}) rec[-{11 - k}]" for k in [10, 1, 0, 2]))
    cases = [(t, {"corpus": 1}, False) for t in corpus]
    for _ in range(25 if ctx.quick else 600):
        noisy = rng.random() < 0.4
        cases.append(gen(rng, nq_max=3, max_meas=5, max_noise=(2 if noisy else 0), annotated=True, max_instr=12))
    stats = run_cases(ctx, cases, det=True, label="parity", model_max=(30 if ctx.quick else 200),
                      deadline=time.time() + (150 if ctx.quick else 1500))
    # number of columns = num_detectors + num_observables on the implementation
    for t, _, _ in cases[:40]:
        try:
            c = tsim.Circuit(t)
            s = c.compile_detector_sampler(seed=1).sample(2, append_observables=True)
        except Exception:
            continue
        ctx.count(("shape", t), bucket="column-count")
        if s.shape[1] != c.num_detectors + c.num_observables:
            ctx.violation("columns:" + t.replace("\n", ";")[:60], f"{s.shape[1]} columns, expected {c.num_detectors}+{c.num_observables}", {"text": t, "det": True})
    # which columns are detectors and which are observables, for every way of asking (deterministic circuits, incl. NO observable / NO detector)
    import numpy as np
    for text, dets, obs in [("X 0 2\nM 0 1 2\nDETECTOR rec[-3]\nDETECTOR rec[-2]\nDETECTOR rec[-1]", [1, 0, 1], []),
                            ("X 1\nM 0 1\nOBSERVABLE_INCLUDE(0) rec[-1]\nOBSERVABLE_INCLUDE(2) rec[-2]", [], [1, 0, 0]),
                            ("X 0\nM 0 1\nDETECTOR rec[-1]\nDETECTOR rec[-2]\nOBSERVABLE_INCLUDE(1) rec[-2]", [0, 1], [0, 1]),
                            ("X 0 2\nM 0 1 2\nDETECTOR rec[-3]\nDETECTOR rec[-2]\nDETECTOR rec[-1]\nOBSERVABLE_INCLUDE(0) rec[-1]\nOBSERVABLE_INCLUDE(1) rec[-2]\nOBSERVABLE_INCLUDE(2) rec[-3]",
                             [1, 0, 1], [1, 0, 1]),
                            ("X 0 3 4 8\nM 0 1 2 3 4 5 6 7 8\n" + "\n".join(f"DETECTOR rec[-{9 - k}]" for k in range(9)) + "\nOBSERVABLE_INCLUDE(0) rec[-1]\nOBSERVABLE_INCLUDE(1) rec[-2]",
                             [1, 0, 0, 1, 1, 0, 0, 0, 1], [1, 0])]:
        try:
            c_obj = tsim.Circuit(text)
            smp = c_obj.compile_detector_sampler(seed=3)
            plain = np.asarray(smp.sample(3)).astype(int)
            app = np.asarray(smp.sample(3, append_observables=True)).astype(int)
            pre = np.asarray(smp.sample(3, prepend_observables=True)).astype(int)
            sep = smp.sample(3, separate_observables=True)
            sd, so = np.asarray(sep[0]).astype(int), np.asarray(sep[1]).astype(int)
        except Exception as e:
            ctx.violation("detector-columns-raises:" + text.replace("\n", ";")[:50], f"detector sampler raised {e!r}", {"text": text, "det": True})
            continue
        ctx.count(("cols", text), bucket="detector-observable-columns")
        # the same layouts bit-packed: unpacking the bytes (little-endian bits) gives the unpacked row, padded with zeros
        for flags, ref_rows in (({}, plain), ({"append_observables": True}, app), ({"prepend_observables": True}, pre)):
            try:
                packed = np.asarray(smp.sample(3, bit_packed=True, **flags))
            except Exception as e:
                ctx.violation(f"detector-columns-bit-packed-raises:" + text.replace("\n", ";")[:40], f"bit_packed sample raised {e!r}", {"text": text, "det": True, "flag": str(flags)})
                continue
            w = ref_rows.shape[1]
            un = np.unpackbits(packed.astype(np.uint8), axis=1, bitorder="little") if packed.size else np.zeros((3, 0), dtype=np.uint8)
            ok = packed.shape == (3, (w + 7) // 8) and np.array_equal(un[:, :w].astype(int), ref_rows) and not un[:, w:].any()
            ctx.count(("cols-packed", text, str(flags)), bucket="detector-observable-columns-bit-packed")
            if not ok:
                ctx.violation(f"detector-columns-bit-packed-{'-'.join(flags) or 'plain'}:" + text.replace("\n", ";")[:40],
                              f"bit_packed {flags}: bytes {packed.tolist()} do not unpack to the rows {ref_rows.tolist()} ({w} columns)",
                              {"text": text, "det": True, "flag": "bit_packed " + str(flags)})
                break
        want = {"plain": [dets] * 3, "append": [dets + obs] * 3, "prepend": [obs + dets] * 3, "separate-detectors": [dets] * 3, "separate-observables": [obs] * 3}
        got = {"plain": plain.tolist(), "append": app.tolist(), "prepend": pre.tolist(), "separate-detectors": sd.tolist(), "separate-observables": so.tolist()}
        for k_ in want:
            if got[k_] != want[k_] and not (want[k_] == [[]] * 3 and np.asarray(got[k_]).size == 0):
                ctx.violation(f"detector-columns-{k_}:" + text.replace("\n", ";")[:50], f"{k_}: rows {got[k_]}, expected {want[k_]} (detectors then observables 0..K-1)",
                              {"text": text, "det": True, "flag": k_})
                break
        # a compiled sampler is a snapshot: changing the circuit object afterwards (more detectors, observables, measurements; pop) does not
        # change what the sampler returns
        try:
            c_obj.append_from_stim_program_text("M 0\nDETECTOR rec[-1]\nDETECTOR rec[-1] rec[-1]\nOBSERVABLE_INCLUDE(5) rec[-1]")
            c_obj += tsim.Circuit("DETECTOR rec[-1]")
            later = {"plain": np.asarray(smp.sample(3)).astype(int).tolist(),
                     "append": np.asarray(smp.sample(3, append_observables=True)).astype(int).tolist(),
                     "prepend": np.asarray(smp.sample(3, prepend_observables=True)).astype(int).tolist()}
            sep2 = smp.sample(3, separate_observables=True)
            later["separate-detectors"], later["separate-observables"] = np.asarray(sep2[0]).astype(int).tolist(), np.asarray(sep2[1]).astype(int).tolist()
            c_obj.pop()
            c_obj.pop()
            later2 = np.asarray(smp.sample(3, append_observables=True)).astype(int).tolist()
            ctx.count(("cols-after-mutation", text), bucket="sampler-is-a-snapshot-of-the-circuit")
            for k_ in got:
                if later[k_] != got[k_] and not (np.asarray(got[k_]).size == 0 and np.asarray(later[k_]).size == 0):
                    ctx.violation(f"detector-columns-after-circuit-change-{k_}:" + text.replace("\n", ";")[:40],
                                  f"{k_}: a detector sampler compiled BEFORE the circuit object was extended returns {later[k_]} afterwards, {got[k_]} before",
                                  {"text": text, "det": True, "flag": k_ + " after the circuit object was changed"})
                    break
            else:
                if later2 != got["append"]:
                    ctx.violation("detector-columns-after-circuit-pop:" + text.replace("\n", ";")[:40],
                                  f"append: a detector sampler returns {later2} after pop() on its circuit object, {got['append']} before",
                                  {"text": text, "det": True, "flag": "append after pop"})
        except Exception as e:
            ctx.violation("detector-columns-after-circuit-change-raises:" + text.replace("\n", ";")[:40], f"sampling after the circuit object was changed raised {e!r}",
                          {"text": text, "det": True})
    # the detector columns do not depend on whether observables are asked for: a sampler with the same seed returns the same detector bits
    # with and without append_observables, also when a random detector shares its component with an observable
    for text in ["H 0\nCX 0 1\nM 0 1\nDETECTOR rec[-2]\nOBSERVABLE_INCLUDE(0) rec[-1]",
                 "H 0 2\nCX 0 1\nT 2\nH 2\nM 0 1 2\nDETECTOR rec[-3]\nDETECTOR rec[-1]\nOBSERVABLE_INCLUDE(1) rec[-2] rec[-1]",
                 "H 0\nCX 0 1\nX_ERROR(0.25) 1\nM 0 1\nDETECTOR rec[-1] rec[-2]\nDETECTOR rec[-2]\nOBSERVABLE_INCLUDE(0) rec[-1]\nOBSERVABLE_INCLUDE(2) rec[-2]"]:
        try:
            c_ = tsim.Circuit(text)
            plain_ = np.asarray(c_.compile_detector_sampler(seed=9).sample(96)).astype(int)
            with_ = np.asarray(c_.compile_detector_sampler(seed=9).sample(96, append_observables=True)).astype(int)
            sep_ = c_.compile_detector_sampler(seed=9).sample(96, separate_observables=True)
        except Exception as e:
            ctx.violation("detector-bits-flag-dependence-raises:" + text.replace("\n", ";")[:40], f"detector sampler raised {e!r}", {"text": text, "det": True})
            continue
        nd_ = c_.num_detectors
        ctx.count(("flag-independent", text), nontrivial=True, bucket="detector-bits-independent-of-observable-flags")
        if not (np.array_equal(plain_, with_[:, :nd_]) and np.array_equal(plain_, np.asarray(sep_[0]).astype(int))):
            ctx.violation("detector-bits-depend-on-observable-flags:" + text.replace("\n", ";")[:50],
                          f"same seed: sample() returns detector rows with mean {plain_.mean(axis=0).round(3).tolist()}, sample(append_observables=True) rows with mean "
                          f"{with_[:, :nd_].mean(axis=0).round(3).tolist()} in the detector columns (they must be identical bit for bit)",
                          {"text": text, "det": True, "flag": "plain vs append_observables, same seed"})
    ctx.cov.update({"stats": stats})
    if ctx.broken and not ctx.violations:
        report_broken_without_input(ctx)
    return ctx.finish(
        rule="generated annotated circuits (1-3 qubits, <=5 measurements, <=3 detectors, <=4 OBSERVABLE_INCLUDE with indices from {0,1,2,3} in any "
             "order, repeated targets, annotations interleaved with later measurements, 40% with Pauli noise) + corpus of out-of-order/sparse "
             "index cases; exact joint distribution of (detectors, observables 0..K-1) compared on every outcome. non-trivial = more than one "
             "outcome with positive probability",
        explanation="C03_* theorems; exact detector-sampler distribution vs parities of the reference record distribution and the Coq model",
        assumptions=["pyzx_param and JAX are oracles (X spider = XOR)"],
    )


def replay(ctx: Ctx, obj) -> int:
    from harness.distcheck import impl_vs_ref
    r = obj.get("replay") or {}
    d, dt, dr, _ = impl_vs_ref(r["text"], True, 1e-6)
    print("max |tsim - reference| =", d)
    return 0 if d <= 1e-5 else 1
