"""C11 -- diagram surgery (decomposition, components, plugging) preserves value.

Tie A (translator `decompose`): the recursion skeleton of stabrank._decompose / find_stab is regenerated into
gen/Gen_decompose.v; C11_decompose (Proofs/DecomposeProofs.v) is re-checked against it.  (translator `sampler_dispatch`:
_plug_outputs, shared with C06.)
Tie B / oracle validation (this file), on the IMPLEMENTATION for prepared, output-plugged diagrams of generated circuits:
  * find_stab(g): sum of the values of the returned scalar diagrams = evaluate_graph(g) for ALL parameter assignments
    (<= 10 bits), non-empty result, no non-Clifford phase left; the run is traced from outside (count / replace /
    full_reduce wrappers) and the Coq model of the recursion is executed on the traced tables: same results, same pruned
    terms; along the trace the ORACLE hypotheses of C11_decompose are validated numerically (replace sums to the value,
    full_reduce preserves it, is_zero => value 0, counts strictly decrease, no arbitrary-angle phase reappears);
  * connected_components(g) on real prepared graphs: partition, no crossing edge, output ownership, sorted indices,
    k-th output of a component = global output output_indices[k], induced subgraph copies types/phases/params/edges; exact
    comparison with the Coq BFS model (vertex lists in discovery order); product of component tensors = tensor of g;
  * _plug_outputs: value of the graph with k outputs plugged = brute-force marginal of the unplugged tensor (validates the
    pyzx conventions assumed by Model/Sampler.v), compared with the Coq plugging model as well.
"""
from __future__ import annotations

import itertools
import json
import signal
import traceback
from fractions import Fraction

import numpy as np

from harness import coqrun as cq
from harness.c06_c11_common import all_bits, circuit_key, count_nonclifford, gen_circuit
from harness.common import Ctx, report_broken_without_input, standard_model_phase

TRANSLATORS = ["decompose", "sampler_dispatch"]
COQ_FILES = ["Base/ListPerm.v", "gen/Gen_decompose.v", "gen/Gen_sampler_dispatch.v", "Model/Decompose.v", "Model/Components.v",
             "Model/Sampler.v", "Proofs/DecomposeProofs.v", "Proofs/ComponentsProofs.v", "Proofs/SamplerProofs.v", "Props/C11.v"]
IMPORTS = ("From Coq Require Import QArith ZArith List Bool Arith. Import ListNotations.\n"
           "Require Import TV.Base.ListPerm TV.gen.Gen_decompose TV.gen.Gen_sampler_dispatch TV.Model.Decompose TV.Model.Components TV.Model.Sampler.\n"
           "Open Scope nat_scope.\n")

MANIFEST = dict(
    text=("Machine-checked proof (Coq 8.16.1). (1) The recursion skeleton of stabrank._decompose (loop over graphs, keep when "
          "count==0, replace, full_reduce, the is_zero pruning rule with its len(results)>0 guard, recursion) and find_stab's "
          "composition (reduce, U3 pass, magic-state pass) are REGENERATED from /repo/src on every run by a fail-closed ast "
          "translator into a fuelled interpreter over abstract count/replace/reduce/is_zero; with pyzx's decompositions as explicit "
          "oracle hypotheses (replace sums to the value, full_reduce preserves it, is_zero implies value 0, the count strictly "
          "decreases, no arbitrary-angle phase reappears) it is proved for every parameter assignment that the returned diagrams sum "
          "to the value of the input, the result is non-empty, only zero-valued terms are pruned, no fuel exhaustion "
          "(C11_decompose, C11_decompose_pass). (2) For a BFS model of connected_components over any finite undirected graph: the "
          "components partition the vertices, no edge leaves a component, every output is owned by exactly one component, "
          "output_indices is sorted and the k-th output of the induced subgraph is global output output_indices[k]; with the "
          "disjoint-union oracle the tensor is the product of the component tensors in original index order (C11_components, "
          "C11_components_tensor). (3) Plugging k outputs yields the marginal of the prefix (C11_plug = C06_plug). The harness runs "
          "the real find_stab / connected_components / _plug_outputs on prepared diagrams of generated circuits with 0-14 non-Clifford "
          "phases (T-like and arbitrary-angle families mixed), all parameter assignments <= 10 bits, compares with evaluate_graph / "
          "to_tensor / brute-force marginals, executes the Coq models on the traced runs and validates every oracle hypothesis numerically."),
    note=("Trusted: Coq kernel + vm_compute; translators translate/decompose.py and translate/sampler_dispatch.py; hand models "
          "Model/Components.v (tied by exact comparison of BFS vertex lists and output indices) and Model/Sampler.v plugging part (tied "
          "numerically); pyzx_param's full_reduce / replace_u3_states / replace_magic_states / tensor semantics are oracles, validated "
          "numerically (1e-6 relative) on the calls the implementation actually makes, not proved. _induced_subgraph's copying of vertex "
          "data is checked structurally on real graphs only. Print Assumptions of every C11_* theorem: closed under the global context."),
    technique="Coq proof (nested induction over the recursion with fuel monotonicity; BFS invariant with a potential-function fuel bound; sorted-permutation uniqueness) + ast translator + traced-run correspondence",
    design_ref="DESIGN.md 4.C11",
)

RTOL = 1e-6


class Timeout(Exception):
    pass


class time_limit:
    """SIGALRM watchdog (a mutated BFS that never marks vertices visited does not terminate)"""

    def __init__(self, seconds: int):
        self.seconds = seconds

    def __enter__(self):
        def handler(signum, frame):
            raise Timeout(f"no result after {self.seconds}s")
        self.old = signal.signal(signal.SIGALRM, handler)
        signal.alarm(self.seconds)

    def __exit__(self, *a):
        signal.alarm(0)
        signal.signal(signal.SIGALRM, self.old)


def assignments(names: list[str], rng, cap_bits: int = 10, cap_rows: int | None = None):
    k = len(names)
    if k <= cap_bits and (cap_rows is None or 2 ** k <= cap_rows):
        rows = all_bits(k)
    else:
        rows = rng.integers(0, 2, size=(cap_rows or 2 ** cap_bits, k)).astype(bool)
        rows[0] = False
    return [{p: Fraction(int(b)) for p, b in zip(names, r)} for r in rows]


def value(g, vals) -> complex:
    from tsim.core.graph import evaluate_graph
    return complex(np.asarray(evaluate_graph(g, dict(vals))).reshape(-1)[0])   # pyzx's evaluate_scalar adds entries to the dict it is given


def values(g, assigns) -> np.ndarray:
    return np.array([value(g, v) for v in assigns])


def close(a: np.ndarray, b: np.ndarray, scale: float | None = None) -> bool:
    s = max(float(np.max(np.abs(a), initial=0.0)), float(np.max(np.abs(b), initial=0.0)), 1e-300) if scale is None else scale
    return bool(np.all(np.abs(a - b) <= RTOL * s + 1e-12))


# ---------------------------------------------------------------------------------------------------------------
# find_stab, traced from outside
# ---------------------------------------------------------------------------------------------------------------

class Trace:
    """wrappers around the pyzx functions stabrank.py calls (looked up through the module `zx` at call time)"""

    def __init__(self):
        self.keep = []           # keeps every graph object alive so that id() stays unique
        self.ids = {}
        self.events = []         # ("count", kind, gid, n) | ("replace", kind, parent, [child ids]) | ("reduce", gid, is_zero)
        self.objs = {}
        self.pre_reduce = {}     # gid -> copy of the graph before full_reduce (for oracle validation)
        self.last_counted = None

    def gid(self, g) -> int:
        k = id(g)
        if k not in self.ids:
            self.ids[k] = len(self.ids)
            self.keep.append(g)
            self.objs[self.ids[k]] = g
        return self.ids[k]

    def __enter__(self):
        import pyzx_param as zx
        self.zx = zx
        self.o_tcount, self.o_u3 = zx.simplify.tcount, zx.simplify.u3_count
        self.o_rm, self.o_ru = zx.simulate.replace_magic_states, zx.simulate.replace_u3_states
        self.o_fr = zx.full_reduce
        tr = self
        import sys

        def from_stabrank() -> bool:
            # only calls made by tsim/compile/stabrank.py are part of the trace (pyzx may call its own helpers internally)
            f = sys._getframe(2)
            for _ in range(3):
                if f is None:
                    return False
                if f.f_code.co_filename.endswith("stabrank.py"):
                    return True
                f = f.f_back
            return False

        def tcount(g):
            n = tr.o_tcount(g)
            if not from_stabrank():
                return n
            tr.events.append(("count", "magic", tr.gid(g), int(n)))
            tr.last_counted = tr.gid(g)
            return n

        def u3_count(g):
            n = tr.o_u3(g)
            if not from_stabrank():
                return n
            tr.events.append(("count", "u3", tr.gid(g), int(n)))
            tr.last_counted = tr.gid(g)
            return n

        def replace_magic_states(g, *a, **kw):
            if not from_stabrank():
                return tr.o_rm(g, *a, **kw)
            parent = tr.last_counted
            res = tr.o_rm(g, *a, **kw)
            tr.events.append(("replace", "magic", parent, [tr.gid(x) for x in res.graphs], dict(kw)))
            tr.snap_children(res.graphs)
            return res

        def replace_u3_states(g, *a, **kw):
            if not from_stabrank():
                return tr.o_ru(g, *a, **kw)
            parent = tr.last_counted
            res = tr.o_ru(g, *a, **kw)
            tr.events.append(("replace", "u3", parent, [tr.gid(x) for x in res.graphs], dict(kw)))
            tr.snap_children(res.graphs)
            return res

        def full_reduce(g, *a, **kw):
            if not from_stabrank():
                return tr.o_fr(g, *a, **kw)
            gid = tr.gid(g)
            if gid not in tr.pre_reduce:
                tr.pre_reduce[gid] = g.copy()
            r = tr.o_fr(g, *a, **kw)
            tr.events.append(("reduce", gid, bool(g.scalar.is_zero), dict(kw)))
            return r

        zx.simplify.tcount, zx.simplify.u3_count = tcount, u3_count
        zx.simulate.replace_magic_states, zx.simulate.replace_u3_states = replace_magic_states, replace_u3_states
        zx.full_reduce = full_reduce
        return self

    def snap_children(self, graphs):
        for x in graphs:
            self.pre_reduce[self.gid(x)] = x.copy()

    def __exit__(self, *a):
        zx = self.zx
        zx.simplify.tcount, zx.simplify.u3_count = self.o_tcount, self.o_u3
        zx.simulate.replace_magic_states, zx.simulate.replace_u3_states = self.o_rm, self.o_ru
        zx.full_reduce = self.o_fr


def check_find_stab(ctx: Ctx, g, label: dict, rng, state: dict, expect_zero: bool = False):
    """g: a scalar diagram with parameters (not mutated).  Returns False when a violation was reported."""
    import pyzx_param as zx
    from tsim.compile.stabrank import find_stab
    from tsim.core.graph import get_params
    names = sorted(get_params(g))
    assigns = assignments(names, rng, 10)
    ref = values(g, assigns)
    work = g.copy()
    try:
        with time_limit(120), Trace() as tr:
            work_id = tr.gid(work)
            res = find_stab(work)
    except Exception as e:  # noqa
        ctx.violation("find-stab-exception", f"find_stab raised {e!r} ({label.get('what')}, circuit {label.get('key')})", dict(label, error=traceback.format_exc()[-1500:]))
        return False
    t0 = zx.simplify.tcount(tr.pre_reduce.get(work_id, g))
    u0 = zx.simplify.u3_count(tr.pre_reduce.get(work_id, g))
    red_counts = [e[3] for e in tr.events if e[0] == "count" and e[2] == work_id]
    nc = red_counts[-1] if red_counts else 0
    ctx.count((label.get("key"), label.get("what"), "find_stab"), nontrivial=len(res) > 1, bucket=f"find_stab-nonclifford-{_b(nc, [0, 2, 4, 8, 14])}", n=len(assigns))
    ctx.hist[f"find_stab-terms-{_b(len(res), [1, 2, 4, 16, 64])}"] = ctx.hist.get(f"find_stab-terms-{_b(len(res), [1, 2, 4, 16, 64])}", 0) + 1
    ctx.hist[f"find_stab-param-bits-{_b(len(names), [0, 2, 4, 6, 10])}"] = ctx.hist.get(f"find_stab-param-bits-{_b(len(names), [0, 2, 4, 6, 10])}", 0) + 1
    fam = ("none" if t0 == 0 else "T-like only" if u0 == 0 else "arbitrary only" if t0 == u0 else "mixed")
    ctx.hist[f"find_stab-phase-family-{fam}"] = ctx.hist.get(f"find_stab-phase-family-{fam}", 0) + 1
    if len(res) == 0:
        ctx.violation("find-stab-empty", f"find_stab returned an empty list ({label.get('what')}, circuit {label.get('key')})", label)
        return False
    got = np.zeros(len(assigns), dtype=complex)
    for x in res:
        if zx.simplify.tcount(x) != 0:
            ctx.violation("find-stab-nonclifford-left", f"find_stab returned a diagram that still has {zx.simplify.tcount(x)} non-Clifford phases ({label.get('what')}, circuit {label.get('key')})", label)
            return False
        got = got + values(x, assigns)
    if not close(got, ref):
        a = int(np.argmax(np.abs(got - ref)))
        ctx.violation("find-stab-sum",
                      f"sum of the {len(res)} diagrams returned by find_stab = {got[a]:.9g} but evaluate_graph = {ref[a]:.9g} for "
                      f"{ {k: int(v) for k, v in assigns[a].items()} } ({label.get('what')}, circuit {label.get('key')})",
                      dict(label, assignment={k: int(v) for k, v in assigns[a].items()}))
        return False
    if expect_zero and float(np.max(np.abs(ref), initial=0.0)) > 1e-9:
        ctx.cov["contradictory_plug_not_zero"] = ctx.cov.get("contradictory_plug_not_zero", 0) + 1
    # ---- oracle hypotheses along the trace (sampled), with a subset of the assignments
    sub = assigns if len(assigns) <= 8 else [assigns[i] for i in sorted(set([0, len(assigns) - 1] + list(rng.integers(0, len(assigns), 6))))]
    reps = [e for e in tr.events if e[0] == "replace"]
    counts = {}
    for e in tr.events:
        if e[0] == "count":
            counts[(e[1], e[2])] = e[3]
    reduced_zero = {e[1]: e[2] for e in tr.events if e[0] == "reduce"}
    order = list(range(len(reps)))
    rng.shuffle(order)
    for j in order[: state["oracle_events_per_run"]]:
        _, kind, parent, kids, _kw = reps[j]
        pg = tr.objs[parent]
        pv = values(pg, sub)
        kv_pre = [values(tr.pre_reduce[k], sub) for k in kids]
        ctx.count(("oracle", label.get("key"), label.get("what"), j), bucket=f"oracle-replace-{kind}", n=len(sub))
        lab = dict(label, oracle=f"replace_{kind}", node=parent)
        if not kids:
            ctx.violation("oracle-replace-empty", f"pyzx replace_{kind}_states returned no graphs ({label.get('what')}, circuit {label.get('key')})", lab)
            return False
        if not close(np.sum(kv_pre, axis=0), pv):
            ctx.violation(f"oracle-replace-{kind}-sum", f"ORACLE hypothesis fails: the {len(kids)} diagrams returned by replace_{kind}_states do not sum to the value of the input "
                          f"({np.sum(kv_pre, axis=0)[0]:.9g} vs {pv[0]:.9g}; {label.get('what')}, circuit {label.get('key')})", lab)
            return False
        cp = counts.get((kind, parent))
        for k, kpre in zip(kids, kv_pre):
            kg = tr.objs[k]
            if k in reduced_zero:
                kpost = values(kg, sub)
                sc = max(float(np.max(np.abs(pv))), 1e-300)
                if not close(kpost, kpre, scale=max(sc, float(np.max(np.abs(kpre), initial=0.0)))):
                    ctx.violation("oracle-full-reduce", f"ORACLE hypothesis fails: full_reduce changed the value of a term ({kpre[0]:.9g} -> {kpost[0]:.9g}; {label.get('what')}, circuit {label.get('key')})", lab)
                    return False
                if reduced_zero[k] and float(np.max(np.abs(kpost))) > RTOL * sc + 1e-12:
                    ctx.violation("oracle-is-zero", f"ORACLE hypothesis fails: a term flagged is_zero has value {kpost[0]:.9g} ({label.get('what')}, circuit {label.get('key')})", lab)
                    return False
            cnt_fn = tr.o_tcount if kind == "magic" else tr.o_u3
            if cp is not None and not cnt_fn(kg) < cp:
                ctx.violation(f"oracle-count-decrease-{kind}", f"ORACLE hypothesis fails: count {cnt_fn(kg)} of a replaced+reduced term is not below the parent's {cp} ({label.get('what')}, circuit {label.get('key')})", lab)
                return False
            if kind == "magic" and tr.o_u3(kg) != 0:
                ctx.violation("oracle-u3-reappears", f"ORACLE hypothesis fails: an arbitrary-angle phase appears in the magic-state pass ({label.get('what')}, circuit {label.get('key')})", lab)
                return False
    # the top-level full_reduce of find_stab preserves the value (the input object is reduced in place)
    if work_id in tr.pre_reduce:
        a, b = values(tr.pre_reduce[work_id], sub), values(work, sub)
        ctx.count(("oracle-root", label.get("key"), label.get("what")), bucket="oracle-full-reduce-root", n=len(sub))
        if not close(a, b):
            ctx.violation("oracle-full-reduce", f"ORACLE hypothesis fails: full_reduce changed the value of the input diagram ({a[0]:.9g} -> {b[0]:.9g}; {label.get('what')}, circuit {label.get('key')})",
                          dict(label, oracle="full_reduce", node=work_id))
            return False
    # ---- keep the trace for the comparison with the Coq model
    if len(tr.ids) <= 160 and len(state["traces"]) < state["trace_cap"] and (reps or len(state["traces"]) < 4):
        state["traces"].append(dict(label=label, events=tr.events, root=work_id, result=[tr.gid(x) for x in res]))
    return True


def _b(v, edges):
    lo = None
    for e in edges:
        if v <= e:
            return f"{e}" if lo is None or lo + 1 == e or e == edges[0] else f"{lo + 1}-{e}"
        lo = e
    return f">{edges[-1]}"


def trace_terms(tr: dict) -> str:
    """Coq term running the regenerated find_stab on the traced tables (graph = node id, full_reduce in place = identity)"""
    cu, ct, ru, rm, zero = {}, {}, {}, {}, {}
    for e in tr["events"]:
        if e[0] == "count":
            (cu if e[1] == "u3" else ct)[e[2]] = e[3]
        elif e[0] == "replace":
            (ru if e[1] == "u3" else rm)[e[2]] = e[3]
        elif e[0] == "reduce":
            zero[e[1]] = e[2]

    def tbl_nat(d):
        return "[" + "; ".join(f"({k}, {v})" for k, v in sorted(d.items())) + "]"

    def tbl_list(d):
        return "[" + "; ".join(f"({k}, [" + "; ".join(str(x) for x in v) + "])" for k, v in sorted(d.items())) + "]"

    look = "(fun (t : list (nat * nat)) (d : nat) (g : nat) => match find (fun e => Nat.eqb (fst e) g) t with Some e => snd e | None => d end)"
    lookl = "(fun (t : list (nat * list nat)) (g : nat) => match find (fun e => Nat.eqb (fst e) g) t with Some e => snd e | None => [] end)"
    zl = "[" + "; ".join(str(k) for k, v in sorted(zero.items()) if v) + "]"
    # an uncounted graph must never be asked for its count: default 999 makes the model diverge from the trace visibly
    return (f"find_stab nat ({look} {tbl_nat(cu)} 999) ({look} {tbl_nat(ct)} 999) ({lookl} {tbl_list(ru)}) ({lookl} {tbl_list(rm)}) "
            f"(fun g => g) (fun g => existsb (Nat.eqb g) {zl}) 64 {tr['root']}")


def model_decompose_correspondence(ctx: Ctx, state: dict):
    trs = state["traces"]
    if not trs:
        return
    vals = cq.eval_terms("c11_decompose", IMPORTS, [trace_terms(t) for t in trs], timeout=900)
    for t, v in zip(trs, vals):
        ctx.count(("model-decompose", t["label"].get("key"), t["label"].get("what")), nontrivial=len(t["result"]) > 1, bucket="model-vs-traced-find_stab")
        reduced = [e[1] for e in t["events"] if e[0] == "reduce"]
        if v is None or not (isinstance(v, tuple) and v[0] == "Some"):
            ctx.broken.append(f"correspondence:decompose model returns {v} on the trace of {t['label'].get('what')} (circuit {t['label'].get('key')})")
            return
        r, pruned = v[1]
        impl_pruned = [x for x in reduced if x not in t["result"] and x != t["root"] and x not in
                       [e[2] for e in t["events"] if e[0] == "replace"]]
        if list(r) != t["result"] or sorted(pruned) != sorted(impl_pruned):
            ctx.broken.append(f"correspondence:decompose model result {list(r)} pruned {sorted(pruned)} vs implementation result {t['result']} pruned {sorted(impl_pruned)} "
                              f"({t['label'].get('what')}, circuit {t['label'].get('key')})")
            return
    ctx.cov["decompose_traces_compared_with_model"] = len(trs)
    ctx.cov["traced_replace_calls"] = sum(1 for t in trs for e in t["events"] if e[0] == "replace")
    ctx.cov["traced_zero_terms"] = sum(1 for t in trs for e in t["events"] if e[0] == "reduce" and e[2])


# ---------------------------------------------------------------------------------------------------------------
# connected_components
# ---------------------------------------------------------------------------------------------------------------

def check_components(ctx: Ctx, g, label: dict, rng, state: dict, with_tensor: bool):
    import tsim.core.graph as TG
    from tsim.core.graph import get_params
    recorded = []
    orig = TG._collect_vertices

    def spy(graph, start, visited):
        r = orig(graph, start, visited)
        recorded.append(list(r))
        return r

    TG._collect_vertices = spy
    try:
        with time_limit(20):
            comps = TG.connected_components(g)
    except Exception as e:  # noqa
        ctx.violation("components-exception", f"connected_components raised / did not terminate: {e!r} (circuit {label.get('key')})", dict(label, kind="components", error=traceback.format_exc()[-1200:]))
        return None
    finally:
        TG._collect_vertices = orig
    verts = list(g.vertices())
    outs = list(g.outputs())
    lab = dict(label, kind="components")
    nout = len(outs)
    ctx.count((label.get("key"), "components"), nontrivial=len(comps) > 1, bucket=f"components-{_b(len(comps), [1, 2, 4, 16, 64])}", n=len(verts) + nout)
    if any(len(c.output_indices) == 0 for c in comps):
        ctx.hist["components-with-0-outputs"] = ctx.hist.get("components-with-0-outputs", 0) + 1
    if len(recorded) != len(comps):
        ctx.violation("components-structure", f"{len(comps)} components but {len(recorded)} BFS runs (circuit {label.get('key')})", lab)
        return None
    flat = [v for c in recorded for v in c]
    if sorted(flat) != sorted(verts):
        ctx.violation("components-partition", f"component vertex lists do not partition the vertices: {len(flat)} entries ({len(set(flat))} distinct) for {len(verts)} vertices (circuit {label.get('key')})", lab)
        return None
    owner = {}
    for ci, c in enumerate(recorded):
        for v in c:
            owner[v] = ci
    for e in g.edges():
        s, t = g.edge_st(e)
        if owner[s] != owner[t]:
            ctx.violation("components-crossing-edge", f"edge ({s},{t}) joins components {owner[s]} and {owner[t]} (circuit {label.get('key')})", lab)
            return None
    allidx = sorted(i for c in comps for i in c.output_indices)
    if allidx != list(range(nout)):
        ctx.violation("components-output-ownership", f"output indices of the components are {allidx}, expected each of 0..{nout - 1} exactly once (circuit {label.get('key')})", lab)
        return None
    for ci, (c, vs) in enumerate(zip(comps, recorded)):
        sg = c.graph
        want = [i for i, o in enumerate(outs) if owner[o] == ci]
        if list(c.output_indices) != want:
            ctx.violation("components-output-indices", f"component {ci} has output_indices {list(c.output_indices)}, expected the sorted global indices {want} (circuit {label.get('key')})", dict(lab, component=ci))
            return None
        so = list(sg.outputs())
        # squash_graph gave output k row k, and _induced_subgraph copies rows: the k-th output of the subgraph must be global output output_indices[k]
        rows = [int(sg.row(v)) for v in so]
        if all(int(g.row(o)) == i for i, o in enumerate(outs)) and rows != list(c.output_indices):
            ctx.violation("components-output-order", f"the outputs of component {ci} are the global outputs {rows} but output_indices says {list(c.output_indices)} (circuit {label.get('key')})", dict(lab, component=ci))
            return None
        # induced subgraph: same vertex data and edges (vertices are renumbered in BFS order)
        sv = list(sg.vertices())
        if len(sv) != len(vs) or sg.num_edges() != sum(1 for e in g.edges() if owner[g.edge_st(e)[0]] == ci):
            ctx.violation("components-induced-subgraph", f"component {ci}: {len(sv)} vertices / {sg.num_edges()} edges, expected {len(vs)} / {sum(1 for e in g.edges() if owner[g.edge_st(e)[0]] == ci)} (circuit {label.get('key')})", dict(lab, component=ci))
            return None
        vm = dict(zip(vs, sv))
        for v in vs:
            if (sg.type(vm[v]) != g.type(v) or sg.phase(vm[v]) != g.phase(v) or set(sg.get_params(vm[v])) != set(g.get_params(v))):
                ctx.violation("components-induced-subgraph", f"component {ci}: vertex {v} changed type/phase/params (circuit {label.get('key')})", dict(lab, component=ci))
                return None
            for w in g.neighbors(v):
                if not sg.connected(vm[v], vm[w]) or sg.edge_type(sg.edge(vm[v], vm[w])) != g.edge_type(g.edge(v, w)):
                    ctx.violation("components-induced-subgraph", f"component {ci}: edge ({v},{w}) missing or of different type (circuit {label.get('key')})", dict(lab, component=ci))
                    return None
        if [vm[o] for o in outs if owner[o] == ci] != so:
            ctx.violation("components-output-order", f"component {ci}: subgraph outputs are not the global outputs inside the component in global order (circuit {label.get('key')})", dict(lab, component=ci))
            return None
    # ---- keep for the comparison with the Coq BFS model
    if len(verts) <= 150 and len(state["cc_cases"]) < state["cc_cap"]:
        adj = [(int(v), [int(w) for w in g.neighbors(v)]) for v in verts]
        state["cc_cases"].append(dict(label=label, adj=adj, outs=[int(o) for o in outs],
                                      impl=[([int(v) for v in vs], [int(i) for i in c.output_indices]) for c, vs in zip(comps, recorded)]))
    # ---- product of the component tensors = tensor of the whole diagram
    if with_tensor and nout <= 8 and len(verts) <= 60:
        names = sorted(get_params(g))
        for vals in assignments(names, rng, 10, cap_rows=4):
            try:
                from tsim.core.graph import evaluate_graph
                whole = np.asarray(evaluate_graph(g, dict(vals)))
                prod = np.ones((), dtype=complex)
                for c in comps:
                    prod = np.multiply.outer(prod, np.asarray(evaluate_graph(c.graph, dict(vals))))
            except Exception as e:  # noqa
                ctx.cov["tensor_product_skipped"] = ctx.cov.get("tensor_product_skipped", 0) + 1
                break
            order = [i for c in comps for i in c.output_indices]
            if prod.ndim != nout or whole.ndim != nout:
                ctx.violation("components-tensor", f"tensor ranks differ: whole {whole.ndim}, product {prod.ndim}, outputs {nout} (circuit {label.get('key')})", lab)
                return None
            prod = np.transpose(prod, np.argsort(order)) if nout else prod
            ctx.count((label.get("key"), "tensor", tuple(sorted((k, int(v)) for k, v in vals.items()))), nontrivial=len(comps) > 1 and nout > 1, bucket="components-tensor-product", n=int(whole.size))
            if not close(prod.reshape(-1), whole.reshape(-1)):
                ctx.violation("components-tensor", f"product of the component tensors (in output_indices order) differs from the tensor of the diagram (circuit {label.get('key')})",
                              dict(lab, assignment={k: int(v) for k, v in vals.items()}))
                return None
    return comps


def model_components_correspondence(ctx: Ctx, state: dict):
    cases = state["cc_cases"]
    if not cases:
        return
    terms = []
    for c in cases:
        adj = "[" + "; ".join(f"({v}, [" + "; ".join(str(w) for w in ws) + "])" for v, ws in c["adj"]) + "]"
        outs = "[" + "; ".join(str(o) for o in c["outs"]) + "]"
        terms.append(f"connected_components (graph_of_adj {adj} {outs})")
    vals = cq.eval_terms("c11_components", IMPORTS, terms, timeout=900)
    for c, v in zip(cases, vals):
        ctx.count(("model-components", c["label"].get("key")), nontrivial=len(c["impl"]) > 1, bucket="model-vs-connected_components")
        got = None
        if isinstance(v, tuple) and v[0] == "Some":
            got = [(list(x[0]), list(x[1])) for x in v[1]]
        if got != c["impl"]:
            ctx.broken.append(f"correspondence:connected_components model {got} vs implementation {c['impl']} (circuit {c['label'].get('key')})"[:900])
            return
    ctx.cov["component_runs_compared_with_model"] = len(cases)


# ---------------------------------------------------------------------------------------------------------------
# _plug_outputs
# ---------------------------------------------------------------------------------------------------------------

def check_plug(ctx: Ctx, comp, label: dict, rng, state: dict):
    """value of the graph with k outputs plugged (phases m_i) = marginal of the unplugged tensor"""
    from tsim.compile.pipeline import _plug_outputs
    from tsim.core.graph import evaluate_graph, get_params
    sg = comp.graph
    n = len(comp.output_indices)
    if n == 0 or n > 7 or len(list(sg.vertices())) > 60:
        return True
    mch = [f"m{i}" for i in comp.output_indices]
    fnames = sorted(p for p in get_params(sg))
    lab = dict(label, kind="plug", output_indices=list(comp.output_indices))
    try:
        graphs = _plug_outputs(sg, mch, list(range(n + 1)))
    except Exception as e:  # noqa
        ctx.violation("plug-exception", f"_plug_outputs raised {e!r} (circuit {label.get('key')})", dict(lab, error=traceback.format_exc()[-1200:]))
        return False
    for fv in assignments(fnames, rng, 10, cap_rows=4):
        T = np.asarray(evaluate_graph(sg, dict(fv))).astype(complex)
        scale = max(float(np.max(np.abs(T))), 1e-300)
        for k, gk in enumerate(graphs):
            if len(gk.outputs()) != 0:
                ctx.violation("plug-open-outputs", f"graph with {k} outputs plugged still has {len(gk.outputs())} open outputs (circuit {label.get('key')})", dict(lab, k=k))
                return False
            for ms in all_bits(k):
                vals = dict(fv)
                vals.update({mch[i]: Fraction(int(b)) for i, b in enumerate(ms)})
                got = value(gk, vals)
                want = complex(np.sum(T[tuple(int(b) for b in ms)]))
                ctx.count((label.get("key"), "plug", tuple(comp.output_indices), k), nontrivial=0 < k < n, bucket="plug-marginals")
                if abs(got - want) > RTOL * scale * 2 ** (n - k) + 1e-12:
                    ctx.violation("plug-marginal", f"_plug_outputs with {k} of {n} outputs plugged (bits {ms.astype(int).tolist()}) evaluates to {got:.9g}, the marginal of the unplugged tensor is {want:.9g} (circuit {label.get('key')})",
                                  dict(lab, k=k, bits=ms.astype(int).tolist(), f={p: int(v) for p, v in fv.items()}))
                    return False
        if n <= 3 and len(state["plug_cases"]) < state["plug_cap"]:
            impl = []
            for k, gk in enumerate(graphs):
                for ms in all_bits(k):
                    vals = dict(fv)
                    vals.update({mch[i]: Fraction(int(b)) for i, b in enumerate(ms)})
                    impl.append((k, ms.astype(int).tolist(), value(gk, vals)))
            state["plug_cases"].append(dict(label=lab, n=n, T=T, impl=impl))
    return True


def model_plug_correspondence(ctx: Ctx, state: dict):
    cases = state["plug_cases"]
    if not cases:
        return
    terms = []
    SC = 1 << 30
    for c in cases:
        n, T = c["n"], c["T"]
        M = all_bits(n)
        for part in ("real", "imag"):
            tbl = "[" + "; ".join(f"({cq.blist(m)}, ({int(round(float(getattr(T[tuple(int(b) for b in m)], part)) * SC))} # {SC})%Q)" for m in M) + "]"
            qs = "; ".join(f"(let q := Qred (plug_coeff (tensor_of_table {tbl}) {n} {k} {cq.blist(ms)}) in (Qnum q, Zpos (Qden q)), plug_power {n} {k} {cq.blist(ms)})"
                           for k, ms, _ in c["impl"])
            terms.append("[" + qs + "]")
    vals = cq.eval_terms("c11_plug", IMPORTS, terms, timeout=900)
    j = 0
    for c in cases:
        re_v, im_v = vals[j], vals[j + 1]
        j += 2
        scale = max(float(np.max(np.abs(c["T"]))), 1e-300)
        for (k, ms, impl), a, b in zip(c["impl"], re_v, im_v):
            ctx.count(("model-plug", c["label"].get("key"), tuple(c["label"].get("output_indices", [])), k, tuple(ms)), bucket="model-vs-_plug_outputs")
            model = complex(a[0] / a[1], b[0] / b[1])
            if a[2] != 0 or abs(model - impl) > 1e-5 * scale * 2 ** (c["n"] - k) + 1e-9:
                ctx.broken.append(f"correspondence:plug model gives {model} * sqrt2^{a[2]} but the implementation's plugged graph evaluates to {impl} "
                                  f"(k={k}, bits={ms}, circuit {c['label'].get('key')})")
                return
    ctx.cov["plug_cases_compared_with_model"] = len(cases)


# ---------------------------------------------------------------------------------------------------------------

def check_compiled_columns(ctx: Ctx, prep, comps, label: dict, rng, state: dict):
    """the compiled program of a component with k outputs plugged, evaluated on (f bits, first k output bits IN OUTPUT ORDER), is the value of
    the diagram _plug_outputs builds, evaluated at the same bits BY NAME -- relative to the normalisation graph (the compiled graphs share
    one dropped power of two).  Ties the parameter-column bookkeeping of _compile_component to the surgery."""
    import jax.numpy as jnp
    from tsim.compile.evaluate import evaluate
    from tsim.compile.pipeline import _plug_outputs, compile_program
    from tsim.core.graph import get_params
    if state.get("cols_done", 0) >= state.get("cols_cap", 0):
        return True
    try:
        prog = compile_program(prep, mode="sequential")
    except Exception as e:  # noqa
        ctx.violation("compile-exception", f"compile_program raised {e!r} (circuit {label.get('key')})", dict(label, kind="columns", error=traceback.format_exc()[-1200:]))
        return False
    fglob = sorted(int(p_[1:]) for p_ in get_params(prep.graph) if p_.startswith("f"))
    by_out = {tuple(c.output_indices): c for c in comps}
    for pc in prog.components:
        comp = by_out.get(tuple(pc.output_indices))
        n = len(pc.output_indices)
        if comp is None or n < 2 or len(list(comp.graph.vertices())) > 60:
            continue
        fsel = [int(j) for j in np.asarray(pc.f_selection)]
        if len(fsel) + n > 14:
            continue
        state["cols_done"] = state.get("cols_done", 0) + 1
        fnames = [f"f{fglob[j]}" for j in fsel]
        mch = [f"m{i}" for i in pc.output_indices]
        graphs = _plug_outputs(comp.graph, mch, list(range(n + 1)))
        rows = [(rng.integers(0, 2, size=len(fsel)).astype(bool), mb_) for mb_ in all_bits(n)] if n <= 5 else \
               [(rng.integers(0, 2, size=len(fsel)).astype(bool), rng.integers(0, 2, size=n).astype(bool)) for _row in range(6)]
        for fb, mb in rows:
            base = {nm: Fraction(int(b)) for nm, b in zip(fnames, fb)}
            got0 = abs(complex(np.asarray(evaluate(pc.compiled_scalar_graphs[0], jnp.asarray(fb[None, :], dtype=jnp.bool_)))[0]))
            want0 = abs(value(graphs[0], dict(base)))
            if not (got0 > 0 and want0 > 0):
                continue
            for k in range(1, n + 1):
                params = np.concatenate([fb, mb[:k]])[None, :]
                got = abs(complex(np.asarray(evaluate(pc.compiled_scalar_graphs[k], jnp.asarray(params, dtype=jnp.bool_)))[0])) / got0
                want = abs(value(graphs[k], dict(base, **{nm: Fraction(int(b)) for nm, b in zip(mch[:k], mb[:k])}))) / want0
                ctx.count((label.get("key"), "cols", tuple(pc.output_indices), k, tuple(fb.tolist()), tuple(mb[:k].tolist())), nontrivial=True, bucket="compiled-columns")
                if abs(got - want) > 1e-4:
                    ctx.violation("compiled-columns",
                                  f"component with outputs {list(pc.output_indices)}: the compiled program for {k} plugged outputs, evaluated on the first {k} output bits "
                                  f"{mb[:k].astype(int).tolist()} (f={fb.astype(int).tolist()}), gives weight {got:.6g} relative to the normalisation; the plugged diagram "
                                  f"evaluated at m{list(pc.output_indices[:k])} = those bits gives {want:.6g} (circuit {label.get('key')})",
                                  dict(label, kind="columns", output_indices=list(pc.output_indices), k=k, f=fb.astype(int).tolist(), m=mb[:k].astype(int).tolist()))
                    return False
    return True


def run_circuit(ctx: Ctx, text: str, detectors: bool, rng, state: dict, *, deep: bool):
    import tsim
    from tsim.compile.pipeline import _plug_outputs
    from tsim.core.graph import prepare_graph
    key = circuit_key(text)
    label = dict(circuit=text, detectors=detectors, key=key)
    try:
        c = tsim.Circuit(text)
        prep = prepare_graph(c, sample_detectors=detectors)
    except Exception as e:  # noqa
        ctx.cov.setdefault("rejected_circuits", []).append({"circuit": text[:300], "error": repr(e)[:200]})
        return
    g = prep.graph
    t_like, arb = count_nonclifford(text)
    ctx.hist["circuit-nonclifford-" + ("none" if t_like + arb == 0 else "T-only" if arb == 0 else "rot-only" if t_like == 0 else "mixed")] = \
        ctx.hist.get("circuit-nonclifford-" + ("none" if t_like + arb == 0 else "T-only" if arb == 0 else "rot-only" if t_like == 0 else "mixed"), 0) + 1
    comps = check_components(ctx, g, label, rng, state, with_tensor=True)
    if comps is None:
        return
    if not check_compiled_columns(ctx, prep, comps, label, rng, state):
        return
    for ci, comp in enumerate(comps):
        if ctx.violations:
            return
        n = len(comp.output_indices)
        if not check_plug(ctx, comp, dict(label, component=ci), rng, state):
            return
        sg = comp.graph
        if len(list(sg.vertices())) > 70:
            ctx.cov["components_skipped_too_large"] = ctx.cov.get("components_skipped_too_large", 0) + 1
            continue
        mch = [f"m{i}" for i in comp.output_indices]
        ks = sorted(set([0, n] + ([int(rng.integers(0, n + 1))] if n > 1 else []))) if not deep else list(range(n + 1))
        from tsim.core.graph import get_params
        nf = len(get_params(sg))
        for k in ks:
            if nf + k > 10:
                continue
            gk = _plug_outputs(sg, mch, [k])[0]
            if not check_find_stab(ctx, gk, dict(label, component=ci, what=f"component {ci} with {k} of {n} outputs plugged", plugged=k), rng, state):
                return
        # a contradictory constant plugging (value identically 0): every returned list must still be non-empty and sum to 0
        if n >= 2 and nf <= 8 and state["zero_done"] < state["zero_cap"]:
            from tsim.core.graph import evaluate_graph
            T = None
            try:
                if n <= 8:
                    fn = sorted(get_params(sg))
                    T = sum(np.abs(np.asarray(evaluate_graph(sg, dict(fv)))) for fv in assignments(fn, rng, 4, cap_rows=16))
            except Exception:  # noqa
                T = None
            if T is not None:
                zeros = np.argwhere(T <= 1e-12 * max(float(T.max()), 1e-300))
                if len(zeros):
                    bits = zeros[int(rng.integers(0, len(zeros)))]
                    gz = sg.copy()
                    gz.apply_effect("".join(str(int(b)) for b in bits))
                    state["zero_done"] += 1
                    if not check_find_stab(ctx, gz, dict(label, component=ci, what=f"component {ci} plugged with the constant impossible outcome {bits.tolist()}", constant_bits=bits.tolist()), rng, state, expect_zero=True):
                        return


FIXED = [
    # twelve outputs; one Clifford+T component owns outputs 2, 9, 10, 11 (indices whose decimal strings sort differently from the numbers)
    ("H 2\nT 2\nH 2\nCX 2 9\nH 9\nT 9\nH 9\nCX 9 10\nT 10\nH 10\nT 10\nH 10\nCX 10 11\nCX 2 11\nH 11\nT 11\nH 11\nM 0 1 2 3 4 5 6 7 8 9 10 11", False),
    ("H 10\nT 10\nH 10\nCX 10 2\nH 2\nT 2\nH 2\nX_ERROR(0.25) 2\nCX 2 11\nT 11\nH 11\nM 0 1 2 3 4 5 6 7 8 9 10 11", False),
    ("RX 0\nT 0\nH 0\nCX 0 1\nX_ERROR(0.25) 1\nM 0 1\nH 0\nM 0", False),
    ("H 0\nT 0\nH 0\nT 0\nH 0\nT 0\nH 0\nM 0", False),
    ("H 0 1\nT 0 1\nCX 0 1\nH 0\nT 0\nH 1\nT_DAG 1\nH 0 1\nT 0\nM 0 1", False),
    ("H 0\nR_Z(0.3) 0\nH 0\nR_X(0.41) 0\nT 0\nH 0\nU3(0.3, 0.41, -0.15) 0\nM 0", False),
    ("H 0 1 2\nR_Z(0.3) 0 1 2\nCX 0 1\nCX 1 2\nH 0 1 2\nR_Z(0.3) 0 1\nR_Z(-0.3) 2\nH 0 1 2\nT 0\nM 0 1 2", False),
    ("H 0\nCX 0 1\nCX 1 2\nM 0 1 2\nM 0 1 2\nH 3\nM 3\nR 4\nX_ERROR(0.125) 4", False),
    ("R 0 1 2\nX_ERROR(0.125) 0 1 2\nCX 0 3\nCX 1 3\nMR 3\nCX 1 3\nCX 2 3\nMR 3\nT 0\nM 0 1 2\nDETECTOR rec[-5]\nDETECTOR rec[-4]\nDETECTOR rec[-3] rec[-2]\nOBSERVABLE_INCLUDE(0) rec[-1]", True),
]


def nonclifford_block(prng, nq: int, n_nc: int) -> str:
    """a small dense circuit with exactly n_nc non-Clifford gates of mixed families between Hadamard/CX layers"""
    lines = [f"H {q}" for q in range(nq)]
    fam = prng.choice([["t"], ["t", "rz"], ["rz", "rx", "u3"], ["t", "rz", "u3"], ["rz"]])
    ang = prng.choice([["0.3"], ["0.3", "-0.3"], ["0.3", "0.41", "0.0625"]])
    for j in range(n_nc):
        q = prng.randrange(nq)
        k = prng.choice(fam)
        if k == "t":
            lines.append(f"{prng.choice(['T', 'T_DAG'])} {q}")
        elif k == "rz":
            lines.append(f"R_Z({prng.choice(ang)}) {q}")
        elif k == "rx":
            lines.append(f"R_X({prng.choice(ang)}) {q}")
        else:
            lines.append(f"U3({prng.choice(ang)}, {prng.choice(ang)}, {prng.choice(ang)}) {q}")
        r = prng.random()
        if r < 0.5:
            lines.append(f"H {q}")
        elif r < 0.8 and nq > 1:
            a, b = prng.sample(range(nq), 2)
            lines.append(f"{prng.choice(['CX', 'CZ'])} {a} {b}")
        else:
            lines.append(f"{prng.choice(['SQRT_X', 'S', 'H_YZ'])} {q}")
        if prng.random() < 0.15:
            lines.append(f"{prng.choice(['X_ERROR(0.25)', 'Z_ERROR(0.125)', 'DEPOLARIZE1(0.25)'])} {q}")
    lines.append("M " + " ".join(str(q) for q in range(nq)))
    return "\n".join(lines)


def run(ctx: Ctx) -> int:
    model_ok = standard_model_phase(ctx, TRANSLATORS, COQ_FILES, "Props.C11", "Props/C11.v")
    ctx.trusted += [
        "translator /verif/translate/decompose.py (Python ast -> Gallina: _decompose recursion skeleton, pruning rule, find_stab composition)",
        "translator /verif/translate/sampler_dispatch.py (_plug_outputs effect string / phase range / power compensation)",
        "hand model Model/Components.v of connected_components / _collect_vertices / output bookkeeping, tied by exact comparison on real prepared graphs",
        "pyzx_param ORACLES (hypotheses of C11_decompose / C11_components_tensor): full_reduce preserves value, replace_u3_states / replace_magic_states sum to the "
        "value and strictly decrease the count, is_zero implies value 0, tensor of a disjoint union = product; validated numerically below (1e-6 relative)",
        "evaluate_graph / pyzx tensorfy is the independent reference for values",
    ]
    try:
        import pyzx_param  # noqa
        import tsim  # noqa
        from tsim.compile.stabrank import find_stab  # noqa
    except Exception as e:  # noqa
        ctx.violation("import-failure", f"tsim cannot be imported: {e!r}", {"error": repr(e)}, no_failing_input=True)
        return ctx.finish("n/a")
    quick = ctx.quick
    rng = ctx.np_rng()
    prng = ctx.rng
    state = dict(traces=[], trace_cap=30 if quick else 120, cc_cases=[], cc_cap=25 if quick else 100, plug_cases=[], plug_cap=10 if quick else 40,
                 oracle_events_per_run=3 if quick else 8, zero_done=0, zero_cap=6 if quick else 30, cols_done=0, cols_cap=12 if quick else 80)
    model_usable = not any(b.startswith("translator:") or "Model/" in b or "gen/" in b or "Gen_" in b or "Base/" in b for b in ctx.broken)

    cases = [(t, d, True) for t, d in FIXED]
    # dense non-Clifford circuits: 0..7 gates, i.e. 0..14 non-Clifford phases in the doubled diagram
    nc_list = [0, 1, 2, 3, 4, 5, 6, 7] * 5 if quick else [0, 1, 2, 3, 4, 5, 6, 7] * 12
    for n_nc in nc_list:
        cases.append((nonclifford_block(prng, prng.choice([1, 2, 3]), n_nc), False, n_nc <= 4))
    sizes = [2, 3, 3, 4, 4, 6, 6, 8, 8, 12, 16, 20, 30, 40] if quick else [2, 2, 3, 3, 4, 4, 5, 6, 6, 8, 8, 10, 12, 16, 20, 24, 32, 40] * 2
    for i, nq in enumerate(sizes):
        det = (i % 4 == 3)
        cases.append((gen_circuit(prng, nq, bs_max=5, out_cap=8, nc_max=3, noise_max=3, detectors=det), det, False))
    import time as _time
    budget = 170 if quick else 1100     # seconds; never reached on the unchanged tree (quick ~20 s), bounds mutated/slow variants
    for text, det, deep in cases:
        if ctx.violations:
            break
        if _time.time() - ctx.t0 > budget:
            ctx.cov["circuits_skipped_time_budget"] = ctx.cov.get("circuits_skipped_time_budget", 0) + 1
            continue
        _t, _e = _time.time(), ctx.evaluations
        try:
            run_circuit(ctx, text, det, rng, state, deep=deep)
        except Exception as e:  # noqa
            traceback.print_exc()
            ctx.broken.append(f"harness:exception on circuit {circuit_key(text)}: {e!r}")
        ctx.log(f"circuit {circuit_key(text)} det={int(det)} evaluations={ctx.evaluations - _e} t={_time.time() - _t:.1f}s")
    ctx.cov["circuits"] = len(cases)
    if model_usable and not ctx.violations:
        try:
            model_decompose_correspondence(ctx, state)
            model_components_correspondence(ctx, state)
            model_plug_correspondence(ctx, state)
        except Exception as e:  # noqa
            traceback.print_exc()
            ctx.broken.append(f"correspondence:model run failed: {e!r}"[:600])
    if len(ctx.samples) < 4:
        for t in state["traces"][:4]:
            ctx.sample({"circuit": t["label"]["circuit"][:400], "what": t["label"].get("what"), "find_stab_terms": len(t["result"]),
                        "replace_calls": sum(1 for e in t["events"] if e[0] == "replace")})
    if ctx.broken and not ctx.violations:
        report_broken_without_input(ctx)
    return ctx.finish(
        rule="cases = prepared diagrams (prepare_graph) of generated circuits (fixed examples; dense 1-3 qubit circuits with 0..7 non-Clifford gates = 0..14 "
             "non-Clifford phases of mixed families T / R_Z,R_X / U3 with shared and distinct angles; block circuits up to 40 qubits with noise, resets, "
             "detectors), split by connected_components, with k = 0..n outputs plugged by _plug_outputs, plus constant impossible pluggings (value 0). "
             "An evaluation = one (diagram, parameter assignment) comparison of find_stab with evaluate_graph, one oracle-hypothesis check, one "
             "vertex/output bookkeeping check, one tensor entry, one plug marginal or one model comparison. non-trivial = decomposition with >1 term / "
             ">1 component / proper prefix plugged.",
        explanation="Theorems C11_* over the regenerated recursion skeleton and the BFS model; pyzx oracle hypotheses validated numerically; see DESIGN.md 4.C11",
        assumptions=["pyzx_param oracles as listed in the trusted base (validated numerically here, 1e-6 relative)"],
    )


def replay(ctx: Ctx, obj) -> int:
    r = obj.get("replay") or {}
    print(json.dumps({k: v for k, v in r.items() if k != "error"})[:3000])
    if "circuit" not in r:
        return 1
    state = dict(traces=[], trace_cap=0, cc_cases=[], cc_cap=0, plug_cases=[], plug_cap=0, oracle_events_per_run=50, zero_done=0, zero_cap=50, cols_done=0, cols_cap=50)
    run_circuit(ctx, r["circuit"], bool(r.get("detectors")), ctx.np_rng(), state, deep=True)
    print("violations on replay:", [v["key"] for v in ctx.violations] + [v["key"] for v in ctx.known_hits])
    return 1 if (ctx.violations or ctx.known_hits) else 0
