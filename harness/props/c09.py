"""C09 -- exact scalar arithmetic is exact.

Tie A: translator `exact_scalar` regenerates scalar_mul and the phase tables; the proofs in
Proofs/ExactScalarProofs.v are re-checked against them.
Tie B: the hand model of reduce / sum / prod / int32 wrap (Model/ExactScalar.v) is evaluated inside
Coq (vm_compute) on the same int32 inputs as the JAX implementation; results must be identical.
Search: a disagreement, or a broken proof, is turned into a concrete input on which the
implementation differs from exact integer arithmetic (python ints), within the no-wrap guard.
"""
from __future__ import annotations

import itertools
import json

import numpy as np

from harness import coqrun as cq
from harness.common import Ctx, report_broken_without_input, standard_model_phase

TRANSLATORS = ["exact_scalar"]
COQ_FILES = ["Base/Wrap32.v", "Base/D8.v", "gen/Gen_exact_scalar.v", "Model/ExactScalar.v",
             "Proofs/ExactScalarProofs.v", "Proofs/CliffordProd.v", "Props/C09.v"]
IMPORTS = ("From Coq Require Import ZArith List. Import ListNotations.\n"
           "Require Import TV.Base.Wrap32 TV.Base.D8 TV.gen.Gen_exact_scalar TV.Model.ExactScalar.\nOpen Scope Z_scope.\n")

H32 = 2 ** 31


# ---- exact reference (python ints) -------------------------------------------------
def mul_ref(x, y):
    a1, b1, c1, d1 = x
    a2, b2, c2, d2 = y
    return (a1 * a2 + b1 * d2 - c1 * c2 + d1 * b2,
            a1 * b2 + b1 * a2 + c1 * d2 + d1 * c2,
            a1 * c2 + b1 * b2 + c1 * a2 - d1 * d2,
            a1 * d2 - b1 * c2 - c1 * b2 + d1 * a2)


def norm1(x):
    return sum(abs(int(v)) for v in x)


def to_c(x, p=0):
    w = np.exp(1j * np.pi / 4)
    a, b, c, d = [int(v) for v in x]
    return (a + b * w + c * 1j + d * np.conj(w)) * (2.0 ** p)


def q4(x):
    return cq.ztuple(x)


def esa(c, p):
    return f"({q4(c)}, {cq.z(p)})"


def rand_q4(rng, kind):
    if kind == "small":
        return tuple(int(v) for v in rng.integers(-3, 4, 4))
    if kind == "med":
        return tuple(int(v) for v in rng.integers(-40000, 40001, 4))
    if kind == "big":
        return tuple(int(v) for v in rng.integers(-H32, H32, 4))
    if kind == "even":
        k = int(rng.integers(1, 20))
        return tuple(int(v) * (1 << k) for v in rng.integers(-5, 6, 4))
    if kind == "unit":
        tbl = [(1, 0, 0, 0), (0, 1, 0, 0), (0, 0, 1, 0), (0, 0, 0, -1), (-1, 0, 0, 0), (0, -1, 0, 0), (0, 0, -1, 0), (0, 0, 0, 1)]
        u = tbl[int(rng.integers(0, 8))]
        if rng.random() < 0.6:
            u = (u[0] + 1, u[1], u[2], u[3])
        return u
    raise ValueError(kind)


def run(ctx: Ctx) -> int:
    model_ok = standard_model_phase(ctx, TRANSLATORS, COQ_FILES, "Props.C09", "Props/C09.v")
    ctx.trusted += [
        "translator /verif/translate/exact_scalar.py (Python ast -> Gallina for _scalar_mul and the phase tables)",
        "hand model Model/ExactScalar.v of reduce/sum/prod/int32 wrap, tied by the correspondence run below",
        "JAX/XLA int32 semantics (wrap-around) are modelled as wrap32, validated bit-exactly by the correspondence",
        "to_complex (floating point) is not modelled; compared with the exact value within 1e-6 relative",
    ]
    import jax.numpy as jnp
    try:
        from tsim.core.exact_scalar import ExactScalarArray, _scalar_mul
        import tsim.compile.evaluate as EV
    except Exception as e:  # implementation does not import
        ctx.violation("import-failure", f"tsim.core.exact_scalar cannot be imported: {e!r}", {"error": repr(e)}, no_failing_input=True)
        return ctx.finish("n/a")

    rng = ctx.np_rng()
    quick = ctx.quick
    model_usable = not any(b.startswith("translator:") or "Model/ExactScalar" in b or "Gen_exact" in b or "Base/" in b for b in ctx.broken)

    # ------------------------------------------------------------------ tables (run-time tie of the translator)
    unit = np.asarray(EV._UNIT_PHASES).tolist()
    onep = np.asarray(EV._ONE_PLUS_PHASES).tolist()
    ident = np.asarray(EV._IDENTITY).tolist()
    if model_usable:
        vals = cq.eval_terms("c09_tables", IMPORTS, ["map unit_phase (seq 0 8)", "map one_plus_phase (seq 0 8)", "identity_d8"])
        m_unit, m_onep, m_ident = [list(map(list, vals[0])), list(map(list, vals[1])), list(vals[2])]
        if m_unit != unit or m_onep != onep or m_ident != ident:
            ctx.broken.append("correspondence:tables (generated literals differ from the arrays the running code uses)")
    w = np.exp(1j * np.pi / 4)
    for k in range(8):
        ctx.count(("table", k), bucket="table-entry")
        if abs(to_c(unit[k]) - w ** k) > 1e-12 or abs(to_c(onep[k]) - (1 + w ** k)) > 1e-12:
            ctx.violation(f"table-entry-{k}", f"_UNIT_PHASES/_ONE_PLUS_PHASES entry {k} is not w^k / 1+w^k: {unit[k]} {onep[k]}",
                          {"k": k, "unit": unit[k], "one_plus": onep[k]})
    if ident != [1, 0, 0, 0]:
        ctx.violation("identity", f"_IDENTITY is {ident}", {"identity": ident})

    # ------------------------------------------------------------------ mul
    pairs = []
    box = [-1, 0, 1] if quick else [-2, -1, 0, 1, 2]
    if quick:
        for x in itertools.product(box, repeat=4):
            for y in itertools.product(box, repeat=4):
                pairs.append((x, y))
    else:
        bx = list(itertools.product(box, repeat=4))
        for x in bx:
            for y in bx:
                pairs.append((x, y))
    n_box = len(pairs)
    kinds = ["small", "med", "big", "even", "unit"]
    for _ in range(1500 if quick else 20000):
        pairs.append((rand_q4(rng, kinds[int(rng.integers(0, 5))]), rand_q4(rng, kinds[int(rng.integers(0, 5))])))
    X = jnp.array([p[0] for p in pairs], dtype=jnp.int32)
    Y = jnp.array([p[1] for p in pairs], dtype=jnp.int32)
    impl = np.asarray(_scalar_mul(X, Y)).astype(np.int64)
    assert impl.dtype == np.int64
    wrap = lambda v: (int(v) + H32) % (2 ** 32) - H32
    bad_mul = []
    for i, (x, y) in enumerate(pairs):
        ref = mul_ref(x, y)
        got = tuple(int(v) for v in impl[i])
        ctx.count(("mul", x, y), nontrivial=(norm1(x) > 0 and norm1(y) > 0), bucket="mul-box" if i < n_box else "mul-random")
        if got != tuple(wrap(v) for v in ref):
            bad_mul.append((x, y, got, ref))
    ctx.sample({"op": "mul", "x": pairs[n_box][0], "y": pairs[n_box][1], "impl": impl[n_box].tolist()})
    for x, y, got, ref in bad_mul[:1]:
        ctx.violation("scalar-mul", f"_scalar_mul({list(x)},{list(y)}) = {list(got)} but the product in Z[w]/(w^4+1) is {list(ref)} (mod 2^32)",
                      {"op": "mul", "x": x, "y": y, "impl": got, "exact": ref})
    # model vs impl on a sample of the same pairs (model = regenerated scalar_mul + wrap32)
    if model_usable:
        idx = list(range(0, n_box, max(1, n_box // 400))) + list(range(n_box, len(pairs), max(1, (len(pairs) - n_box) // 600)))
        terms = ["[" + "; ".join(f"mul32 {q4(pairs[i][0])} {q4(pairs[i][1])}" for i in idx) + "]"]
        mv = cq.eval_terms("c09_mul", IMPORTS, terms)[0]
        for j, i in enumerate(idx):
            if tuple(mv[j]) != tuple(int(v) for v in impl[i]):
                ctx.broken.append(f"correspondence:mul model {tuple(mv[j])} impl {impl[i].tolist()} on {pairs[i]}")
                break

    # ------------------------------------------------------------------ reduce
    red_cases = []
    for _ in range(400 if quick else 4000):
        kind = ["even", "small", "big", "med"][int(rng.integers(0, 4))]
        c = rand_q4(rng, kind)
        if rng.random() < 0.08:
            c = (0, 0, 0, 0)
        if rng.random() < 0.1:
            c = tuple(v * (1 << int(rng.integers(20, 30))) % (2 ** 31) for v in rand_q4(rng, "small"))
        p = int(rng.integers(-50, 50))
        red_cases.append((c, p))
    red_cases += [((-H32, 0, 0, 0), 0), ((H32 - 2, 2, -2, 4), 3), ((2, 0, 0, 0), 0), ((0, 0, 0, 0), 7)]
    C = jnp.array([c for c, _ in red_cases], dtype=jnp.int32)
    P = jnp.array([p for _, p in red_cases], dtype=jnp.int32)
    r = ExactScalarArray(C, P).reduce()
    rc, rp = np.asarray(r.coeffs).astype(np.int64), np.asarray(r.power).astype(np.int64)
    for i, (c, p) in enumerate(red_cases):
        ctx.count(("reduce", c, p), nontrivial=any(c) and all(v % 2 == 0 for v in c), bucket="reduce")
        c2, p2 = tuple(int(v) for v in rc[i]), int(rp[i])
        k = p2 - p
        ok = k >= 0 and tuple(v * (1 << k) for v in c2) == tuple(c) and (not any(c) or any(v % 2 for v in c2)) and (any(c) or (c2 == tuple(c) and k == 0))
        if not ok:
            ctx.violation("reduce", f"reduce changed the value or left a reducible result: {list(c)}*2^{p} -> {list(c2)}*2^{p2}",
                          {"op": "reduce", "coeffs": c, "power": p, "impl": [c2, p2]})
            break
    ctx.sample({"op": "reduce", "in": [list(red_cases[0][0]), red_cases[0][1]], "impl": [rc[0].tolist(), int(rp[0])]})
    if model_usable:
        mv = cq.eval_terms("c09_reduce", IMPORTS, ["[" + "; ".join(f"reduce {esa(c, p)}" for c, p in red_cases) + "]"])[0]
        for i, v in enumerate(mv):
            got = (tuple(int(x) for x in rc[i]), int(rp[i]))
            if v is None or _esa(v[1]) != got:
                ctx.broken.append(f"correspondence:reduce model {v} impl {got} on {red_cases[i]}")
                break

    # ------------------------------------------------------------------ sum (power aligned)
    sum_cases = []
    for _ in range(150 if quick else 1500):
        n = int(rng.integers(1, 9))
        mode = rng.random()
        l = []
        for _j in range(n):
            c = rand_q4(rng, "small" if mode < 0.7 else "med")
            p = int(rng.integers(-6, 7)) if mode < 0.85 else int(rng.integers(-40, 40))
            l.append((c, p))
        sum_cases.append(l)
    # an exactly-zero summand whose power lies far below (or above) the others does not take part in the alignment
    for zp, others in [(0, [((1, 0, 0, 0), 40)]), (-40, [((1, 0, 0, 0), 0), ((0, 3, 0, -1), 2)]), (70, [((1, 2, 3, 4), 0)]), (-31, [((5, 0, 0, 1), 0)]),
                       (-100, [((1, 0, 0, 0), 33), ((0, 0, 1, 0), 40), ((0, 0, 0, 0), 90)])]:
        sum_cases.append([((0, 0, 0, 0), zp)] + others)
        sum_cases.append(others[:1] + [((0, 0, 0, 0), zp)] + others[1:])
    # many terms (the sum over the stabiliser terms of a component with a dozen T gates has hundreds): every count around the powers of two
    for n in ([63, 64, 65, 100, 127, 129, 200, 257, 1000] if quick else [31, 33, 63, 64, 65, 66, 100, 127, 128, 129, 191, 192, 193, 200, 255, 256, 257, 511, 513, 1000, 1025, 3000]):
        sum_cases.append([(rand_q4(rng, "small"), int(rng.integers(-3, 4))) for _j in range(n)])
    sum_impl = []
    for l in sum_cases:
        s = ExactScalarArray(jnp.array([c for c, _ in l], dtype=jnp.int32), jnp.array([p for _, p in l], dtype=jnp.int32)).sum()
        sum_impl.append((tuple(int(v) for v in np.asarray(s.coeffs)), int(s.power)))
    for l, (sc, sp) in zip(sum_cases, sum_impl):
        # exactly-zero summands are left out of the alignment: the common power is the smallest power among the non-zero summands
        nzl = [(c, p) for c, p in l if any(c)]
        m = min(p for _, p in nzl) if nzl else min(p for _, p in l)
        exact = tuple(sum(c[k] * (1 << (p - m)) for c, p in nzl) for k in range(4))
        guard = (not nzl) or (max(p - m for _, p in nzl) < 31 and all(sum(abs(c[k]) * (1 << (p - m)) for c, p in nzl) < H32 for k in range(4)))
        ctx.count(("sum", tuple(l)), nontrivial=len({p for _, p in l}) > 1, bucket="sum-guarded" if guard else "sum-wrapping")
        if guard and (sc, sp) != (exact, m):
            ctx.violation("sum", f"sum of {l} = {list(sc)}*2^{sp}, exact {list(exact)}*2^{m}", {"op": "sum", "terms": l, "impl": [sc, sp], "exact": [exact, m]})
            break
    ctx.sample({"op": "sum", "terms": sum_cases[0], "impl": sum_impl[0]})
    if model_usable:
        mv = cq.eval_terms("c09_sum", IMPORTS, ["[" + "; ".join("esa_sum [" + "; ".join(esa(c, p) for c, p in l) + "]" for l in sum_cases) + "]"])[0]
        for l, v, got in zip(sum_cases, mv, sum_impl):
            if v is None or _esa(v[1]) != got:
                ctx.broken.append(f"correspondence:sum model {v} impl {got} on {l}")
                break
    # batched sums (evaluate() sums a (batch, terms) array): every row must equal the sum of that row alone, whatever the other rows hold
    for bi in range(40 if quick else 400):
        n = int(rng.integers(1, 7))
        nb = int(rng.integers(2, 5))
        offs = [int(rng.integers(-3, 4)) + (0 if rng.random() < 0.5 else int(rng.choice([-60, -40, -33, 33, 40, 60]))) for _ in range(nb)]
        rows = [[(rand_q4(rng, "small"), offs[b] + int(rng.integers(0, 5))) for _ in range(n)] for b in range(nb)]
        s = ExactScalarArray(jnp.array([[c for c, _ in r] for r in rows], dtype=jnp.int32), jnp.array([[p_ for _, p_ in r] for r in rows], dtype=jnp.int32)).sum()
        lead = tuple(np.asarray(s.power).shape)
        if lead != (nb,) or tuple(np.asarray(s.coeffs).shape) != (nb, 4):
            ctx.violation("sum-batched-shape", f"sum of a ({nb},{n}) batch returned coeffs {np.asarray(s.coeffs).shape} / power {lead}", {"op": "sum-batched", "rows": rows})
            break
        stop = False
        for b, r in enumerate(rows):
            m = min(p_ for _, p_ in r)
            exact = tuple(sum(c[k] * (1 << (p_ - m)) for c, p_ in r) for k in range(4))
            got = (tuple(int(v) for v in np.asarray(s.coeffs)[b]), int(np.asarray(s.power)[b]))
            ctx.count(("sum-batched", tuple(map(tuple, rows)), b), nontrivial=len(set(offs)) > 1, bucket="sum-batched")
            if not _same_value(got, (exact, m)):
                ctx.violation("sum-batched", f"row {b} of a batched sum = {list(got[0])}*2^{got[1]}, exact {list(exact)}*2^{m}; the other rows sit at powers {offs}",
                              {"op": "sum-batched", "rows": rows, "row": b, "impl": [list(got[0]), got[1]], "exact": [list(exact), m]})
                stop = True
                break
        if stop:
            break
    # empty axis: jnp.min raises
    try:
        ExactScalarArray(jnp.zeros((0, 4), dtype=jnp.int32), jnp.zeros((0,), dtype=jnp.int32)).sum()
        empty_sum = "returned"
    except Exception:
        empty_sum = "raised"
    ctx.cov["sum_of_empty_axis"] = empty_sum

    # ------------------------------------------------------------------ prod
    prod_cases = [[]]
    prod_kinds = ["unit"]
    for _ in range(120 if quick else 1200):
        n = int(rng.integers(1, 151)) if rng.random() < 0.3 else int(rng.integers(1, 12))
        kind = ["unit", "small", "med"][int(rng.integers(0, 3))]
        prod_kinds.append(kind)
        prod_cases.append([(rand_q4(rng, kind), int(rng.integers(-3, 4))) for _ in range(n)])
    prod_kinds += ["unit", "unit", "unit", "unit", "unit"]
    prod_cases.append([((2, 0, 0, 0), 0)] * 33)       # the kernel-checked witness of C09_wrap_refuted
    prod_cases.append([((1, 0, 1, 0), 0)] * 64)       # (1+i)^64 = 2^32: what a GHZ-type component produces
    prod_cases.append([((1, 0, 1, 0), 0), ((2, 0, 0, 0), 0), ((1, 0, -1, 0), 0), ((0, 0, 1, 0), 0)] * 50)
    prod_cases.append([((1, 1, 0, 0), 0)] * 20)
    prod_cases.append([((1, 1, 0, 0), 0)] * 64)       # non-Clifford growth: the kernel-checked witness of C09_wrap_refuted
    # every axis length around the width of int32 (20..40 factors and the powers of two nearby) for the stabiliser-type factors 2, 2+2i,
    # 1+i, 1-i: whichever way the scan brackets or batches the axis, the product stays exact
    for nfac in (list(range(20, 41)) + [47, 48, 49, 63, 65, 96, 127, 128, 129] if quick else list(range(2, 140))):
        for fac in ((2, 0, 0, 0), (2, 0, 2, 0), (1, 0, 1, 0), (1, 0, -1, 0)):
            if not quick or fac[0] == 2 or nfac % 3 == 0:
                prod_kinds.append("unit")
                prod_cases.append([(fac, 0)] * nfac)
    prod_impl = []
    for l in prod_cases:
        arr = ExactScalarArray(jnp.array([c for c, _ in l], dtype=jnp.int32).reshape(len(l), 4), jnp.array([p for _, p in l], dtype=jnp.int32))
        pr = arr.prod(axis=0)
        prod_impl.append((tuple(int(v) for v in np.asarray(pr.coeffs)), int(pr.power)))
    wrapped_inputs = []
    for l, (pc, pp), kind in zip(prod_cases, prod_impl, prod_kinds):
        exact = (1, 0, 0, 0)
        guard = True
        bound = 1
        for c, _ in l:
            bound *= max(1, norm1(c))
            exact = mul_ref(exact, c)
            if bound >= H32:
                guard = False
        ep = sum(p for _, p in l)
        ctx.count(("prod", tuple(l)), nontrivial=len(l) > 1, bucket="prod-guarded" if guard else "prod-unguarded")
        # value comparison (representation may legitimately differ by a power of two once prod reduces internally)
        same_value = _same_value((pc, pp), (exact, ep))
        if not same_value:
            if guard:
                ctx.violation("prod", f"prod of {len(l)} factors differs from the exact product within the no-wrap guard: impl {list(pc)}*2^{pp} exact {list(exact)}*2^{ep}",
                              {"op": "prod", "factors": l, "impl": [pc, pp], "exact": [exact, ep]})
            elif kind == "unit":
                # only factors that the evaluator really produces (table values w^k, 1+w^k) count as
                # "values that arise from circuits tsim accepts"
                wrapped_inputs.append((l, (pc, pp), (exact, ep)))
    # the same products built the way the evaluator builds them: no power array passed (the class supplies its default)
    dflt = [[(2, 0, 0, 0)] * k for k in (3, 100, 127, 128, 129, 200, 300)] + [[(1, 0, 1, 0)] * k for k in (64, 255, 256, 300)] + \
           [[(1, 0, 1, 0), (2, 0, 0, 0), (1, 0, -1, 0), (0, 0, 1, 0)] * 80, [(0, 1, 0, 0), (2, 0, 0, 0)] * 140]
    for l in dflt:
        arr = ExactScalarArray(jnp.array(l, dtype=jnp.int32).reshape(len(l), 4))
        pr = arr.prod(axis=0)
        got = (tuple(int(v) for v in np.asarray(pr.coeffs)), int(pr.power))
        exact = (1, 0, 0, 0)
        for c in l:
            exact = mul_ref(exact, c)
        ctx.count(("prod-default-power", tuple(l)), nontrivial=True, bucket="prod-default-power")
        if not _same_value(got, (exact, 0)):
            ctx.violation("prod-default-power", f"prod of {len(l)} stabilizer-type factors (first {list(l[0])}, default power array) = {list(got[0])}*2^{got[1]}, "
                          f"exact value has {max(abs(v) for v in exact).bit_length()} bits",
                          {"op": "prod-default", "factors": [list(c) for c in l], "impl": [list(got[0]), got[1]]})
            break
    # sums of products, the shape evaluate() uses: (terms, factors, 4) -> prod over the factors -> sum over the terms, with a vanishing
    # term next to terms that carry a large power of two (a zero must not drag the alignment of the sum)
    sp_cases = [[[(2, 0, 0, 0)] * 40, [(2, 0, 0, 0)] * 20 + [(0, 0, 0, 0)] + [(2, 0, 0, 0)] * 19],
                [[(1, 0, 1, 0)] * 70, [(0, 0, 0, 0)] + [(1, 0, 1, 0)] * 69, [(1, 0, -1, 0)] * 70],
                [[(2, 0, 0, 0)] * 33 + [(0, 1, 0, 0)], [(2, 0, 0, 0)] * 33 + [(1, 0, 0, 0)], [(2, 0, 0, 0)] * 16 + [(0, 0, 0, 0)] + [(2, 0, 0, 0)] * 17]]
    # (a vanishing term is modelled as the pipeline produces it: the same factor structure as its siblings with ONE factor equal to 0; a
    #  term made of zeros only would sit at power 0 next to siblings at 2^33 and wrap the aligned sum, but no circuit produces such a term)
    for _ in range(6 if quick else 60):
        nf_ = int(rng.integers(30, 46))
        terms = []
        for _t in range(int(rng.integers(2, 5))):
            fac = [[(2, 0, 0, 0), (1, 0, 1, 0), (0, 0, 1, 0), (1, 0, -1, 0), (0, 1, 0, 0)][int(rng.integers(0, 5))] for _f in range(nf_)]
            if rng.random() < 0.4:
                fac[int(rng.integers(0, nf_))] = (0, 0, 0, 0)
            terms.append(fac)
        sp_cases.append(terms)
    for terms in sp_cases:
        arr = ExactScalarArray(jnp.array(terms, dtype=jnp.int32))
        tot = arr.prod(axis=1).sum()
        got = (tuple(int(v) for v in np.asarray(tot.coeffs)), int(tot.power))
        exact = (0, 0, 0, 0)
        for fac in terms:
            pr_ = (1, 0, 0, 0)
            for c in fac:
                pr_ = mul_ref(pr_, c)
            exact = tuple(a + b_ for a, b_ in zip(exact, pr_))
        ctx.count(("sum-of-prods", json.dumps(terms)), nontrivial=True, bucket="sum-of-prods")
        if not _same_value(got, (exact, 0)):
            ctx.violation("sum-of-prods", f"sum over {len(terms)} terms of products of {len(terms[0])} stabilizer-type factors = {list(got[0])}*2^{got[1]}, "
                          f"exact value {[int(v) for v in exact]}",
                          {"op": "sum-of-prods", "terms": [[list(c) for c in fac] for fac in terms], "impl": [list(got[0]), got[1]]})
            break
    # products along EVERY axis of arrays of rank 3 and 4 (not only the second-to-last one, the one evaluate() uses): the result at each
    # position is the product of the factors along that axis, value and shape
    for shape, axis in [((3, 3), 0), ((3, 5), 0), ((5, 3), 1), ((2, 3, 4), 0), ((2, 3, 4), 1), ((2, 3, 4), 2), ((4, 2), 0), ((1, 6), 0), ((6, 1), 1)]:
        facs = [(2, 0, 0, 0), (1, 0, 1, 0), (0, 1, 0, 0), (1, 0, -1, 0), (0, 0, 1, 0), (2, 0, 2, 0)]
        arr_np = np.array([facs[int(rng.integers(0, len(facs)))] for _ in range(int(np.prod(shape)))], dtype=np.int64).reshape(shape + (4,))
        try:
            pr = ExactScalarArray(jnp.array(arr_np, dtype=jnp.int32)).prod(axis=axis)
            pc_, pp_ = np.asarray(pr.coeffs), np.asarray(pr.power)
        except Exception as e:
            ctx.violation("prod-axis-raises", f"prod(axis={axis}) of an array of shape {shape + (4,)} raised {e!r}", {"op": "prod-axis", "array": arr_np.tolist(), "axis": axis})
            continue
        ctx.count(("prod-axis", shape, axis), nontrivial=True, bucket="prod-along-any-axis")
        out_shape = tuple(d for i, d in enumerate(shape) if i != axis)
        ok = pc_.shape == out_shape + (4,) and pp_.shape == out_shape
        if ok:
            moved = np.moveaxis(arr_np, axis, -2).reshape((-1, shape[axis], 4))
            for pos in range(moved.shape[0]):
                exact = (1, 0, 0, 0)
                for c in moved[pos]:
                    exact = mul_ref(exact, tuple(int(v) for v in c))
                got = (tuple(int(v) for v in pc_.reshape(-1, 4)[pos]), int(pp_.reshape(-1)[pos]))
                if not _same_value(got, (exact, 0)):
                    ok = False
                    break
        if not ok:
            ctx.violation("prod-axis", f"prod(axis={axis}) of an array of shape {shape + (4,)}: result coeffs {pc_.shape} / power {pp_.shape} "
                          f"(expected {out_shape + (4,)} / {out_shape}) or a value differs from the product of the factors along that axis",
                          {"op": "prod-axis", "array": arr_np.tolist(), "axis": axis})
            break
    ctx.sample({"op": "prod", "n_factors": len(prod_cases[5]), "first": prod_cases[5][:3], "impl": prod_impl[5]})
    # a silent wrap outside the guard is the unguarded clause of the property failing
    for l, got, exact in wrapped_inputs:
        key = _wrap_key(l)
        ctx.violation(key, f"prod of {len(l)} factors (first {list(l[0][0])}) silently wraps: impl {list(got[0])}*2^{got[1]}, exact {list(exact[0])}*2^{exact[1]}",
                      {"op": "prod", "factors": l, "impl": got, "exact": exact})
    if model_usable:
        # the model folds left; the scan may bracket differently, which gives the same reduced
        # representation whenever nothing wraps (guard) -- compare there; zero products may differ in power
        guarded = []
        for l, got in zip(prod_cases, prod_impl):
            bound = 1
            for c, _ in l:
                bound *= max(1, norm1(c))
            if bound < H32:
                guarded.append((l, got))
        mv = cq.eval_terms("c09_prod", IMPORTS, ["[" + "; ".join("esa_prod [" + "; ".join(esa(c, p) for c, p in l) + "]" for l, _ in guarded) + "]"])[0]
        for (l, got), v in zip(guarded, mv):
            mod_v = None if v is None else _esa(v[1])
            if mod_v is None or mod_v[0] != got[0] or (any(got[0]) and mod_v[1] != got[1]):
                ctx.broken.append(f"correspondence:prod model {mod_v} impl {got} on {len(l)} factors starting {l[:2]}")
                break
        ctx.cov["prod_cases_compared_with_model"] = len(guarded)

    # ------------------------------------------------------------------ to_complex (floating point, tolerance)
    for _ in range(200 if quick else 2000):
        c = rand_q4(rng, ["small", "med", "big"][int(rng.integers(0, 3))])
        p = int(rng.integers(-20, 20))
        got = complex(np.asarray(ExactScalarArray(jnp.array([c], dtype=jnp.int32), jnp.array([p], dtype=jnp.int32)).to_complex())[0])
        want = to_c(c, p)
        ctx.count(("to_complex", c, p), bucket="to_complex")
        tol = 2e-6 * max(1.0, norm1(c)) * 2.0 ** p
        if abs(got - want) > tol:
            ctx.violation("to-complex", f"to_complex({list(c)}, {p}) = {got}, exact {want}", {"op": "to_complex", "coeffs": c, "power": p, "impl": str(got), "exact": str(want)})
            break

    # ------------------------------------------------------------------ the sum in context: evaluate() on static-only scalar graphs whose
    # terms cancel almost completely ((2^24+1) - 2^24 and relatives).  The sum over the terms is an exact ring operation and only the final
    # result is rounded, so the value is the exact one up to single-precision rounding OF THE RESULT (not of the terms).
    try:
        from harness.props import c10 as H10
        import tsim.compile.compile as CC
        BIG = 2 ** 24
        ctx_cases = [("integers", [H10.blank(floatfactor=[0, BIG + 1, 0, 0, 0]), H10.blank(floatfactor=[0, BIG, 0, 0, 0], phase=[1, 1])]),
                     ("powers", [H10.blank(floatfactor=[0, BIG + 1, 0, 0, 0], power2=-2), H10.blank(floatfactor=[0, 2 * BIG, 0, 0, 0], power2=-4, phase=[1, 1])]),
                     ("omega", [H10.blank(floatfactor=[0, 3, BIG + 1, 0, -5]), H10.blank(floatfactor=[0, 0, BIG, 0, 0], phase=[1, 1]),
                                H10.blank(floatfactor=[0, BIG + 3, 0, 0, 0], phase=[1, 4]), H10.blank(floatfactor=[0, BIG, 0, 0, 0], phase=[5, 4])])]
        for _ in range(4 if quick else 40):
            big = int(rng.integers(2 ** 24, 2 ** 27))
            small = [int(v) for v in rng.integers(-3, 4, 4)]
            k = int(rng.integers(0, 8))
            pw = int(rng.integers(0, 3))
            ctx_cases.append((f"random-{big}-{k}", [H10.blank(floatfactor=[0, big + small[0], small[1], small[2], small[3]], phase=[k, 4], power2=-2 * pw),
                                                    H10.blank(floatfactor=[0, big << pw, 0, 0, 0], phase=[(k + 4) % 8, 4], power2=-4 * pw)]))
        for nm, graphs in ctx_cases:
            case = {"name": nm, "params": ["a"], "graphs": graphs}
            comp = CC.compile_scalar_graphs(H10.mk_graphs(case), ["a"])
            got = complex(np.asarray(EV.evaluate(comp, jnp.zeros((1, 1), dtype=jnp.uint8)))[0])
            tot = H10.ZERO
            for d in graphs:
                tot = tot + H10.ref_value(d, {"a": 0})[0]
            want = tot.to_complex()
            ctx.count(("sum-in-context", nm), nontrivial=True, bucket="sum-in-evaluate")
            if abs(got - want) > 3e-6 * max(tot.norm1(), 1e-30):
                ctx.violation("sum-in-evaluate:" + nm.split("-")[0], f"evaluate() over {len(graphs)} nearly cancelling terms = {got}, the exact sum is {want} "
                              f"(terms of size 2^24 and more: the sum over terms must be exact, rounding only the result)",
                              {"op": "sum-in-evaluate", "graphs": graphs})
                break
    except ImportError:
        pass

    # ------------------------------------------------------------------ verdict on broken ties
    if ctx.broken and not ctx.violations:
        # the searches above (impl vs exact python-int arithmetic on every case) found nothing
        report_broken_without_input(ctx)
    return ctx.finish(
        rule="cases = int32 coefficient tuples / (coeffs,power) lists drawn from one PRNG (VERIF_SEED): exhaustive box for mul "
             "([-1,1]^8 quick, [-2,2]^8 thorough) plus random small/medium/full-range/even/unit-table values; reduce, sum (equal and "
             "unequal powers, differences up to 80), prod (0..150 factors, table values), to_complex. non-trivial = both factors non-zero "
             "(mul), reducible input (reduce), >1 distinct power (sum), >1 factor (prod). implementation result is compared with exact "
             "python-int arithmetic AND with the Coq model evaluated by vm_compute.",
        explanation="Theorems C09_* over the regenerated scalar_mul/tables and the hand model of reduce/sum/prod; see DESIGN.md 4.C09",
        assumptions=["JAX int32 arithmetic wraps modulo 2^32 (validated by the bit-exact correspondence)"],
    )


def _esa(t):
    """Coq prints ((a,b,c,d),p) as the flat 5-tuple (a, b, c, d, p)"""
    t = tuple(t)
    return (tuple(int(x) for x in t[:4]), int(t[4]))


def _same_value(a, b) -> bool:
    (ca, pa), (cb, pb) = a, b
    m = min(pa, pb)
    return tuple(int(v) * (1 << (pa - m)) for v in ca) == tuple(int(v) * (1 << (pb - m)) for v in cb)


def _wrap_key(l) -> str:
    firsts = sorted({tuple(c) for c, _ in l})
    if len(firsts) == 1:
        return f"prod-wrap-{len(l)}x{list(firsts[0])}".replace(" ", "")
    return f"prod-wrap-{len(l)}-mixed-factors"


def replay(ctx: Ctx, obj) -> int:
    import jax.numpy as jnp
    from tsim.core.exact_scalar import ExactScalarArray, _scalar_mul
    r = obj.get("replay") or {}
    print(json.dumps(r)[:2000])
    if r.get("op") == "mul":
        got = np.asarray(_scalar_mul(jnp.array([r["x"]], dtype=jnp.int32), jnp.array([r["y"]], dtype=jnp.int32)))[0].tolist()
        print("impl now:", got, "exact:", list(mul_ref(r["x"], r["y"])))
        return 0 if tuple(got) == tuple(mul_ref(r["x"], r["y"])) else 1
    if r.get("op") == "prod":
        l = r["factors"]
        pr = ExactScalarArray(jnp.array([c for c, _ in l], dtype=jnp.int32).reshape(len(l), 4), jnp.array([p for _, p in l], dtype=jnp.int32)).prod(axis=0)
        got = (tuple(int(v) for v in np.asarray(pr.coeffs)), int(pr.power))
        exact = (1, 0, 0, 0)
        for c, _ in l:
            exact = mul_ref(exact, c)
        print("impl now:", got, "exact:", exact, sum(p for _, p in l))
        return 0 if _same_value(got, (exact, sum(p for _, p in l))) else 1
    if r.get("op") == "sum-in-evaluate":
        from harness.props import c10 as H10
        import tsim.compile.compile as CC
        import tsim.compile.evaluate as EV
        case = {"name": "replay", "params": ["a"], "graphs": r["graphs"]}
        got = complex(np.asarray(EV.evaluate(CC.compile_scalar_graphs(H10.mk_graphs(case), ["a"]), jnp.zeros((1, 1), dtype=jnp.uint8)))[0])
        tot = H10.ZERO
        for d in r["graphs"]:
            tot = tot + H10.ref_value(d, {"a": 0})[0]
        print("impl now:", got, "exact:", tot.to_complex())
        return 0 if abs(got - tot.to_complex()) <= 3e-6 * max(tot.norm1(), 1e-30) else 1
    if r.get("op") == "prod-axis":
        arr_np = np.array(r["array"], dtype=np.int64)
        axis = int(r["axis"])
        pr = ExactScalarArray(jnp.array(arr_np, dtype=jnp.int32)).prod(axis=axis)
        pc_, pp_ = np.asarray(pr.coeffs), np.asarray(pr.power)
        shape = arr_np.shape[:-1]
        out_shape = tuple(d for i, d in enumerate(shape) if i != axis)
        if pc_.shape != out_shape + (4,) or pp_.shape != out_shape:
            print("shapes now:", pc_.shape, pp_.shape)
            return 1
        moved = np.moveaxis(arr_np, axis, -2).reshape((-1, shape[axis], 4))
        for pos in range(moved.shape[0]):
            exact = (1, 0, 0, 0)
            for c in moved[pos]:
                exact = mul_ref(exact, tuple(int(v) for v in c))
            if not _same_value((tuple(int(v) for v in pc_.reshape(-1, 4)[pos]), int(pp_.reshape(-1)[pos])), (exact, 0)):
                print("value differs at position", pos)
                return 1
        return 0
    if r.get("op") == "sum-of-prods":
        terms = [[tuple(c) for c in fac] for fac in r["terms"]]
        tot = ExactScalarArray(jnp.array(terms, dtype=jnp.int32)).prod(axis=1).sum()
        got = (tuple(int(v) for v in np.asarray(tot.coeffs)), int(tot.power))
        exact = (0, 0, 0, 0)
        for fac in terms:
            pr_ = (1, 0, 0, 0)
            for c in fac:
                pr_ = mul_ref(pr_, c)
            exact = tuple(a + b_ for a, b_ in zip(exact, pr_))
        print("impl now:", got)
        return 0 if _same_value(got, (exact, 0)) else 1
    if r.get("op") == "prod-default":
        l = [tuple(c) for c in r["factors"]]
        pr = ExactScalarArray(jnp.array(l, dtype=jnp.int32).reshape(len(l), 4)).prod(axis=0)
        got = (tuple(int(v) for v in np.asarray(pr.coeffs)), int(pr.power))
        exact = (1, 0, 0, 0)
        for c in l:
            exact = mul_ref(exact, c)
        print("impl now:", got)
        return 0 if _same_value(got, (exact, 0)) else 1
    if r.get("op") == "sum-batched":
        rows = r["rows"]
        s = ExactScalarArray(jnp.array([[c for c, _ in rr] for rr in rows], dtype=jnp.int32), jnp.array([[p for _, p in rr] for rr in rows], dtype=jnp.int32)).sum()
        b = r["row"]
        got = (tuple(int(v) for v in np.asarray(s.coeffs)[b]), int(np.asarray(s.power)[b]))
        print("impl now:", got, "exact:", r["exact"])
        return 0 if _same_value(got, (tuple(r["exact"][0]), r["exact"][1])) else 1
    if r.get("op") == "sum":
        l = r["terms"]
        s = ExactScalarArray(jnp.array([c for c, _ in l], dtype=jnp.int32), jnp.array([p for _, p in l], dtype=jnp.int32)).sum()
        got = (tuple(int(v) for v in np.asarray(s.coeffs)), int(s.power))
        print("impl now:", got, "exact:", r["exact"])
        return 0 if _same_value(got, (tuple(r["exact"][0]), r["exact"][1])) else 1
    return 1
