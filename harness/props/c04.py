"""C04 -- stabilizer circuits of realistic size agree with Stim.

Proof part (re-exported in Props/C04.v): component partition and output ownership (C11), column re-ordering for any
partition (C06_reorder), stabilizer-type integer products never wrap for any number of factors in any bracketing (C09),
conditionals invariant under the common power-of-two rescaling.
Correspondence part: every tsim shot of generated stabilizer circuits (QEC memory circuits, random Clifford circuits with
measurements/resets/feedback/MPP on tens of qubits, GHZ-type components with up to 120 correlated outputs, Pauli channels
with p in {0,1}) is replayed through stim.TableauSimulator: results that are deterministic given the earlier results must
match, the others must be reachable, and the joint probability the real sampler assigned to the shot (product of the
conditionals it used, read by forced sampling) must be exactly 2^-(number of free results).  For noisy QEC circuits each
single error mechanism is inserted deterministically and the flipped detectors/observables are compared with Stim's, and for small
noisy stabilizer circuits with probabilistic X/Y/Z_ERROR, DEPOLARIZE1/2 the exact distribution of all detector/observable events of the
real sampler (real simplified channels) is compared with the XOR-convolution of Stim's detector error model.
"""
from __future__ import annotations

import math
import time

import numpy as np

from harness.common import Ctx, report_broken_without_input, standard_model_phase

MANIFEST = dict(
    text=("Machine-checked proof (Coq 8.16.1) of the size-independent bookkeeping and arithmetic that stabilizer circuits of any "
          "size rely on: connected components partition vertices/edges/outputs with sorted ownership lists (C11 model), the "
          "column re-ordering combined[:, argsort(output_order)] restores program order for ANY partition into sorted blocks "
          "(any n), int32 products of stabilizer-type scalars never wrap for ANY number of factors in ANY bracketing of the scan "
          "(C09, on the regenerated prod), and the sampler's conditionals are invariant under the common 2^k rescaling. Agreement "
          "with Stim's tableau semantics is validated on every run: each tsim shot of generated circuits (distance-3 memory "
          "codes, random Clifford circuits with resets/feedback/MPP on 10-60 (thorough 300) qubits, GHZ components with up to 120 "
          "correlated outputs, Pauli channels with p in {0,1}) is replayed through stim.TableauSimulator (deterministic results "
          "must match, free ones must be reachable) and the probability the REAL sampler gave the shot must be exactly "
          "2^-(#free results); for noisy QEC circuits every inserted single Pauli mechanism must flip the detectors Stim says."),
    note=("Trusted: Coq kernel; C06/C09/C11 models and their ties; stim.TableauSimulator as the reference; forced sampling. "
          "'equals Stim's tableau semantics' is validated by replay, not proved (partial)."),
    technique="Coq proofs of bookkeeping/overflow lemmas (induction, finite closure) + tableau replay of every sampled shot with exact shot probabilities",
    design_ref="DESIGN.md 4.C04",
)
COQ_FILES = ["Base/Wrap32.v", "Base/D8.v", "gen/Gen_exact_scalar.v", "Model/ExactScalar.v", "Proofs/ExactScalarProofs.v",
             "Proofs/CliffordProd.v", "Proofs/BalanceProofs.v", "Base/ListPerm.v", "gen/Gen_sampler_dispatch.v", "Model/Sampler.v",
             "Proofs/SamplerProofs.v", "Props/C06.v", "gen/Gen_decompose.v", "Model/Decompose.v", "Model/Components.v",
             "Proofs/DecomposeProofs.v", "Proofs/ComponentsProofs.v", "Props/C11.v", "Props/C04.v"]
TRANSLATORS = ["exact_scalar", "sampler_dispatch", "decompose"]


# ----------------------------------------------------------------------------------------------
from harness.exactdist import unjitted_component_sampler


def sample_with_probabilities(sampler, nshots):
    """real sample_program on real channel samples; then forced sampling of exactly these rows to read the
    conditionals the sampler used.  Returns (shots [n, nout] in program order, prob [n], bad list)"""
    import jax
    import jax.numpy as jnp
    import tsim.sampler as S
    prog = sampler._program
    f = sampler._channel_sampler.sample(nshots)
    key = jax.random.key(12345)
    # run the real sample_program, with the jitted wrapper of the autoregressive loop replaced by the function it wraps
    # (XLA compilation of a 34-step unrolled loop takes minutes; `evaluate` itself stays jitted; JIT == non-JIT is C06's business)
    jit_orig = S._sample_component_jit
    S._sample_component_jit = unjitted_component_sampler(S)
    try:
        shots = np.asarray(S.sample_program(prog, f, key)).astype(bool)
    finally:
        S._sample_component_jit = jit_orig
    order = np.asarray(prog.output_order)
    forced_cols = shots[:, order] if shots.shape[1] else shots
    state = {"j": 0, "p": np.ones(nshots), "bad": [], "cond": []}
    orig = jax.random.bernoulli

    def fake(key_, p=0.5, shape=None):
        j = state["j"]
        state["j"] += 1
        bits = forced_cols[:, j]
        pp = np.asarray(p, dtype=np.float64)
        contrib = np.where(bits, pp, 1 - pp)
        if np.any(np.isnan(pp)) or np.any(pp < -1e-6) or np.any(pp > 1 + 1e-6):
            state["bad"].append((j, pp.tolist()[:4]))
        state["p"] = state["p"] * np.nan_to_num(contrib)
        state["cond"].append(pp)
        return jnp.array(bits)
    jax.random.bernoulli = fake
    S._sample_component_jit = unjitted_component_sampler(S)
    try:
        again = np.asarray(S.sample_program(prog, f, jax.random.key(0))).astype(bool)
    finally:
        jax.random.bernoulli = orig
        S._sample_component_jit = jit_orig
    if shots.shape[1] and not (again == shots).all():
        raise AssertionError("forced re-run did not reproduce the sampled rows")
    return shots, state["p"], state["bad"], np.asarray(f)


def tableau_replay(circ, shot):
    """replay one measurement record through stim.TableauSimulator.  Deterministic Pauli channels (p in {0,1}) only.
    Returns (ok, n_free, message)"""
    import stim
    sim = stim.TableauSimulator()
    n = max(circ.num_qubits, 1)
    sim.set_num_qubits(n)
    k = 0
    free = 0
    rec = []
    chain_fired = False

    def measure(pauli: "stim.PauliString", invert: bool, reset_to=None):
        nonlocal k, free
        want = bool(shot[k]) ^ invert       # true outcome
        e = sim.peek_observable_expectation(pauli)
        if e == 0:
            free += 1
            sim.postselect_observable(pauli, desired_value=want)
        else:
            if (e == -1) != want:
                return False
        rec.append(bool(shot[k]))
        k += 1
        return True

    for ins in circ.flattened():
        name = ins.name
        ts = ins.targets_copy()
        args = ins.gate_args_copy()
        gd = stim.gate_data(name)
        if name in ("TICK", "QUBIT_COORDS", "SHIFT_COORDS", "DETECTOR", "OBSERVABLE_INCLUDE"):
            continue
        if name in ("M", "MX", "MY", "MR", "MRX", "MRY"):
            b = "Z" if name in ("M", "MR") else name[-1]
            for t in ts:
                ps = stim.PauliString(n)
                ps[t.value] = b
                if not measure(ps, t.is_inverted_result_target):
                    return False, free, f"deterministic result {k} ({name} {t}) differs"
                if name.startswith("MR"):
                    # reset to the +1 eigenstate: after the projective measurement apply the flip if the true outcome was 1
                    true_out = bool(shot[k - 1]) ^ t.is_inverted_result_target
                    if true_out:
                        getattr(sim, {"Z": "x", "X": "z", "Y": "x"}[b])(t.value)
            continue
        if name in ("R", "RX", "RY"):
            b = {"R": "Z", "RX": "X", "RY": "Y"}[name]
            for t in ts:
                q = t.value
                # a reset hides a random outcome only if the qubit is not in an eigenstate of the reset basis; that is harmless
                # when the qubit is unentangled (peek_bloch returns a Pauli), harmful when it is entangled with others
                psb = stim.PauliString(n)
                psb[q] = b
                if sim.peek_observable_expectation(psb) == 0 and sim.peek_bloch(q).weight == 0:
                    return None, free, "hidden randomness (reset of a qubit entangled with others)"
                if b == "X":
                    sim.h(q)
                elif b == "Y":
                    sim.h_yz(q)
                res = sim.measure(q)
                if res:
                    sim.x(q)
                if b == "X":
                    sim.h(q)
                elif b == "Y":
                    sim.h_yz(q)
            continue
        if name == "MPP":
            cur = stim.PauliString(n)
            inv = False
            for i, t in enumerate(ts):
                if t.is_combiner:
                    continue
                P = "X" if t.is_x_target else "Y" if t.is_y_target else "Z"
                cur[t.value] = P
                inv ^= t.is_inverted_result_target
                if i + 1 >= len(ts) or not ts[i + 1].is_combiner:
                    if not measure(cur, inv):
                        return False, free, f"deterministic MPP result {k} differs"
                    cur = stim.PauliString(n)
                    inv = False
            continue
        if name in ("E", "CORRELATED_ERROR", "ELSE_CORRELATED_ERROR"):
            if args[0] not in (0.0, 1.0):
                raise NotImplementedError("probabilistic channel in tableau replay")
            if name != "ELSE_CORRELATED_ERROR":
                chain_fired = False
            if args[0] == 1.0 and not chain_fired:
                chain_fired = True
                for t in ts:
                    getattr(sim, "x" if t.is_x_target else "y" if t.is_y_target else "z")(t.value)
            continue
        if name in ("X_ERROR", "Y_ERROR", "Z_ERROR"):
            if args[0] == 1.0:
                getattr(sim, name[0].lower())(*[t.value for t in ts])
            elif args[0] != 0.0:
                raise NotImplementedError("probabilistic channel in tableau replay")
            continue
        if gd.is_unitary:
            if any(t.is_measurement_record_target for t in ts):
                for i in range(0, len(ts), 2):
                    a, b = ts[i], ts[i + 1]
                    if not (a.is_measurement_record_target or b.is_measurement_record_target):
                        sim.do(stim.CircuitInstruction(name, [a, b], args))
                        continue
                    if a.is_measurement_record_target:
                        ctrl, tgt, P = rec[a.value], b.value, {"CX": "x", "CY": "y", "CZ": "z"}[name if name in ("CX", "CY", "CZ") else {"CNOT": "CX", "ZCX": "CX", "ZCY": "CY", "ZCZ": "CZ"}[name]]
                    else:
                        ctrl, tgt, P = rec[b.value], a.value, {"CZ": "z", "XCZ": "x", "YCZ": "y", "ZCZ": "z"}[name]
                    if ctrl:
                        getattr(sim, P)(tgt)
                continue
            sim.do(stim.CircuitInstruction(name, ts, args))
            continue
        raise NotImplementedError(name)
    return True, free, ""


# ----------------------------------------------------------------------------------------------
def gen_clifford(rng, nq, depth, with_feedback=True):
    lines = []
    qs = list(range(nq))
    nmeas = 0
    for q in qs:
        if rng.random() < 0.5:
            lines.append(f"{['H', 'RX', 'RY', 'SQRT_X'][int(rng.integers(0, 4))]} {q}")
    for _ in range(depth):
        r = rng.random()
        if r < 0.45:
            a, b = rng.choice(nq, size=2, replace=False)
            lines.append(f"{['CX', 'CZ', 'CY', 'SWAP', 'ISWAP', 'SQRT_XX', 'XCZ', 'SQRT_ZZ_DAG'][int(rng.integers(0, 8))]} {a} {b}")
        elif r < 0.75:
            lines.append(f"{['H', 'S', 'SQRT_X', 'S_DAG', 'C_XYZ', 'H_YZ', 'X', 'Y', 'Z', 'SQRT_Y_DAG'][int(rng.integers(0, 10))]} {int(rng.integers(0, nq))}")
        elif r < 0.85:
            g = ["M", "MX", "MY", "MR", "MRX", "MRY"][int(rng.integers(0, 6))]
            q = int(rng.integers(0, nq))
            lines.append(f"{g} {'!' if rng.random() < 0.2 else ''}{q}")
            nmeas += 1
        elif r < 0.9:
            # measure-and-reset in one basis, then re-prepare in another: resets never hide a random outcome
            q = int(rng.integers(0, nq))
            lines.append(f"{['MR', 'MRX', 'MRY'][int(rng.integers(0, 3))]} {q}")
            lines.append(f"{['R', 'RX', 'RY'][int(rng.integers(0, 3))]} {q}")
            nmeas += 1
        elif r < 0.94:
            k = int(rng.integers(2, 4))
            sel = rng.choice(nq, size=k, replace=False)
            lines.append("MPP " + "*".join(f"{'XYZ'[int(rng.integers(0, 3))]}{int(q)}" for q in sel))
            nmeas += 1
        elif r < 0.97 and nmeas > 0 and with_feedback:
            lines.append(f"{['CX', 'CZ', 'CY'][int(rng.integers(0, 3))]} rec[-{int(rng.integers(1, min(nmeas, 4) + 1))}] {int(rng.integers(0, nq))}")
        else:
            lines.append(f"{['X_ERROR', 'Z_ERROR', 'Y_ERROR'][int(rng.integers(0, 3))]}({[0, 1][int(rng.integers(0, 2))]}) {int(rng.integers(0, nq))}")
    lines.append("M " + " ".join(map(str, qs)))
    return "\n".join(lines)


def ghz(n, kind, rng):
    lines = ["H 0"] + [f"CX 0 {i}" for i in range(1, n)]
    if kind == "zz":
        lines.append("M " + " ".join(map(str, range(n))))
    elif kind == "chain":
        lines = ["H 0"] + [f"CX {i} {i + 1}" for i in range(n - 1)] + ["S 0", "M " + " ".join(map(str, range(n)))]
    else:
        lines += [f"H {i}" for i in range(n)] + ["M " + " ".join(map(str, range(n)))]
    return "\n".join(lines)


_CALLS = [0]


def check_shots(ctx, text, label, nshots, finding_key=None):
    try:
        _check_shots(ctx, text, label, nshots, finding_key)
    finally:
        # every compiled graph is its own XLA executable: drop them now and then, or a long run exhausts the process's memory maps
        # (dropping them after every circuit would also throw away jax's own jitted helpers and triple the running time)
        _CALLS[0] += 1
        big = text.count("\n") > 150
        if big or _CALLS[0] % 8 == 0:
            import gc
            import jax
            jax.clear_caches()
            gc.collect()


def _check_shots(ctx, text, label, nshots, finding_key=None):
    import stim
    import tsim
    c = tsim.Circuit(text)
    try:
        sampler = c.compile_sampler(seed=int(ctx.rng.getrandbits(30)))
        shots, prob, bad, f = sample_with_probabilities(sampler, nshots)
    except Exception as e:
        ctx.violation(finding_key or f"{label}-raises", f"tsim raised {e!r}", {"text": text})
        return
    sc = c._stim_circ
    comps = [len(cc.output_indices) for cc in sampler._program.components]
    ctx.count((label, text), bucket=label)
    ctx.hist[f"max-component-outputs<={10 ** math.ceil(math.log10(max(comps + [1]) + 0.5))}"] = ctx.hist.get(f"max-component-outputs<={10 ** math.ceil(math.log10(max(comps + [1]) + 0.5))}", 0) + 1
    if bad:
        ctx.violation(finding_key or f"{label}-bernoulli", "a conditional probability used by the sampler is outside [0,1] or nan", {"text": text, "bad": bad[:2]})
    for i in range(shots.shape[0]):
        ok, free, msg = tableau_replay(sc, shots[i])
        if ok is None:
            ctx.hist["skipped-hidden-randomness"] = ctx.hist.get("skipped-hidden-randomness", 0) + 1
            return
        if not ok:
            ctx.violation(finding_key or f"{label}-impossible-shot", f"tsim returned a record Stim's tableau semantics forbids: {msg}",
                          {"text": text, "shot": shots[i].astype(int).tolist()})
            return
        want = 2.0 ** (-free)
        if abs(prob[i] - want) > 1e-6 * max(want, 1e-12) + 1e-12:
            ctx.violation(finding_key or f"{label}-biased", f"the sampler gave a record probability {prob[i]:.6g}; Stim's semantics has {free} free results, i.e. 2^-{free} = {want:.6g}",
                          {"text": text, "shot": shots[i].astype(int).tolist(), "prob": float(prob[i]), "free": free})
            return
    if len(ctx.samples) < 4:
        ctx.sample({"kind": label, "qubits": sc.num_qubits, "measurements": sc.num_measurements, "largest_component_outputs": max(comps + [0]),
                    "shots": int(shots.shape[0]), "first_shot_probability": float(prob[0]) if len(prob) else None})


def check_mechanisms(ctx, rng, nmax):
    """noisy QEC circuits: every single inserted Pauli must flip exactly the detectors/observables Stim flips"""
    import stim
    import tsim
    tasks = [("repetition_code:memory", 3, 2), ("surface_code:rotated_memory_z", 3, 2), ("surface_code:rotated_memory_x", 3, 2),
             ("color_code:memory_xyz", 3, 2)]
    done = 0
    for task, d, rounds in tasks:
        base = stim.Circuit.generated(task, distance=d, rounds=rounds, after_clifford_depolarization=0.001,
                                      before_measure_flip_probability=0.001, after_reset_flip_probability=0.001).flattened()
        # noise sites
        sites = [i for i, ins in enumerate(base) if stim.gate_data(ins.name).is_noisy_gate and not stim.gate_data(ins.name).produces_measurements]
        noiseless = [ins for ins in base]
        for _ in range(nmax):
            i = sites[int(rng.integers(0, len(sites)))]
            ins = base[i]
            ts = [t.value for t in ins.targets_copy()]
            if ins.name == "DEPOLARIZE2":
                j = 2 * int(rng.integers(0, len(ts) // 2))
                pa, pb = "IXYZ"[int(rng.integers(0, 4))], "XYZ"[int(rng.integers(0, 3))]
                repl = [(pa, ts[j]), (pb, ts[j + 1])]
            else:
                P = {"X_ERROR": "X", "Z_ERROR": "Z", "Y_ERROR": "Y"}.get(ins.name, "XYZ"[int(rng.integers(0, 3))])
                repl = [(P, ts[int(rng.integers(0, len(ts)))])]
            variant = stim.Circuit()
            for k, other in enumerate(base):
                if k == i:
                    for P, q in repl:
                        if P != "I":
                            variant.append(P, [q])
                    continue
                if stim.gate_data(other.name).is_noisy_gate and not stim.gate_data(other.name).produces_measurements:
                    continue
                if stim.gate_data(other.name).produces_measurements and other.gate_args_copy():
                    variant.append(other.name, other.targets_copy())
                    continue
                variant.append(other)
            # actual parities of Stim's own record for the variant (no reference shot): deterministic for these circuits
            meas = variant.compile_sampler(seed=5).sample(1)
            want = variant.compile_m2d_converter(skip_reference_sample=True).convert(measurements=meas, append_observables=True)[0]
            tc = tsim.Circuit.from_stim_program(variant)
            got = tc.compile_detector_sampler(seed=1).sample(3, append_observables=True)
            ctx.count((task, i, str(repl)), bucket="mechanism-" + task.split(":")[0])
            done += 1
            if not (got == want[None, :]).all():
                ctx.violation(f"mechanism-{task}", f"inserting {repl} at instruction {i} of {task}: tsim detector/observable flips differ from Stim's",
                              {"text": str(variant), "det": True, "stim": want.astype(int).tolist(), "tsim": got[0].astype(int).tolist()})
                return done
    return done


def dem_distribution(text: str):
    """exact joint distribution of (detectors, observables) implied by Stim's detector error model: XOR-convolution of its independent
    mechanisms (exact for X/Y/Z_ERROR, DEPOLARIZE1/2)"""
    import stim
    circ = stim.Circuit(text)
    nd, no = circ.num_detectors, circ.num_observables
    dem = circ.detector_error_model(flatten_loops=True)
    dist = np.zeros(2 ** (nd + no))
    dist[0] = 1.0
    idx = np.arange(len(dist))
    for inst in dem:
        if inst.type != "error":
            continue
        pr = inst.args_copy()[0]
        m = 0
        for t in inst.targets_copy():
            if t.is_relative_detector_id():
                m ^= 1 << t.val
            elif t.is_logical_observable_id():
                m ^= 1 << (nd + t.val)
        dist = dist * (1 - pr) + dist[idx ^ m] * pr
    return {tuple((k >> j) & 1 for j in range(nd + no)): float(v) for k, v in enumerate(dist) if v > 0}


DEM_FIXED = [
    # multi-bit channels whose bits collapse onto one signature (a Y eigenstate measured in Y; a Bell pair) next to a channel with a larger
    # signature set, so that the simplification expands one into the other
    "RY 0\nR 1\nDEPOLARIZE1(0.3) 0\nDEPOLARIZE2(0.15) 0 1\nMY 0\nM 1\nDETECTOR rec[-2]\nDETECTOR rec[-1]",
    "R 0 1 2 3\nH 0 2\nCX 0 1 2 3\nDEPOLARIZE2(0.09) 1 2\nDEPOLARIZE2(0.12) 0 1 2 3\nCX 0 1 2 3\nH 0 2\nM 0 1 2 3\nDETECTOR rec[-4]\nDETECTOR rec[-3]\nDETECTOR rec[-2]\nDETECTOR rec[-1]",
    "R 0 1\nX_ERROR(0.1) 0\nDEPOLARIZE2(0.2) 0 1\nM 0 1\nDETECTOR rec[-2]\nDETECTOR rec[-1]",
    "RX 0\nR 1\nCX 0 1\nDEPOLARIZE1(0.2) 0 1\nY_ERROR(0.125) 1\nDEPOLARIZE2(0.3) 1 0\nCX 0 1\nMX 0\nM 1\nDETECTOR rec[-2]\nOBSERVABLE_INCLUDE(0) rec[-1]",
]


def check_dem_probabilities(ctx, rng, n_random):
    """noisy stabilizer circuits with PROBABILISTIC Pauli channels: the exact distribution of all detector / observable parities the real
    sampler uses (real simplified channels, conditionals read by forced sampling) equals the one implied by Stim's detector error model"""
    import tsim
    from harness.exactdist import dist_diff, tsim_dist
    texts = list(DEM_FIXED)
    for _ in range(n_random):
        nq = int(rng.integers(2, 5))
        L = [f"{['R', 'RX', 'RY'][int(rng.integers(0, 3))]} {q}" for q in range(nq)]
        bases = [l.split()[0][1:] or "Z" for l in L]
        fwd = []
        for _g in range(int(rng.integers(1, 4))):
            if nq >= 2 and rng.random() < 0.6:
                a, b = rng.choice(nq, size=2, replace=False)
                fwd.append(f"{['CX', 'CZ', 'CY'][int(rng.integers(0, 3))]} {int(a)} {int(b)}")
            else:
                fwd.append(f"{['H', 'S', 'SQRT_X', 'H_YZ'][int(rng.integers(0, 4))]} {int(rng.integers(0, nq))}")
        noise = []
        for _k in range(int(rng.integers(2, 4))):
            pr = [0.0625, 0.125, 0.1875, 0.25, 0.375][int(rng.integers(0, 5))]
            r = rng.random()
            if r < 0.4 and nq >= 2:
                a, b = rng.choice(nq, size=2, replace=False)
                noise.append(f"DEPOLARIZE2({pr}) {int(a)} {int(b)}")
            elif r < 0.8:
                noise.append(f"DEPOLARIZE1({pr}) {int(rng.integers(0, nq))}")
            else:
                noise.append(f"{['X_ERROR', 'Y_ERROR', 'Z_ERROR'][int(rng.integers(0, 3))]}({pr}) {int(rng.integers(0, nq))}")
        import stim
        inv = [str(i) for i in stim.Circuit("\n".join(fwd)).inverse()]
        meas = [f"M{'' if b == 'Z' else b} {q}" for q, b in enumerate(bases)]
        ann = [f"DETECTOR rec[-{nq - q}]" for q in range(nq)]
        if rng.random() < 0.5:
            ann[-1] = f"OBSERVABLE_INCLUDE(0) rec[-1] rec[-{nq}]"
        texts.append("\n".join(L + fwd + noise + inv + meas + ann))
    for text in texts:
        try:
            want = dem_distribution(text)
        except Exception:
            continue                   # Stim cannot build a model (non-deterministic detector): not a case
        try:
            got, info = tsim_dist(tsim.Circuit(text), det=True, max_f=12)
        except ValueError:
            continue
        except Exception as e:
            ctx.violation("dem-probabilities-raises:" + text.replace("\n", ";")[:50], f"tsim raised {e!r} on a noisy stabilizer circuit", {"text": text, "kind": "dem"})
            continue
        dd = dist_diff(got, want)
        ctx.count(("dem-prob", text), nontrivial=len(want) > 1, bucket="dem-event-probabilities")
        if dd > 1e-6:
            worst = max(set(got) | set(want), key=lambda k: abs(got.get(k, 0.0) - want.get(k, 0.0)))
            ctx.violation("dem-probabilities:" + text.replace("\n", ";")[:70],
                          f"the probability of the detector/observable event {worst} is {got.get(worst, 0.0):.6g}, Stim's detector error model implies {want.get(worst, 0.0):.6g}",
                          {"text": text, "kind": "dem", "tsim": {str(k): v for k, v in got.items() if v > 1e-12}, "stim_dem": {str(k): v for k, v in want.items() if v > 1e-12}})


def run(ctx: Ctx) -> int:
    standard_model_phase(ctx, TRANSLATORS, COQ_FILES, "Props.C04", "Props/C04.v")
    ctx.trusted += ["stim.TableauSimulator (peek_observable_expectation / postselect_observable) as reference semantics",
                    "forced sampling reads the conditionals the real sampler used", "C06/C09/C11 models and ties"]
    import stim
    rng = ctx.np_rng()
    t_end = time.time() + (140 if ctx.quick else 1500)
    quick = ctx.quick
    # GHZ-type components with many correlated outputs (the int32 wrap of the unfixed prod showed at 34; 129+ terms exercise the width of the power-of-two exponent)
    for n, kinds in ([(2, ["zz"]), (33, ["zz"]), (34, ["zz", "chain"]), (48, ["zz"]), (120, ["xx"])] if quick else
                     [(k, ["zz", "xx", "chain"]) for k in [1, 2, 5, 31, 32, 33, 34, 35, 48, 64, 90, 120, 129, 140, 200, 260]]):
        for kind in kinds:
            if time.time() > t_end - (30 if ctx.quick else 800):      # in the thorough tier the GHZ family gets about half of the budget
                break
            # a component with 128 or more fair random outputs underflows float32 (recorded finding, identified per circuit)
            fk = f"float32-underflow:ghz-xx-{n}" if (kind == "xx" and n >= 128) else None
            check_shots(ctx, ghz(n, kind, rng), f"ghz-{kind}", 6 if quick else 20, finding_key=fk)
    # probabilistic Pauli channels: exact detector-event probabilities vs Stim's detector error model
    check_dem_probabilities(ctx, rng, 10 if quick else 200)
    # deterministic correlated-error chains (3..6 links, random Pauli products, probabilities 0/1) inside Clifford circuits
    for rep in range(10 if quick else 120):
        if time.time() > t_end:
            break
        nq = int(rng.integers(3, 7))
        pre = gen_clifford(rng, nq, depth=nq, with_feedback=False).split("\n")[:-1]
        pre = [l for l in pre if not l.startswith(("M", "R"))]
        links = []
        for j in range(int(rng.integers(3, 7))):
            qs = rng.choice(nq, size=int(rng.integers(1, 3)), replace=False)
            links.append(f"{'E' if j == 0 else 'ELSE_CORRELATED_ERROR'}({int(rng.random() < (0.3 if j < 2 else 0.6))}) " +
                         " ".join(f"{'XYZ'[int(rng.integers(0, 3))]}{int(q)}" for q in qs))
        text = "\n".join(pre + links + ["M " + " ".join(map(str, range(nq)))])
        check_shots(ctx, text, "clifford-correlated-chain", 4)
    check_shots(ctx, "E(0) X0 X2\nELSE_CORRELATED_ERROR(1) X1\nELSE_CORRELATED_ERROR(1) X0\nM 0 1 2", "clifford-correlated-chain", 2)
    for k in (5, 6, 8):      # long chains whose last alternative fires with certainty: exactly one qubit is flipped
        check_shots(ctx, "\n".join(f"{'E' if j == 0 else 'ELSE_CORRELATED_ERROR'}({1 if j == k - 1 else 0}) X{j}" for j in range(k)) + "\nM " + " ".join(map(str, range(k))),
                    "clifford-correlated-chain", 2)
    # QEC memory circuits, noiseless
    for task, d, r in ([("repetition_code:memory", 3, 2), ("surface_code:rotated_memory_z", 3, 2), ("color_code:memory_xyz", 3, 2)] if quick else
                       [("repetition_code:memory", 5, 3), ("surface_code:rotated_memory_z", 3, 3), ("surface_code:rotated_memory_x", 3, 2),
                        ("surface_code:unrotated_memory_z", 3, 2), ("color_code:memory_xyz", 3, 2), ("surface_code:rotated_memory_z", 5, 2)]):
        if time.time() > t_end:
            break
        text = str(stim.Circuit.generated(task, distance=d, rounds=r).flattened())
        check_shots(ctx, text, "qec-" + task.split(":")[0], 4 if quick else 10)
    # random Clifford circuits with resets, feedback, MPP, deterministic Pauli channels
    sizes = [10, 16, 24, 40, 60] if quick else [10, 20, 40, 80, 150, 300]
    reps = 2 if quick else 12
    for nq in sizes:
        for _ in range(reps):
            if time.time() > t_end:
                break
            check_shots(ctx, gen_clifford(rng, nq, depth=int(nq * 2.5)), f"clifford-{nq}q", 4 if quick else 8)
    # many deterministic Pauli channels inside multi-output components (dozens of error parameters per component)
    for task, d, r in ([("surface_code:rotated_memory_z", 3, 2), ("repetition_code:memory", 5, 2)] if quick else
                       [("surface_code:rotated_memory_z", 3, 3), ("surface_code:rotated_memory_x", 3, 2), ("repetition_code:memory", 7, 3),
                        ("color_code:memory_xyz", 3, 2), ("surface_code:unrotated_memory_z", 3, 2)]):
        for rep in range(2 if quick else 4):
            if time.time() > t_end + 60:
                break
            base = stim.Circuit.generated(task, distance=d, rounds=r).flattened()
            noisy = stim.Circuit()
            nq = base.num_qubits
            k = 0
            for ins in base:
                noisy.append(ins)
                if ins.name in ("CX", "H", "R", "TICK", "MR") and rng.random() < 0.6:
                    for _ in range(int(rng.integers(1, 4))):
                        noisy.append(["X_ERROR", "Z_ERROR", "Y_ERROR"][int(rng.integers(0, 3))], [int(rng.integers(0, nq))], float(rng.integers(0, 2)))
                        k += 1
            check_shots(ctx, str(noisy), "qec-deterministic-noise-" + task.split(":")[0], 4 if quick else 8)
    for nq in ([8, 12] if quick else [8, 12, 20, 30]):
        for _ in range(2 if quick else 6):
            if time.time() > t_end + 90:
                break
            lines = gen_clifford(rng, nq, depth=int(nq * 2), with_feedback=False).split("\n")
            out = []
            for l in lines:
                out.append(l)
                if rng.random() < 0.5:
                    out.append(f"{['X_ERROR', 'Z_ERROR', 'Y_ERROR'][int(rng.integers(0, 3))]}({int(rng.integers(0, 2))}) {int(rng.integers(0, nq))}")
            check_shots(ctx, "\n".join(out[:-1] + [out[-1]]) if out[-1].startswith("M ") else "\n".join(out), f"clifford-dense-noise-{nq}q", 4)
    # more than 64 independent deterministic error parameters in one circuit (the reduced error basis is wider than a machine word)
    for n in ([70, 100] if quick else [64, 65, 70, 100, 130, 200]):
        for chained in (False, True):
            if time.time() > t_end + 150:
                break
            allq = " ".join(map(str, range(n)))
            lines = ["R " + allq] + [f"{['X_ERROR', 'Y_ERROR'][int(rng.integers(0, 2))]}({int(rng.random() < 0.6)}) {i}" for i in range(n)]
            if chained:
                lines += [f"CX {i} {i + 1}" for i in range(n - 1)]
            else:
                lines += ["CX " + " ".join(f"{i} {i + 1}" for i in range(0, n - 1, 2))]
            check_shots(ctx, "\n".join(lines + ["M " + allq]), f"wide-deterministic-noise-{n}", 2)
    nm = check_mechanisms(ctx, rng, 4 if quick else 60) if time.time() < t_end + 120 else 0
    ctx.cov["mechanisms_checked"] = nm
    if ctx.broken and not ctx.violations:
        report_broken_without_input(ctx)
    return ctx.finish(
        rule="generated stabilizer circuits: GHZ-type components with 1..120 (thorough 200) correlated outputs in Z/X bases, distance-3 (thorough "
             "5) repetition/surface/colour memory circuits, random Clifford circuits on 10..60 (thorough 300) qubits with M/MX/MY/MR*, R*, MPP, "
             "record feedback and X/Y/Z_ERROR(0|1); every sampled shot is replayed through stim.TableauSimulator and its exact sampler "
             "probability compared with 2^-#free; noisy QEC: single inserted Pauli mechanisms vs Stim's detector flips. distinct = distinct "
             "circuits/mechanisms",
        explanation="Props/C04.v (re-exports C09/C06/C11 lemmas + balance lemma); tableau replay",
        assumptions=["stim.TableauSimulator is the reference semantics", "pyzx/JAX oracles"],
    )


def replay(ctx: Ctx, obj) -> int:
    import tsim
    r = obj.get("replay") or {}
    if r.get("kind") == "dem":
        from harness.exactdist import dist_diff, tsim_dist
        got, _ = tsim_dist(tsim.Circuit(r["text"]), det=True)
        dd = dist_diff(got, dem_distribution(r["text"]))
        print("max |tsim - Stim DEM| =", dd)
        return 0 if dd <= 1e-6 else 1
    if "shot" in r:
        ok, free, msg = tableau_replay(tsim.Circuit(r["text"])._stim_circ, np.array(r["shot"], dtype=bool))
        print(ok, free, msg)
    check_shots(ctx, r["text"], "replay", 8)
    return 1 if ctx.violations else 0
