"""C08 -- error-basis reduction is an exact reparametrisation.

Theorems (Props/C08.v, proved for ALL rectangular boolean matrices by induction over the rows with an explicit loop
invariant): T.B = V, rows of B independent, B = rows of V at the greedy (left-most) basis indices, shapes, T unique,
<T_i, B.e> = <V_i, e> for every raw assignment e, and the per-vertex parity statement for transform_error_basis.

Tie B (hand model Model/Linalg.v <-> running code):
  1. find_basis: EXHAUSTIVE comparison of (B, T) for every binary matrix of every shape up to 4x4, 3x5, 5x3 (enumerated
     inside Coq by vm_compute, printed as hex digits), random matrices up to 60x60 (dense, sparse, low rank, duplicate
     and zero rows), degenerate shapes 0xD / Nx0 / ragged.
  2. transform_error_basis: synthetic pyzx graphs with arbitrary parameter sets and every num_e regime, and the REAL
     call made by prepare_graph on generated noisy circuits (captured by wrapping the function from outside).
Search / independent reference (never the model, never find_basis itself): integer xor-basis elimination gives the greedy
basis; T@B = V (numpy); rank(B) = rank(V); the per-vertex parity equation under f = B.e for all / many e; and the
semantic statement itself: evaluate_graph of the graph before and after the re-labelling for ALL 2^e raw assignments.
"""
from __future__ import annotations

import copy
import hashlib
import itertools
import json
import re
from concurrent.futures import ThreadPoolExecutor
from fractions import Fraction

import numpy as np

from harness import coqrun as cq
from harness.common import Ctx, report_broken_without_input, standard_model_phase

TRANSLATORS: list[str] = []
COQ_FILES = ["Model/Linalg.v", "Proofs/LinalgProofs.v", "Props/C08.v"]
IMPORTS = "From Coq Require Import List NArith ZArith. Import ListNotations.\nRequire Import TV.Model.Linalg.\n"

MANIFEST = dict(
    text="Machine-checked proof (Coq 8.16.1, no axioms) over an executable model of tsim.utils.linalg.find_basis and "
         "tsim.core.graph.transform_error_basis: for EVERY rectangular GF(2) matrix V (any shape; empty, zero, duplicate, "
         "dependent rows) the returned (B, T) satisfy T.B = V, the rows of B are linearly independent, B is the sub-list of V "
         "at the greedy left-most basis indices, T is N x rank and is the unique such matrix, rank <= min(N, D), and for every "
         "raw error assignment e and row i parity(T_i, B.e) = parity(V_i, e); for transform_error_basis every vertex keeps "
         "its identity, unparametrised vertices are untouched and the parity of the new f-set under f = B.e equals the parity "
         "of the old e-set under e, with B padded to max(num_e, max index + 1) columns.  The hand model is tied to the running "
         "code by an exhaustive comparison of (B, T) on all matrices of shapes up to 4x4, 3x5, 5x3 (enumerated inside Coq), "
         "random matrices up to 60x60, degenerate shapes, synthetic graphs and the real prepare_graph call on generated noisy "
         "circuits; the implementation is independently checked against an integer xor-basis reference, T@B = V, "
         "rank(B) = rank(V), the per-vertex parity equation, and evaluate_graph before/after for all 2^e raw assignments.",
    note="Trusted: Coq kernel + vm_compute; the hand model Model/Linalg.v (tied by correspondence only, no translator); numpy "
         "uint8 ^ / argmax / any semantics as modelled (0/1 entries only -- non-binary uint8 entries are outside the property); "
         "pyzx_param to_tensor and Scalar evaluation used by evaluate_graph in the semantic comparison.  The theorem speaks "
         "about parities of parameter sets; that the diagram depends on the bits only through these parities is what "
         "evaluate_graph before/after validates numerically.  Scalars keep their e-variables (prepare_graph discards the "
         "scalar afterwards); in the no-parametrised-vertex branch transform_error_basis itself resets the scalar, so there "
         "the comparison is made modulo the scalar.  Print Assumptions of every C08_* theorem: closed under the global context.",
    technique="Coq proof by induction with loop invariant (echelon structure + expansion tracking) + exhaustive/random "
              "vm_compute correspondence + brute-force semantic check",
    design_ref="DESIGN.md 4.C08",
)

HEX = {c: i for i, c in enumerate("0123456789ABCDEF")}

# shapes (n, d) whose 2^(n*d) matrices are compared exhaustively
SHAPES_BASE = sorted({(n, d) for n in range(1, 5) for d in range(1, 5)} | {(n, 5) for n in range(1, 4)} | {(5, d) for d in range(1, 4)},
                     key=lambda s: (s[0] * s[1], s))
SHAPES_THOROUGH_EXTRA = [(2, 6), (6, 2), (1, 6), (6, 1), (2, 7), (7, 2), (1, 8), (8, 1), (3, 6), (6, 3)]
CHUNK = 16384


# ----------------------------------------------------------------------------------------------------------------
# independent GF(2) reference: rows as python ints (bit j = entry j)
# ----------------------------------------------------------------------------------------------------------------
def row_int(row) -> int:
    x = 0
    for j, b in enumerate(row):
        if int(b) & 1:
            x |= 1 << j
    return x


def greedy_basis(rows: list[int]) -> list[int]:
    """indices of the rows that are not in the GF(2) span of the rows before them"""
    basis: dict[int, int] = {}
    idx = []
    for i, r in enumerate(rows):
        x = r
        while x:
            h = x.bit_length() - 1
            if h in basis:
                x ^= basis[h]
            else:
                basis[h] = x
                idx.append(i)
                break
    return idx


def gf2_rank(rows: list[int]) -> int:
    return len(greedy_basis(rows))


def check_factorisation(V: np.ndarray, B, T) -> str | None:
    """the complete specification of find_basis, checked without the model: returns a reason or None"""
    n, d = V.shape
    if not isinstance(B, np.ndarray) or not isinstance(T, np.ndarray):
        return "result is not a pair of arrays"
    k = B.shape[0] if B.ndim == 2 else -1
    if B.ndim != 2 or T.ndim != 2 or B.shape != (k, d) or T.shape != (n, k):
        return f"shapes: V {V.shape} B {B.shape} T {T.shape}"
    if B.size and int(B.max()) > 1 or T.size and int(T.max()) > 1:
        return "non-binary entry in the result"
    Vi = [row_int(r) for r in V]
    Bi = [row_int(r) for r in B]
    if gf2_rank(Bi) != k:
        return f"rows of B are linearly dependent (rank {gf2_rank(Bi)} < {k})"
    if gf2_rank(Vi) != k:
        return f"rank(B) = {k} but rank(V) = {gf2_rank(Vi)}"
    if not np.array_equal((T.astype(np.int64) @ B.astype(np.int64)) % 2, V.astype(np.int64) % 2):
        return "T @ B != V (mod 2)"
    g = greedy_basis(Vi)
    if Bi != [Vi[i] for i in g]:
        return f"B is not the sub-list of V at the left-most independent rows {g}"
    return None


def encode(n, d, B, T) -> int:
    """same encoding as Model/Linalg.v encode_result"""
    k = B.shape[0]
    bb = 0
    for i in range(k):
        bb |= row_int(B[i]) << (i * d)
    tb = 0
    for i in range(T.shape[0]):
        tb |= row_int(T[i]) << (i * k)
    return k + 8 * (bb + (tb << (k * d)))


def res_width(n, d):
    return 3 + min(n, d) * (n + d)


def mat_of_number(n, d, m) -> np.ndarray:
    return np.array([[(m >> (i * d + j)) & 1 for j in range(d)] for i in range(n)], dtype=np.uint8).reshape(n, d)


def parse_hex_output(out: str, per: int) -> tuple[bool, list[int]]:
    """output of `Eval vm_compute in (sweep_hex ...)` -> (shape flag, list of result codes)"""
    m = re.search(r"=\s*\(\s*(true|false)\s*,", out)
    if not m:
        raise RuntimeError("cannot parse sweep output: " + out[-500:])
    digs = re.findall(r"X([0-9A-F])", out[m.end():])
    if per == 0 or len(digs) % per:
        raise RuntimeError(f"sweep output has {len(digs)} digits, not a multiple of {per}")
    codes = []
    for i in range(0, len(digs), per):
        c = 0
        for j in range(per):
            c |= HEX[digs[i + j]] << (4 * j)
        codes.append(c)
    return m.group(1) == "true", codes


def hexrow(toks) -> int:
    x = 0
    for j, t in enumerate(toks):
        x |= HEX[str(t)[1]] << (4 * j)
    return x


# ----------------------------------------------------------------------------------------------------------------
# part 1: find_basis
# ----------------------------------------------------------------------------------------------------------------
class FB:
    """bookkeeping for find_basis cases"""

    def __init__(self, ctx, find_basis, model_usable):
        self.ctx, self.find_basis, self.model_usable = ctx, find_basis, model_usable
        self.n_viol = 0
        self.n_corr = 0
        self.first_bad = None

    def impl(self, V):
        try:
            B, T = self.find_basis(V)
            return B, T, None
        except Exception as e:  # noqa
            return None, None, e

    def judge(self, V: np.ndarray, B, T, exc, bucket, key) -> int | None:
        """reference check of one implementation result; returns the result code (or None)"""
        n, d = V.shape
        rk = gf2_rank([row_int(r) for r in V])
        self.ctx.count(key, nontrivial=(0 < rk < n), bucket=bucket)
        why = f"find_basis raised {exc!r}" if exc is not None else check_factorisation(V, B, T)
        if why is not None:
            self.n_viol += 1
            if self.n_viol <= 2:
                self.ctx.violation(
                    f"find_basis-{n}x{d}-{hashlib.sha1(V.tobytes()).hexdigest()[:10]}",
                    f"find_basis on the {n}x{d} matrix {V.tolist()}: {why}; returned B={None if B is None else B.tolist()} "
                    f"T={None if T is None else T.tolist()}",
                    {"kind": "find_basis", "matrix": V.tolist(), "impl_B": None if B is None else B.tolist(),
                     "impl_T": None if T is None else T.tolist(), "why": why})
            return None
        return encode(n, d, B, T)

    def corr(self, V, impl_code, model_code, what=""):
        if impl_code is not None and impl_code != model_code:
            self.n_corr += 1
            if self.n_corr == 1:
                self.ctx.broken.append(f"correspondence:find_basis model and implementation differ on {V.tolist()} {what}"[:600])


def run_sweep_chunk(args):
    n, d, start, cnt, tag = args
    rc, out = cq.run_cases(tag, IMPORTS, f"Eval vm_compute in (sweep_hex {n} {d} {start}%N {cnt}%N).\n", timeout=1200)
    if rc != 0:
        raise RuntimeError(f"coqc failed on {tag}: {out[-600:]}")
    per = (res_width(n, d) + 3) // 4
    return (n, d, start, cnt), parse_hex_output(out, per)


def part_find_basis(ctx: Ctx, model_usable: bool):
    from tsim.utils.linalg import find_basis
    fb = FB(ctx, find_basis, model_usable)
    rng = ctx.np_rng()
    shapes = list(SHAPES_BASE) + ([] if ctx.quick else SHAPES_THOROUGH_EXTRA)

    # ---- model side of the exhaustive sweeps, in parallel coqc processes
    model_codes: dict[tuple[int, int], list[int]] = {}
    if model_usable:
        jobs = []
        for (n, d) in shapes:
            tot = 1 << (n * d)
            for s in range(0, tot, CHUNK):
                jobs.append((n, d, s, min(CHUNK, tot - s), f"c08_sweep_{n}x{d}_{s}"))
        try:
            with ThreadPoolExecutor(max_workers=8) as ex:
                res = list(ex.map(run_sweep_chunk, jobs))
            for (n, d, s, cnt), (flag, codes) in sorted(res):
                if not flag or len(codes) != cnt:
                    ctx.broken.append(f"model:sweep {n}x{d} from {s}: shape flag {flag}, {len(codes)} results for {cnt} matrices")
                model_codes.setdefault((n, d), []).extend(codes)
        except Exception as e:  # noqa
            ctx.broken.append(f"model:sweep failed: {e!r}"[:500])
            model_codes = {}

    # ---- implementation side: every matrix of every shape, judged by the reference and compared with the model
    n_exh = 0
    for (n, d) in shapes:
        tot = 1 << (n * d)
        allrows = np.array([[(r >> j) & 1 for j in range(d)] for r in range(1 << d)], dtype=np.uint8).reshape(1 << d, d)
        mask = (1 << d) - 1
        mc = model_codes.get((n, d))
        for m in range(tot):
            V = allrows[[(m >> (i * d)) & mask for i in range(n)]]
            B, T, exc = fb.impl(V)
            code = fb.judge(V, B, T, exc, f"exhaustive-{n}x{d}", ("fb", n, d, m))
            if mc is not None and len(mc) == tot:
                fb.corr(V, code, mc[m], f"(matrix number {m} of shape {n}x{d}: model code {mc[m]}, implementation code {code})")
            n_exh += 1
        if fb.n_viol > 50:          # a broken implementation: the smallest failing shapes are already reported
            break
    ctx.cov["exhaustive"] = bool(fb.n_viol == 0 and (not model_usable or len(model_codes) == len(shapes)))
    ctx.cov["exhaustive_shapes"] = [f"{n}x{d}" for n, d in shapes]
    ctx.cov["exhaustive_matrices"] = n_exh
    ctx.sample({"op": "find_basis", "V": mat_of_number(4, 3, 0b101_011_101_101).tolist(),
                "impl": [x.tolist() for x in find_basis(mat_of_number(4, 3, 0b101_011_101_101))]})

    # ---- random matrices up to 60 x 60
    cases = []
    n_rand = 150 if ctx.quick else 1500
    kinds = ["dense", "sparse", "lowrank", "dups", "zero-rows", "identityish", "ones", "tall", "wide"]
    for c in range(n_rand):
        kind = kinds[c % len(kinds)]
        n = int(rng.integers(1, 61))
        d = int(rng.integers(1, 61))
        if kind == "tall":
            n, d = int(rng.integers(30, 61)), int(rng.integers(1, 12))
        if kind == "wide":
            n, d = int(rng.integers(1, 12)), int(rng.integers(30, 61))
        if kind in ("dense", "tall", "wide"):
            V = (rng.random((n, d)) < rng.choice([0.5, 0.2, 0.8])).astype(np.uint8)
        elif kind == "sparse":      # like an error matrix: one to three ones per row
            V = np.zeros((n, d), dtype=np.uint8)
            for i in range(n):
                V[i, rng.choice(d, size=min(d, int(rng.integers(1, 4))), replace=False)] = 1
        elif kind == "lowrank":
            r = int(rng.integers(1, max(2, min(n, d) // 2 + 1)))
            V = ((rng.integers(0, 2, (n, r)) @ rng.integers(0, 2, (r, d))) % 2).astype(np.uint8)
        elif kind == "dups":
            pool = (rng.random((max(1, n // 4), d)) < 0.5).astype(np.uint8)
            V = pool[rng.integers(0, pool.shape[0], n)]
        elif kind == "zero-rows":
            V = (rng.random((n, d)) < 0.5).astype(np.uint8)
            V[rng.random(n) < 0.4] = 0
        elif kind == "identityish":
            V = np.eye(max(n, d), dtype=np.uint8)[rng.permutation(max(n, d))][:n, :d]
        else:
            V = np.ones((n, d), dtype=np.uint8)
            V[rng.random(n) < 0.2, 0] = 0
        cases.append((kind, np.ascontiguousarray(V, dtype=np.uint8)))
    impl_codes = []
    for kind, V in cases:
        B, T, exc = fb.impl(V)
        impl_codes.append((fb.judge(V, B, T, exc, f"random-{kind}", ("fbr", V.shape, hashlib.sha1(V.tobytes()).hexdigest()[:12])), B, T))
    ctx.cov["random_matrices"] = len(cases)
    ctx.cov["random_max_shape"] = [max(V.shape[0] for _, V in cases), max(V.shape[1] for _, V in cases)]
    if model_usable:
        try:
            for off in range(0, len(cases), 150):
                sub = cases[off:off + 150]
                terms = []
                for _, V in sub:
                    n, d = V.shape
                    rows = "; ".join(f"{row_int(r)}%N" for r in V)
                    terms.append(f"show_hex {n} {d} (find_basis (rows_of_N {d} [{rows}]))")
                vals = cq.eval_terms(f"c08_rand_{off}", IMPORTS, terms)
                for (kind, V), val, (icode, B, T) in zip(sub, vals, impl_codes[off:off + 150]):
                    flag, mB, mT = val[0], val[1], val[2]
                    if icode is None:
                        continue
                    same = bool(flag) and [hexrow(r) for r in mB] == [row_int(r) for r in B] and [hexrow(r) for r in mT] == [row_int(r) for r in T]
                    if not same:
                        fb.corr(V, 0, 1, f"(random {kind} {V.shape}: model B rows {[hexrow(r) for r in mB]} T rows {[hexrow(r) for r in mT]} shape flag {flag})")
        except Exception as e:  # noqa
            ctx.broken.append(f"model:random matrices failed: {e!r}"[:500])

    # ---- large and high-rank matrices (rank well beyond any machine-word width): implementation vs the independent
    #      reference only (T@B = V, greedy basis rows, rank) -- circuits with hundreds of independent error parameters
    big = []
    for n in ([65, 70, 130, 200] if ctx.quick else [63, 64, 65, 66, 70, 100, 129, 130, 200, 257, 300]):
        big.append(("identity", np.eye(n, dtype=np.uint8)))
        P = np.eye(n, dtype=np.uint8)[rng.permutation(n)]
        extra = (rng.random((max(3, n // 8), n)) < 0.1).astype(np.uint8)
        big.append(("perm+dependent", np.vstack([P, extra, (extra[:1] ^ P[:1])])))
        big.append(("dense", (rng.random((n + 7, n)) < 0.5).astype(np.uint8)))
        big.append(("sparse", ((rng.random((n + 20, n + 30)) < 2.5 / n)).astype(np.uint8)))
        big.append(("lower-triangular", np.tril(np.ones((n, n), dtype=np.uint8))))
    for kind, V in big:
        V = np.ascontiguousarray(V, dtype=np.uint8)
        B, T, exc = fb.impl(V)
        fb.judge(V, B, T, exc, f"large-{kind}", ("fbl", V.shape, hashlib.sha1(V.tobytes()).hexdigest()[:12]))
    ctx.cov["large_matrices"] = len(big)
    ctx.cov["large_max_rank_shape"] = [max(V.shape[0] for _, V in big), max(V.shape[1] for _, V in big)]

    # ---- degenerate shapes and rejected inputs
    degen = {}
    for shp in [(0, 0), (0, 1), (0, 3), (0, 7), (1, 0), (3, 0), (5, 0)]:
        V = np.zeros(shp, dtype=np.uint8)
        B, T, exc = fb.impl(V)
        fb.judge(V, B, T, exc, "degenerate", ("fbd", shp))
        degen[f"{shp[0]}x{shp[1]}"] = "raised " + type(exc).__name__ if exc is not None else f"B{list(B.shape)} T{list(T.shape)}"
    for name, bad in [("empty-list", []), ("ragged", [[1, 0], [1]]), ("one-dimensional", [1, 0, 1])]:
        try:
            find_basis(bad)
            degen[name] = "accepted"
        except Exception as e:  # noqa
            degen[name] = "raised " + type(e).__name__
        ctx.count(("fbd", name), nontrivial=False, bucket="degenerate")
    # other element types holding 0/1 give the same answer
    Vb = mat_of_number(4, 4, 0xB5E3)
    for conv in (lambda a: a.astype(bool), lambda a: a.astype(np.int64), lambda a: a.tolist()):
        B2, T2 = find_basis(conv(Vb))
        B1, T1 = find_basis(Vb)
        if not (np.array_equal(B1, B2) and np.array_equal(T1, T2)):
            ctx.violation("find_basis-dtype", f"find_basis depends on the element type of a 0/1 matrix: {Vb.tolist()}",
                          {"kind": "find_basis", "matrix": Vb.tolist()})
    ctx.cov["degenerate_behaviour"] = degen
    ctx.cov["degenerate_note"] = ("numpy accepts (0,D) and (N,0) arrays; find_basis([]) (a 1-D empty array), 1-D and ragged input raise "
                                  "ValueError.  The list-of-rows model identifies every 0-row input with [] (accepted, result ([],[])) and "
                                  "rejects ragged input through rectb.")
    if model_usable:
        try:
            v = cq.eval_terms("c08_degen", IMPORTS, [
                "find_basis []", "find_basis [[]]", "find_basis [[]; []; []]", "find_basis [[]; []; []; []; []]",
                "rectb 2 [[true; false]; [true]]", "rectb 0 [[]; []]", "rectb 3 []"])
            want = [([], []), ([], [[]]), ([], [[], [], []]), ([], [[]] * 5), False, True, True]
            got = [tuple(x) if isinstance(x, (list, tuple)) and not isinstance(x, bool) else x for x in v]
            if got != want:
                ctx.broken.append(f"correspondence:degenerate shapes model {got} expected {want}")
            for key, shp in (("0x3", (0, 3)), ("3x0", (3, 0))):
                if not degen[key].startswith("B"):
                    ctx.broken.append(f"correspondence:degenerate {key}: implementation {degen[key]} but the model accepts")
            if degen["ragged"] == "accepted":
                ctx.broken.append("correspondence:ragged input accepted by the implementation, rejected by the model")
        except Exception as e:  # noqa
            ctx.broken.append(f"model:degenerate failed: {e!r}"[:500])
    ctx.cov["find_basis_reference_failures"] = fb.n_viol
    ctx.cov["find_basis_model_mismatches"] = fb.n_corr
    return fb


# ----------------------------------------------------------------------------------------------------------------
# part 2: transform_error_basis
# ----------------------------------------------------------------------------------------------------------------
def var_sets(g) -> list[tuple[int, list[str]]]:
    return [(int(v), sorted(g._phaseVars.get(v, set()) or [])) for v in g.vertices()]


def idx_of(names: list[str], prefix: str) -> list[int] | None:
    out = []
    for s in names:
        if not (s.startswith(prefix) and s[1:].isdigit()):
            return None
        out.append(int(s[1:]))
    return sorted(out)


def check_teb(before: list[tuple[int, list[str]]], num_e, after: list[tuple[int, list[str]]], basis, rng, exhaustive_bits=12) -> str | None:
    """independent reference for one transform_error_basis call (no model, no find_basis)"""
    if [v for v, _ in before] != [v for v, _ in after]:
        return "the vertex list changed"
    olds = [idx_of(s, "e") for _, s in before]
    if any(o is None for o in olds):
        return "a parameter that is not of the form e<k> is attached to a vertex"
    par = [o for o in olds if o]
    if not isinstance(basis, np.ndarray) or basis.ndim != 2:
        return "the returned basis is not a 2-D array"
    if not par:
        want_cols = num_e if num_e is not None else 0
        if basis.shape != (0, want_cols):
            return f"no parametrised vertex: basis shape {basis.shape}, expected (0, {want_cols})"
        if after != before:
            return "no parametrised vertex but parameter sets changed"
        return None
    ncols = max(max(o) for o in par) + 1
    if num_e is not None:
        ncols = max(ncols, num_e)
    if basis.shape[1] != ncols:
        return f"basis has {basis.shape[1]} columns, expected max(num_e, max index + 1) = {ncols}"
    M = [sum(1 << k for k in o) for o in par]
    Bi = [row_int(r) for r in basis]
    g = greedy_basis(M)
    if Bi != [M[i] for i in g]:
        return f"basis rows {Bi} are not the left-most independent rows {[M[i] for i in g]} of the error matrix"
    k = len(Bi)
    news = []
    for (v, s_old), (_, s_new), o in zip(before, after, olds):
        if not o:
            if s_new != s_old:
                return f"unparametrised vertex {v} was modified"
            continue
        f = idx_of(s_new, "f")
        if f is None or any(j >= k for j in f):
            return f"vertex {v}: new parameter set {s_new} is not a set of f-variables below the rank {k}"
        news.append(sum(1 << j for j in f))
    # parity of the new f-set under f = B.e  ==  parity of the old e-set under e
    if ncols <= exhaustive_bits:
        es = range(1 << ncols)
    else:
        es = [int.from_bytes(rng.bytes((ncols + 7) // 8), "little") & ((1 << ncols) - 1) for _ in range(400)] + [1 << j for j in range(ncols)]
    for e in es:
        fval = 0
        for j, b in enumerate(Bi):
            fval |= (bin(b & e).count("1") & 1) << j
        for row, (old, new) in enumerate(zip(M, news)):
            if (bin(new & fval).count("1") ^ bin(old & e).count("1")) & 1:
                return (f"raw assignment e={[(e >> j) & 1 for j in range(ncols)]}: parametrised vertex #{row} has e-parity "
                        f"{bin(old & e).count('1') & 1} but f-parity {bin(new & fval).count('1') & 1} under f = B.e")
    return None


def coq_verts(before) -> str:
    items = []
    for v, s in before:
        ix = idx_of(s, "e") or []
        items.append(f"({cq.z(v)}, [" + "; ".join(cq.nat(k) for k in ix) + "])")
    return "[" + "; ".join(items) + "]"


def model_teb_term(before, num_e) -> str:
    ne = "None" if num_e is None else f"(Some {cq.nat(num_e)})"
    return f"transform_error_basis {coq_verts(before)} {ne}"


def model_teb_matches(val, after, basis) -> str | None:
    verts, B, ncols = val[0], val[1], val[2]
    m_after = [(int(p[0]), [int(j) for j in p[1]]) for p in verts]
    i_after = []
    for v, s in after:
        f = idx_of(s, "f")
        i_after.append((v, f if f is not None else s))
    if m_after != i_after:
        return f"new parameter sets: model {m_after} implementation {i_after}"
    mB = [[1 if b else 0 for b in row] for row in B]
    if mB != basis.tolist():
        return f"basis: model {mB} implementation {basis.tolist()}"
    if int(ncols) != basis.shape[1]:
        return f"basis columns: model {ncols} implementation {basis.shape[1]}"
    return None


def eval_both(G, before_g, after_g, basis, num_bits, bits_iter, tol=1e-9):
    """evaluate_graph before (raw bits) and after (raw bits for the scalar, f = B.e for the vertices); returns a reason or None"""
    Bm = basis.astype(np.int64)
    nontrivial = False
    for bits in bits_iter:
        vals = {f"e{i}": Fraction(int(b)) for i, b in enumerate(bits)}
        t0 = G.evaluate_graph(before_g, dict(vals))
        e = np.zeros(Bm.shape[1], dtype=np.int64)
        e[:min(len(bits), Bm.shape[1])] = bits[:Bm.shape[1]]
        f = (Bm @ e) % 2 if Bm.shape[0] else np.zeros(0, dtype=np.int64)
        vals2 = dict(vals)
        vals2.update({f"f{j}": Fraction(int(x)) for j, x in enumerate(f)})
        t1 = G.evaluate_graph(after_g, vals2)
        t0, t1 = np.asarray(t0), np.asarray(t1)
        scale = max(1e-30, float(np.abs(t0).max()) if t0.size else 0.0)
        if t0.shape != t1.shape or (t0.size and float(np.abs(t0 - t1).max()) > tol * max(1.0, scale)):
            return f"evaluate_graph differs for raw bits {list(map(int, bits))} (f = {f.tolist()}): max |before-after| = {float(np.abs(t0 - t1).max()) if t0.shape == t1.shape else 'shape'}", nontrivial
        if t0.size and float(np.abs(t0).max()) > 1e-12:
            nontrivial = True
    return None, nontrivial


def gen_circuit(rng, nq, nops, max_e) -> str:
    lines = ["R " + " ".join(map(str, range(nq)))]
    e = 0
    nm = 0
    for _ in range(nops):
        r = rng.random()
        q = rng.randrange(nq)
        if r < 0.40:
            lines.append(f"{rng.choice(['H', 'S', 'T', 'T', 'T_DAG', 'S_DAG', 'X', 'Z', 'SQRT_X', 'H'])} {q}")
        elif r < 0.55 and nq > 1:
            q2 = rng.choice([x for x in range(nq) if x != q])
            lines.append(f"{rng.choice(['CX', 'CZ'])} {q} {q2}")
        elif r < 0.88:
            k = rng.choice(["X_ERROR", "Z_ERROR", "Y_ERROR", "DEPOLARIZE1", "DEPOLARIZE2", "PAULI_CHANNEL_1", "X_ERROR", "Z_ERROR"])
            need = {"DEPOLARIZE1": 2, "DEPOLARIZE2": 4, "PAULI_CHANNEL_1": 2}.get(k, 1)
            if e + need > max_e or (k == "DEPOLARIZE2" and nq < 2):
                continue
            if k == "DEPOLARIZE2":
                q2 = rng.choice([x for x in range(nq) if x != q])
                lines.append(f"DEPOLARIZE2(0.125) {q} {q2}")
            elif k == "PAULI_CHANNEL_1":
                lines.append(f"PAULI_CHANNEL_1(0.125,0.0625,0.03125) {q}")
            else:
                lines.append(f"{k}(0.125) {q}")
            e += need
        elif nm < 3:
            lines.append(f"M {q}")
            nm += 1
    lines.append("M " + " ".join(map(str, range(nq))))
    nm += nq
    if rng.random() < 0.7:
        lines.append("DETECTOR rec[-1]" + (" rec[-2]" if nm > 1 else ""))
        if nm > 2:
            lines.append("OBSERVABLE_INCLUDE(0) rec[-3]")
        if nm > 3 and rng.random() < 0.5:
            lines.append("DETECTOR rec[-4] rec[-1]")
    return "\n".join(lines)


def gen_layered(rng, nq, layers, max_e) -> str:
    """H layer, then layers of (single-bit noise, T-type gate) per qubit and one entangling gate: leaves many
    parametrised vertices with dependent (and occasionally multi-variable) parameter sets after full_reduce"""
    lines = ["R " + " ".join(map(str, range(nq)))] + [f"H {q}" for q in range(nq)]
    e = 0
    for _ in range(layers):
        for q in range(nq):
            if rng.random() < 0.7 and e < max_e:
                lines.append(f"{rng.choice(['X_ERROR', 'Z_ERROR', 'Y_ERROR'])}(0.125) {q}")
                e += 1
            if rng.random() < 0.8:
                lines.append(f"{rng.choice(['T', 'T_DAG', 'T', 'S', 'H'])} {q}")
        if nq > 1:
            a = rng.randrange(nq)
            b = rng.choice([x for x in range(nq) if x != a])
            lines.append(f"{rng.choice(['CX', 'CZ'])} {a} {b}")
    lines.append("M " + " ".join(map(str, range(nq))))
    if rng.random() < 0.6:
        lines.append("DETECTOR rec[-1]" + (" rec[-2]" if nq > 1 and rng.random() < 0.5 else ""))
    return "\n".join(lines)


def synth_graph(rng, zx, VertexType):
    """a small ZX diagram with arbitrary parameter sets (duplicates, xor-combinations, empty sets, gaps in the vertex ids)"""
    g = zx.Graph()
    nv = rng.randrange(0, 9)
    pool = rng.randrange(1, 10)
    sets: list[set[int]] = []
    for _ in range(nv):
        r = rng.random()
        if r < 0.25:
            s: set[int] = set()
        elif r < 0.45 and sets:
            s = set(rng.choice(sets))
        elif r < 0.65 and len(sets) >= 2:
            s = set(rng.choice(sets)) ^ set(rng.choice(sets))
        else:
            s = {rng.randrange(pool) for _ in range(rng.randrange(1, 4))}
        sets.append(s)
    if rng.random() < 0.3:      # an id gap
        junk = g.add_vertex(VertexType.Z, qubit=0, row=0)
        g.remove_vertex(junk)
    vs = []
    for i, s in enumerate(sets):
        ty = VertexType.Z if rng.random() < 0.6 else VertexType.X
        vs.append(g.add_vertex(ty, qubit=i, row=1, phase=Fraction(rng.randrange(8), 4), phaseVars={f"e{k}" for k in s}))
        if rng.random() < 0.15:
            junk = g.add_vertex(VertexType.Z, qubit=0, row=0)
            g.remove_vertex(junk)
    for i in range(1, len(vs)):
        if rng.random() < 0.8:
            j = rng.randrange(i)
            g.add_edge((vs[j], vs[i]), 1 if rng.random() < 0.5 else 2)
    outs = []
    for v in vs:
        if rng.random() < 0.3 and len(outs) < 3:
            b = g.add_vertex(VertexType.BOUNDARY, qubit=-1, row=2)
            g.add_edge((v, b), 1)
            outs.append(b)
    g.set_outputs(tuple(outs))
    mx = max((max(s) for s in sets if s), default=-1)
    num_e = rng.choice([None, None, mx + 1, mx + 1, mx + 2, mx + 5, max(0, mx), max(0, mx - 1), 0, pool + 3])
    return g, num_e


def part_teb(ctx: Ctx, model_usable: bool):
    import pyzx_param as zx
    from pyzx_param.utils import VertexType
    import tsim
    import tsim.core.graph as G
    from tsim.core.parse import parse_stim_circuit

    rng = ctx.rng
    nprng = ctx.np_rng()
    n_viol = 0
    n_eval_exh = 0
    records = []   # (tag, before sets, num_e, after sets, basis) for the model comparison

    def report(key, what, replay):
        nonlocal n_viol
        n_viol += 1
        if n_viol <= 3:
            ctx.violation(key, what, replay)

    # ---------------- synthetic graphs
    n_syn = 250 if ctx.quick else 1500
    scalar_reset = 0
    for c in range(n_syn):
        g, num_e = synth_graph(rng, zx, VertexType)
        before_g = copy.deepcopy(g)
        before = var_sets(g)
        desc = {"kind": "teb_synth", "vertices": before, "num_e": num_e}
        key = "teb-synth-" + hashlib.sha1(json.dumps(desc, sort_keys=True).encode()).hexdigest()[:10]
        try:
            g2, basis = G.transform_error_basis(g, num_e=num_e) if num_e is not None else G.transform_error_basis(g)
        except Exception as e:  # noqa
            report(key, f"transform_error_basis raised {e!r} on vertices {before} num_e={num_e}", desc)
            continue
        after = var_sets(g)
        npar = sum(1 for _, s in before if s)
        ctx.count(key, nontrivial=npar >= 2, bucket="teb-synthetic")
        why = "the function did not return the graph it was given" if g2 is not g else check_teb(before, num_e, after, basis, nprng)
        if why is None:
            # the semantic statement on the synthetic diagram
            ncols = basis.shape[1]
            allv = sorted({k for _, s in before for k in (idx_of(s, "e") or [])})
            nb = (max(allv) + 1) if allv else 0
            if nb <= 7:
                bits_iter = list(itertools.product([0, 1], repeat=nb))
                n_eval_exh += 1
            else:
                bits_iter = [tuple(int(x) for x in nprng.integers(0, 2, nb)) for _ in range(48)]
            if npar == 0:
                before_g.scalar = type(before_g.scalar)()
                scalar_reset += 1
            try:
                why, _ = eval_both(G, before_g, g, basis, nb, bits_iter)
            except Exception as e:  # noqa
                why = f"evaluate_graph raised {e!r}"
            ctx.count(None, nontrivial=False, bucket="teb-synthetic-evaluations", n=len(bits_iter))
        if why is not None:
            report(key, f"transform_error_basis(vertices {before}, num_e={num_e}) -> sets {after}, basis {basis.tolist() if isinstance(basis, np.ndarray) else basis}: {why}",
                   dict(desc, impl_after=after, impl_basis=basis.tolist() if isinstance(basis, np.ndarray) else None, why=why))
        records.append((key, before, num_e, after, basis))
        if c == 3:
            ctx.sample({"op": "transform_error_basis", "vertices": before, "num_e": num_e, "after": after, "basis": basis.tolist()})

    # ---------------- the real call made by prepare_graph on generated noisy circuits
    captured = []
    orig = G.transform_error_basis

    def wrapper(g, num_e=None):
        before_g = copy.deepcopy(g)
        res = orig(g, num_e=num_e)
        captured.append((before_g, num_e, copy.deepcopy(res[0]), res[1], res[0] is g))
        return res

    n_circ = 80 if ctx.quick else 400
    exh_cap = 8 if ctx.quick else 10
    n_circ_exh = 0
    n_multi = 0
    G.transform_error_basis = wrapper
    try:
        for c in range(n_circ):
            if c % 2 == 0:
                nq = rng.randrange(1, 4 if ctx.quick else 5)
                text = gen_circuit(rng, nq, rng.randrange(4, 22), max_e=rng.choice([4, 6, 8, 8, 10] if ctx.quick else [4, 8, 10, 12, 14]))
            else:
                text = gen_layered(rng, rng.randrange(2, 6), rng.randrange(2, 7), max_e=rng.choice([6, 8, 10, 14]))
            for sd in (False, True):
                desc = {"kind": "teb_circuit", "circuit": text, "sample_detectors": sd}
                key = "teb-circuit-" + hashlib.sha1(json.dumps(desc, sort_keys=True).encode()).hexdigest()[:10]
                captured.clear()
                try:
                    circ = tsim.Circuit(text)
                    built = parse_stim_circuit(circ._stim_circ)
                    sgr = G.prepare_graph(circ, sample_detectors=sd)
                except Exception as e:  # noqa
                    report(key, f"prepare_graph raised {e!r} on\n{text}", desc)
                    continue
                if len(captured) != 1:
                    ctx.broken.append(f"hook:prepare_graph called transform_error_basis {len(captured)} times")
                    continue
                before_g, num_e, after_g, basis, same_obj = captured[0]
                before, after = var_sets(before_g), var_sets(after_g)
                npar = sum(1 for _, s in before if s)
                ctx.count(key, nontrivial=npar >= 1, bucket=f"teb-circuit-{'det' if sd else 'meas'}")
                why = None
                if num_e != built.num_error_bits:
                    why = f"prepare_graph passed num_e={num_e}, the circuit has {built.num_error_bits} error bits"
                elif not same_obj:
                    why = "transform_error_basis did not return the graph it was given"
                elif sgr.error_transform is not basis and not np.array_equal(sgr.error_transform, basis):
                    why = "SamplingGraph.error_transform is not the basis returned by transform_error_basis"
                elif var_sets(sgr.graph) != after:
                    why = "SamplingGraph.graph carries other parameter sets than transform_error_basis produced"
                elif isinstance(basis, np.ndarray) and basis.ndim == 2 and basis.shape[1] != built.num_error_bits:
                    why = f"error_transform has {basis.shape[1]} columns for {built.num_error_bits} raw error bits"
                if why is None:
                    why = check_teb(before, num_e, after, basis, nprng)
                if why is None:
                    ne = built.num_error_bits
                    if ne <= exh_cap:
                        bits_iter = list(itertools.product([0, 1], repeat=ne))
                        n_circ_exh += 1
                    else:
                        bits_iter = [tuple(int(x) for x in nprng.integers(0, 2, ne)) for _ in range(128)]
                    if len(before_g.outputs()) <= 10:
                        if npar == 0:
                            before_g.scalar = type(before_g.scalar)()
                            scalar_reset += 1
                        try:
                            why, nontriv = eval_both(G, before_g, after_g, basis, ne, bits_iter)
                        except Exception as e:  # noqa
                            why = f"evaluate_graph raised {e!r}"
                        ctx.count(None, nontrivial=False, bucket="teb-circuit-evaluations", n=len(bits_iter))
                if any(len(s) > 1 for _, s in after):
                    n_multi += 1
                if why is not None:
                    report(key, f"prepare_graph/transform_error_basis on\n{text}\n(sample_detectors={sd}): sets {[s for _, s in before if s]} -> "
                                f"{[s for _, s in after if s]}, basis {basis.tolist() if isinstance(basis, np.ndarray) else basis}: {why}",
                           dict(desc, why=why))
                records.append((key, before, num_e, after, basis))
                if c == 1 and not sd:
                    ctx.sample({"op": "prepare_graph", "circuit": text, "num_e": num_e, "sets_before": [s for _, s in before if s],
                                "sets_after": [s for _, s in after if s], "basis": basis.tolist()})
    finally:
        G.transform_error_basis = orig
    ctx.cov["teb_synthetic_graphs"] = n_syn
    ctx.cov["teb_circuit_calls"] = 2 * n_circ
    ctx.cov["teb_all_2^e_assignments_evaluated"] = {"synthetic": n_eval_exh, "circuits": n_circ_exh, "max_e": exh_cap}
    ctx.cov["teb_circuits_with_multi_f_vertex"] = n_multi
    ctx.cov["teb_scalar_reset_branch_taken"] = scalar_reset
    ctx.cov["teb_reference_failures"] = n_viol

    # ---------------- model vs implementation on every recorded call
    if model_usable:
        n_bad = 0
        usable = [r for r in records if isinstance(r[4], np.ndarray) and all(idx_of(s, "e") is not None for _, s in r[1])]
        try:
            for off in range(0, len(usable), 300):
                sub = usable[off:off + 300]
                vals = cq.eval_terms(f"c08_teb_{off}", IMPORTS, [model_teb_term(b, ne) for _, b, ne, _, _ in sub])
                for (key, before, num_e, after, basis), val in zip(sub, vals):
                    why = model_teb_matches(val, after, basis)
                    if why is not None:
                        n_bad += 1
                        if n_bad == 1:
                            ctx.broken.append(f"correspondence:transform_error_basis on vertices {before} num_e={num_e}: {why}"[:700])
        except Exception as e:  # noqa
            ctx.broken.append(f"model:transform_error_basis cases failed: {e!r}"[:500])
        ctx.cov["teb_model_mismatches"] = n_bad
        ctx.cov["teb_calls_compared_with_model"] = len(usable)


# ----------------------------------------------------------------------------------------------------------------
def run(ctx: Ctx) -> int:
    standard_model_phase(ctx, TRANSLATORS, COQ_FILES, "Props.C08", "Props/C08.v")
    ctx.trusted += [
        "hand model Model/Linalg.v of find_basis / transform_error_basis (no translator): tied by the exhaustive + random correspondence below",
        "numpy uint8 xor / argmax / any on 0/1 arrays as modelled (first set bit = np.argmax); non-binary entries are outside the property",
        "pyzx_param to_tensor / Scalar evaluation inside tsim.core.graph.evaluate_graph (used for the before/after semantic comparison)",
        "independent reference: integer xor-basis elimination + numpy T@B (harness/props/c08.py), shares no code with the model or find_basis",
    ]
    model_usable = not any(b.startswith("coq:Model/") or b.startswith("coq:<make>") for b in ctx.broken)
    try:
        import tsim.utils.linalg  # noqa
        import tsim.core.graph  # noqa
    except Exception as e:  # noqa
        ctx.violation("import-failure", f"tsim cannot be imported: {e!r}", {"error": repr(e)}, no_failing_input=True)
        return ctx.finish("n/a")
    import time
    t0 = time.time()
    part_find_basis(ctx, model_usable)
    ctx.log(f"find_basis part: {time.time() - t0:.1f}s")
    t0 = time.time()
    part_teb(ctx, model_usable)
    ctx.log(f"transform_error_basis part: {time.time() - t0:.1f}s")
    if ctx.broken and not ctx.violations:
        report_broken_without_input(ctx)
    return ctx.finish(
        rule="find_basis: every binary matrix of every shape up to 4x4, 3x5, 5x3 (thorough: also up to 3x6, 6x3, 2x7, 7x2, 1x8, 8x1), enumerated "
             "inside Coq and in Python; random matrices up to 60x60 of nine kinds (dense, sparse, low rank, duplicate rows, zero rows, "
             "permutation-like, near-constant, tall, wide) from one PRNG (VERIF_SEED); degenerate shapes.  transform_error_basis: synthetic pyzx "
             "diagrams (0..8 parametrised vertices, duplicate / xor-combined / empty sets, vertex-id gaps, num_e in {None, exact, larger, smaller, 0}) "
             "and the call prepare_graph really makes on generated noisy Clifford+T circuits (two families: random gate/noise sequences on 1-4 qubits with X/Y/Z_ERROR, DEPOLARIZE1/2, "
             "PAULI_CHANNEL_1, mid-circuit M, detectors/observables; layered H/T/noise/CX circuits on 2-5 qubits; measurement and detector sampling graphs).  non-trivial = rank-deficient "
             "non-zero matrix / >= 2 (synthetic) or >= 1 (circuit) parametrised vertices.  Every implementation result is compared with the Coq "
             "model (vm_compute) AND judged by the independent reference (greedy xor-basis, T@B=V, rank, per-vertex parity for all e, "
             "evaluate_graph before/after for all 2^e raw assignments when e <= cap).",
        explanation="Theorems C08_* (Props/C08.v) about Model/Linalg.v; see DESIGN.md 4.C08",
        assumptions=["any diagram semantics depends on the error bits of a vertex only through the parity of its parameter set "
                     "(phases are added in units of pi) -- validated by evaluate_graph before/after on every generated diagram"],
    )


# ----------------------------------------------------------------------------------------------------------------
def replay(ctx: Ctx, obj) -> int:
    r = obj.get("replay") or {}
    print(json.dumps(r)[:3000])
    kind = r.get("kind")
    if kind == "find_basis":
        from tsim.utils.linalg import find_basis
        V = np.array(r["matrix"], dtype=np.uint8).reshape(len(r["matrix"]), -1 if r["matrix"] else 0)
        try:
            B, T = find_basis(V)
        except Exception as e:  # noqa
            print("implementation now raises:", repr(e))
            return 1
        why = check_factorisation(V, B, T)
        print("implementation now: B =", B.tolist(), "T =", T.tolist(), "->", why or "ok")
        return 0 if why is None else 1
    if kind == "teb_synth":
        import pyzx_param as zx
        from pyzx_param.utils import VertexType
        import tsim.core.graph as G
        g = zx.Graph()
        for v, s in r["vertices"]:
            g.add_vertex(VertexType.Z, qubit=0, row=0, index=int(v), phaseVars=set(s))
        before = var_sets(g)
        num_e = r["num_e"]
        try:
            _, basis = G.transform_error_basis(g, num_e=num_e) if num_e is not None else G.transform_error_basis(g)
        except Exception as e:  # noqa
            print("implementation now raises:", repr(e))
            return 1
        why = check_teb(before, num_e, var_sets(g), basis, np.random.default_rng(0))
        print("implementation now:", var_sets(g), basis.tolist(), "->", why or "ok")
        return 0 if why is None else 1
    if kind == "teb_circuit":
        import tsim
        import tsim.core.graph as G
        from tsim.core.parse import parse_stim_circuit
        captured = []
        orig = G.transform_error_basis

        def wrapper(g, num_e=None):
            b = copy.deepcopy(g)
            res = orig(g, num_e=num_e)
            captured.append((b, num_e, copy.deepcopy(res[0]), res[1]))
            return res
        G.transform_error_basis = wrapper
        try:
            circ = tsim.Circuit(r["circuit"])
            built = parse_stim_circuit(circ._stim_circ)
            G.prepare_graph(circ, sample_detectors=bool(r["sample_detectors"]))
        except Exception as e:  # noqa
            print("implementation now raises:", repr(e))
            return 1
        finally:
            G.transform_error_basis = orig
        before_g, num_e, after_g, basis = captured[0]
        why = None
        if num_e != built.num_error_bits:
            why = f"num_e={num_e} but the circuit has {built.num_error_bits} error bits"
        why = why or check_teb(var_sets(before_g), num_e, var_sets(after_g), basis, np.random.default_rng(0))
        if why is None and built.num_error_bits <= 12:
            if not any(s for _, s in var_sets(before_g)):
                before_g.scalar = type(before_g.scalar)()
            why, _ = eval_both(G, before_g, after_g, basis, built.num_error_bits,
                               list(itertools.product([0, 1], repeat=built.num_error_bits)))
        print("implementation now:", [s for _, s in var_sets(after_g) if s], basis.tolist(), "->", why or "ok")
        return 0 if why is None else 1
    return 1
