"""C05 -- every gate denotes its documented unitary, alone and in composition.

Proof: Props/C05.v over gen/Gen_instructions.v (translated from instructions.py on every run) and
gen/Gen_stim_gates.v (the installed Stim's gate reference) -- all GATE_TABLE unitaries in both target orders,
rotations/U3 symbolically in the angles, R_Z(1/4) ~ T; decided by vm_compute over exponential polynomials and
transported to every ring by EPSound.peq_sound.
Correspondence: (1) translator tie: each gate function is run for real with its primitives wrapped and the
recorded primitive calls must equal the op list the regenerated Gallina function produces; (2) model tie: the
model's matrix (EP evaluated numerically) equals `Circuit("NAME ...").to_matrix()` including the scalar.
Search oracle: random compositions on 1-4 qubits, every target permutation, adversarial angle literals:
`Circuit(text).to_matrix()` vs the ordered product of documented matrices up to one global phase.
"""
from __future__ import annotations

import cmath
import itertools
import math
from fractions import Fraction

import numpy as np

from harness import coqrun as cq
from harness.common import Ctx, report_broken_without_input, standard_model_phase

MANIFEST = dict(
    text=("Machine-checked proof (Coq 8.16.1): every unitary row of GATE_TABLE (all Stim one- and two-qubit Cliffords and "
          "aliases, both target orders) denotes E(k/4) times Stim's documented matrix, R_X/R_Y/R_Z/U3 denote the README "
          "formulas for EVERY angle (symbolic half-angles in an exponential-polynomial normal form), T/T_DAG, and "
          "R_Z(1/4)=E(-1/8)T -- in every commutative ring with a character E (so in C). The gate functions are "
          "REGENERATED from instructions.py by a fail-closed ast translator on every run and the documented matrices from "
          "the installed Stim's gate_data, so an edit to a gate re-checks the proof against what the code says now. "
          "Ties: primitive-call traces of the real gate functions equal the generated op lists; model matrices equal "
          "Circuit.to_matrix() numerically incl. scalar. COMPOSITION is proved too (C05_circuit): for every sequence of "
          "GATE_TABLE unitaries on any lanes of a register of any size the drawn program acts as one unit phase times the "
          "documented gates applied in order (amplitude-function semantics; placement lemma by naturality of the generated "
          "gate functions; the dense interpreter is bridged to it by proof for every number of lanes, C05_circuit_dense); rotations/"
          "U3/T at any lane for every angle, and for arbitrary angle expressions given through phase matrices (C05_rotations_any_angle), which "
          "puts T and the rotations inside the circuit-level composition theorem of C01. Random compositions on sparse labels with adversarial literals are in addition "
          "validated against the ordered product of documented matrices (search oracle)."),
    note=("Trusted: Coq kernel+vm_compute; translators translate/instructions.py, translate/stim_gates.py; hand model of "
          "the graph-touching primitives (Model/Lane.v: spiders, h, _cx_cz, swap, scalar) pinned by source fingerprints and "
          "validated numerically against pyzx's to_matrix on every run; pyzx tensor contraction is the oracle for to_matrix. "
          "Print Assumptions: closed under the global context for the gate tables; the composition theorems use "
          "functional_extensionality_dep (stdlib axiom, amplitude functions). The dense n-lane interpreter of the executable circuit "
          "model is proved equal to the amplitude-function semantics for every n (C05_circuit_dense states the composition theorem "
          "about the dense matrix `mat n ops`)."),
    technique="Coq proof by reflection (exponential-polynomial normal form + soundness lemma) over an ast-translated model; trace and matrix correspondence",
    design_ref="DESIGN.md 4.C05",
)

TRANSLATORS = ["instructions", "stim_gates", "channel_tables"]
COQ_FILES = ["Base/EP.v", "Base/EPSound.v", "Model/Lane.v", "Spec/RotGates.v", "gen/Gen_instructions.v", "gen/Gen_stim_gates.v",
             "Model/GateCheck.v", "Model/LaneShow.v", "Proofs/GateProofs.v", "Proofs/LaneFingerprints.v", "Base/Amp.v",
             "Proofs/CircuitProofs.v", "Proofs/CircuitTheorem.v", "Spec/Born.v", "gen/Gen_channel_tables.v", "Model/InstrCheck.v",
             "Model/KrausCheck.v", "Proofs/InstrProofs.v", "Proofs/BitIdx.v", "Proofs/DenseBridge.v", "Proofs/KrausSem.v", "Proofs/KrausLocal.v",
             "Proofs/KrausTheorem.v", "Proofs/KrausGates.v", "Proofs/KrausFeedback.v", "Proofs/KrausNoise2.v", "Proofs/KrausRot.v", "Proofs/KrausChain.v", "Proofs/KrausCircuit.v", "Props/C05.v"]
IMPORTS = ("From Coq Require Import ZArith List QArith String. Import ListNotations.\n"
           "Require Import TV.Base.EP TV.Model.Lane TV.Spec.RotGates TV.gen.Gen_instructions TV.gen.Gen_stim_gates TV.Model.GateCheck TV.Model.LaneShow.\n")


# ---------------------------------------------------------------------------------------------
def ep_value(p, ta=0.0, tb=0.0, tc=0.0) -> complex:
    sc, terms = p
    return sum(c * cmath.exp(1j * math.pi * (c0 / 4 + a * ta + b * tb + g * tc)) for (c0, a, b, g, c) in terms) / 2 ** sc


def cols_to_matrix(cols, ta=0.0, tb=0.0, tc=0.0):
    return np.array([[ep_value(e, ta, tb, tc) for e in col] for col in cols]).T


def le_to_be(M, n):
    """model matrices are little-endian (lane q = bit q); tsim.to_matrix is big-endian"""
    idx = [int(format(i, f"0{n}b")[::-1], 2) for i in range(2 ** n)]
    return M[np.ix_(idx, idx)]


def upto_phase(A, B, tol=1e-6):
    A, B = np.asarray(A, dtype=complex), np.asarray(B, dtype=complex)
    if A.shape != B.shape:
        return False
    i = int(np.argmax(np.abs(B)))
    if abs(B.flat[i]) < 1e-9:
        return False
    ph = A.flat[i] / B.flat[i]
    return abs(abs(ph) - 1) < tol and np.allclose(A, ph * B, atol=tol)


# ---- documented matrices (numpy) -------------------------------------------------------------
def rz(a):
    return np.diag([np.exp(-1j * a * np.pi / 2), np.exp(1j * a * np.pi / 2)])


def rx(a):
    c, s = np.cos(a * np.pi / 2), np.sin(a * np.pi / 2)
    return np.array([[c, -1j * s], [-1j * s, c]])


def ry(a):
    c, s = np.cos(a * np.pi / 2), np.sin(a * np.pi / 2)
    return np.array([[c, -s], [s, c]], dtype=complex)


def u3(t, p, l):
    c, s = np.cos(t * np.pi / 2), np.sin(t * np.pi / 2)
    return np.array([[c, -np.exp(1j * l * np.pi) * s], [np.exp(1j * p * np.pi) * s, np.exp(1j * (p + l) * np.pi) * c]])


def doc_matrix(name, angles=()):
    import stim
    if name == "T":
        return np.diag([1, np.exp(1j * np.pi / 4)])
    if name == "T_DAG":
        return np.diag([1, np.exp(-1j * np.pi / 4)])
    if name == "R_Z":
        return rz(*angles)
    if name == "R_X":
        return rx(*angles)
    if name == "R_Y":
        return ry(*angles)
    if name == "U3":
        return u3(*angles)
    return np.asarray(stim.gate_data(name).unitary_matrix, dtype=complex)


def embed(U, targets, qubits):
    """U little-endian in `targets` (Stim convention) -> big-endian matrix on the sorted qubit list"""
    n = len(qubits)
    pos = {q: i for i, q in enumerate(qubits)}
    k = len(targets)
    M = np.zeros((2 ** n, 2 ** n), dtype=complex)
    for col in range(2 ** n):
        bits = [(col >> (n - 1 - i)) & 1 for i in range(n)]          # bits[i] = value of qubits[i]
        sub_in = sum(bits[pos[t]] << j for j, t in enumerate(targets))  # little endian in targets
        for sub_out in range(2 ** k):
            amp = U[sub_out, sub_in]
            if amp == 0:
                continue
            b2 = list(bits)
            for j, t in enumerate(targets):
                b2[pos[t]] = (sub_out >> j) & 1
            row = sum(b << (n - 1 - i) for i, b in enumerate(b2))
            M[row, col] += amp
    return M


ANGLE_LITERALS = ["0.3", "-0.25", "1.0", "2.5", "0.125", "-1.75", "3.141592653589793", "0.1234567890123456789", ".5", "5.", "+0.75",
                  "0.0001", "1000.5", "0", "00.250", "-0.333333333333"]


def random_circuit(rng, names1, names2, nq_max=4, depth_max=12):
    nq = int(rng.integers(1, nq_max + 1))
    # sparse, non-adjacent qubit labels
    labels = sorted(rng.choice(np.arange(0, 9), size=nq, replace=False).tolist())
    lines, ops = [], []
    for _ in range(int(rng.integers(1, depth_max + 1))):
        r = rng.random()
        if r < 0.25:
            g = ["R_Z", "R_X", "R_Y", "U3", "T", "T_DAG"][int(rng.integers(0, 6))]
            q = int(rng.choice(labels))
            n_before = len(ops)
            if g in ("T", "T_DAG"):
                lines.append(f"{g} {q}")
                ops.append((g, (), [q]))
            elif g == "U3":
                lits = [ANGLE_LITERALS[int(rng.integers(0, len(ANGLE_LITERALS)))] for _ in range(3)]
                # broadcast and repeated targets (Stim fuses identical neighbouring instructions into one with repeated targets)
                qs = [q] + [int(rng.choice(labels)) for _ in range(int(rng.integers(0, 3)))] if rng.random() < 0.5 else [q]
                if rng.random() < 0.3:
                    qs = qs + [qs[0]]
                lines.append(f"U3({lits[0]}, {lits[1]}, {lits[2]}) " + " ".join(map(str, qs)))
                for qq in qs:
                    ops.append((g, tuple(float(Fraction(x)) for x in lits), [qq]))
            else:
                lit = ANGLE_LITERALS[int(rng.integers(0, len(ANGLE_LITERALS)))]
                qs = [q] + [int(rng.choice(labels)) for _ in range(int(rng.integers(0, 3)))] if rng.random() < 0.5 else [q]
                if rng.random() < 0.3:
                    qs = qs + [qs[0]]
                lines.append(f"{g}({lit}) " + " ".join(map(str, qs)))
                for qq in qs:
                    ops.append((g, (float(Fraction(lit)),), [qq]))
            if rng.random() < 0.25:
                # the same instruction again on the next line: fused by Stim
                lines.append(lines[-1])
                ops += ops[n_before:]
        elif r < 0.6 or nq == 1:
            g = names1[int(rng.integers(0, len(names1)))]
            k = int(rng.integers(1, min(nq, 3) + 1))
            qs = [int(x) for x in rng.choice(labels, size=k, replace=True)]
            lines.append(f"{g} " + " ".join(map(str, qs)))
            for q in qs:
                ops.append((g, (), [q]))
        else:
            g = names2[int(rng.integers(0, len(names2)))]
            pairs = []
            for _p in range(int(rng.integers(1, 3))):
                a, b = [int(x) for x in rng.choice(labels, size=2, replace=False)]
                pairs += [a, b]
                ops.append((g, (), [a, b]))
            lines.append(f"{g} " + " ".join(map(str, pairs)))
    return "\n".join(lines), ops


def reference_matrix(ops):
    qubits = sorted({q for _, _, ts in ops for q in ts})
    M = np.eye(2 ** len(qubits), dtype=complex)
    for name, angles, ts in ops:
        M = embed(doc_matrix(name, angles), ts, qubits) @ M
    return M


# ---------------------------------------------------------------------------------------------
def run(ctx: Ctx) -> int:
    standard_model_phase(ctx, TRANSLATORS, COQ_FILES, "Props.C05", "Props/C05.v")
    ctx.trusted += [
        "translate/instructions.py (ast -> Gallina lane programs), translate/stim_gates.py (installed Stim gate_data -> exact matrices)",
        "hand model of the graph-touching primitives in Model/Lane.v, pinned by Proofs/LaneFingerprints.v and validated against to_matrix",
        "pyzx_param tensor contraction (to_matrix) is an oracle",
    ]
    import stim
    import tsim
    import tsim.core.instructions as I

    rng = ctx.np_rng()
    table = dict(I.GATE_TABLE)
    unitary_names = [n for n in table if n in stim.gate_data() and stim.gate_data(n).is_unitary]
    names1 = [n for n in unitary_names if table[n][1] == 1]
    names2 = [n for n in unitary_names if table[n][1] == 2]
    model_usable = not any(("translator:" in b) or ("Lane.v" in b) or ("Gen_" in b) or ("Base/" in b) or ("GateCheck" in b) or ("LaneShow" in b)
                           for b in ctx.broken)

    # -------------------------------------------------- (2) model matrices vs Circuit.to_matrix() per gate (incl. scalar)
    per_gate_bad = []
    if model_usable:
        terms, meta = [], []
        for n in names1:
            fn = table[n][0].__name__
            terms.append(f'match assoc "{fn}"%string unitary1 with Some g => map showv (mat 1 (g 0%nat)) | None => [] end')
            meta.append((n, [0], ()))
        for n in names2:
            fn = table[n][0].__name__
            for qs in ([0, 1], [1, 0]):
                terms.append(f'match assoc "{fn}"%string unitary2 with Some g => map showv (mat 2 (g {qs[0]}%nat {qs[1]}%nat)) | None => [] end')
                meta.append((n, qs, ()))
        terms += ["map showv (mat 1 (g_r_z 0%nat theta))", "map showv (mat 1 (g_r_x 0%nat theta))", "map showv (mat 1 (g_r_y 0%nat theta))",
                  "map showv (mat 1 (g_u3 0%nat theta phi lambda))", "map showv (mat 1 (g_t 0%nat))", "map showv (mat 1 (g_t_dag 0%nat))"]
        meta += [("R_Z", [0], "rot"), ("R_X", [0], "rot"), ("R_Y", [0], "rot"), ("U3", [0], "u3"), ("T", [0], ()), ("T_DAG", [0], ())]
        vals = cq.eval_terms("c05_mats", IMPORTS, terms)
        for (name, qs, kind), cols in zip(meta, vals):
            nq = len(qs)
            angle_sets = [()]
            if kind == "rot":
                angle_sets = [(float(Fraction(x)),) for x in ANGLE_LITERALS[:8]]
            if kind == "u3":
                angle_sets = [tuple(float(rng.uniform(-2, 2)) for _ in range(3)) for _ in range(5)] + [(0.3, 0.24, 0.49)]
            for angles in angle_sets:
                ta, tb, tc = ([a / 2 for a in angles] + [0, 0, 0])[:3]
                Mm = le_to_be(cols_to_matrix(cols, ta, tb, tc), nq) if cols else None
                if kind == "rot":
                    text = f"{name}({angles[0]!r}) 0"
                elif kind == "u3":
                    text = f"U3({angles[0]:.12f}, {angles[1]:.12f}, {angles[2]:.12f}) 0"
                    angles = tuple(float(Fraction(f"{a:.12f}")) for a in angles)
                    ta, tb, tc = [a / 2 for a in angles]
                    Mm = le_to_be(cols_to_matrix(cols, ta, tb, tc), nq)
                else:
                    text = (f"I 0 1\n{name} {qs[0]} {qs[1]}" if nq == 2 else f"{name} 0")
                Mi = np.asarray(tsim.Circuit(text).to_matrix())
                ctx.count(("gate", name, tuple(qs), angles), bucket="per-gate-matrix")
                if Mm is None or Mm.shape != Mi.shape or not np.allclose(Mm, Mi, atol=1e-6):
                    per_gate_bad.append((text, name))
                    ctx.broken.append(f"correspondence:model matrix of {name} {qs} differs from Circuit.to_matrix() (incl. scalar) on `{text}`")
        ctx.sample({"gate": "XCY", "targets": [1, 0], "model_matrix_equals_to_matrix": ("XCY" not in [b[1] for b in per_gate_bad])})

    # -------------------------------------------------- (1) primitive-trace tie of the translator
    trace_bad = trace_tie(ctx, I) if model_usable else []

    # -------------------------------------------------- search oracle: documented matrices, alone and in composition
    # every gate alone, every target order, against Stim / README
    for n in names1 + ["T", "T_DAG"]:
        for q in (0, 3):
            M = np.asarray(tsim.Circuit(f"{n} {q}").to_matrix())
            ctx.count(("alone", n, q), bucket="gate-alone")
            if not upto_phase(M, doc_matrix(n)):
                ctx.violation(f"gate-{n}", f"`{n} {q}`: to_matrix() is not the documented unitary up to phase", {"text": f"{n} {q}"})
    for n in names2:
        for a, b in ((0, 1), (1, 0), (2, 5), (5, 2)):
            text = f"{n} {a} {b}"
            M = np.asarray(tsim.Circuit(text).to_matrix())
            ctx.count(("alone", n, a, b), bucket="gate-alone")
            if not upto_phase(M, reference_matrix([(n, (), [a, b])])):
                ctx.violation(f"gate-{n}", f"`{text}`: to_matrix() is not the documented unitary up to phase", {"text": text})
    for g in ("R_Z", "R_X", "R_Y"):
        for lit in ANGLE_LITERALS:
            text = f"{g}({lit}) 0"
            try:
                M = np.asarray(tsim.Circuit(text).to_matrix())
            except Exception as e:  # rejected loudly
                ctx.count(("rot-rejected", g, lit), nontrivial=False, bucket="rotation-rejected")
                continue
            ctx.count(("rot", g, lit), bucket="rotation-alone")
            if not upto_phase(M, doc_matrix(g, (float(Fraction(lit)),))):
                ctx.violation(f"gate-{g}", f"`{text}`: to_matrix() is not the README matrix up to phase", {"text": text})
    # the tagged form with its named parameters in every order (read by NAME), alone and inside a two-qubit composition
    import itertools as _it
    vals = {"theta": 0.3, "phi": -0.85, "lambda": 2.125}
    for order in _it.permutations(["theta", "phi", "lambda"]):
        tag = "U3(" + ", ".join(f"{k}={vals[k]}*pi" for k in order) + ")"
        for text, ops in [(f"I[{tag}] 0", [("U3", (vals["theta"], vals["phi"], vals["lambda"]), [0])]),
                          (f"H 1\nCX 1 0\nI[{tag}] 0\nS 1", [("H", (), [1]), ("CX", (), [1, 0]), ("U3", (vals["theta"], vals["phi"], vals["lambda"]), [0]), ("S", (), [1])])]:
            try:
                M = np.asarray(tsim.Circuit(text).to_matrix())
            except Exception:
                ctx.count(("u3-named-rejected", order), nontrivial=False, bucket="rotation-rejected")
                continue
            ctx.count(("u3-named", order, text), bucket="u3-named-parameter-order")
            if not upto_phase(M, reference_matrix(ops), tol=1e-5):
                ctx.violation("gate-U3-named-order", f"`{text}`: to_matrix() is not U3(theta, phi, lambda) with the angles read by name", {"text": text})
    M = np.asarray(tsim.Circuit("R_Z(0.25) 0").to_matrix())
    if not upto_phase(M, doc_matrix("T")):
        ctx.violation("rz-quarter-T", "R_Z(0.25) is not T up to phase", {"text": "R_Z(0.25) 0"})
    # compositions
    n_comp = 150 if ctx.quick else 3000
    for k in range(n_comp):
        text, ops = random_circuit(rng, names1, names2)
        try:
            M = np.asarray(tsim.Circuit(text).to_matrix())
        except Exception as e:
            ctx.violation("composition-raises", f"to_matrix raised {e!r}", {"text": text})
            continue
        R = reference_matrix(ops)
        nt = len(ops) > 1
        ctx.count(("comp", text), nontrivial=nt, bucket=f"composition-{int(math.log2(R.shape[0]))}q")
        if k < 3:
            ctx.sample({"circuit": text, "matches_documented_product_up_to_phase": bool(upto_phase(M, R))})
        if not upto_phase(M, R, tol=1e-5):
            small = shrink(text, ops, tsim)
            ctx.violation("composition:" + small[0].replace("\n", ";")[:60],
                          "to_matrix() differs from the ordered product of documented matrices (up to global phase)",
                          {"text": small[0]})
            break
    # cancellation sandwiches: a non-Clifford phase gate, a Clifford (or nothing), and a rotation that would undo it on the same or the
    # opposite axis -- with and without leading Hadamards and entangling gates around the lane (build-time simplifications of the diagram
    # must keep the Hadamards that do not cancel)
    def _rot(g, a):
        return (g, (), f"{g}") if g in ("T", "T_DAG") else (g, (a,), f"{g}({a})")
    sand = []
    for pre in ("", "H", "S"):
        for g1, a1 in (("T", None), ("T_DAG", None), ("R_Z", 0.3), ("R_X", 0.3), ("R_Z", -2.125), ("R_Y", 0.3)):
            for mid in ("", "H", "S", "SQRT_X", "H_YZ"):
                for g2, a2 in (("T", None), ("T_DAG", None), ("R_Z", None), ("R_X", None), ("R_Y", None)):
                    if a2 is None and g2.startswith("R_"):
                        a2 = {"T": -0.25, "T_DAG": 0.25}.get(g1, -a1 if a1 is not None else 0.0)
                        if g1 == "R_Z" and a1 == -2.125:
                            a2 = 0.125
                    sand.append((pre, _rot(g1, a1), mid, _rot(g2, a2)))
    order = rng.permutation(len(sand))
    n_sand = 0
    for idx in (order[:220] if ctx.quick else order):
        pre, r1, mid, r2 = sand[int(idx)]
        wrap = bool(rng.random() < 0.3)
        q = 1 if wrap else 0
        lines, ops = [], []
        if wrap:
            lines.append("CX 0 1"); ops.append(("CX", (), [0, 1]))
        for cl in (pre,):
            if cl:
                lines.append(f"{cl} {q}"); ops.append((cl, (), [q]))
        lines.append(f"{r1[2]} {q}"); ops.append((r1[0], r1[1], [q]))
        if mid:
            lines.append(f"{mid} {q}"); ops.append((mid, (), [q]))
        lines.append(f"{r2[2]} {q}"); ops.append((r2[0], r2[1], [q]))
        if wrap:
            lines.append("CX 0 1"); ops.append(("CX", (), [0, 1]))
        text = "\n".join(lines)
        try:
            M = np.asarray(tsim.Circuit(text).to_matrix())
        except Exception as e:
            ctx.violation("composition-raises", f"to_matrix raised {e!r}", {"text": text})
            break
        n_sand += 1
        ctx.count(("sandwich", text), nontrivial=True, bucket="cancellation-sandwich")
        if not upto_phase(M, reference_matrix(ops), tol=1e-5):
            ctx.violation("composition:" + text.replace("\n", ";")[:60],
                          "to_matrix() differs from the ordered product of documented matrices (up to global phase)", {"text": text})
            break
    ctx.cov["cancellation_sandwiches"] = n_sand
    # the matrix reported for a circuit OBJECT that is mutated between calls (pop / append / += / *=) is the matrix of its current text
    for k in range(25 if ctx.quick else 400):
        text, ops = random_circuit(rng, names1, names2, nq_max=3, depth_max=6)
        extra, _ = random_circuit(rng, names1, names2, nq_max=2, depth_max=3)
        steps = []
        try:
            c = tsim.Circuit(text)
            np.asarray(c.to_matrix())
            c.tcount()
            for _s in range(int(rng.integers(1, 4))):
                op = ["pop", "append", "iadd", "imul", "pop"][int(rng.integers(0, 5))]
                if op == "pop" and len(c) > 1:
                    c.pop()
                elif op == "append":
                    c.append_from_stim_program_text(extra)
                elif op == "iadd":
                    c += tsim.Circuit(extra)
                elif op == "imul":
                    c *= 2
                else:
                    continue
                steps.append(op)
                M = np.asarray(c.to_matrix())
                F = np.asarray(tsim.Circuit(str(c)).to_matrix())
                ctx.count(("mutate", text, tuple(steps)), nontrivial=True, bucket="matrix-after-mutation")
                if M.shape != F.shape or not np.allclose(M, F, atol=1e-6) or c.tcount() != tsim.Circuit(str(c)).tcount():
                    ctx.violation("matrix-after-mutation:" + text.replace("\n", ";")[:40] + ":" + ",".join(steps),
                                  f"after {steps} the circuit object reports a matrix / T-count that is not the one of its current text {str(c)!r}",
                                  {"text": text, "extra": extra, "steps": steps, "kind": "mutation"})
                    break
        except Exception as e:
            ctx.violation("matrix-after-mutation-raises", f"{steps}: raised {e!r}", {"text": text, "extra": extra, "steps": steps, "kind": "mutation"})
        if ctx.violations:
            break
    if ctx.broken and not ctx.violations:
        report_broken_without_input(ctx)
    return ctx.finish(
        rule="per-gate: every GATE_TABLE unitary x both target orders (+ sparse labels), rotations over a list of adversarial decimal "
             "literals; compositions: random circuits on 1-4 sparse qubit labels, depth <=12, broadcast targets, repeated targets, "
             "rotation/U3 literals; non-trivial = more than one gate application. to_matrix() compared with the ordered product of "
             "Stim's gate_data matrices / README formulas up to one global phase, and with the Coq model's matrix including the scalar.",
        explanation="C05_gate_table/gate1/gate2/rotations/rz_quarter_is_T over the regenerated gate functions; composition by correspondence",
        assumptions=["pyzx tensor contraction (to_matrix) is correct", "hand model of primitives (Model/Lane.v) as validated per gate"],
    )


def shrink(text, ops, tsim):
    """drop lines while the mismatch persists"""
    lines = text.split("\n")
    changed = True
    while changed and len(lines) > 1:
        changed = False
        for i in range(len(lines)):
            cand = lines[:i] + lines[i + 1:]
            t = "\n".join(cand)
            try:
                o = parse_ops(t)
                M = np.asarray(tsim.Circuit(t).to_matrix())
                if not upto_phase(M, reference_matrix(o), tol=1e-5):
                    lines = cand
                    changed = True
                    break
            except Exception:
                continue
    return "\n".join(lines), None


def parse_ops(text):
    import re
    import stim
    ops = []
    for line in text.split("\n"):
        m = re.match(r"^(\w+)(?:\(([^)]*)\))?\s+(.*)$", line.strip())
        name, args, ts = m.group(1), m.group(2), [int(x) for x in m.group(3).split()]
        angles = tuple(float(Fraction(a.strip())) for a in args.split(",")) if args else ()
        if name in ("R_Z", "R_X", "R_Y", "U3", "T", "T_DAG") or stim.gate_data(name).is_single_qubit_gate:
            for q in ts:
                ops.append((name, angles, [q]))
        else:
            for i in range(0, len(ts), 2):
                ops.append((name, angles, ts[i:i + 2]))
    return ops


# ---------------------------------------------------------------------------------------------
def trace_tie(ctx: Ctx, I):
    """run each gate function for real with wrapped primitives; the recorded top-level primitive calls must equal
    the op list of the regenerated Gallina function (translator tie)."""
    from harness.lanetrace import coq_call_for, python_trace, show_to_trace, traces_equal
    bad = []
    cases = []
    import inspect
    for fname, fn in inspect.getmembers(I, inspect.isfunction):
        if fn.__module__ != I.__name__:
            continue
        for args in coq_call_for(fname, fn):
            cases.append((fname, args))
    terms = [c[1]["coq"] for c in cases]
    vals = cq.eval_terms("c05_trace", IMPORTS, ["[" + "; ".join(f"show_ops ({t})" for t in terms) + "]"])[0]
    for (fname, args), v in zip(cases, vals):
        want = python_trace(I, fname, args["py"])
        got = show_to_trace(v)
        ctx.count(("trace", fname, str(args["py"])), bucket="primitive-trace")
        if not traces_equal(want, got):
            bad.append(fname)
            ctx.broken.append(f"correspondence:primitive trace of {fname}{args['py']}: python {want} model {got}")
    ctx.cov["primitive_trace_cases"] = len(cases)
    return bad
