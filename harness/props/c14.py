"""C14 -- randomness discipline: seeded reproducibility and fresh, independent randomness.

Tie A: translator `keyflow` regenerates, per function of sampler.py / noise/channels.py, the ordered list of
       split / consume / key operations on key variables (and asserts that no other randomness source is
       reachable with a seed); Proofs/KeyFlowProofs.v re-checks, by a linearity checker proved sound for all
       histories and all loop counts, that no key is used twice and every used key is a root or the child of an
       earlier split.
Tie B (correspondence): the harness wraps jax.random.{key,split,bernoulli,categorical,randint} (from here, no
       source change; the jitted forwarder _sample_component_jit is replaced by the function it wraps so that
       keys are concrete -- one history is additionally run under jax.disable_jit() with the original code),
       logs jax.random.key_data of every key, and checks that the logged use-graph is ISOMORPHIC to the log the
       Coq model computes for the same (seed, history, sampler structure): same sequence of operations, one
       consistent injective map from tree paths to key bits.
Search / independent reference: the discipline is checked DIRECTLY on the real log (no key bits used twice,
       every used key is the output of an earlier key()/split(), roots are the seed and seeds drawn earlier), and
       on real outputs: same seed + same history => identical arrays; different seeds, successive calls and
       successive batches differ.  Secondary 6-sigma statistics at a fixed seed are recorded, not deciding.
"""
from __future__ import annotations

import json
import time

import numpy as np

from harness import coqrun as cq
from harness.common import Ctx, report_broken_without_input, standard_model_phase

TRANSLATORS = ["keyflow"]
COQ_FILES = ["Base/KeyTree.v", "gen/Gen_keyflow.v", "Model/KeyFlow.v", "Proofs/KeyFlowProofs.v", "Props/C14.v"]
IMPORTS = ("From Coq Require Import ZArith String List Bool Arith. Import ListNotations.\n"
           "Require Import TV.Base.KeyTree TV.gen.Gen_keyflow TV.Model.KeyFlow.\n")

MANIFEST = dict(
    text=("Machine-checked proof (Coq 8.16.1) of the PRNG key discipline of the samplers. The key flow of "
          "_CompiledSamplerBase.__init__, _sample_batches, sample_program, sample_component, _sample_component, "
          "ChannelSampler.__init__/sample, _sample_channels and probability_of is REGENERATED from /repo/src on every run by "
          "a fail-closed Python-ast translator (every jax.random call site, every mention of a key variable; any other "
          "randomness source -- np.random, random, secrets, ... -- in the run-time import closure of tsim.sampler other than "
          "the two `seed is None` fallbacks aborts translation). Keys are modelled as paths in a tree (root = seed or a seed "
          "derived from an earlier draw; split k n = children). A static linearity checker over the key programs is proved "
          "sound w.r.t. the interpreter for ALL histories of sample()/probability_of() calls and ALL numbers of batches, "
          "channels, components and outputs (loop counts are universally quantified), and the regenerated programs are "
          "accepted by it (vm_compute). Hence (C14_fresh) for every seed and history: no key is ever used twice (consumed xor "
          "split, consumed keys pairwise distinct), every used key is a root or a child of an earlier split, and the two "
          "stored keys are always unused and distinct; (C14_repro) the log and every draw are a function of (seed, history) "
          "and are not changed by later calls; (C14_distinct_seeds) samplers with different seeds share no key. The model is "
          "tied to the running code by logging jax.random.key_data of every key passed to key/split/bernoulli/categorical/"
          "randint during generated histories (varying shots and batch sizes, noisy samplers with several outputs, both "
          "samplers and CompiledStateProbs) and checking the logged use-graph is isomorphic to the model's tree; the "
          "discipline is also checked directly on the real log, and same-seed/different-seed/successive-call/successive-"
          "batch behaviour on real outputs."),
    note=("Trusted: Coq kernel + vm_compute; translator translate/keyflow.py (tied by the log isomorphism); PRNG idealisation: "
          "distinct tree nodes are independent streams and a key consumed once yields i.i.d. draws (threefry as a random "
          "function) -- independence/i.i.d.-ness of shots rests on it; a derived seed (randint of a fresh key) is treated as a "
          "fresh root different from the user's seed: a 2^-30 chance collision channel_seed == seed would make the channel "
          "sampler reuse the sampler's root key (recorded as an observation, not modelled). Only seeded construction is "
          "covered (seed=None draws the seed from numpy's global entropy). Statistical checks are recorded, not deciding."),
    technique="Coq proof (linear-typing style checker + soundness by induction over statements/histories, finite check by vm_compute) + ast translator + key-log isomorphism against the running JAX code",
    design_ref="DESIGN.md 4.C14",
)

RAND_FUNCS = ("key", "split", "bernoulli", "categorical", "randint")


# ------------------------------------------------------------------------------------ logging jax.random
class KeyLog:
    """wrap jax.random.{key,split,bernoulli,categorical,randint}; log key bits"""

    def __init__(self, unjit=True):
        import jax
        import tsim.sampler as TS
        self.jax, self.TS = jax, TS
        self.unjit = unjit
        self.log: list[tuple] = []

    def bits(self, k):
        a = np.asarray(self.jax.random.key_data(k))
        return tuple(int(x) for x in a.reshape(-1))

    def __enter__(self):
        jax = self.jax
        self.orig = {n: getattr(jax.random, n) for n in RAND_FUNCS}
        self.orig_jit = self.TS._sample_component_jit
        o = self.orig

        def w_key(seed, *a, **kw):
            k = o["key"](seed, *a, **kw)
            self.log.append(("key", int(seed), self.bits(k)))
            return k

        def w_split(key, num=2):
            r = o["split"](key, num)
            kd = np.asarray(jax.random.key_data(r))
            kd = kd.reshape(int(num), kd.shape[-1])
            self.log.append(("split", self.bits(key), int(num), [tuple(int(x) for x in row) for row in kd]))
            return r

        def mk(name):
            def w(key, *a, **kw):
                r = o[name](key, *a, **kw)
                val = int(r) if (name == "randint" and np.ndim(r) == 0) else None
                self.log.append(("consume", name, self.bits(key), val))
                return r
            return w

        jax.random.key, jax.random.split = w_key, w_split
        for n in ("bernoulli", "categorical", "randint"):
            setattr(jax.random, n, mk(n))
        if self.unjit:
            self.TS._sample_component_jit = getattr(self.TS._sample_component_jit, "__wrapped__", self.TS._sample_component)
        return self

    def __exit__(self, *a):
        for n, f in self.orig.items():
            setattr(self.jax.random, n, f)
        self.TS._sample_component_jit = self.orig_jit
        return False


def check_log(log) -> list[str]:
    """the discipline, checked directly on a real log; returns a list of problems (empty = fine)"""
    problems = []
    produced: dict[tuple, str] = {}     # key bits -> how it was produced
    used: dict[tuple, tuple] = {}       # key bits -> (index, op)
    drawn_ints: set[int] = set()
    roots = 0
    for i, ev in enumerate(log):
        if ev[0] == "key":
            _, seed, kb = ev
            roots += 1
            if roots == 1:
                pass
            elif seed not in drawn_ints:
                problems.append(f"event {i}: jax.random.key({seed}) is neither the first key nor made from an integer drawn earlier")
            if kb in produced:
                problems.append(f"event {i}: jax.random.key({seed}) returns key bits {kb} that already exist ({produced[kb]})")
            produced[kb] = f"key({seed}) at event {i}"
            continue
        kb = ev[1] if ev[0] == "split" else ev[2]
        op = "split" if ev[0] == "split" else ev[1]
        if kb not in produced:
            problems.append(f"event {i}: {op} uses key bits {kb} that no earlier key()/split() produced")
        if kb in used:
            j, op0 = used[kb]
            problems.append(f"key bits {kb} ({produced.get(kb, '?')}) used twice: {op0} at event {j} and {op} at event {i}")
        else:
            used[kb] = (i, op)
        if ev[0] == "split":
            for c, child in enumerate(ev[3]):
                if child in produced:
                    problems.append(f"event {i}: split child {c} has key bits {child} that already exist ({produced[child]})")
                produced[child] = f"child {c} of split at event {i}"
        elif ev[1] == "randint" and ev[3] is not None:
            drawn_ints.add(ev[3])
    if roots != 2 and log:
        problems.append(f"{roots} root keys created, expected 2 (the seed and the derived channel seed)")
    return problems


# ------------------------------------------------------------------------------------ model side
def key_str(k) -> str:
    return json.dumps(k)


def align(model_trace, log) -> str | None:
    """is the real log isomorphic to the model log?  returns a description of the first difference"""
    if len(model_trace) != len(log):
        return f"model log has {len(model_trace)} events, real log {len(log)}"
    m: dict[str, tuple] = {}
    inv: dict[tuple, str] = {}

    def bind(sym, kb, where):
        s = key_str(sym)
        if s in m and m[s] != kb:
            return f"{where}: model key {s} already stands for bits {m[s]}, real bits {kb}"
        if kb in inv and inv[kb] != s:
            return f"{where}: real key bits {kb} stand for two model keys {inv[kb]} and {s}"
        m[s], inv[kb] = kb, s
        return None

    for i, (me, ev) in enumerate(zip(model_trace, log)):
        kind = me[0]
        if kind == "EvRoot":
            if ev[0] != "key":
                return f"event {i}: model EvRoot, real {ev[0]}"
            sym = me[1]
            if sym[0] == "RSeed":
                if int(sym[1]) != ev[1]:
                    return f"event {i}: model root RSeed {sym[1]}, real key({ev[1]})"
            elif sym[0] == "RDerived":
                # the seed must be the integer drawn from the parent key
                parent = key_str(sym[1])
                src = [e for e in log[:i] if e[0] == "consume" and e[1] == "randint" and m.get(parent) == e[2]]
                if not src or src[-1][3] != ev[1]:
                    return f"event {i}: key({ev[1]}) is not the integer drawn from the key the model derives it from"
            else:
                return f"event {i}: model root {sym}"
            err = bind(sym, ev[2], f"event {i}")
            if err:
                return err
        elif kind == "EvSplit":
            if ev[0] != "split" or int(me[2]) != ev[2]:
                return f"event {i}: model EvSplit n={me[2]}, real {ev[0]} {ev[2] if ev[0] == 'split' else ''}"
            s = key_str(me[1])
            if m.get(s) != ev[1]:
                return f"event {i}: split of model key {s} = bits {m.get(s)}, real split of bits {ev[1]}"
            for c, child in enumerate(ev[3]):
                err = bind(["Child", me[1], c], child, f"event {i} child {c}")
                if err:
                    return err
        elif kind == "EvConsume":
            if ev[0] != "consume":
                return f"event {i}: model EvConsume, real {ev[0]}"
            s = key_str(me[1])
            if m.get(s) != ev[2]:
                return f"event {i}: draw from model key {s} = bits {m.get(s)}, real draw ({ev[1]}) from bits {ev[2]}"
        else:
            return f"event {i}: unexpected model event {me}"
    return None


def to_list(v):
    """parsed Coq value (nested tuples) -> nested lists (so that json round-trips)"""
    if isinstance(v, tuple):
        return [to_list(x) for x in v]
    if isinstance(v, list):
        return [to_list(x) for x in v]
    return v


ENTRY = {"sample_measurement": "ESampleMeasurement", "sample_detector": "ESampleDetector", "probability_of": "EProbabilityOf"}


def coq_history(calls) -> str:
    items = []
    for c in calls:
        if c["entry"] == "probability_of":
            items.append(f"(EProbabilityOf, probability_of_counts {c['n_channels']})")
        else:
            outs = "[" + "; ".join(str(x) for x in c["outs"]) + "]"
            items.append(f"({ENTRY[c['entry']]}, sample_counts {c['n_batches']} {c['n_channels']} {outs})")
    return "[" + "; ".join(items) + "]"


# ------------------------------------------------------------------------------------ histories on real samplers
CIRCUITS = {
    "noisy-measure": "H 0\nT 0\nH 0\nCX 0 1\nX_ERROR(0.3) 1\nDEPOLARIZE1(0.1) 0\nM 0 1\nH 2\nM 2",
    "noisy-detect": "H 0\nT 0\nH 0\nCX 0 1\nX_ERROR(0.3) 1\nZ_ERROR(0.2) 0\nM 0 1\nDETECTOR rec[-2]\nDETECTOR rec[-1]\nOBSERVABLE_INCLUDE(0) rec[-1] rec[-2]",
    "noiseless": "H 0\nCX 0 1\nH 2\nM 0 1 2",
    "probs": "H 0\nCX 0 1\nX_ERROR(0.3) 1\nDEPOLARIZE1(0.2) 0\nM 0 1",
    # three components with several outputs each (the order in which components are sampled must not matter for key freshness)
    "multi-component": "H 0\nCX 0 1\nH 2\nCX 2 3\nCX 3 4\nH 5\nT 5\nCX 5 6\nX_ERROR(0.25) 0\nM 0 1 2 3 4 5 6",
    "three-channels": "H 0\nX_ERROR(0.2) 0\nH 1\nZ_ERROR(0.3) 1\nH 1\nH 2\nY_ERROR(0.1) 2\nT 2\nH 2\nM 0 1 2",
}


def make_sampler(kind, src, seed):
    import tsim
    from tsim.sampler import CompiledStateProbs
    c = tsim.Circuit(src)
    if kind == "measurement":
        return c.compile_sampler(seed=seed)
    if kind == "detector":
        return c.compile_detector_sampler(seed=seed)
    return CompiledStateProbs(c, seed=seed)


def run_history(kind, src, seed, hist, unjit=True, disable_jit=False):
    """returns (log, structure calls for the model, outputs)"""
    import jax
    outs_arr = []
    with KeyLog(unjit=unjit) as kl:
        cm = jax.disable_jit() if disable_jit else None
        if cm:
            cm.__enter__()
        try:
            s = make_sampler(kind, src, seed)
            n_ch = len(s._channel_sampler.channels)
            outs = [len(c.compiled_scalar_graphs) - 1 for c in s._program.components]
            calls = []
            for h in hist:
                n0 = len(kl.log)
                if h["op"] == "sample":
                    kw = dict(h.get("flags") or {})
                    try:
                        r = s.sample(h["shots"], batch_size=h["batch_size"], **kw)
                    except ValueError as e:
                        # only the flag combinations Stim rejects may raise (C13); anything else is a failure of the history
                        if not (kw.get("separate_observables") and (kw.get("append_observables") or kw.get("prepend_observables"))):
                            raise
                        r = e
                    if isinstance(r, Exception):
                        if len(kl.log) != n0:
                            calls.append({"entry": "rejected-but-drew"})
                        outs_arr.append(repr(r))
                        continue
                    b = h["batch_size"] if h["batch_size"] is not None else h["shots"]
                    calls.append({"entry": "sample_measurement" if kind == "measurement" else "sample_detector",
                                  "n_batches": -(-h["shots"] // b), "n_channels": n_ch, "outs": outs})
                    outs_arr.append(r)
                else:
                    r = s.probability_of(np.array(h["state"]), batch_size=h["batch_size"])
                    calls.append({"entry": "probability_of", "n_channels": n_ch})
                    outs_arr.append(r)
        finally:
            if cm:
                cm.__exit__(None, None, None)
    return kl.log, calls, outs_arr, {"n_channels": n_ch, "outs": outs}


def same_outputs(a, b) -> bool:
    if len(a) != len(b):
        return False
    for x, y in zip(a, b):
        if isinstance(x, str) or isinstance(y, str):
            if x != y:
                return False
        elif isinstance(x, tuple):
            if not (isinstance(y, tuple) and all(np.array_equal(p, q) for p, q in zip(x, y))):
                return False
        elif not np.array_equal(x, y):
            return False
    return True


def gen_history(rng, kind, quick):
    n = rng.randint(2, 3) if quick else rng.randint(2, 5)
    hist = []
    for _ in range(n):
        if kind == "probs":
            hist.append({"op": "probability_of", "state": [rng.randint(0, 1), rng.randint(0, 1)], "batch_size": rng.choice([1, 2, 3] if quick else [1, 2, 3, 4, 6])})
            continue
        b = rng.choice([1, 2, 3, None] if quick else [1, 2, 3, 4, 6, None])
        shots = rng.choice([1, 2, 3, 4, 5, 7] if quick else list(range(1, 14))) if b is not None else rng.choice([1, 2, 3])
        h = {"op": "sample", "shots": shots, "batch_size": b}
        if kind == "detector":
            fl = rng.choice([{}, {"append_observables": True}, {"separate_observables": True}, {"prepend_observables": True, "bit_packed": True},
                             {"separate_observables": True, "append_observables": True}])
            h["flags"] = fl
        hist.append(h)
    return hist


# ------------------------------------------------------------------------------------ the check
def run(ctx: Ctx) -> int:
    model_ok = standard_model_phase(ctx, TRANSLATORS, COQ_FILES, "Props.C14", "Props/C14.v")
    ctx.trusted += [
        "translator /verif/translate/keyflow.py (Python ast -> key programs), tied by the key-log isomorphism",
        "PRNG idealisation: distinct key-tree nodes are independent streams; a key consumed once yields i.i.d. draws",
        "derived seed (randint of a fresh key) treated as a fresh root, different from the user's seed (2^-30 collision not modelled)",
        "only seeded construction is covered (seed=None takes the seed from numpy's global entropy)",
    ]
    try:
        import jax
        import tsim  # noqa
        import tsim.sampler as TS  # noqa
    except Exception as e:
        ctx.violation("import-failure", f"tsim cannot be imported: {e!r}", {"error": repr(e)}, no_failing_input=True)
        return ctx.finish("n/a")
    quick = ctx.quick
    rng = ctx.rng
    model_usable = not any(b.startswith("translator:") or "Model/KeyFlow" in b or "Gen_keyflow" in b or "Base/KeyTree" in b for b in ctx.broken)

    # ================================================================== 1. key logs of generated histories
    plan = [("measurement", "noisy-measure"), ("detector", "noisy-detect"), ("probs", "probs"), ("measurement", "noiseless"),
            ("measurement", "three-channels"), ("measurement", "multi-component")]
    plan += [("measurement", "multi-component"), ("measurement", "noisy-measure"), ("detector", "noisy-detect"), ("probs", "probs"), ("measurement", "three-channels")]
    if not quick:
        plan = plan * 4
    cases = []
    for kind, cname in plan:
        seed = rng.getrandbits(30)
        hist = gen_history(rng, kind, quick)
        cases.append((kind, cname, seed, hist))
    # one history under jax.disable_jit() with the ORIGINAL jitted forwarder in place
    cases.append(("measurement", "noisy-measure", rng.getrandbits(30), [{"op": "sample", "shots": 3, "batch_size": 2}, {"op": "sample", "shots": 1, "batch_size": 1}], "disable_jit"))

    # one very large batch (more than 2^17 shots in a single batch: any internal blocking of a batch must still use fresh keys)
    cases.append(("measurement", "three-channels", rng.getrandbits(30), [{"op": "sample", "shots": 140000, "batch_size": 140000}, {"op": "sample", "shots": 5, "batch_size": 5}]))
    cases.append(("detector", "noisy-detect", rng.getrandbits(30), [{"op": "sample", "shots": 132000, "batch_size": None}]))

    logs = []
    for case in cases:
        kind, cname, seed, hist = case[:4]
        dj = len(case) > 4
        src = CIRCUITS[cname]
        t0 = time.time()
        try:
            log, calls, outs, struct = run_history(kind, src, seed, hist, unjit=not dj, disable_jit=dj)
        except Exception as e:  # noqa
            ctx.violation(f"history-raises-{cname}", f"history on {cname} (seed {seed}) raised {e!r}",
                          {"kind": kind, "circuit": src, "seed": seed, "history": hist, "error": repr(e)})
            continue
        logs.append((case, log, calls, outs, struct))
        n_used = sum(1 for e in log if e[0] != "key")
        ctx.count(("history", cname, seed, json.dumps(hist)), nontrivial=len([c for c in calls if c.get("n_batches", 1) > 1]) > 0 or len(calls) > 1,
                  bucket=f"history-{kind}" + ("-disable_jit" if dj else ""), n=1)
        ctx.count(None, nontrivial=False, bucket="logged-key-uses", n=n_used)
        problems = check_log(log)
        if any(c.get("entry") == "rejected-but-drew" for c in calls):
            problems.append("a rejected sample() call (ValueError) consumed randomness")
        for p in problems[:1]:
            ctx.violation(f"key-discipline-{cname}", f"{kind} sampler on {cname}, seed {seed}, history {hist}: {p}",
                          {"kind": kind, "circuit": src, "seed": seed, "history": hist, "problem": p, "all_problems": problems[:10],
                           "sampler_structure": struct, "log_length": len(log)})
        ctx.log(f"history {cname}/{kind}{' (disable_jit)' if dj else ''}: {len(hist)} calls, {len(log)} events, {n_used} key uses, {time.time() - t0:.1f}s")
        if len(ctx.samples) < 3:
            ctx.sample({"kind": kind, "circuit": cname, "seed": seed, "history": hist, "structure": struct, "events": len(log), "first_events": [list(map(str, e))[:3] for e in log[:5]]})
    ctx.cov["histories"] = len(logs)

    # model logs for the same (seed, history, structure)
    if model_usable and logs:
        terms = []
        for case, log, calls, outs, struct in logs:
            good = [c for c in calls if c.get("entry") != "rejected-but-drew"]
            terms.append(f"st_trace (run {cq.z(case[2])} {coq_history(good)})")
        vals = cq.eval_terms("c14_traces", IMPORTS, terms, timeout=600)
        for (case, log, calls, outs, struct), v in zip(logs, vals):
            mt = to_list(v)
            diff = align(mt, log)
            if diff is not None:
                ctx.broken.append(f"correspondence:key log of {case[1]} seed {case[2]} history {case[3]} is not isomorphic to the model's: {diff}")
        ctx.cov["logs_compared_with_model"] = len(logs)

    # ================================================================== 2. reproducibility on real outputs (original, jitted code)
    rep_src = CIRCUITS["three-channels"]
    rep_hist = [{"op": "sample", "shots": 33, "batch_size": 8}, {"op": "sample", "shots": 16, "batch_size": None}, {"op": "sample", "shots": 5, "batch_size": 8}]
    seeds = [rng.getrandbits(30) for _ in range(2 if quick else 4)]
    # seeds that differ only in their high bits (every 32-bit seed is its own root: no folding onto a smaller range)
    seeds += [seeds[0] + 2 ** 30, seeds[0] + 2 ** 31] + ([] if quick else [seeds[1] + 3 * 2 ** 30, 2 ** 32 - 1 - seeds[1]])

    def outputs(kind, src, seed, hist):
        s = make_sampler(kind, src, seed)
        res = []
        for h in hist:
            if h["op"] == "sample":
                res.append(s.sample(h["shots"], batch_size=h["batch_size"], **(h.get("flags") or {})))
            else:
                res.append(s.probability_of(np.array(h["state"]), batch_size=h["batch_size"]))
        return res

    per_seed = {}
    for sd in seeds:
        for kind, src, hist in [("measurement", rep_src, rep_hist),
                                ("detector", CIRCUITS["noisy-detect"], [{"op": "sample", "shots": 40, "batch_size": 16, "flags": {"append_observables": True}},
                                                                        {"op": "sample", "shots": 24, "batch_size": 8, "flags": {"separate_observables": True}}]),
                                ("probs", CIRCUITS["probs"], [{"op": "probability_of", "state": [0, 1], "batch_size": 32}, {"op": "probability_of", "state": [0, 1], "batch_size": 32}])]:
            try:
                a = outputs(kind, src, sd, hist)
                b = outputs(kind, src, sd, hist)
            except Exception as e:  # noqa
                ctx.violation(f"repro-raises-{kind}", f"{kind} sampler history raised {e!r}", {"kind": kind, "circuit": src, "seed": sd, "history": hist})
                continue
            ctx.count(("repro", kind, sd), bucket="same-seed-same-history")
            if not same_outputs(a, b):
                ctx.violation(f"repro-{kind}", f"two {kind} samplers compiled from the same circuit with seed {sd} return different results for the same call sequence",
                              {"kind": kind, "circuit": src, "seed": sd, "history": hist, "check": "repro"})
            per_seed[(kind, sd)] = a
            # successive identical calls must differ (fresh randomness per call)
            if kind == "probs":
                ctx.count(("succ", kind, sd), bucket="successive-calls")
                if np.array_equal(a[0], a[1]):
                    ctx.violation("successive-calls-probs", f"two successive probability_of calls (seed {sd}) used identical error samples",
                                  {"kind": kind, "circuit": src, "seed": sd, "history": hist, "check": "successive"})
    for kind in ("measurement", "detector", "probs"):
        for i in range(len(seeds)):
            for j in range(i + 1, len(seeds)):
                a, b = per_seed.get((kind, seeds[i])), per_seed.get((kind, seeds[j]))
                if a is None or b is None:
                    continue
                ctx.count(("seeds", kind, seeds[i], seeds[j]), bucket="different-seeds")
                if same_outputs(a, b):
                    ctx.violation(f"seeds-{kind}", f"{kind} samplers with different seeds {seeds[i]} and {seeds[j]} return identical results",
                                  {"kind": kind, "seeds": [seeds[i], seeds[j]], "check": "seeds"})
    # several samplers of the same circuit alive at the same time: each one's results depend on its own seed and history only
    for kind, src in (("measurement", rep_src), ("detector", CIRCUITS["noisy-detect"])):
        sd = seeds[0]
        try:
            alone = [make_sampler(kind, src, sd).sample(24, batch_size=8)]
            s_ref = make_sampler(kind, src, sd)
            alone.append(s_ref.sample(24, batch_size=8))
            alone.append(s_ref.sample(7, batch_size=None if kind == "detector" else 7))
            a = make_sampler(kind, src, sd)
            b = make_sampler(kind, src, sd)
            other = make_sampler(kind, src, sd + 1)        # never used, or used in between
            ra1 = a.sample(24, batch_size=8)
            rb1 = b.sample(24, batch_size=8)
            other.sample(5, batch_size=5)
            ra2 = a.sample(7, batch_size=None if kind == "detector" else 7)
            rb2 = b.sample(7, batch_size=None if kind == "detector" else 7)
        except Exception as e:  # noqa
            ctx.violation(f"live-samplers-raise-{kind}", f"several live {kind} samplers of one circuit: raised {e!r}", {"kind": kind, "circuit": src, "seed": sd, "check": "live"})
            continue
        ctx.count(("live", kind), bucket="several-live-samplers")
        if not (same_outputs([ra1, ra2], [rb1, rb2]) and same_outputs([ra1, ra2], alone[1:]) and same_outputs([alone[0]], [ra1])):
            ctx.violation(f"live-samplers-{kind}", f"{kind} samplers of the same circuit and seed {sd} that are alive at the same time (and a third one with another seed) "
                          "do not each reproduce the results of a sampler used alone",
                          {"kind": kind, "circuit": src, "seed": sd, "check": "live"})
    # successive calls / successive batches of one sampler
    sd = seeds[0]
    s = make_sampler("measurement", rep_src, sd)
    x1, x2 = s.sample(64, batch_size=64), s.sample(64, batch_size=64)
    y = s.sample(128, batch_size=64)
    ctx.count(("succ", "calls"), bucket="successive-calls")
    ctx.count(("succ", "batches"), bucket="successive-batches")
    if np.array_equal(x1, x2):
        ctx.violation("successive-calls", f"two successive sample(64) calls (seed {sd}) return identical rows",
                      {"kind": "measurement", "circuit": rep_src, "seed": sd, "check": "successive-calls"})
    if np.array_equal(y[:64], y[64:]):
        ctx.violation("successive-batches", f"the two batches of sample(128, batch_size=64) (seed {sd}) are identical",
                      {"kind": "measurement", "circuit": rep_src, "seed": sd, "check": "successive-batches"})

    # the channel sampler on its own: every integer seed, 0 included, determines its stream (no fallback to process-global entropy),
    # whatever numpy's global generator holds; and distinct seeds give distinct streams
    try:
        from tsim.noise.channels import ChannelSampler
        probs = [np.array([0.5, 0.5]), np.array([0.25, 0.25, 0.25, 0.25]), np.array([0.75, 0.25])]
        T = np.array([[1, 0, 1, 0], [0, 1, 0, 1], [0, 0, 1, 1]], dtype=np.uint8)
        outs = {}
        for sd0 in (0, 1, 2 ** 30, 0):
            np.random.seed(len(outs) + 17)           # a seeded sampler must not read numpy's global generator
            cs_ = ChannelSampler(probs, T, seed=sd0)
            outs.setdefault(sd0, []).append(np.asarray(cs_.sample(64)))
        ctx.count(("channel-sampler", "seed0"), bucket="channel-sampler-seeds")
        if not np.array_equal(outs[0][0], outs[0][1]):
            ctx.violation("channel-sampler-seed-0", "two ChannelSampler objects built with seed=0 return different samples (the seed does not determine the stream)",
                          {"kind": "channel-sampler", "seed": 0, "check": "repro"})
        if np.array_equal(outs[0][0], outs[1][0]) or np.array_equal(outs[1][0], outs[2 ** 30][0]):
            ctx.violation("channel-sampler-seeds", "ChannelSampler objects built with different seeds (0, 1, 2^30) return identical samples",
                          {"kind": "channel-sampler", "check": "seeds"})
    except ImportError:
        pass

    # ================================================================== 3. secondary statistics (recorded, not deciding)
    stats = {}
    try:
        N = 4096 if quick else 16384
        st_src = "X_ERROR(0.5) 0\nH 1\nM 0 1"
        s = make_sampler("measurement", st_src, 12345)
        z = s.sample(N, batch_size=512).astype(np.float64)
        sig = 6.0 / np.sqrt(N)
        r_no = float(np.corrcoef(z[:, 0], z[:, 1])[0, 1])
        zb = z.reshape(N // 512, 512, 2)
        r_b = float(np.corrcoef(zb[:-1].reshape(-1, 2)[:, 1], zb[1:].reshape(-1, 2)[:, 1])[0, 1])
        stats = {"N": N, "six_sigma": round(float(sig), 5), "mean_noise_bit": float(z[:, 0].mean()), "mean_outcome_bit": float(z[:, 1].mean()),
                 "corr_noise_vs_outcome": r_no, "corr_batch_i_vs_batch_i+1": r_b}
        stats["all_within_6_sigma"] = bool(abs(z[:, 0].mean() - 0.5) < sig / 2 and abs(z[:, 1].mean() - 0.5) < sig / 2 and abs(r_no) < sig and abs(r_b) < 6.0 / np.sqrt(N - 512))
        if not stats["all_within_6_sigma"]:
            ctx.log("NOTE (not deciding): a 6-sigma statistical check failed:", stats)
    except Exception as e:  # noqa
        stats = {"error": repr(e)}
    ctx.cov["statistics_fixed_seed_not_deciding"] = stats

    # root-collision observation (documented in the note): key data of key(n) is (0, n)
    try:
        kd = tuple(int(x) for x in np.asarray(jax.random.key_data(jax.random.key(7))).reshape(-1))
        ctx.cov["observation_root_key_bits_of_key(7)"] = list(kd)
    except Exception:
        pass

    if ctx.broken and not ctx.violations:
        report_broken_without_input(ctx)
    return ctx.finish(
        rule="histories: per sampler kind (measurement with noise + several outputs per component, detector with random output flags "
             "incl. rejected combinations, CompiledStateProbs, noiseless, three channels) random sequences (2 per kind quick, 8 thorough) of 2-3 (thorough 2-5) calls with "
             "shots in {1,2,3,4,5,7} (thorough 1..13) and batch_size in {1,2,3,None} (thorough also 4, 6), seeds random 30-bit; every jax.random call logged with key bits; "
             "log checked directly (no key used twice, every used key produced earlier, two roots) and for isomorphism with the Coq "
             "model's log; one history under jax.disable_jit() with the unmodified jitted forwarder. outputs: same seed twice, 2 (4) "
             "seeds pairwise, successive calls, successive batches. non-trivial = more than one call or more than one batch. "
             "All random choices from VERIF_SEED.",
        explanation="Theorems C14_fresh / C14_repro / C14_distinct_seeds / C14_checker_sound over the regenerated key programs; see DESIGN.md 4.C14",
        assumptions=["PRNG idealisation (threefry as a random function): distinct key-tree nodes give independent streams",
                     "a derived seed is a fresh root (channel_seed != seed; 2^-30 collision not modelled)"],
    )


def replay(ctx: Ctx, obj) -> int:
    r = obj.get("replay") or {}
    print(json.dumps(r, default=str)[:3000])
    if "history" in r and "circuit" in r and r.get("check") is None:
        log, calls, outs, struct = run_history(r["kind"], r["circuit"], r["seed"], r["history"])
        problems = check_log(log)
        print("events:", len(log), "problems now:", problems[:5])
        return 0 if not problems else 1
    if r.get("kind") == "channel-sampler":
        from tsim.noise.channels import ChannelSampler
        probs = [np.array([0.5, 0.5]), np.array([0.25, 0.25, 0.25, 0.25]), np.array([0.75, 0.25])]
        T = np.array([[1, 0, 1, 0], [0, 1, 0, 1], [0, 0, 1, 1]], dtype=np.uint8)
        res = []
        for k, sd0 in enumerate((0, 0, 1, 2 ** 30)):
            np.random.seed(k + 17)
            res.append(np.asarray(ChannelSampler(probs, T, seed=sd0).sample(64)))
        ok = np.array_equal(res[0], res[1]) and not np.array_equal(res[1], res[2]) and not np.array_equal(res[2], res[3])
        print("seed 0 reproducible and seeds distinct now:", ok)
        return 0 if ok else 1
    if r.get("check") == "repro":
        def outputs():
            s = make_sampler(r["kind"], r["circuit"], r["seed"])
            res = []
            for h in r["history"]:
                if h["op"] == "sample":
                    res.append(s.sample(h["shots"], batch_size=h["batch_size"], **(h.get("flags") or {})))
                else:
                    res.append(s.probability_of(np.array(h["state"]), batch_size=h["batch_size"]))
            return res
        same = same_outputs(outputs(), outputs())
        print("same outputs now:", same)
        return 0 if same else 1
    if r.get("check") in ("successive-calls", "successive-batches"):
        s = make_sampler("measurement", r["circuit"], r["seed"])
        a, b = s.sample(64, batch_size=64), s.sample(64, batch_size=64)
        y = s.sample(128, batch_size=64)
        ok = (not np.array_equal(a, b)) and (not np.array_equal(y[:64], y[64:]))
        print("fresh now:", ok)
        return 0 if ok else 1
    return 1
