"""C07 -- channel simplification preserves the distribution of error parameters exactly.

Model (hand-written, Model/Channels.v): Channel = (probs : list Q, col_ids : list nat); reduce_null_bits,
normalize_channels, merge_identical_channels / xor_convolve, expand_channel, absorb_subset_channels,
simplify_channels, the bit extraction of _sample_channels and ChannelSampler.__init__ (np.unique(axis=1) ordering,
null_col_id).  Theorems (Props/C07.v): every pass and the whole sampler construction preserve
`fdist` (Base/Dist.v: exact distribution of the XOR of the selected signature rows), for ALL channel lists and
matrices, with no distinctness assumption on column ids.

Tie / search (this file), on channels with DYADIC probabilities (exact in float64 => both sides exact):
  (1) `ChannelSampler(channel_probs, error_transform)` -> `.channels`, `.signature_matrix` must equal the Coq model's
      output (vm_compute) exactly, in order, probabilities as exact Fractions;
  (2) independent reference: brute-force joint enumeration (Fractions) of the ORIGINAL channels through the matrix
      vs the exact pushforward of the implementation's simplified channels through its signature matrix;
      a difference is a violation with the input as replay;
  (3) `_sample_channels` run with `jax.random.categorical` replaced by preset indices (every joint outcome one row):
      the produced f-rows must be the XOR of the selected signature rows (deterministic bit-extraction check);
  (4) secondary, not deciding: `ChannelSampler.sample` frequencies at fixed seed, 6 sigma.
"""
from __future__ import annotations

import itertools
import json
import math
from concurrent.futures import ThreadPoolExecutor
from fractions import Fraction

import numpy as np

from harness import coqrun as cq
from harness.common import Ctx, report_broken_without_input, standard_model_phase

MANIFEST = dict(
    text="Coq theorems (Props/C07.v) state, for ALL channel lists, signature matrices, max_bits and null column ids "
         "(zero / repeated columns inside and across channels included, no distinct-column-id hypothesis), that "
         "reduce_null_bits, normalize_channels, merge_identical_channels/xor_convolve, expand_channel, "
         "absorb_subset_channels, simplify_channels and the whole ChannelSampler construction (np.unique column "
         "dedup, null_col_id, bit extraction of _sample_channels) leave the exact rational distribution of the reduced "
         "error parameters unchanged.  The hand model is tied to the running code on every run: the simplified channel "
         "lists and signature matrices must be identical (exact dyadic probabilities), and the implementation is "
         "compared with a brute-force exact pushforward of the original channels.",
    note="Trusted: Coq kernel; hand model Model/Channels.v (tied by exact correspondence on generated inputs: <=6 "
         "channels, <=10 raw bits, <=5 rows); float64 arithmetic is exact on the generated dyadic probabilities "
         "(rounding of general float products is outside the statement); jax.random.categorical samples index i with "
         "probability probs[i] and independent subkeys are independent (checked only statistically, 6 sigma).",
    technique="Coq proof (index-remapping / scatter lemma, XOR-convolution, permutation invariance) + exact "
              "model-vs-implementation correspondence + brute-force exact reference",
    design_ref="DESIGN.md 4.C07",
)

TRANSLATORS: list[str] = []
COQ_FILES = ["Base/Dist.v", "Model/Channels.v", "Proofs/ChannelsProofs.v", "Props/C07.v"]
IMPORTS = ("From Coq Require Import List NArith QArith. Import ListNotations.\n"
           "Require Import TV.Base.Dist TV.Model.Channels.\n")

MAX_BITS = 4


# ----------------------------------------------------------------------------------------------
# case generation: a case is {"tables": [[numerators]], "exps": [m_i], "T": [[0/1]] (rows = f variables)}
# channel i has probabilities tables[i][j] / 2**exps[i]
# ----------------------------------------------------------------------------------------------

def dyadic_table(rng, size, m):
    """`size` non-negative integers summing to 2**m (many zeros sometimes)"""
    tot = 1 << m
    mode = rng.random()
    if mode < 0.15:  # point mass / two-point
        t = [0] * size
        a = rng.randrange(size)
        b = rng.randrange(size)
        k = rng.randrange(tot + 1)
        t[a] += k
        t[b] += tot - k
        return t
    if mode < 0.35:  # sparse
        support = rng.sample(range(size), max(1, min(size, rng.randint(1, 3))))
    else:
        support = list(range(size))
    cuts = sorted(rng.randint(0, tot) for _ in range(len(support) - 1))
    parts = [b - a for a, b in zip([0] + cuts, cuts + [tot])]
    t = [0] * size
    for s, p in zip(support, parts):
        t[s] = p
    return t


def gen_case(rng, max_channels=6, max_raw_bits=10):
    nf = rng.choice([1, 2, 2, 3, 3, 4, 5])
    # pool of column vectors (as ints, bit r = row r); 0 is the zero column
    npool = rng.randint(1, min(6, (1 << nf) - 1))
    pool = rng.sample(range(1, 1 << nf), npool)
    nch = rng.randint(1, max_channels)
    sizes = []
    left = max_raw_bits
    for _ in range(nch):
        k = rng.choice([1, 1, 2, 2, 2, 4, 4, 3, 5])
        if k > left:
            k = left
        if k == 0:
            break
        sizes.append(k)
        left -= k
    chan_cols: list[list[int]] = []
    flavour = rng.choice(["random", "dup", "ident", "subset", "mixed", "mixed"])
    for i, k in enumerate(sizes):
        f = flavour if flavour != "mixed" else rng.choice(["random", "dup", "ident", "subset"])
        cols = [rng.choice(pool) for _ in range(k)]
        if f == "dup" and k >= 2:
            # duplicated columns inside the channel (possibly all equal, possibly one pair)
            if rng.random() < 0.5:
                cols = [cols[0]] * k
            else:
                a, b = rng.sample(range(k), 2)
                cols[b] = cols[a]
        elif f == "ident" and chan_cols:
            same = [c for c in chan_cols if len(c) == k]
            if same:
                cols = list(rng.choice(same))
                if rng.random() < 0.5:
                    rng.shuffle(cols)
        elif f == "subset" and chan_cols:
            big = rng.choice(chan_cols)
            if rng.random() < 0.5 and len(big) >= k:
                cols = rng.sample(big, k)            # subset (strict when shorter), distinct positions
            else:
                cols = [rng.choice(big) for _ in range(k)]  # subset with possible repeats
        # zero columns sprinkled
        for j in range(k):
            if rng.random() < 0.12:
                cols[j] = 0
        chan_cols.append(cols)
    if rng.random() < 0.04:
        chan_cols = [[0] * len(c) for c in chan_cols]  # everything null
    flat = [c for cols in chan_cols for c in cols]
    T = [[(c >> r) & 1 for c in flat] for r in range(nf)]
    exps = [rng.randint(1, 6) for _ in sizes]
    tables = [dyadic_table(rng, 1 << k, m) for k, m in zip(sizes, exps)]
    return {"tables": tables, "exps": exps, "T": T}


def case_features(case):
    T = np.array(case["T"], dtype=np.uint8)
    sizes = [int(math.log2(len(t))) for t in case["tables"]]
    feats = []
    off = 0
    sets = []
    for k in sizes:
        cols = [tuple(T[:, off + j]) for j in range(k)]
        nz = [c for c in cols if any(c)]
        if len(nz) < len(cols):
            feats.append("zero-col")
        if len(set(nz)) < len(nz):
            feats.append("dup-inside")
        sets.append(frozenset(nz))
        off += k
    for i in range(len(sets)):
        for j in range(len(sets)):
            if i != j and sets[i] and sets[j]:
                if sets[i] == sets[j] and i < j:
                    feats.append("identical-sets")
                if sets[i] < sets[j]:
                    feats.append("strict-subset")
    if max(sizes) > 4 or max(sizes) == 3:
        feats.append("k-bit")
    return sorted(set(feats)), sizes


# ----------------------------------------------------------------------------------------------
# implementation side
# ----------------------------------------------------------------------------------------------

def case_arrays(case):
    probs = [np.array([n / float(1 << m) for n in t], dtype=np.float64) for t, m in zip(case["tables"], case["exps"])]
    T = np.array(case["T"], dtype=np.uint8)
    return probs, T


def sig_int(row) -> int:
    """signature row (entries f0, f1, ...) as an integer, f0 most significant (= np.unique's lexicographic order)"""
    v = 0
    for b in row:
        v = (v << 1) | int(b)
    return v


def run_impl(case, seed=0):
    """returns (channels, sigs, sampler): channels = [(tuple Fractions, tuple col ids)], sigs = [int]"""
    from tsim.noise.channels import ChannelSampler
    probs, T = case_arrays(case)
    s = ChannelSampler(probs, T, seed=seed)
    chans = []
    for ch in s.channels:
        p = np.asarray(ch.probs, dtype=np.float64)
        chans.append((tuple(Fraction(float(x)) for x in p), tuple(int(c) for c in ch.unique_col_ids)))
    sigs = [sig_int(r) for r in np.asarray(s.signature_matrix).tolist()]
    return chans, sigs, s


# ----------------------------------------------------------------------------------------------
# independent reference: brute-force joint enumeration with Fractions
# ----------------------------------------------------------------------------------------------

def brute_original(case) -> dict[int, Fraction]:
    """every joint outcome of the ORIGINAL channels: raw bit vector e, f = T e over GF(2)"""
    T = case["T"]
    nf = len(T)
    ncol = len(T[0]) if nf else 0
    colv = [sig_int([T[r][j] for r in range(nf)]) for j in range(ncol)]
    tabs = [[Fraction(n, 1 << m) for n in t] for t, m in zip(case["tables"], case["exps"])]
    sizes = [int(math.log2(len(t))) for t in tabs]
    dist: dict[int, Fraction] = {}
    for outcome in itertools.product(*[range(len(t)) for t in tabs]):
        p = Fraction(1)
        for t, o in zip(tabs, outcome):
            p *= t[o]
            if p == 0:
                break
        if p == 0:
            continue
        f = 0
        off = 0
        for k, o in zip(sizes, outcome):
            for b in range(k):
                if (o >> b) & 1:
                    f ^= colv[off + b]
            off += k
        dist[f] = dist.get(f, Fraction(0)) + p
    return dist


def brute_simplified(chans, sigs) -> dict[int, Fraction]:
    dist: dict[int, Fraction] = {}
    for outcome in itertools.product(*[range(len(p)) for p, _ in chans]):
        pr = Fraction(1)
        for (p, _), o in zip(chans, outcome):
            pr *= p[o]
            if pr == 0:
                break
        if pr == 0:
            continue
        f = 0
        for (_, cols), o in zip(chans, outcome):
            for b, c in enumerate(cols):
                if (o >> b) & 1:
                    f ^= sigs[c]
        dist[f] = dist.get(f, Fraction(0)) + pr
    return dist


def dist_diff(a, b):
    keys = sorted(set(a) | set(b))
    return [(k, a.get(k, Fraction(0)), b.get(k, Fraction(0))) for k in keys if a.get(k, Fraction(0)) != b.get(k, Fraction(0))]
