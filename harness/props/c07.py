"""C07 -- channel simplification preserves the distribution of error parameters exactly.

Model (hand-written, Model/Channels.v): Channel = (probs : list Q, col_ids : list nat); reduce_null_bits,
normalize_channels, merge_identical_channels / xor_convolve, expand_channel, absorb_subset_channels,
simplify_channels, the bit extraction of _sample_channels and ChannelSampler.__init__ (np.unique(axis=1) ordering,
null_col_id).  Theorems (Props/C07.v): every pass and the whole sampler construction preserve
`fdist` (Base/Dist.v: exact distribution of the XOR of the selected signature rows), for ALL channel lists and
matrices, with no distinctness assumption on column ids.

Tie / search (this file), on channels with DYADIC probabilities (exact in float64 => both sides exact):
  (1) `ChannelSampler(channel_probs, error_transform)` -> `.channels`, `.signature_matrix` must equal the Coq model's
      output (vm_compute) exactly, in order, probabilities as exact Fractions;
  (2) independent reference: brute-force joint enumeration (Fractions) of the ORIGINAL channels through the matrix
      vs the exact pushforward of the implementation's simplified channels through its signature matrix;
      a difference is a violation with the input as replay;
  (3) `_sample_channels` run with `jax.random.categorical` replaced by preset indices (every joint outcome one row):
      the produced f-rows must be the XOR of the selected signature rows (deterministic bit-extraction check);
  (4) secondary, not deciding: `ChannelSampler.sample` frequencies at fixed seed, 6 sigma.
"""
from __future__ import annotations

import itertools
import json
import math
import time
from concurrent.futures import ThreadPoolExecutor
from fractions import Fraction

import numpy as np

from harness import coqrun as cq
from harness.common import Ctx, report_broken_without_input, standard_model_phase

MANIFEST = dict(
    text="Coq theorems (Props/C07.v) state, for ALL channel lists, signature matrices, max_bits and null column ids "
         "(zero / repeated columns inside and across channels included, no distinct-column-id hypothesis), that "
         "reduce_null_bits, normalize_channels, merge_identical_channels/xor_convolve, expand_channel, "
         "absorb_subset_channels, simplify_channels and the whole ChannelSampler construction (np.unique column "
         "dedup, null_col_id, bit extraction of _sample_channels) leave the exact rational distribution of the reduced "
         "error parameters unchanged.  The hand model is tied to the running code on every run: the simplified channel "
         "lists and signature matrices must be identical (exact dyadic probabilities), and the implementation is "
         "compared with a brute-force exact pushforward of the original channels.",
    note="Trusted: Coq kernel; hand model Model/Channels.v (tied by exact correspondence on generated inputs: <=6 "
         "channels, <=10 raw bits, <=5 rows); float64 arithmetic is exact on the generated dyadic probabilities "
         "(rounding of general float products is outside the statement); jax.random.categorical samples index i with "
         "probability probs[i] and independent subkeys are independent (checked only statistically, 6 sigma).",
    technique="Coq proof (index-remapping / scatter lemma, XOR-convolution, permutation invariance) + exact "
              "model-vs-implementation correspondence + brute-force exact reference",
    design_ref="DESIGN.md 4.C07",
)

TRANSLATORS: list[str] = []
COQ_FILES = ["Base/Dist.v", "Model/Channels.v", "Proofs/ChannelsProofs.v", "Props/C07.v"]
IMPORTS = ("From Coq Require Import List NArith QArith. Import ListNotations.\n"
           "Require Import TV.Base.Dist TV.Model.Channels.\n")

MAX_BITS = 4


# ----------------------------------------------------------------------------------------------
# case generation: a case is {"tables": [[numerators]], "exps": [m_i], "T": [[0/1]] (rows = f variables)}
# channel i has probabilities tables[i][j] / 2**exps[i]
# ----------------------------------------------------------------------------------------------

def dyadic_table(rng, size, m):
    """`size` non-negative integers summing to 2**m (many zeros sometimes)"""
    tot = 1 << m
    mode = rng.random()
    if mode < 0.15:  # point mass / two-point
        t = [0] * size
        a = rng.randrange(size)
        b = rng.randrange(size)
        k = rng.randrange(tot + 1)
        t[a] += k
        t[b] += tot - k
        return t
    if mode < 0.35:  # sparse
        support = rng.sample(range(size), max(1, min(size, rng.randint(1, 3))))
    else:
        support = list(range(size))
    cuts = sorted(rng.randint(0, tot) for _ in range(len(support) - 1))
    parts = [b - a for a, b in zip([0] + cuts, cuts + [tot])]
    t = [0] * size
    for s, p in zip(support, parts):
        t[s] = p
    return t


def gen_case(rng, max_channels=6, max_raw_bits=10):
    nf = rng.choice([1, 2, 2, 3, 3, 4, 5])
    # pool of column vectors (as ints, bit r = row r); 0 is the zero column
    npool = rng.randint(1, min(6, (1 << nf) - 1))
    pool = rng.sample(range(1, 1 << nf), npool)
    nch = rng.randint(1, max_channels)
    profile = rng.choice(["small", "small", "mixed", "mixed", "big"])
    kchoice = {"small": [1, 1, 1, 2, 2], "mixed": [1, 1, 2, 2, 2, 4, 4, 3, 5], "big": [2, 3, 4, 4, 5, 5, 6, 7]}[profile]
    sizes = []
    left = max_raw_bits
    for _ in range(nch):
        k = rng.choice(kchoice)
        if k > left:
            k = left
        if k == 0:
            break
        sizes.append(k)
        left -= k
    chan_cols: list[list[int]] = []
    flavour = rng.choice(["random", "dup", "ident", "subset", "mixed", "mixed"])
    for i, k in enumerate(sizes):
        f = flavour if flavour != "mixed" else rng.choice(["random", "dup", "ident", "subset"])
        if k <= len(pool) and rng.random() < 0.7:
            cols = rng.sample(pool, k)                  # distinct columns inside the channel
        else:
            cols = [rng.choice(pool) for _ in range(k)]
        if f == "dup" and k >= 2:
            # duplicated columns inside the channel (possibly all equal, possibly one pair)
            if rng.random() < 0.5:
                cols = [cols[0]] * k
            else:
                a, b = rng.sample(range(k), 2)
                cols[b] = cols[a]
        elif f == "ident" and chan_cols:
            same = [c for c in chan_cols if len(c) == k]
            if same:
                cols = list(rng.choice(same))
                if rng.random() < 0.5:
                    rng.shuffle(cols)
        elif f == "subset" and chan_cols:
            big = rng.choice(chan_cols)
            if rng.random() < 0.5 and len(big) >= k:
                cols = rng.sample(big, k)            # subset (strict when shorter), distinct positions
            else:
                cols = [rng.choice(big) for _ in range(k)]  # subset with possible repeats
        # zero columns sprinkled
        for j in range(k):
            if rng.random() < 0.08:
                cols[j] = 0
        chan_cols.append(cols)
    if rng.random() < 0.04:
        chan_cols = [[0] * len(c) for c in chan_cols]  # everything null
    flat = [c for cols in chan_cols for c in cols]
    T = [[(c >> r) & 1 for c in flat] for r in range(nf)]
    exps = [rng.randint(1, 6) for _ in sizes]
    tables = [dyadic_table(rng, 1 << k, m) for k, m in zip(sizes, exps)]
    return {"tables": tables, "exps": exps, "T": T}


def case_features(case):
    T = np.array(case["T"], dtype=np.uint8)
    sizes = [int(math.log2(len(t))) for t in case["tables"]]
    feats = []
    off = 0
    sets = []
    for k in sizes:
        cols = [tuple(T[:, off + j]) for j in range(k)]
        nz = [c for c in cols if any(c)]
        if len(nz) < len(cols):
            feats.append("zero-col")
        if len(set(nz)) < len(nz):
            feats.append("dup-inside")
        sets.append(frozenset(nz))
        off += k
    for i in range(len(sets)):
        for j in range(len(sets)):
            if i != j and sets[i] and sets[j]:
                if sets[i] == sets[j] and i < j:
                    feats.append("identical-sets")
                if sets[i] < sets[j]:
                    feats.append("strict-subset")
    if max(sizes) > 4 or 3 in sizes:
        feats.append("k-bit")
    return sorted(set(feats)), sizes


# ----------------------------------------------------------------------------------------------
# implementation side
# ----------------------------------------------------------------------------------------------

def case_arrays(case):
    probs = [np.array([n / float(1 << m) for n in t], dtype=np.float64) for t, m in zip(case["tables"], case["exps"])]
    T = np.array(case["T"], dtype=np.uint8)
    return probs, T


def sig_int(row) -> int:
    """signature row (entries f0, f1, ...) as an integer, f0 most significant (= np.unique's lexicographic order)"""
    v = 0
    for b in row:
        v = (v << 1) | int(b)
    return v


def run_impl(case, seed=0):
    """returns (channels, sigs, sampler): channels = [(tuple Fractions, tuple col ids)], sigs = [int]"""
    from tsim.noise.channels import ChannelSampler
    probs, T = case_arrays(case)
    s = ChannelSampler(probs, T, seed=seed)
    chans = []
    for ch in s.channels:
        p = np.asarray(ch.probs, dtype=np.float64)
        chans.append((tuple(Fraction(float(x)) for x in p), tuple(int(c) for c in ch.unique_col_ids)))
    sigs = [sig_int(r) for r in np.asarray(s.signature_matrix).tolist()]
    return chans, sigs, s


# ----------------------------------------------------------------------------------------------
# independent reference: brute-force joint enumeration with Fractions
# ----------------------------------------------------------------------------------------------

def brute_original(case) -> dict[int, Fraction]:
    """every joint outcome of the ORIGINAL channels: raw bit vector e, f = T e over GF(2)"""
    T = case["T"]
    nf = len(T)
    ncol = len(T[0]) if nf else 0
    colv = [sig_int([T[r][j] for r in range(nf)]) for j in range(ncol)]
    tabs = [[Fraction(n, 1 << m) for n in t] for t, m in zip(case["tables"], case["exps"])]
    sizes = [int(math.log2(len(t))) for t in tabs]
    dist: dict[int, Fraction] = {}
    for outcome in itertools.product(*[range(len(t)) for t in tabs]):
        p = Fraction(1)
        for t, o in zip(tabs, outcome):
            p *= t[o]
            if p == 0:
                break
        if p == 0:
            continue
        f = 0
        off = 0
        for k, o in zip(sizes, outcome):
            for b in range(k):
                if (o >> b) & 1:
                    f ^= colv[off + b]
            off += k
        dist[f] = dist.get(f, Fraction(0)) + p
    return dist


def brute_simplified(chans, sigs) -> dict[int, Fraction]:
    dist: dict[int, Fraction] = {}
    for outcome in itertools.product(*[range(len(p)) for p, _ in chans]):
        pr = Fraction(1)
        for (p, _), o in zip(chans, outcome):
            pr *= p[o]
            if pr == 0:
                break
        if pr == 0:
            continue
        f = 0
        for (_, cols), o in zip(chans, outcome):
            for b, c in enumerate(cols):
                if (o >> b) & 1:
                    f ^= sigs[c]
        dist[f] = dist.get(f, Fraction(0)) + pr
    return dist


def dist_diff(a, b):
    keys = sorted(set(a) | set(b))
    return [(k, a.get(k, Fraction(0)), b.get(k, Fraction(0))) for k in keys if a.get(k, Fraction(0)) != b.get(k, Fraction(0))]


# ----------------------------------------------------------------------------------------------
# Coq model side
# ----------------------------------------------------------------------------------------------

def q_lit(n, m):
    return f"({n}#{1 << m})"


def case_term(case) -> str:
    T = case["T"]
    nf = len(T)
    ncol = len(T[0])
    cols = [sig_int([T[r][j] for r in range(nf)]) for j in range(ncol)]
    tabs = "[" + "; ".join("[" + "; ".join(q_lit(n, m) for n in t) + "]" for t, m in zip(case["tables"], case["exps"])) + "]"
    return f"show_sampler (sampler_init {MAX_BITS}%nat {tabs}%Q [{'; '.join(str(c) for c in cols)}]%N)"


def parse_model(v):
    """Coq value -> (channels, sigs) in the format of run_impl"""
    chans_v, sigs_v = v
    chans = []
    for pv, cv in chans_v:
        chans.append((tuple(Fraction(int(n), int(d)) for n, d in pv), tuple(int(c) for c in cv)))
    return chans, [int(s) for s in sigs_v]


def run_model(cases, tag="c07", shard=60, workers=8):
    """evaluate the Coq model on every case (vm_compute), sharded over parallel coqc runs"""
    shards = [cases[i:i + shard] for i in range(0, len(cases), shard)]

    def one(k):
        vals = cq.eval_terms(f"{tag}_{k}", IMPORTS, [case_term(c) for c in shards[k]], timeout=900)
        return [parse_model(v) for v in vals]

    out = []
    with ThreadPoolExecutor(max_workers=workers) as ex:
        for res in ex.map(one, range(len(shards))):
            out += res
    return out


def outcome_term(case, outcomes) -> str:
    """Coq term: the rows _sample_channels must produce for the given categorical samples (model's own channels)"""
    base = case_term(case)[len("show_sampler ("):-1]
    os_ = "[" + "; ".join("[" + "; ".join(f"{i}%nat" for i in o) + "]" for o in outcomes) + "]"
    return f"let r := {base} in map (sample_row (snd r) (fst r)) {os_}"


# ----------------------------------------------------------------------------------------------
# the real _sample_channels with jax.random.categorical replaced by preset indices
# ----------------------------------------------------------------------------------------------

def forced_rows(sampler, outcomes):
    import jax
    import jax.numpy as jnp
    import tsim.noise.channels as C
    nch = len(sampler.channels)
    presets = [jnp.array([o[k] for o in outcomes], dtype=jnp.int32) for k in range(nch)]
    calls = []
    orig = jax.random.categorical

    def fake(key, logits, axis=-1, shape=None, **kw):
        calls.append(1)
        return presets[len(calls) - 1]

    jax.random.categorical = fake
    try:
        res = C._sample_channels(jax.random.key(0), sampler.channels, sampler.signature_matrix, len(outcomes))
    finally:
        jax.random.categorical = orig
    return [sig_int(r) for r in np.asarray(res).tolist()], len(calls)


def pick_outcomes(rng, chans, limit=48):
    sizes = [len(p) for p, _ in chans]
    total = 1
    for s in sizes:
        total *= s
    if total <= limit:
        return [tuple(o) for o in itertools.product(*[range(s) for s in sizes])]
    outs = {tuple(s - 1 for s in sizes), tuple(0 for _ in sizes)}
    while len(outs) < limit:
        outs.add(tuple(rng.randrange(s) for s in sizes))
    return sorted(outs)


def expected_row(chans, sigs, o) -> int:
    f = 0
    for (_, cols), idx in zip(chans, o):
        for b, c in enumerate(cols):
            if (idx >> b) & 1:
                f ^= sigs[c]
    return f


# ----------------------------------------------------------------------------------------------
# fixed corner cases (run first)
# ----------------------------------------------------------------------------------------------

def T_from_cols(cols, nf):
    """cols as ints with row 0 most significant"""
    return [[(c >> (nf - 1 - r)) & 1 for c in cols] for r in range(nf)]


CORPUS = [
    # PAULI_CHANNEL_1 whose two bits share a signature, after a 2-bit channel containing that signature:
    # the Coq witness of C07_expand_or_refuted (OR instead of XOR in expand_channel)
    ("pauli1-dup-absorbed", {"tables": [[4, 2, 1, 1], [4, 1, 2, 1]], "exps": [3, 3], "T": T_from_cols([1, 2, 2, 2], 2)}),
    # the same channel absorbed into a 3-bit channel with a duplicated column of its own
    ("dup-into-dup", {"tables": [[8, 1, 1, 2, 1, 1, 1, 1], [1, 1, 1, 5]], "exps": [4, 3], "T": T_from_cols([1, 2, 2, 2, 2], 2)}),
    # three equal columns inside one channel, absorbed into a 4-bit channel
    ("triple-dup", {"tables": [[3, 1, 1, 1, 1, 1, 1, 1, 1, 1, 1, 1, 1, 0, 0, 1], [1, 1, 1, 1, 1, 1, 1, 1]], "exps": [4, 3],
                    "T": T_from_cols([1, 2, 4, 7, 2, 2, 2], 3)}),
    ("all-null", {"tables": [[1, 3], [1, 1, 1, 1]], "exps": [2, 2], "T": [[0, 0, 0], [0, 0, 0]]}),
    # one channel with 9 resp. 10 bits, all signatures distinct and non-null (a long correlated chain): outcome indices above 255
    ("nine-bit-channel", {"tables": [[1] * 512, [3, 1]], "exps": [9, 2], "T": T_from_cols([1, 2, 3, 4, 5, 6, 7, 8, 9, 9], 4)}),
    ("ten-bit-channel", {"tables": [[2] + [1] * 1022 + [0]], "exps": [10], "T": T_from_cols([10, 9, 8, 7, 6, 5, 4, 3, 2, 1], 4)}),
    # more than 64 reduced parameters (rows): columns that agree on the first 64 rows and differ only beyond, a column whose only set
    # rows lie beyond row 64 (not a null column), next to a genuine null column
    ("seventy-rows", {"tables": [[5, 3], [3, 1], [2, 1, 1, 0], [1, 1]], "exps": [3, 2, 2, 1], "T": T_from_cols([1 << 40, (1 << 40) | 1, 1 << 2, 0, (1 << 40) | 4], 70)}),
    ("ninety-six-rows", {"tables": [[3, 1], [1, 1], [6, 2]], "exps": [2, 1, 3], "T": T_from_cols([(1 << 95) | (1 << 20), (1 << 95) | (1 << 20) | (1 << 31), 1 << 31], 96)}),
    # very rare errors (3e-6 and below) next to a null column: marginalising the null bits must keep them, however small
    ("rare-next-to-null", {"tables": [[(1 << 20) - 3, 3], [3, 1]], "exps": [20, 2], "T": T_from_cols([1, 0], 1)}),
    ("rare-pauli1-null-bit", {"tables": [[(1 << 20) - 4, 2, 1, 1], [5, 3]], "exps": [20, 3], "T": T_from_cols([2, 0, 1], 2)}),
    ("rare-chain-null", {"tables": [[(1 << 22) - 7, 4, 2, 0, 1, 0, 0, 0], [1, 1]], "exps": [22, 1], "T": T_from_cols([1, 2, 0, 0], 2)}),
    ("many-rare-one-parameter", {"tables": [[(1 << 18) - 1, 1]] * 2 + [[1, 1]], "exps": [18, 18, 1], "T": T_from_cols([1, 1, 0], 1)}),
    ("docstring-shape", {"tables": [[7, 1], [3, 1]], "exps": [3, 2], "T": [[1, 1]]}),   # two 1-bit channels, f0 = e0 ^ e1
    ("null-inside-4bit", {"tables": [[1] * 16, [1, 0, 0, 1]], "exps": [4, 1], "T": T_from_cols([0, 3, 0, 1, 1, 3], 2)}),
    ("subset-chain", {"tables": [[5, 3], [1, 3, 2, 2], [1, 1, 1, 1, 1, 1, 1, 1], [3, 1]], "exps": [3, 3, 3, 2],
                      "T": T_from_cols([1, 2, 1, 4, 1, 2, 4], 3)}),
    ("five-bit-single", {"tables": [[497] + list(range(2, 33))], "exps": [10], "T": T_from_cols([1, 2, 3, 0, 1], 2)}),
    ("identical-three", {"tables": [[3, 1], [1, 3], [2, 2], [1, 1, 1, 1]], "exps": [2, 2, 2, 2], "T": T_from_cols([1, 1, 1, 1, 1], 1)}),
    ("over-max-bits", {"tables": [[1] * 32, [3, 1], [1, 1, 1, 1]], "exps": [5, 2, 2],
                       "T": T_from_cols([1, 2, 4, 8, 16, 1, 2, 16], 5)}),
]


def _fix_corpus():
    for name, c in CORPUS:
        for t, m in zip(c["tables"], c["exps"]):
            assert sum(t) == 1 << m, (name, sum(t), m)
    return list(CORPUS)


def case_key(case) -> str:
    import hashlib
    return hashlib.sha1(json.dumps(case, sort_keys=True).encode()).hexdigest()[:10]


# ----------------------------------------------------------------------------------------------
# the check
# ----------------------------------------------------------------------------------------------

def check_case_reference(ctx, name, case, impl):
    """(2) brute-force exact pushforward of the ORIGINAL channels vs the implementation's simplified channels.
    Returns True when equal."""
    if isinstance(impl, Exception):
        ctx.violation(f"raises-{name}", f"ChannelSampler raises {type(impl).__name__}: {impl} on a valid channel list",
                      {"case": case, "error": repr(impl)})
        return False
    chans, sigs, _ = impl
    want = brute_original(case)
    got = brute_simplified(chans, sigs)
    d = dist_diff(want, got)
    if d:
        v, a, b = d[0]
        ctx.violation(f"pushforward-{name}",
                      f"distribution of the reduced error parameters changed by ChannelSampler's simplification: P(f={v:b}) is {b} "
                      f"after simplification, {a} for the original channels ({len(d)} outcomes differ); simplified col ids "
                      f"{[list(c) for _, c in chans]}",
                      {"case": case, "simplified_channels": [[[str(x) for x in p], list(c)] for p, c in chans],
                       "signature_rows": sigs, "first_difference": {"f": v, "original": str(a), "simplified": str(b)}})
        return False
    for (p, cols) in chans:
        if len(p) != 1 << len(cols):
            ctx.violation(f"shape-{name}", f"simplified channel has {len(p)} entries for {len(cols)} column ids", {"case": case})
            return False
    return True


def run(ctx: Ctx) -> int:
    model_ok = standard_model_phase(ctx, TRANSLATORS, COQ_FILES, "Props.C07", "Props/C07.v")
    ctx.trusted += [
        "hand model Model/Channels.v of tsim/noise/channels.py (fixed behaviour: XOR in expand_channel), tied by exact "
        "comparison of ChannelSampler(...).channels / .signature_matrix with the model's vm_compute output on every generated case",
        "numpy reshape(order='F')/transpose/sum/argsort(stable)/unique(axis=1) are modelled as index remappings; validated by the same comparison",
        "float64 arithmetic is exact on the generated dyadic probabilities (denominators <= 2^36); rounding on general floats is not covered",
        "jax.random.categorical(logits=log p) draws index i with probability p_i, independent per subkey (checked statistically only)",
    ]
    try:
        from tsim.noise.channels import ChannelSampler  # noqa: F401
    except Exception as e:
        ctx.violation("import-failure", f"tsim.noise.channels cannot be imported: {e!r}", {"error": repr(e)}, no_failing_input=True)
        return ctx.finish("n/a")

    rng = ctx.rng
    quick = ctx.quick
    n_coq = 420 if quick else 10000
    n_ref = 2000 if quick else 60000
    n_forced = 150 if quick else 2500
    n_sample = 10 if quick else 60
    model_usable = not any(("Model/Channels" in b or "Base/Dist" in b) for b in ctx.broken)

    named = _fix_corpus()
    cases = [c for _, c in named]
    names = [n for n, _ in named]
    while len(cases) < n_ref:
        c = gen_case(rng)
        cases.append(c)
        names.append("case-" + case_key(c))

    # ---- implementation on every case + (2) brute-force reference --------------------------------
    impls = []
    n_bad = 0
    for name, case in zip(names, cases):
        try:
            impl = run_impl(case)
        except Exception as e:  # noqa
            impl = e
        impls.append(impl)
        feats, sizes = case_features(case)
        ctx.count(name, nontrivial=bool(feats), bucket="channels=%d" % len(sizes))
        for f in feats:
            ctx.hist["feature:" + f] = ctx.hist.get("feature:" + f, 0) + 1
        ctx.hist["raw-bits=%d" % sum(sizes)] = ctx.hist.get("raw-bits=%d" % sum(sizes), 0) + 1
        if n_bad < 5 and not check_case_reference(ctx, name, case, impl):
            n_bad += 1
    for name, case, impl in list(zip(names, cases, impls))[:3]:
        if not isinstance(impl, Exception):
            ctx.sample({"case": case, "impl_col_ids": [list(c) for _, c in impl[0]], "signature_rows": impl[1]})
    ctx.cov["reference_cases"] = len(cases)
    ctx.log(f"reference phase done: {len(cases)} cases, t={time.time() - ctx.t0:.1f}s")

    # ---- (1) Coq model vs implementation, exact, in order -------------------------------------------
    if model_usable:
        sub = list(range(min(n_coq, len(cases))))
        try:
            mv = run_model([cases[i] for i in sub], tag="c07")
        except Exception as e:  # noqa
            ctx.broken.append(f"coq-eval: {str(e)[-600:]}")
            ctx.log("evaluating the Coq model failed:", str(e)[-600:])
            mv = []
        n_diff = 0
        for i, m in zip(sub, mv):
            impl = impls[i]
            if isinstance(impl, Exception):
                n_diff += 1
                if n_diff <= 3:
                    ctx.broken.append(f"correspondence:{names[i]}: implementation raises {impl!r}, model returns a value")
            elif (impl[0], impl[1]) != m:
                n_diff += 1
                if n_diff <= 3:
                    ctx.broken.append(f"correspondence:{names[i]}: model channels {[(list(map(str, p)), list(c)) for p, c in m[0]]} sigs {m[1]} "
                                      f"!= implementation {[(list(map(str, p)), list(c)) for p, c in impl[0]]} sigs {impl[1]} on {json.dumps(cases[i])}")
        ctx.cov["model_cases_compared"] = len(mv)
        ctx.cov["model_cases_different"] = n_diff
        ctx.log(f"model correspondence done: {len(mv)} cases, {n_diff} different, t={time.time() - ctx.t0:.1f}s")

    # ---- (3) bit extraction of the real _sample_channels on preset categorical samples -----------------
    forced_idx = [i for i in range(len(cases)) if not isinstance(impls[i], Exception)][:n_forced]
    forced_out = {}
    n_forced_bad = 0
    for i in forced_idx:
        chans, sigs, s = impls[i]
        outs = pick_outcomes(rng, chans)
        try:
            rows, ncalls = forced_rows(s, outs)
        except Exception as e:  # noqa
            ctx.violation(f"sample-raises-{names[i]}", f"_sample_channels raises {e!r}", {"case": cases[i]})
            continue
        forced_out[i] = (outs, rows)
        want = [expected_row(chans, sigs, o) for o in outs]
        ctx.count(("forced", names[i]), nontrivial=len(chans) > 0, bucket="forced-rows", n=1)
        if (rows != want or ncalls != len(chans)) and n_forced_bad < 3:
            n_forced_bad += 1
            k = next((k for k in range(len(outs)) if rows[k] != want[k]), 0)
            ctx.violation(f"bit-extraction-{names[i]}",
                          f"_sample_channels maps categorical samples {list(outs[k])} of channels with col ids {[list(c) for _, c in chans]} to "
                          f"f={rows[k]:b}, the XOR of the selected signature rows is {want[k]:b}",
                          {"case": cases[i], "outcome": list(outs[k]), "impl_row": rows[k], "expected_row": want[k]})
    if model_usable and forced_out:
        sel = [i for i in forced_idx if i in forced_out and i < n_coq][: (60 if quick else 400)]
        try:
            vals = cq.eval_terms("c07_rows", IMPORTS, [outcome_term(cases[i], forced_out[i][0]) for i in sel], timeout=900)
            for i, v in zip(sel, vals):
                if [int(x) for x in v] != forced_out[i][1]:
                    ctx.broken.append(f"correspondence:sample_row:{names[i]}: model rows {v} != _sample_channels rows {forced_out[i][1]}")
                    break
            ctx.cov["sample_row_cases_compared"] = len(sel)
        except Exception as e:  # noqa
            ctx.broken.append(f"coq-eval(sample_row): {str(e)[-400:]}")

    ctx.log(f"forced bit-extraction done: {len(forced_out)} cases, t={time.time() - ctx.t0:.1f}s")

    # ---- (4) secondary: sampling frequencies at fixed seed, 6 sigma (not deciding) ----------------------
    outliers = []
    n_s = 20000
    done = 0
    for i in range(len(cases)):
        if done >= n_sample:
            break
        if isinstance(impls[i], Exception):
            continue
        want = brute_original(cases[i])
        if len(want) < 2:
            continue
        done += 1
        _, _, s = impls[i]
        smp = np.asarray(s.sample(n_s))
        vals, cnts = np.unique(np.array([sig_int(r) for r in smp.tolist()]), return_counts=True)
        freq = {int(v): int(c) / n_s for v, c in zip(vals, cnts)}
        for v in set(want) | set(freq):
            p = float(want.get(v, 0))
            if abs(freq.get(v, 0.0) - p) > 6 * math.sqrt(max(p * (1 - p), 1e-12) / n_s) + 2.0 / n_s:
                outliers.append({"case": names[i], "f": v, "freq": freq.get(v, 0.0), "p": p})
    ctx.cov["sampling_cases"] = done
    ctx.cov["sampling_6sigma_outliers"] = outliers[:5]
    if outliers:
        ctx.log("secondary sampling test: 6-sigma outliers (not deciding):", outliers[:3])

    if ctx.broken and not ctx.violations:
        report_broken_without_input(ctx)
    return ctx.finish(
        rule="case = list of <=6 dyadic probability tables (1..7-bit, denominators 2^1..2^6, sparse/point-mass/full support) and "
             "a GF(2) matrix with <=5 rows, <=10 columns drawn from one PRNG (VERIF_SEED); flavours: random columns from a small pool, "
             "duplicated columns inside a channel, identical column tuples across channels (also permuted), subsets of an earlier "
             "channel's columns (with repeats), zero columns, all-null; plus 10 fixed corner cases. non-trivial = the case has a zero "
             "column, a duplicated column inside a channel, identical sets, a strict subset or a 3/5/6/7-bit table.",
        explanation="Props/C07.v: C07_simplify, C07_sampler and per-pass theorems over the hand model; correspondence (1) exact channel "
                    "lists vs Coq vm_compute, (2) brute-force pushforward of original vs simplified, (3) forced categorical samples through "
                    "_sample_channels, (4) sampling frequencies (secondary). See DESIGN.md 4.C07",
        assumptions=["tables have 2^k entries and sum to one; float64 exact on dyadic inputs",
                     "jax.random.categorical / key splitting idealised as independent exact categorical draws"],
    )


def replay(ctx: Ctx, obj) -> int:
    r = obj.get("replay") or {}
    case = r.get("case")
    if not case:
        print(json.dumps(obj)[:2000])
        return 1
    print(json.dumps(case))
    try:
        chans, sigs, s = run_impl(case)
    except Exception as e:  # noqa
        print("implementation raises:", repr(e))
        return 1
    d = dist_diff(brute_original(case), brute_simplified(chans, sigs))
    print("simplified col ids:", [list(c) for _, c in chans], "signature rows:", sigs)
    print("differences (f, original, simplified):", [(v, str(a), str(b)) for v, a, b in d[:8]])
    bad = bool(d)
    if "outcome" in r:
        rows, _ = forced_rows(s, [tuple(r["outcome"])])
        want = expected_row(chans, sigs, tuple(r["outcome"]))
        print("forced outcome", r["outcome"], "->", rows[0], "expected", want)
        bad = bad or rows[0] != want
    return 1 if bad else 0
