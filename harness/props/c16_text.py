"""C16, text / tag half -- every non-Clifford gate of circuit.inverse() is again a gate the simulator interprets,
with exactly the negated (for U3 also swapped) angle.  Merged into harness/props/c16.py by `run_text_part(ctx)`.

Tie A (translator): translate/inverse_facts.py re-reads Circuit.inverse (guard, which parameter feeds which slot,
  negations, f-strings, formatting function, body of `_format_angle`) -> gen/Gen_inverse.v; the proofs
  (Proofs/InverseTagProofs.v, Props/C16Text.v) are re-checked against it and against gen/Gen_regex.v (tag grammar).
Tie B (correspondence): the model's `retag` and `format_positional` are compared string-exactly with the running
  Circuit.inverse() / _format_angle on generated tags and decimals of all magnitudes.
Search: on the implementation, for angles across 1e-9 .. 1e3, many-digit decimals, signs: the tag of every inverted
  instruction must parse (parse_parametric_tag) to exactly the negated value (an instruction that degrades to a plain
  identity or a rounded angle is a violation, replay = the program text), (c + c.inverse()).to_matrix() must be
  proportional to the identity on random 1-3 qubit unitary circuits over the whole gate table, and
  c.inverse().inverse() must carry the original angles.
"""
from __future__ import annotations

import json
from fractions import Fraction

from harness import coqrun as cq
from harness.common import COQBUILD, Ctx, report_broken_without_input, standard_model_phase
from harness.props.c15 import coq_str, decode, dec_value, is_ascii, gen_tag, GOOD_LITS

TRANSLATORS = ["regex_facts", "inverse_facts"]
COQ_FILES = ["Model/Regex.v", "gen/Gen_regex.v", "Model/ProgramText.v", "Spec/TextSpec.v", "Proofs/RegexProofs.v",
             "Proofs/ProgramTextProofs.v", "gen/Gen_inverse.v", "Model/InverseTag.v", "Proofs/InverseTagProofs.v",
             "Props/C16Text.v"]
IMPORTS = ("From Coq Require Import List Ascii String NArith ZArith Bool. Import ListNotations.\n"
           "Require Import TV.Model.Regex TV.gen.Gen_regex TV.Model.ProgramText TV.gen.Gen_inverse TV.Model.InverseTag.\n"
           "Open Scope Z_scope.\n")

MANIFEST_TEXT = dict(
    text="Text half: Coq proof, over the re-tagging skeleton regenerated from Circuit.inverse and the tag regexes regenerated "
         "from parse_parametric_tag, that for EVERY decimal literal (any magnitude, any number of digits) the re-tagged "
         "instruction I[R_a(theta=..)] / I[U3(..)] of inverse() is again recognised by the simulator's tag parser with exactly "
         "the negated value (U3(t,p,l) -> U3(-t,-l,-p)), never degrading to a plain identity and never rounded; the exact "
         "positional formatter terminates within scale+1 rounds. Model vs implementation string-exact on generated tags and "
         "decimals; implementation searched over angles 1e-9..1e3, 20..40-digit decimals, signs, and random 1-3 qubit "
         "unitary circuits over the whole gate table ((c + c.inverse()).to_matrix() proportional to 1, double inverse).",
    note="Holds for the exact positional formatting of fixes_proposed/C16-inverse-positional.diff; with the original "
         "float(...)/f-string formatting the generated inv_fmt is FmtFloatRepr, the proofs do not build and the search "
         "reports R_Z(0.00001) (tag -1e-05 no longer recognised) / 0.1234567890123456789 (rounded). repr(float) is not "
         "modelled. stim's inverse() of Clifford gates and S[T]/S_DAG[T] is an oracle exercised by the matrix check.",
)


def _model_usable(ctx) -> bool:
    need = ["Model/Regex.v", "gen/Gen_regex.v", "Model/ProgramText.v", "gen/Gen_inverse.v", "Model/InverseTag.v"]
    return all((COQBUILD / (f + "o")).exists() and (COQBUILD / (f + "o")).stat().st_mtime >= (COQBUILD / f).stat().st_mtime for f in need) \
        and not any(b.startswith("translator:") for b in ctx.broken)


# --------------------------------------------------------------------------------------
# generators
# --------------------------------------------------------------------------------------
def gen_angle_literal(rng) -> str:
    r = rng.random()
    sign = rng.choice(["", "", "-", "+"])
    if r < 0.25:      # magnitudes 1e-9 .. 1e3, one to three significant digits
        e = rng.randint(-9, 3)
        d = str(rng.randint(1, 999))
        if e >= 0:
            body = d + "0" * e + rng.choice(["", ".", ".0", ".5"])
        else:
            body = rng.choice(["0", "", "00"]) + "." + "0" * (-e - 1) + d
        return sign + body
    if r < 0.45:      # many digits
        ip = "".join(rng.choice("0123456789") for _ in range(rng.randint(0, 22)))
        fp = "".join(rng.choice("0123456789") for _ in range(rng.randint(1, 30)))
        return sign + ip + "." + fp
    if r < 0.6:
        return rng.choice(GOOD_LITS)
    if r < 0.7:       # values that repr(float) prints in scientific notation or rounds
        return sign + rng.choice(["0.00001", "0.000012345", "0.0000001", "10000000000000000", "12345678901234567890",
                                  "0.1234567890123456789", "0.30000000000000004", "0.1000000000000000055511151231257827",
                                  "123456789.123456789123", "9007199254740993"])
    ip = str(rng.randint(0, 999)) if rng.random() < 0.7 else ""
    fp = "".join(rng.choice("0123456789") for _ in range(rng.randint(0 if ip else 1, 6)))
    return sign + ip + (("." + fp) if (fp or rng.random() < 0.2) else "")


def ref_neg_tag_values(gate: str, lits):
    vals = [dec_value(l) for l in lits]
    if gate == "U3":
        return {"theta": -vals[0], "phi": -vals[2], "lambda": -vals[1]}
    return {"theta": -vals[0]}


# --------------------------------------------------------------------------------------
def run_text_part(ctx: Ctx) -> None:
    """runs the text half; reports through ctx (violations / broken ties / coverage)"""
    standard_model_phase(ctx, TRANSLATORS, COQ_FILES, "Props.C16Text", "Props/C16Text.v")
    ctx.trusted += [
        "translator /verif/translate/inverse_facts.py (Circuit.inverse re-tagging skeleton -> Gallina facts; the body of "
        "_format_angle is shape-checked against Model/InverseTag.v::format_positional) -- tied by the correspondence",
        "Model/InverseTag.v (Fraction normalisation, str(int) via Coq's N.to_uint, rjust, slicing) -- tied by the "
        "string-exact correspondence with the running _format_angle / inverse()",
    ]
    import numpy as np
    import stim
    import tsim
    from tsim.core.parse import parse_parametric_tag as ppt

    rng = ctx.rng
    quick = ctx.quick
    usable = _model_usable(ctx)
    if not usable:
        ctx.log("C16 text: executable model not available; implementation-vs-reference search only")

    def inverse_tag_of(tag: str):
        """what Circuit.inverse makes of I[tag] 0: ('raise',) | (new tag,)"""
        sc = stim.Circuit()
        sc.append("I", [0], tag=tag)
        c = tsim.Circuit.from_stim_program(sc)
        try:
            inv = c.inverse()
        except Exception as e:       # noqa
            return ("raise", repr(e))
        ins = list(inv._stim_circ)
        return ("ok", ins[0].tag, ins[0].name)

    # ------------------------------------------------------------------ B: model vs implementation
    if usable:
        tags = []
        for _ in range(250 if quick else 2500):
            g = rng.choice(["R_Z", "R_X", "R_Y", "U3"])
            if g == "U3":
                ls = [gen_angle_literal(rng) for _ in range(3)]
                tags.append(f"U3(theta={ls[0]}*pi, phi={ls[1]}*pi, lambda={ls[2]}*pi)")
            else:
                tags.append(f"{g}(theta={gen_angle_literal(rng)}*pi)")
        tags += [t for t in (gen_tag(rng) for _ in range(200 if quick else 2000)) if is_ascii(t) and t]
        tags += ["U3(theta=1*pi)", "R_Z(phi=1*pi)", "FOO(theta=0.5*pi)", "R_Z()", "U3(theta=1*pi, phi=2*pi, lambda=3*pi, x=4*pi)",
                 "R_Z(theta=1*pi, theta=0.25*pi)", "R_Z(theta=1.2.3*pi)", "T", "R_Z(theta=-0*pi)", "R_Z(theta=000.000*pi)"]
        tags = list(dict.fromkeys(tags))
        vals = []
        for k in range(0, len(tags), 300):
            vals += cq.eval_terms(f"c16_retag_{k // 300}", IMPORTS, ["[" + "; ".join(f"retag_show (retag {coq_str(t)})" for t in tags[k:k + 300]) + "]"])[0]
        for t, v in zip(tags, vals):
            kind, new = int(v[0]), decode(v[1])
            got = inverse_tag_of(t)
            ctx.count(("retag", t), nontrivial=(kind == 2), bucket=f"model-retag-{['keep', 'raise', 'tag', 'fuel'][kind]}")
            if kind == 0:
                ok = got[0] == "ok" and got[1] == t
            elif kind == 1:
                ok = got[0] == "raise"
            elif kind == 2:
                ok = got[0] == "ok" and got[1] == new
            else:
                ok = False
            if not ok:
                ctx.broken.append(f"correspondence:retag model {(kind, new)} implementation {got} on tag {t!r}")
                ctx.log("MODEL/IMPLEMENTATION DISAGREE on inverse of tag", repr(t), (kind, new), got)
                break
        ctx.sample({"tag": tags[0], "inverse_tag": inverse_tag_of(tags[0])[1]})
        # the formatter alone, on normalised fractions of decimals of every magnitude
        fa = getattr(tsim.circuit, "_format_angle", None)
        if fa is not None:
            decs = []
            for _ in range(300 if quick else 3000):
                k = rng.choice([0, 0, 1, 2, 3, 5, 9, 17, 25, 40])
                m = rng.choice([0, 1, -1, 5, 10, 25, 100, 10 ** k, 2 ** rng.randint(0, 70), -5 ** rng.randint(0, 30), rng.randint(-10 ** 30, 10 ** 30),
                                rng.randint(-999, 999)])
                decs.append((m, k))
            mv = cq.eval_terms("c16_fmt", IMPORTS, ["[" + "; ".join(
                f"match format_positional (S {k}%nat) (fraction_of_dec ({cq.z(m)}, {k}%nat)) with Some s => codes s | None => [0%N] end"
                for m, k in decs) + "]"])[0]
            for (m, k), v in zip(decs, mv):
                ctx.count(("fmt", m, k), nontrivial=m != 0, bucket="model-format")
                want = fa(Fraction(m, 10 ** k))
                if decode(v) != want:
                    ctx.broken.append(f"correspondence:_format_angle({m}/10^{k}) = {want!r}, model {decode(v)!r}")
                    break

    # ------------------------------------------------------------------ search: implementation vs exact reference
    def check_program(text: str, shorthand):
        """shorthand = [(gate, [literals])] in program order (each on qubit q); every one must come back negated"""
        c = tsim.Circuit(text)
        inv = c.inverse()
        # one entry per target application (Stim fuses identical neighbouring instructions into one with repeated targets)
        inv_tags = [(ins.name, ins.tag) for ins in inv._stim_circ if ins.name == "I" and ins.tag for _t in ins.targets_copy()]
        want = [(g, ref_neg_tag_values(g, ls)) for g, ls in reversed(shorthand)]
        if len(inv_tags) != len(want):
            return f"inverse has {len(inv_tags)} tagged I instructions, expected {len(want)}: {str(inv)!r}"
        for (nm, tag), (g, vals) in zip(inv_tags, want):
            try:
                r = ppt(tag)
            except Exception as e:  # noqa
                return f"inverse tag {tag!r} makes parse_parametric_tag raise {e!r}"
            if r is None:
                return f"inverse tag {tag!r} is not recognised by parse_parametric_tag: the gate silently becomes an identity"
            if r[0] != g or r[1] != vals:
                return f"inverse tag {tag!r} parses to {r!r}, exact inverse is ({g!r}, {vals!r})"
        # double inverse: original angles (up to the normal form of the literal)
        inv2 = inv.inverse()
        back = [ppt(ins.tag) for ins in inv2._stim_circ if ins.name == "I" and ins.tag for _t in ins.targets_copy()]
        orig = [(g, dict(zip(("theta", "phi", "lambda"), [dec_value(l) for l in ls]))) for g, ls in shorthand]
        if [(b[0], b[1]) if b else None for b in back] != orig:
            return f"inverse().inverse() carries {back!r}, original {orig!r}"
        return None

    n_single = 300 if quick else 3000
    singles = [("R_Z", ["0.00001"]), ("R_X", ["0.1234567890123456789"]), ("R_Y", ["-12345678901234567890"]),
               ("U3", ["0.3", "0.24", "0.49"]), ("U3", ["0.00001", "-0.000002", "+1000"]), ("R_Z", ["10000000000000000"]),
               ("R_Z", ["0.000000001"]), ("R_X", ["1000"]), ("R_Z", ["+.5"]), ("R_Y", ["5."]), ("R_Z", ["-0"]), ("R_Z", ["0.3"])]
    for _ in range(n_single):
        g = rng.choice(["R_Z", "R_X", "R_Y", "U3"])
        singles.append((g, [gen_angle_literal(rng) for _ in range(3 if g == "U3" else 1)]))
    for g, ls in singles:
        text = f"{g}({', '.join(ls)}) 0"
        ctx.count(("inv1", text), bucket="inverse-single-gate")
        try:
            bad = check_program(text, [(g, ls)])
        except Exception as e:  # noqa
            bad = f"inverse() raised {e!r}"
        if bad:
            ctx.violation(f"inverse-tag:{text[:70]}", f"{text!r}: {bad}", {"kind": "inverse-tag", "text": text, "shorthand": [[g, ls]]})
            break

    # random unitary circuits over the whole gate table: tags + matrix
    from tsim.core.instructions import GATE_TABLE
    one_q, two_q = [], []
    for nme in GATE_TABLE:
        try:
            gd = stim.gate_data(nme)
        except Exception:
            continue
        if gd.is_unitary:
            (two_q if gd.is_two_qubit_gate else one_q).append(nme)
    ctx.cov["unitary_gate_table"] = {"one_qubit": sorted(one_q), "two_qubit": sorted(two_q), "plus": ["T", "T_DAG", "R_X", "R_Y", "R_Z", "U3"]}
    n_circ = 80 if quick else 800
    seen_gates = set()
    for _ in range(n_circ):
        nq = rng.randint(1, 3)
        lines, shorthand = [], []
        for _g in range(rng.randint(1, 10)):
            r = rng.random()
            q = rng.randrange(nq)
            if r < 0.3:
                g = rng.choice(["R_Z", "R_X", "R_Y", "U3"])
                ls = [gen_angle_literal(rng) for _ in range(3 if g == "U3" else 1)]
                # broadcast / repeated targets, and sometimes the same line twice (fused by Stim into repeated targets)
                qs = [q] + ([rng.randrange(nq) for _ in range(rng.randint(1, 2))] if rng.random() < 0.4 else [])
                for _rep in range(2 if rng.random() < 0.25 else 1):
                    if g == "U3" and rng.random() < 0.4:
                        # the same gate written as a tag by hand, parameters named in another order (the simulator reads them by name)
                        named = list(zip(("theta", "phi", "lambda"), ls))
                        rng.shuffle(named)
                        lines.append("I[U3(" + ", ".join(f"{k}={v}*pi" for k, v in named) + ")] " + " ".join(map(str, qs)))
                    else:
                        lines.append(f"{g}({', '.join(ls)}) " + " ".join(map(str, qs)))
                    shorthand += [(g, ls)] * len(qs)
                seen_gates.add(g)
            elif r < 0.42:
                g = rng.choice(["T", "T_DAG"])
                lines.append(f"{g} {q}")
                seen_gates.add(g)
            elif r < 0.75 or nq == 1:
                g = rng.choice(one_q)
                lines.append(f"{g} {q}")
                seen_gates.add(g)
            else:
                g = rng.choice(two_q)
                q2 = rng.choice([x for x in range(nq) if x != q])
                lines.append(f"{g} {q} {q2}")
                seen_gates.add(g)
        text = "\n".join(lines)
        ctx.count(("invc", text), nontrivial=bool(shorthand), bucket=f"inverse-circuit-{nq}q")
        try:
            bad = check_program(text, shorthand)
            if bad is None:
                c = tsim.Circuit(text)
                m = np.asarray((c + c.inverse()).to_matrix())
                d = m.shape[0]
                ph = np.trace(m) / d
                if abs(abs(ph) - 1) > 1e-6 or np.max(np.abs(m - ph * np.eye(d))) > 1e-6:
                    bad = f"(c + c.inverse()).to_matrix() is not proportional to the identity (|tr|/d = {abs(ph):.6f}, residual {np.max(np.abs(m - ph * np.eye(d))):.2e})"
        except Exception as e:  # noqa
            bad = f"raised {e!r}"
        if bad:
            ctx.violation(f"inverse-circuit:{text[:70]}", f"{text!r}: {bad}", {"kind": "inverse-circuit", "text": text, "shorthand": [[g, ls] for g, ls in shorthand]})
            break
    ctx.cov["gates_exercised_in_inverse_circuits"] = sorted(seen_gates)


def replay_text(ctx: Ctx, obj) -> int:
    import numpy as np
    import tsim
    from tsim.core.parse import parse_parametric_tag as ppt
    r = obj.get("replay") or {}
    print(json.dumps(r)[:2000])
    text = r.get("text")
    if text is None:
        return 1
    c = tsim.Circuit(text)
    inv = c.inverse()
    print("inverse:", repr(str(inv)))
    want = [(g, ref_neg_tag_values(g, ls)) for g, ls in reversed(r.get("shorthand") or [])]
    got = []
    for ins in inv._stim_circ:
        if ins.name == "I" and ins.tag:
            try:
                got.append(ppt(ins.tag))
            except Exception as e:  # noqa
                got.append(repr(e))
    print("parsed inverse tags:", got)
    print("exact inverse      :", want)
    ok = got == want
    m = np.asarray((c + inv).to_matrix())
    d = m.shape[0]
    ph = np.trace(m) / d
    res = float(np.max(np.abs(m - ph * np.eye(d))))
    print("|tr|/d =", abs(ph), "residual =", res)
    return 0 if ok and abs(abs(ph) - 1) < 1e-6 and res < 1e-6 else 1


# stand-alone entry (bin/check C16_TEXT quick) used while developing; the registered check is harness/props/c16.py
def run(ctx: Ctx) -> int:
    run_text_part(ctx)
    if ctx.broken and not ctx.violations:
        report_broken_without_input(ctx)
    return ctx.finish(rule="see harness/props/c16_text.py", explanation="text half of C16")


def replay(ctx: Ctx, obj) -> int:
    return replay_text(ctx, obj)
