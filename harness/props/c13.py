"""C13 -- sampler API contract: shapes, dtypes, batching and output-format flags.

Tie A: translator `sampler_flags` regenerates the flag cascade of CompiledDetectorSampler.sample and the
       arguments of _maybe_bit_pack as a Gallina decision function; Proofs/SamplerApiProofs.v re-checks that it
       equals Stim's contract (Spec/DetSamplerSpec.v) on all 16 combinations for all sample matrices.
Tie B: the hand model of _sample_batches / packbits (Model/SamplerApi.v) is evaluated inside Coq (vm_compute)
       on the same inputs as the implementation:
         * `_sample_batches` is run with `sample_program` / the channel sampler replaced (from here, no source
           change) by stubs returning labelled rows, so the exact (batch, row) provenance of every returned
           row is compared with the model on the whole grid shots 1..40 x batch sizes;
         * the detector sampler's flag handling is compared with the model applied to the raw sample matrix
           of a twin sampler with the same seed.
Spec validation: Spec/DetSamplerSpec.v is evaluated on the known detector/observable values of deterministic
       circuits and compared with what the INSTALLED Stim returns (all 16 combinations).
Search: every implementation result is also compared with an independent reference (real Stim on
       deterministic circuits whose detector/observable values are distinct and known; a numpy restatement of
       the contract, itself validated against Stim; np.packbits(little) of the unpacked result at the same
       seed), so a broken proof / tie becomes a concrete replayable call.
"""
from __future__ import annotations

import itertools
import json
import time

import numpy as np

from harness import coqrun as cq
from harness.common import Ctx, report_broken_without_input, standard_model_phase

TRANSLATORS = ["sampler_flags"]
COQ_FILES = ["Spec/DetSamplerSpec.v", "gen/Gen_sampler_flags.v", "Model/SamplerApi.v",
             "Proofs/SamplerApiProofs.v", "Props/C13.v"]
IMPORTS = ("From Coq Require Import Arith ZArith NArith List Bool. Import ListNotations.\n"
           "Require Import TV.Spec.DetSamplerSpec TV.gen.Gen_sampler_flags TV.Model.SamplerApi.\n")

MANIFEST = dict(
    text=("Machine-checked proof (Coq 8.16.1) of the sampler API glue. The flag cascade of CompiledDetectorSampler.sample and "
          "the packbits arguments of _maybe_bit_pack are REGENERATED from /repo/src/tsim/sampler.py by a fail-closed Python-ast "
          "translator on every run into a decision function over (prepend, append, separate, bit_packed); it is proved equal "
          "to Stim's contract (default [D], append [D|O], prepend [O|D], both [O|D|O], separate (D,O), separate with "
          "append/prepend rejected) for all 16 combinations and ALL sample matrices with any numbers of detector/observable "
          "columns (0 included), rejecting exactly where Stim rejects (C13_flags, C13_flags_reject). The hand model of "
          "_sample_batches is proved, for all shots >= 1 and batch sizes >= 1 (None = shots) and whatever the batches "
          "contain, to return exactly `shots` rows that are a prefix of the concatenated batches, with ceil(shots/b) batches "
          "(least covering number) and row k = row (k mod b) of batch k/b (C13_rows). Little-endian packing is proved to be "
          "Stim's: ceil(w/8) bytes < 256, bit j of byte k = column 8k+j, zero padding, unpack(pack) = id (C13_pack). "
          "Stim's contract in Coq is validated at run time against the installed Stim on all 16 combinations; the model is "
          "tied to the running code by an exact correspondence: labelled-batch provenance of every row on the grid shots "
          "1..40 x batch sizes {1,2,3,7,shots-1,shots,shots+1,64}, both samplers, dtype/shape checks, all 16 flag "
          "combinations on deterministic circuits with distinct known detector/observable values (incl. 0 detectors / "
          "0 observables / no outputs) against the model AND real Stim, bit_packed = np.packbits(little) of the unpacked "
          "result at the same seed."),
    note=("Trusted: Coq kernel + vm_compute; translator translate/sampler_flags.py (tied by the end-to-end correspondence of the "
          "generated function with the running sampler); hand model Model/SamplerApi.v of _sample_batches/packbits/column "
          "slicing (tied by correspondence only); Spec/DetSamplerSpec.v as a statement of Stim's behaviour (validated against "
          "stim at run time, not proved); math.ceil(shots/batch_size) is modelled as exact integer ceiling (float division is "
          "exact below 2^53). 'Batch size never changes the distribution' is the prefix/provenance theorem plus C14 (fresh "
          "independent key per batch). Developed against fixes_proposed/C13-detector-flags.diff and C13-empty-outputs.diff."),
    technique="Coq proof (induction over lists, finite 16-case closure by vm_compute + symbolic soundness lemma) + ast translator + vm_compute correspondence + differential against Stim",
    design_ref="DESIGN.md 4.C13",
)

FLAG_NAMES = ("prepend_observables", "append_observables", "separate_observables", "bit_packed")
ALL_FLAGS = list(itertools.product([False, True], repeat=4))


# ------------------------------------------------------------------------------------ helpers
def cb(x) -> str:
    return "true" if x else "false"


def flags_kw(fl) -> dict:
    return dict(zip(FLAG_NAMES, (bool(x) for x in fl)))


def flag_key(fl) -> str:
    return "".join(str(int(x)) for x in fl)


def det_circuit(dv, ov) -> str:
    """deterministic circuit whose detector values are dv and observable values are ov (same in Stim and tsim)"""
    nd, no = len(dv), len(ov)
    n = nd + no
    if n == 0:
        return "X_ERROR(1) 0\nM 0"
    lines = []
    ones = [i for i, v in enumerate(list(dv) + list(ov)) if v]
    if ones:
        lines.append("X_ERROR(1) " + " ".join(map(str, ones)))
    lines.append("M " + " ".join(map(str, range(n))))
    for i in range(nd):
        lines.append(f"DETECTOR rec[{-n + i}]")
    for i in range(no):
        lines.append(f"OBSERVABLE_INCLUDE({i}) rec[{-n + nd + i}]")
    return "\n".join(lines)


def canon(res):
    """numpy result (array | tuple | exception) -> the shape Coq's det_result prints as"""
    def cells(a):
        a = np.asarray(a)
        if a.ndim != 2:
            return ("BadNdim", a.ndim)
        if a.dtype == np.bool_:
            return ("CBits", [[bool(x) for x in r] for r in a])
        if a.dtype == np.uint8:
            return ("CBytes", [[int(x) for x in r] for r in a])
        return ("BadDtype", str(a.dtype))
    if isinstance(res, Exception):
        return "SReject" if isinstance(res, ValueError) else ("Error", type(res).__name__, str(res)[:120])
    if isinstance(res, tuple):
        if len(res) != 2:
            return ("BadTuple", len(res))
        return ("SPair", cells(res[0]), cells(res[1]))
    return ("SOne", cells(res))


def canon_coq(v):
    """parsed Coq value -> same shape"""
    if v == "SReject":
        return "SReject"
    def cells(c):
        return (c[0], [[(bool(x) if c[0] == "CBits" else int(x)) for x in r] for r in c[1]])
    if v[0] == "SOne":
        return ("SOne", cells(v[1]))
    if v[0] == "SPair":
        return ("SPair", cells(v[1]), cells(v[2]))
    raise ValueError(f"unexpected Coq value {v!r}")


def call(sampler, shots, fl, **kw):
    try:
        return sampler.sample(shots, **flags_kw(fl), **kw)
    except Exception as e:  # noqa
        return e


def ref_contract(raw: np.ndarray, nd: int, fl):
    """numpy restatement of Stim's contract on a raw [D|O] matrix (validated against Stim in part 1)"""
    p, a, s, bp = fl
    D, O = raw[:, :nd], raw[:, nd:]
    pk = (lambda m: np.packbits(m, axis=1, bitorder="little")) if bp else (lambda m: m)
    if s:
        if p or a:
            return ValueError("reject")
        return (pk(D), pk(O))
    parts = ([O] if p else []) + [D] + ([O] if a else [])
    return pk(np.concatenate(parts, axis=1))


def safe(fn):
    try:
        return fn()
    except Exception as e:  # noqa
        return e


def describe(x) -> str:
    if isinstance(x, Exception):
        return f"raised {x!r}"
    return f"shape {getattr(x, 'shape', None)} dtype {getattr(x, 'dtype', None)}"


def mat(rows) -> str:
    return "[" + "; ".join(cq.blist(r) for r in rows) + "]"


def shots_term(dv, ov, n) -> str:
    return f"(repeat ({cq.blist(dv)}, {cq.blist(ov)}) {n})"


def batch_sizes(shots: int) -> list[int]:
    return sorted({1, 2, 3, 7, shots - 1, shots, shots + 1, 64} - {0})


# ------------------------------------------------------------------------------------ the check
def run(ctx: Ctx) -> int:
    model_ok = standard_model_phase(ctx, TRANSLATORS, COQ_FILES, "Props.C13", "Props/C13.v")
    ctx.trusted += [
        "translator /verif/translate/sampler_flags.py (Python ast -> Gallina decision function for the flag cascade)",
        "hand model Model/SamplerApi.v of _sample_batches / packbits / column slicing, tied by the correspondence run",
        "Spec/DetSamplerSpec.v states Stim's contract; validated against the installed stim on all 16 flag combinations at run time",
        "math.ceil(shots / batch_size) modelled as exact integer ceiling",
    ]
    try:
        import stim
        import jax
        import jax.numpy as jnp
        import tsim
        import tsim.sampler as TS
    except Exception as e:  # implementation does not import
        ctx.violation("import-failure", f"tsim cannot be imported: {e!r}", {"error": repr(e)}, no_failing_input=True)
        return ctx.finish("n/a")
    ctx.cov["stim_version"] = getattr(stim, "__version__", "?")

    quick = ctx.quick
    rng = ctx.rng
    model_usable = not any(b.startswith("translator:") or "Model/SamplerApi" in b or "Gen_sampler" in b or "Spec/" in b
                           for b in ctx.broken)
    n_viol = {"flags": 0, "rows": 0, "pack": 0, "dtype": 0}

    def limited(kind):
        n_viol[kind] += 1
        return n_viol[kind] <= 3

    # ================================================================== 1. flags on deterministic circuits
    shapes = [(3, 2), (0, 2), (3, 0), (0, 0), (1, 1), (8, 8), (9, 1)]
    if not quick:
        shapes += [(1, 9), (5, 12), (16, 1), (7, 9), (2, 15)]
    det_cases = []
    for nd, no in shapes:
        for _try in range(50):
            dv = [rng.random() < 0.5 for _ in range(nd)]
            ov = [rng.random() < 0.5 for _ in range(no)]
            # placement must be observable: [D|O] != [O|D] and D, O not constant-equal
            mixed = lambda v: len(v) < 2 or (any(v) and not all(v))
            if mixed(dv) and mixed(ov) and (nd == 0 or no == 0 or (dv + ov != ov + dv and dv[-1] != ov[0] and dv[0] != ov[-1])):
                break
        det_cases.append((nd, no, dv, ov))
    SH = 2
    terms_spec, terms_model, idx = [], [], []
    for ci, (nd, no, dv, ov) in enumerate(det_cases):
        for fl in ALL_FLAGS:
            f = " ".join(cb(x) for x in fl)
            terms_spec.append(f"stim_detector_sample {f} {shots_term(dv, ov, SH)}")
            terms_model.append(f"detector_sample_model {f} {cq.z(nd)} {mat([dv + ov] * SH)}")
            idx.append((ci, fl))
    spec_vals = model_vals = None
    if model_usable:
        vals = cq.eval_terms("c13_flags", IMPORTS, ["[" + "; ".join(terms_spec) + "]", "[" + "; ".join(terms_model) + "]"])
        spec_vals = [canon_coq(v) for v in vals[0]]
        model_vals = [canon_coq(v) for v in vals[1]]
    elif not any("Spec/" in b for b in ctx.broken):
        # the spec is independent of /repo: evaluate it alone to keep validating it against Stim
        try:
            vals = cq.eval_terms("c13_spec", "From Coq Require Import Arith NArith List Bool. Import ListNotations.\nRequire Import TV.Spec.DetSamplerSpec.\n",
                                 ["[" + "; ".join(terms_spec) + "]"])
            spec_vals = [canon_coq(v) for v in vals[0]]
        except Exception as e:  # noqa
            ctx.log("spec evaluation failed:", str(e)[:300])

    samplers = {}
    for ci, (nd, no, dv, ov) in enumerate(det_cases):
        src = det_circuit(dv, ov)
        try:
            samplers[ci] = (tsim.Circuit(src).compile_detector_sampler(seed=rng.getrandbits(30)),
                            stim.Circuit(src).compile_detector_sampler(seed=rng.getrandbits(30)), src)
        except Exception as e:  # noqa
            ctx.violation(f"compile-{nd}-{no}", f"detector sampler for a circuit with {nd} detectors / {no} observables cannot be compiled: {e!r}",
                          {"circuit": src, "error": repr(e)})
    spec_vs_stim_bad = 0
    for k, (ci, fl) in enumerate(idx):
        if ci not in samplers:
            continue
        nd, no, dv, ov = det_cases[ci]
        ts, ss, src = samplers[ci]
        r_stim = canon(call(ss, SH, fl))
        r_tsim = canon(call(ts, SH, fl))
        nontriv = nd > 0 and no > 0
        ctx.count(("flags", nd, no, flag_key(fl)), nontrivial=nontriv, bucket=f"flags-nd{nd}-no{no}")
        if spec_vals is not None and spec_vals[k] != r_stim:
            spec_vs_stim_bad += 1
            ctx.broken.append(f"spec-vs-stim: Spec/DetSamplerSpec.v gives {str(spec_vals[k])[:120]} but stim {ctx.cov['stim_version']} returns "
                              f"{str(r_stim)[:120]} for flags {flags_kw(fl)} on {nd} detectors / {no} observables")
        if r_tsim != r_stim and limited("flags"):
            ctx.violation(f"flags-{flag_key(fl)}-nd{nd}-no{no}" if (nd, no) != (3, 2) else f"flags-{flag_key(fl)}",
                          f"CompiledDetectorSampler.sample(2, {flags_kw(fl)}) on a circuit with detectors {list(map(int, dv))} / observables "
                          f"{list(map(int, ov))} returns {str(r_tsim)[:160]}; Stim returns {str(r_stim)[:160]}",
                          {"kind": "flags", "circuit": src, "shots": SH, "flags": flags_kw(fl), "tsim": r_tsim, "stim": r_stim})
        if model_vals is not None and model_vals[k] != r_tsim:
            ctx.broken.append(f"correspondence:flags model {str(model_vals[k])[:120]} impl {str(r_tsim)[:120]} for {flags_kw(fl)} nd={nd} no={no}")
        if k % 37 == 0:
            ctx.sample({"kind": "flags", "circuit": src, "flags": flags_kw(fl), "tsim": r_tsim, "stim": r_stim})
    ctx.cov["spec_vs_stim_cases"] = len(idx) if spec_vals is not None else 0
    ctx.cov["spec_vs_stim_mismatches"] = spec_vs_stim_bad

    ctx.log(f"flags section done at {time.time() - ctx.t0:.1f}s")
    # ================================================================== 2. _sample_batches with labelled batches
    # stubs: sample_program returns rows that spell (call index, row index); the channel sampler records what it was asked
    W = 7  # bits per label field
    probe_src = "M " + " ".join(str(i) for i in range(2 * W))
    probe = tsim.Circuit(probe_src).compile_sampler(seed=1)
    calls = {"n": 0, "asked": [], "got": []}

    def stub_program(program, f_params, key):
        i = calls["n"]
        calls["n"] += 1
        n = int(f_params.shape[0])
        calls["got"].append(n)
        rows = np.zeros((n, 2 * W), dtype=np.bool_)
        for j in range(n):
            for t in range(W):
                rows[j, t] = (i >> t) & 1
                rows[j, W + t] = (j >> t) & 1
        return jnp.asarray(rows)

    class StubChannel:
        channels = []

        def sample(self, num_samples=1):
            calls["asked"].append(num_samples)
            return jnp.zeros((num_samples, 0), dtype=jnp.uint8)

    def decode(arr):
        out = []
        for r in np.asarray(arr):
            out.append((sum(int(r[t]) << t for t in range(W)), sum(int(r[W + t]) << t for t in range(W))))
        return out

    grid = [(s, b) for s in range(1, 41) for b in batch_sizes(s)]
    extra = [(s, None) for s in (1, 2, 5, 40)]
    real_program, real_channel = TS.sample_program, probe._channel_sampler
    label_results = {}
    try:
        TS.sample_program = stub_program
        probe._channel_sampler = StubChannel()
        for s, b in grid + extra:
            calls.update(n=0, asked=[], got=[])
            try:
                out = probe.sample(s, batch_size=b) if b is not None else probe._sample_batches(s, None)
                label_results[(s, b)] = (decode(out), tuple(out.shape), str(out.dtype), list(calls["asked"]), list(calls["got"]))
            except Exception as e:  # noqa
                label_results[(s, b)] = e
    finally:
        TS.sample_program = real_program
        probe._channel_sampler = real_channel

    model_rows = None
    if model_usable:
        # enumerate the grid INSIDE Coq
        bs_fun = ("(fun s => map (fun b => (s, b, sample_batches labelled_draw s (Some b), n_batches s (Some b))) "
                  "(filter (fun b => negb (b =? 0)) [1; 2; 3; 7; s - 1; s; s + 1; 64]))")
        vals = cq.eval_terms("c13_rows", IMPORTS, [f"flat_map {bs_fun} (seq 1 40)",
                                                   "map (fun s => (s, sample_batches labelled_draw s None, n_batches s None)) [1; 2; 5; 40]"])
        model_rows = {}
        for s, b, rows, nb in vals[0]:
            model_rows[(s, b)] = ([tuple(r) for r in rows], nb)
        for s, rows, nb in vals[1]:
            model_rows[(s, None)] = ([tuple(r) for r in rows], nb)
    for (s, b), got in label_results.items():
        eff = s if b is None else b
        nb_ref = -(-s // eff)
        ref = [(k // eff, k % eff) for k in range(s)]     # independent reference: row k = row k mod b of batch k // b
        ctx.count(("rows", s, b), nontrivial=(eff < s and s % eff != 0), bucket="rows-labelled-" + ("b<s" if eff < s else "b=s" if eff == s else "b>s"))
        if isinstance(got, Exception):
            if limited("rows"):
                ctx.violation(f"rows-shots{s}-batch{b}", f"_sample_batches({s}, {b}) raised {got!r}",
                              {"kind": "rows", "shots": s, "batch_size": b, "error": repr(got)})
            continue
        rows, shape, dtype, asked, gotn = got
        problems = []
        if shape != (s, 2 * W):
            problems.append(f"shape {shape}, expected {(s, 2 * W)}")
        if dtype != "bool":
            problems.append(f"dtype {dtype}")
        if rows != ref:
            problems.append(f"rows come from (batch,row) {rows[:6]}..., expected {ref[:6]}...")
        if len(gotn) != nb_ref or any(x != eff for x in asked) or any(x != eff for x in gotn):
            problems.append(f"{len(gotn)} batches with channel-sample sizes {asked[:5]} (expected {nb_ref} batches of {eff})")
        if problems and limited("rows"):
            ctx.violation(f"rows-shots{s}-batch{b}", f"sample({s}, batch_size={b}): " + "; ".join(problems),
                          {"kind": "rows", "shots": s, "batch_size": b, "impl_rows": rows, "expected_rows": ref,
                           "impl_shape": shape, "batches_drawn": gotn})
        if model_rows is not None:
            m = model_rows.get((s, b))
            if m is None or m[0] != rows or m[1] != len(gotn):
                ctx.broken.append(f"correspondence:rows model {str(m)[:100]} impl {str(rows)[:80]} batches {len(gotn)} on shots={s} batch={b}")
    ctx.sample({"kind": "rows", "shots": 7, "batch_size": 3, "impl_rows(batch,row)": label_results[(7, 3)][0] if not isinstance(label_results[(7, 3)], Exception) else "raised"})

    ctx.log(f"labelled-rows section done at {time.time() - ctx.t0:.1f}s")
    # ================================================================== 3. real samplers on the grid
    # small circuits on purpose: every new batch shape costs ~1 s of XLA compilation per connected component
    noisy_det = ("H 0\nT 0\nH 0\nCX 0 1\nX_ERROR(0.3) 1\nM 0 1\nDETECTOR rec[-2]\nDETECTOR rec[-1]\n"
                 "OBSERVABLE_INCLUDE(0) rec[-1] rec[-2]")
    noisy_meas = "H 0\nT 0\nH 0\nCX 0 1\nX_ERROR(0.3) 1\nM 0 1 0"
    ND, NO, NM = 2, 1, 3
    seed = rng.getrandbits(30)
    dA = tsim.Circuit(noisy_det).compile_detector_sampler(seed=seed)      # flags applied
    dB = tsim.Circuit(noisy_det).compile_detector_sampler(seed=seed)      # twin: raw matrix
    mA = tsim.Circuit(noisy_meas).compile_sampler(seed=seed)
    if quick:
        special = (1, 2, 3, 8, 40)
        sweep = [(s, b) for s in range(1, 41) for b in batch_sizes(s)
                 if b in (7, 64) or s in special or (b in (1, 2, 3) and s <= 10)]
    else:
        sweep = list(grid)
    model_cases = []
    seen_rows = set()
    for k, (s, b) in enumerate(sweep):
        fl = ALL_FLAGS[(k * 7 + 3) % 16] if k >= 16 else ALL_FLAGS[k]
        # keep the twin in lockstep (a rejected call draws nothing): copy the PRNG state of A into B
        try:
            dB._key, dB._channel_sampler._key = dA._key, dA._channel_sampler._key
        except AttributeError as e:
            ctx.broken.append(f"correspondence:sampler state attributes changed ({e})")
            break
        raw = safe(lambda: dB._sample_batches(s, b))
        res = call(dA, s, fl, batch_size=b)
        ok_raw = isinstance(raw, np.ndarray) and raw.shape == (s, ND + NO) and raw.dtype == np.bool_
        ctx.count(("sweep-det", s, b, flag_key(fl)), nontrivial=True, bucket="sweep-detector")
        if not ok_raw:
            if limited("rows"):
                ctx.violation(f"rows-shots{s}-batch{b}", f"detector sampler _sample_batches({s}, {b}) returned {describe(raw)}, expected {(s, ND + NO)} bool",
                              {"kind": "sweep", "sampler": "detector", "circuit": noisy_det, "seed": seed, "shots": s, "batch_size": b})
            continue
        seen_rows.update(tuple(r) for r in raw.tolist())
        want = canon(ref_contract(raw, ND, fl))
        got = canon(res)
        if got != want:
            if limited("flags"):
                ctx.violation(f"flags-{flag_key(fl)}",
                              f"sample({s}, batch_size={b}, {flags_kw(fl)}) returns {str(got)[:140]} but the contract applied to the raw "
                              f"sample matrix of the same seed gives {str(want)[:140]}",
                              {"kind": "sweep", "sampler": "detector", "circuit": noisy_det, "seed": seed, "shots": s, "batch_size": b,
                               "flags": flags_kw(fl), "impl": got, "expected": want, "history_index": k})
        if len(model_cases) < (60 if quick else 300) and (s <= 12 or k % 9 == 0):
            model_cases.append((fl, raw.tolist(), got))
        # measurement sampler
        r1 = safe(lambda: mA.sample(s, batch_size=b))
        ctx.count(("sweep-meas", s, b), nontrivial=True, bucket="sweep-measurement")
        if not (isinstance(r1, np.ndarray) and r1.shape == (s, NM) and r1.dtype == np.bool_):
            if limited("rows"):
                ctx.violation(f"rows-shots{s}-batch{b}", f"measurement sampler sample({s}, batch_size={b}) returned {describe(r1)}, expected {(s, NM)} bool",
                              {"kind": "sweep", "sampler": "measurement", "circuit": noisy_meas, "seed": seed, "shots": s, "batch_size": b})
    ctx.cov["distinct_raw_rows_seen"] = len(seen_rows)
    if model_usable and model_cases:
        terms = [f"detector_sample_model {' '.join(cb(x) for x in fl)} {cq.z(ND)} {mat(raw)}" for fl, raw, _ in model_cases]
        mv = cq.eval_terms("c13_sweep", IMPORTS, ["[" + "; ".join(terms) + "]"])[0]
        for (fl, raw, got), v in zip(model_cases, mv):
            if canon_coq(v) != got:
                ctx.broken.append(f"correspondence:flags(sweep) model {str(canon_coq(v))[:100]} impl {str(got)[:100]} for {flags_kw(fl)} on a {len(raw)}-row matrix")
                break
        ctx.cov["sweep_cases_compared_with_model"] = len(model_cases)

    # ---- batch size does not change WHICH rows are produced for a given key sequence: with the same seed and batch
    #      size, sample(s1) is a prefix of sample(s2) for s1 <= s2 (prefix theorem observed on random data)
    for b in (1, 3, 7):
        p1 = tsim.Circuit(noisy_meas).compile_sampler(seed=seed + b)
        p2 = tsim.Circuit(noisy_meas).compile_sampler(seed=seed + b)
        a1, a2 = safe(lambda: p1.sample(11, batch_size=b)), safe(lambda: p2.sample(40, batch_size=b))
        ctx.count(("prefix", b), bucket="prefix")
        if isinstance(a1, Exception) or isinstance(a2, Exception) or not np.array_equal(a1, a2[:11]):
            ctx.violation(f"prefix-batch{b}", f"same seed, batch_size={b}: sample(11) is not the first 11 rows of sample(40)",
                          {"kind": "prefix", "circuit": noisy_meas, "seed": seed + b, "batch_size": b})

    ctx.log(f"sweep section done at {time.time() - ctx.t0:.1f}s")
    # ================================================================== 4. bit_packed == np.packbits(little) of the unpacked result, same seed
    pack_src = det_circuit([rng.random() < 0.5 for _ in range(11)], [rng.random() < 0.5 for _ in range(9)]).replace("X_ERROR(1)", "X_ERROR(0.5)")
    pseed = rng.getrandbits(30)
    for fl3 in [(False, False, False), (False, True, False), (True, False, False), (True, True, False), (False, False, True)]:
        pa = tsim.Circuit(pack_src).compile_detector_sampler(seed=pseed)
        pb = tsim.Circuit(pack_src).compile_detector_sampler(seed=pseed)
        for s, b in [(5, None), (9, 4)]:
            u = call(pa, s, fl3 + (False,), batch_size=b)
            pk = call(pb, s, fl3 + (True,), batch_size=b)
            us = u if isinstance(u, tuple) else (u,)
            ps = pk if isinstance(pk, tuple) else (pk,)
            ctx.count(("pack", flag_key(fl3), s, b), bucket="bit-packed")
            bad = isinstance(u, Exception) or isinstance(pk, Exception) or len(us) != len(ps)
            if not bad:
                for x, y in zip(us, ps):
                    want = np.packbits(x, axis=1, bitorder="little")
                    if y.dtype != np.uint8 or y.shape != want.shape or not np.array_equal(y, want):
                        bad = True
            if bad and limited("pack"):
                ctx.violation(f"bit-packed-{flag_key(fl3 + (True,))}",
                              f"sample({s}, batch_size={b}, bit_packed=True, {flags_kw(fl3 + (True,))}) is not np.packbits(bitorder='little') of the "
                              f"unpacked result at the same seed: packed {str(canon(pk))[:120]} unpacked {str(canon(u))[:120]}",
                              {"kind": "pack", "circuit": pack_src, "seed": pseed, "shots": s, "batch_size": b, "flags": flags_kw(fl3 + (True,)),
                               "packed": canon(pk), "unpacked": canon(u)})
    # pack model vs numpy on explicit rows (model tie for packbits/unpack)
    if model_usable:
        prow = [[rng.random() < 0.5 for _ in range(w)] for w in list(range(0, 20)) + [31, 32, 33, 64, 65]]
        vals = cq.eval_terms("c13_pack", IMPORTS, ["[" + "; ".join(f"(packbits true {cq.blist(r)}, packbits false {cq.blist(r)}, pack_le {cq.blist(r)})" for r in prow) + "]"])[0]
        for r, v in zip(prow, vals):
            a = np.array([r], dtype=np.bool_).reshape(1, len(r))
            le = np.packbits(a, axis=1, bitorder="little")[0].tolist()
            be = np.packbits(a, axis=1, bitorder="big")[0].tolist()
            ctx.count(("packrow", len(r)), nontrivial=len(r) % 8 != 0, bucket="packbits-model")
            if [int(x) for x in v[0]] != le or [int(x) for x in v[1]] != be or [int(x) for x in v[2]] != le:
                ctx.broken.append(f"correspondence:packbits model {v} numpy little {le} big {be} on a row of width {len(r)}")
                break

    # ================================================================== 5. measurement sampler columns / no outputs
    for src, ncol in [("X_ERROR(1) 0 2\nM 0 1 2", 3), ("H 0", 0), ("X_ERROR(1) 1\nM 0 1\nM 1 0\nM 1", 5)]:
        ctx.count(("meas-cols", ncol), nontrivial=ncol > 0, bucket="measurement-columns")
        try:
            r = tsim.Circuit(src).compile_sampler(seed=3).sample(4, batch_size=3)
            rs = stim.Circuit(src).compile_sampler().sample(4)
            if r.shape != rs.shape or r.dtype != np.bool_ or (ncol and not np.array_equal(r, rs)):
                raise AssertionError(f"returned shape {r.shape} dtype {r.dtype} values {r[:1].astype(int).tolist()}, Stim {rs.shape} {rs[:1].astype(int).tolist()}")
        except Exception as e:  # noqa
            ctx.violation(f"measurement-columns-{ncol}", f"measurement sampler with {ncol} measurements, sample(4, batch_size=3): {e!r}",
                          {"kind": "meas", "circuit": src, "shots": 4, "batch_size": 3, "error": repr(e)})

    # ------------------------------------------------------------------ verdict on broken ties
    if ctx.broken and not ctx.violations:
        report_broken_without_input(ctx)
    return ctx.finish(
        rule="flags: deterministic circuits (X_ERROR(1) before M) with random, placement-revealing detector/observable values for "
             "(#det,#obs) in {(3,2),(0,2),(3,0),(0,0),(1,1),(8,8),(9,1)} (+5 shapes thorough) x all 16 flag combinations, tsim vs Stim vs "
             "Coq model vs Coq spec; rows: the full grid shots 1..40 x batch {1,2,3,7,shots-1,shots,shots+1,64} plus batch_size=None "
             "with labelled batches (provenance of every row) vs Coq model vs k//b,k%b; real noisy samplers (detector with rotating "
             "flag combinations, measurement) on the grid (quick: batch sizes {7,64} for every shots, {1,2,3} for shots <= 10, all eight for "
             "shots in {1,2,3,8,40}; thorough: full grid) vs the contract applied to the twin sampler's raw matrix and vs the Coq "
             "model; bit_packed vs np.packbits(little) at the same seed; packbits model vs numpy for widths 0..19,31..33,64,65. "
             "non-trivial = both detectors and observables present (flags), batch < shots and not a divisor (rows), width not a "
             "multiple of 8 (pack). All random choices from VERIF_SEED.",
        explanation="Theorems C13_rows / C13_flags / C13_flags_reject / C13_pack over the regenerated decision function and the hand model; see DESIGN.md 4.C13",
        assumptions=["Spec/DetSamplerSpec.v is Stim's behaviour (validated on all 16 combinations against the installed stim, not proved)",
                     "sample_program returns one row per row of f_params (hypothesis draw_rows of C13_rows; observed on every call of the sweep)"],
    )


def replay(ctx: Ctx, obj) -> int:
    import stim
    import tsim
    r = obj.get("replay") or {}
    print(json.dumps(r, default=str)[:3000])
    kind = r.get("kind")
    if kind == "flags":
        fl = tuple(r["flags"][n] for n in FLAG_NAMES)
        t = canon(call(tsim.Circuit(r["circuit"]).compile_detector_sampler(seed=0), r["shots"], fl))
        s = canon(call(stim.Circuit(r["circuit"]).compile_detector_sampler(), r["shots"], fl))
        print("tsim now:", t)
        print("stim    :", s)
        return 0 if json.dumps(t) == json.dumps(s) else 1
    if kind == "rows":
        s, b = r["shots"], r["batch_size"]
        smp = tsim.Circuit("X_ERROR(1) 0\nM 0 1").compile_sampler(seed=0)
        out = safe(lambda: smp.sample(s, batch_size=b) if b else smp._sample_batches(s, None))
        print("now:", describe(out), "expected", (s, 2))
        return 0 if not isinstance(out, Exception) and out.shape == (s, 2) and out.dtype == np.bool_ else 1
    if kind in ("sweep", "pack"):
        fl = tuple(r["flags"][n] for n in FLAG_NAMES) if "flags" in r else None
        c = tsim.Circuit(r["circuit"])
        if r.get("sampler") == "measurement":
            out = c.compile_sampler(seed=r["seed"]).sample(r["shots"], batch_size=r["batch_size"])
            print("shape now:", out.shape, out.dtype)
            return 0 if out.shape[0] == r["shots"] and out.dtype == np.bool_ else 1
        a, b2 = c.compile_detector_sampler(seed=r["seed"]), c.compile_detector_sampler(seed=r["seed"])
        raw = b2._sample_batches(r["shots"], r["batch_size"])
        nd = c.num_detectors if hasattr(c, "num_detectors") else a._num_detectors
        got = canon(call(a, r["shots"], fl, batch_size=r["batch_size"])) if fl else None
        want = canon(ref_contract(raw, nd, fl)) if fl else None
        print("impl now:", str(got)[:300])
        print("expected:", str(want)[:300])
        return 0 if got == want else 1
    return 1
