"""C06 -- sampling probabilities obey the chain rule and are normalised; joint = product of conditionals; JIT = non-JIT.

Tie A (translator `sampler_dispatch`): the sample_component dispatch, the _sample_component loop skeleton (Bernoulli
parameter, prev update, parameter stacking, graph indexing), sample_program's reordering, probability_of and
_plug_outputs' effect string / phase range / power compensation are regenerated into gen/Gen_sampler_dispatch.v; the
theorems C06_* (Proofs/SamplerProofs.v) are re-checked against them.
Tie B / oracle validation (this file), on the IMPLEMENTATION for generated circuits:
  * every compiled component: evaluate(compiled_scalar_graphs[i], (f, prefix)) for ALL f-assignments of the component
    and ALL prefixes: sibling sums, 0 <= w <= w_0, w_0 > 0;
  * forced sampling through the real _sample_component (jax.random.bernoulli patched from here): returned bits = forced
    bits, every used Bernoulli parameter in [0,1], product of the conditionals = w_n(m)/w_0; the recorded conditionals
    are compared with the Coq model (vm_compute) run on the tensor of the same component;
  * joint mode (CompiledStateProbs.probability_of) vs the sequential weights; _sample_component vs
    _sample_component_jit vs sample_component on identical keys; sample_program's column order vs the Coq model.
A violated identity is reported with (circuit, component, f, prefix) as replay.
"""
from __future__ import annotations

import itertools
import json
import traceback
from fractions import Fraction

import numpy as np

from harness import coqrun as cq
from harness.c06_c11_common import all_bits, circuit_key, count_nonclifford, gen_circuit
from harness.common import Ctx, report_broken_without_input, standard_model_phase

TRANSLATORS = ["sampler_dispatch"]
COQ_FILES = ["Base/ListPerm.v", "gen/Gen_sampler_dispatch.v", "Model/Sampler.v", "Proofs/SamplerProofs.v", "Props/C06.v"]
IMPORTS = ("From Coq Require Import QArith ZArith List Bool. Import ListNotations.\n"
           "Require Import TV.Base.ListPerm TV.gen.Gen_sampler_dispatch TV.Model.Sampler.\n")

MANIFEST = dict(
    text=("Machine-checked proof (Coq 8.16.1) over a model of tsim's autoregressive sampler whose code-specific parts are "
          "REGENERATED from /repo/src on every run by a fail-closed Python-ast translator (sample_component dispatch and "
          "_sample_component_jit body; the _sample_component loop: graph indexing, parameter stacking [f, m[:i], 1], the "
          "Bernoulli parameter p1/prev, the update where(bits, p1, prev-p1); sample_program's combined[:, argsort(order)]; "
          "probability_of; _plug_outputs' effect string, phase range and power compensation; outputs_to_plug; power2 balancing). "
          "For an ARBITRARY output tensor T and ANY number of outputs n (induction): plugging k outputs yields exactly the "
          "marginal sum of T with no stray sqrt2 power (C06_plug), the chain rule w_i(p)=w_{i+1}(p0)+w_{i+1}(p1), bounds "
          "0<=w<=w_0 and w_0>0 for T>=0, T!=0; the sampler keeps prev = w_i(sampled prefix), every reachable Bernoulli "
          "parameter lies in [0,1], P(return m) = w_n(m)/w_0 = product of the conditionals drawn, total mass 1 (C06_sampler); "
          "probability_of = product over components of w_n/w_0 = product of the sequential sampler's masses (C06_joint); both "
          "dispatch branches and the jitted function are the same model function (C06_jit); the column reordering is correct "
          "for every partition of the outputs (C06_reorder). That the compiled scalar programs compute the plugged tensors is "
          "the pyzx oracle: the harness checks on the running implementation, for generated Clifford+T/rotation+noise circuits "
          "up to 40 qubits, ALL f-assignments x ALL prefixes of every component (<=12 outputs quick, <=16 thorough): sibling "
          "sums, bounds, positive normalisation, joint-vs-sequential agreement, jit-vs-non-jit bit identity, and forced "
          "sampling through the real sampler (product of recorded conditionals = w_n(m)/w_0, compared with the Coq model)."),
    note=("Trusted: Coq kernel + vm_compute; translator translate/sampler_dispatch.py; hand model Model/Sampler.v of what "
          "pyzx does with the effect string (X spider with phase b*pi on one leg = sqrt2<b|, Z spider = <0|+<1|, apply_effect "
          "adds power -1 per character; validated numerically under C11) and of JAX (jit = identity, bernoulli(p) draws 1 with "
          "probability p, hstack/argsort); statements are over exact rationals Q (the proofs use ordered-field reasoning only). "
          "Identities on the real compiled weights are validated within 1e-6 relative to w_0 (complex64 evaluation), not proved. "
          "Print Assumptions of every C06_* theorem: closed under the global context."),
    technique="Coq proof (induction over outputs, Q field/lra, permutation lemma for argsort) + ast translator + forced-sampling correspondence",
    design_ref="DESIGN.md 4.C06",
)

TOL = 1e-6


# ---------------------------------------------------------------------------------------------------------------
# implementation access
# ---------------------------------------------------------------------------------------------------------------

def f_assignments(k: int, rng, cap: int) -> np.ndarray:
    """all 2^k assignments when 2^k <= cap, else `cap` random ones (plus all-zero)"""
    if 2 ** k <= cap:
        return all_bits(k)
    rows = rng.integers(0, 2, size=(cap, k)).astype(bool)
    rows[0] = False
    return rows


def component_weights(comp, fs: np.ndarray):
    """W[i][a, p] = evaluate(compiled_scalar_graphs[i], (fs[a], prefix p of length i)), complex, for all prefixes.
    Every level is evaluated on the full batch F*2^n (same shapes as the forced-sampling run, so each graph is compiled once)."""
    import jax.numpy as jnp
    from tsim.compile.evaluate import evaluate
    n = len(comp.compiled_scalar_graphs) - 1
    M = all_bits(n)
    F = len(fs)
    fcol = np.repeat(fs, len(M), axis=0)
    mcol = np.tile(M, (F, 1))
    W = []
    for i in range(n + 1):
        params = np.concatenate([fcol, mcol[:, :i]], axis=1)
        v = np.asarray(evaluate(comp.compiled_scalar_graphs[i], jnp.asarray(params, dtype=jnp.bool_))).astype(np.complex128)
        v = v.reshape(F, len(M))
        W.append(v[:, :: 2 ** (n - i)])
    return W


class Forced:
    """jax.random.bernoulli replaced (from the harness, no source change) by a function that returns preset bits and
    records the probability argument it was called with."""

    def __init__(self, forced_cols: np.ndarray):
        self.forced = forced_cols
        self.ps: list[np.ndarray] = []

    def __enter__(self):
        import jax
        import jax.numpy as jnp
        self.orig = jax.random.bernoulli

        def fake(key, p=0.5, shape=None):
            j = len(self.ps)
            self.ps.append(np.asarray(p, dtype=np.float64))
            if j >= self.forced.shape[1]:
                raise RuntimeError("sampler drew more Bernoulli variables than the component has outputs")
            return jnp.asarray(self.forced[:, j])

        jax.random.bernoulli = fake
        return self

    def __exit__(self, *a):
        import jax
        jax.random.bernoulli = self.orig


def forced_component(comp, fs: np.ndarray, num_f: int):
    """run the real (non-jitted) _sample_component with one row per (f, outcome); returns (returned bits, list of p arrays)"""
    import jax
    import jax.numpy as jnp
    import tsim.sampler as S
    n = len(comp.compiled_scalar_graphs) - 1
    M = all_bits(n)
    F = len(fs)
    fsel = np.asarray(comp.f_selection)
    fglob = np.zeros((F * len(M), num_f), dtype=np.uint8)
    if len(fsel):
        fglob[:, fsel] = np.repeat(fs, len(M), axis=0)
    forced = np.tile(M, (F, 1))
    with Forced(forced) as fo:
        out, _ = S._sample_component(comp, jnp.asarray(fglob), jax.random.key(0))
    return np.asarray(out), fo.ps, forced


def path_products(ps: list[np.ndarray], forced: np.ndarray):
    """product of the conditionals along each forced path.  A path is dead once a factor is 0 (whatever nan/inf the
    sampler computes afterwards counts as probability 0).  Returns (product, worst excursion): the excursion of a Bernoulli
    parameter outside [0,1] is weighted with the probability of the path so far, i.e. it is measured like every other
    quantity of the property relative to w_0 (prev is a float32 difference; on a path of probability 2e-4 a parameter of
    1.00002 is rounding residue worth 4e-9 of probability mass)."""
    B = forced.shape[0]
    prod = np.ones(B)
    dead = np.zeros(B, dtype=bool)
    worst = 0.0
    for j, p in enumerate(ps):
        p = np.broadcast_to(p, (B,)).astype(np.float64)
        live = ~dead
        pl = p[live]
        if pl.size:
            exc = np.where(np.isfinite(pl), np.maximum(np.maximum(-pl, pl - 1.0), 0.0), np.inf)
            with np.errstate(invalid="ignore"):
                mass = np.where(prod[live] > 0, exc * prod[live], 0.0)
            worst = max(worst, float(np.max(mass)))
        fac = np.where(forced[:, j], p, 1.0 - p)
        fac = np.where(dead, 0.0, fac)
        fac = np.nan_to_num(fac, nan=np.inf)
        prod = np.where(dead, 0.0, prod * fac)
        dead = dead | (fac <= 0.0)
    return prod, worst


def qpair(x: float, bits: int = 40) -> str:
    fr = Fraction(int(round(x * (1 << bits))), 1 << bits)
    return f"({fr.numerator} # {fr.denominator})"


# ---------------------------------------------------------------------------------------------------------------
# per-circuit checks
# ---------------------------------------------------------------------------------------------------------------

class CircuitCase:
    def __init__(self, text: str, detectors: bool):
        self.text = text
        self.detectors = detectors
        self.key = circuit_key(text)


def check_component(ctx: Ctx, case: CircuitCase, ci: int, comp, num_f: int, rng, fcap: int, state: dict):
    """sibling sums, bounds, normalisation, forced sampling for one component. Returns (fs, W) or None."""
    n = len(comp.compiled_scalar_graphs) - 1
    k = int(np.asarray(comp.f_selection).shape[0])
    fs = f_assignments(k, rng, max(1, min(fcap, (1 << 18) >> n)))     # batch F * 2^n rows per evaluate call
    where = dict(circuit=case.text, detectors=case.detectors, component=ci, output_indices=list(comp.output_indices))
    try:
        W = component_weights(comp, fs)
    except Exception as e:  # noqa
        ctx.violation("evaluate-exception", f"evaluate raised on component {ci} of circuit {case.key}: {e!r}", dict(where, error=traceback.format_exc()[-1500:]))
        return None
    A = [np.abs(w) for w in W]
    w0 = A[0][:, 0]
    if not np.all(np.isfinite(w0)) or np.any(w0 <= 0):
        a = int(np.argmax(~(np.isfinite(w0) & (w0 > 0))))
        ctx.violation("norm-not-positive", f"normalisation w_0 = {w0[a]} for f={fs[a].astype(int).tolist()} (component {ci}, circuit {case.key})",
                      dict(where, f=fs[a].astype(int).tolist(), w0=str(W[0][a, 0])))
        return None
    scale = w0[:, None]
    for i in range(n):
        ctx.count(bucket="sibling-sum-identities", n=int(A[i].size))
        sib = A[i + 1].reshape(len(fs), -1, 2)
        diff = np.abs(A[i] - sib.sum(axis=2)) / scale
        if not np.all(diff <= TOL):
            a, p = np.unravel_index(int(np.argmax(np.where(np.isfinite(diff), diff, np.inf))), diff.shape)
            prefix = all_bits(i)[p].astype(int).tolist()
            ctx.violation("sibling-sum",
                          f"|w_{i}(p)| = {A[i][a, p]:.9g} but |w_{i + 1}(p0)| + |w_{i + 1}(p1)| = {sib[a, p, 0]:.9g} + {sib[a, p, 1]:.9g} "
                          f"(w_0 = {w0[a]:.9g}; component {ci} with {n} outputs, f={fs[a].astype(int).tolist()}, prefix={prefix}, circuit {case.key})",
                          dict(where, kind="sibling-sum", f=fs[a].astype(int).tolist(), prefix=prefix))
            return None
    for i in range(n + 1):
        over = A[i] / scale
        if not np.all(over <= 1.0 + TOL):
            a, p = np.unravel_index(int(np.argmax(over)), over.shape)
            prefix = all_bits(i)[p].astype(int).tolist()
            ctx.violation("weight-bounds", f"|w_{i}(p)| = {A[i][a, p]:.9g} exceeds w_0 = {w0[a]:.9g} (component {ci}, f={fs[a].astype(int).tolist()}, prefix={prefix}, circuit {case.key})",
                          dict(where, kind="bounds", f=fs[a].astype(int).tolist(), prefix=prefix))
            return None
    nontrivial = n >= 2 and bool(np.any((A[n] > TOL * scale) & (A[n] < (1 - TOL) * scale)))
    ctx.count(("comp", case.key, ci), nontrivial=nontrivial, bucket=f"component-outputs-{n if n < 13 else 13}", n=1)
    ctx.hist[f"component-fbits-{min(k, 6)}"] = ctx.hist.get(f"component-fbits-{min(k, 6)}", 0) + 1
    terms = int(comp.compiled_scalar_graphs[-1].num_graphs)
    ctx.hist["stabiliser-terms-" + ("1" if terms == 1 else "2-4" if terms <= 4 else "5+")] = ctx.hist.get("stabiliser-terms-" + ("1" if terms == 1 else "2-4" if terms <= 4 else "5+"), 0) + 1

    # ---- forced sampling through the real sampler loop
    if n >= 1:
        try:
            out, ps, forced = forced_component(comp, fs, num_f)
        except Exception as e:  # noqa
            ctx.violation("sampler-exception", f"_sample_component raised on component {ci} of circuit {case.key}: {e!r}", dict(where, error=traceback.format_exc()[-1500:]))
            return None
        target = (A[n] / scale).reshape(-1)
        if out.shape != forced.shape or len(ps) != n or not np.array_equal(out.astype(bool), forced):
            ctx.violation("forced-bits", f"_sample_component does not return the bits it drew (component {ci}, circuit {case.key}); draws={len(ps)} outputs={n}",
                          dict(where, kind="forced"))
            return None
        prod, worst = path_products(ps, forced)
        ctx.count(bucket="forced-sampling-paths", n=int(prod.size))
        err = np.abs(prod - target)
        if worst > TOL or not np.all(err <= 1e-5):
            r = int(np.argmax(np.where(np.isfinite(err), err, np.inf)))
            a, m = divmod(r, 2 ** n)
            ctx.violation("forced-conditionals",
                          f"product of the conditionals the sampler used = {prod[r]:.9g}, but w_n(m)/w_0 = {target[r]:.9g}; worst probability-weighted excursion of a "
                          f"Bernoulli parameter outside [0,1]: {worst:.3g} (component {ci} with {n} outputs, f={fs[a].astype(int).tolist()}, "
                          f"m={forced[r].astype(int).tolist()}, circuit {case.key})",
                          dict(where, kind="forced", f=fs[a].astype(int).tolist(), outcome=forced[r].astype(int).tolist()))
            return None
        tot = prod.reshape(len(fs), -1).sum(axis=1)
        if not np.all(np.abs(tot - 1.0) <= 1e-4):
            a = int(np.argmax(np.abs(tot - 1.0)))
            ctx.violation("not-normalised", f"full-length outcome probabilities sum to {tot[a]:.9g} (component {ci}, f={fs[a].astype(int).tolist()}, circuit {case.key})",
                          dict(where, kind="forced", f=fs[a].astype(int).tolist()))
            return None
        # keep a few small components for the comparison with the Coq model
        if 1 <= n <= 4 and len(fs) <= 4 and len(state["model_cases"]) < state["model_cap"] and (nontrivial or n == 1 and len(state["model_cases"]) < 6):
            state["model_cases"].append(dict(case=case, ci=ci, n=n, k=k, fs=fs, A=A, ps=ps, prod=prod))
    return fs, W


def compare_paths(ctx: Ctx, case: CircuitCase, ci: int, comp, num_f: int, rng, state: dict):
    """_sample_component vs _sample_component_jit vs sample_component on identical keys (real random draws)"""
    import jax
    import jax.numpy as jnp
    import tsim.sampler as S
    n = len(comp.compiled_scalar_graphs) - 1
    B = 64
    f = rng.integers(0, 2, size=(B, num_f)).astype(np.uint8)
    seed = int(rng.integers(0, 2 ** 30))
    key = jax.random.key(seed)
    where = dict(circuit=case.text, detectors=case.detectors, component=ci, f_params=f.tolist(), seed=seed, kind="jit")
    try:
        a, ka = S._sample_component(comp, jnp.asarray(f), key)
        b, kb = S._sample_component_jit(comp, jnp.asarray(f), key)
        c, kc = S.sample_component(comp, jnp.asarray(f), key)
    except Exception as e:  # noqa
        ctx.violation("sampler-exception", f"sampling raised on component {ci} of circuit {case.key}: {e!r}", dict(where, error=traceback.format_exc()[-1500:]))
        return
    a, b, c = np.asarray(a), np.asarray(b), np.asarray(c)
    ctx.count(("jit", case.key, ci), nontrivial=n >= 2, bucket="jit-vs-nonjit", n=B)
    keys_same = (np.array_equal(jax.random.key_data(ka), jax.random.key_data(kb)) and np.array_equal(jax.random.key_data(ka), jax.random.key_data(kc)))
    if a.shape == b.shape == c.shape and np.array_equal(a, b) and np.array_equal(a, c) and keys_same:
        return
    # a difference is only excused when the uniform variate of the first differing draw is within rounding distance of p
    benign = False
    if a.shape == b.shape == c.shape and keys_same:
        other = b if not np.array_equal(a, b) else c
        rows, cols = np.nonzero(a != other)
        first = {}
        for r, col in zip(rows, cols):
            first[r] = min(first.get(r, n), col)
        orig = jax.random.bernoulli
        rec = []

        def spy(k, p=0.5, shape=None):
            u = np.asarray(jax.random.uniform(k, np.shape(p)))
            rec.append((np.asarray(p, dtype=np.float64), u))
            return orig(k, p, shape)

        jax.random.bernoulli = spy
        try:
            S._sample_component(comp, jnp.asarray(f), key)
        finally:
            jax.random.bernoulli = orig
        benign = all(abs(rec[col][0][r] - rec[col][1][r]) < 1e-5 for r, col in first.items())
        if benign:
            ctx.cov["jit_rounding_ties"] = ctx.cov.get("jit_rounding_ties", 0) + len(first)
    if not benign:
        ctx.violation("jit-vs-nonjit", f"_sample_component, _sample_component_jit and sample_component disagree on identical keys (component {ci} with {n} outputs, circuit {case.key})",
                      where)


def check_reorder(ctx: Ctx, case: CircuitCase, prog, state: dict):
    """the real sample_program with sample_component replaced by a stub that labels column k of component c with its
    global output index: the result must be 0..n-1 in order"""
    import jax
    import jax.numpy as jnp
    import tsim.sampler as S
    blocks = [list(c.output_indices) for c in prog.components]
    orig = S.sample_component

    def stub(component, f_params, key):
        return jnp.asarray(np.array([list(component.output_indices)] * f_params.shape[0], dtype=np.int32).reshape(f_params.shape[0], len(component.output_indices))), key

    S.sample_component = stub
    try:
        res = np.asarray(S.sample_program(prog, jnp.zeros((2, max(1, prog.num_f_params)), dtype=jnp.uint8), jax.random.key(0)))
    except Exception as e:  # noqa
        ctx.violation("sampler-exception", f"sample_program raised on circuit {case.key}: {e!r}", dict(circuit=case.text, detectors=case.detectors, error=traceback.format_exc()[-1500:]))
        return
    finally:
        S.sample_component = orig
    ntot = sum(len(b) for b in blocks)
    ctx.count(("reorder", case.key), nontrivial=len([b for b in blocks if b]) > 1 and blocks != sorted(blocks), bucket="reorder", n=ntot)
    ok_part = sorted(x for b in blocks for x in b) == list(range(prog.num_outputs)) and np.asarray(prog.output_order).tolist() == [x for b in blocks for x in b]
    if not ok_part or res.shape != (2, ntot) or res[0].tolist() != list(range(ntot)):
        ctx.violation("reorder", f"sample_program does not put component outputs into global order: blocks {blocks} -> columns {res[0].tolist() if res.ndim == 2 else res.shape} (circuit {case.key})",
                      dict(circuit=case.text, detectors=case.detectors, kind="reorder", blocks=blocks))
        return
    if len(state["reorder_cases"]) < 40 and len(blocks) > 1:
        state["reorder_cases"].append(blocks)


def check_joint(ctx: Ctx, case: CircuitCase, circuit, prog, weights: dict, rng, quick: bool):
    """CompiledStateProbs.probability_of (joint graphs [0, n]) against the sequential weights w_n(m)/w_0 of every component"""
    from tsim.sampler import CompiledStateProbs
    try:
        sp = CompiledStateProbs(circuit, sample_detectors=case.detectors, seed=0)
    except Exception as e:  # noqa
        ctx.violation("joint-exception", f"CompiledStateProbs raised on circuit {case.key}: {e!r}", dict(circuit=case.text, detectors=case.detectors, error=traceback.format_exc()[-1500:]))
        return
    jprog = sp._program
    if [tuple(c.output_indices) for c in jprog.components] != [tuple(c.output_indices) for c in prog.components] or \
            any(not np.array_equal(np.asarray(a.f_selection), np.asarray(b.f_selection)) for a, b in zip(jprog.components, prog.components)):
        ctx.violation("joint-vs-sequential", f"joint and sequential compilation disagree on the component structure (circuit {case.key})",
                      dict(circuit=case.text, detectors=case.detectors, kind="joint"))
        return
    nf = prog.num_f_params
    ntot = prog.num_outputs
    frows = f_assignments(nf, rng, 16 if quick else 64)
    B = len(frows)
    import jax.numpy as jnp
    # choose the error rows (instance attribute, no source change).  One probability_of call is about ONE batch of error configurations:
    # a second request inside the same call is served DIFFERENT rows (the batch rotated), so that an implementation that draws afresh
    # per component no longer computes P(state | one error configuration) and disagrees with the sequential weights below
    calls = {"n": 0}

    def fake_sample(batch_size):
        k_ = calls["n"]
        calls["n"] += 1
        return jnp.asarray(np.roll(frows, k_, axis=0).astype(np.uint8))
    sp._channel_sampler.sample = fake_sample
    states = all_bits(ntot) if ntot <= 5 else rng.integers(0, 2, size=(12, ntot)).astype(bool)
    # always include states of non-zero probability: the most likely completion per component for f = frows[0]
    best = np.zeros(ntot, dtype=bool)
    for ci, comp in enumerate(prog.components):
        fs, W = weights[ci]
        n = len(comp.output_indices)
        if n:
            fsel = np.asarray(comp.f_selection)
            a = _row_index(fs, frows[0][fsel] if len(fsel) else np.zeros(0, bool))
            best[list(comp.output_indices)] = all_bits(n)[int(np.argmax(np.abs(W[n][a])))]
    states = np.concatenate([states, best[None, :]], axis=0)
    for st in states:
        try:
            calls["n"] = 0
            got = np.asarray(sp.probability_of(np.asarray(st), batch_size=B), dtype=np.float64)
        except Exception as e:  # noqa
            ctx.violation("joint-exception", f"probability_of raised on circuit {case.key}: {e!r}", dict(circuit=case.text, detectors=case.detectors, state=st.astype(int).tolist(), error=traceback.format_exc()[-1500:]))
            return
        want = np.ones(B)
        for ci, comp in enumerate(prog.components):
            fs, W = weights[ci]
            n = len(comp.output_indices)
            fsel = np.asarray(comp.f_selection)
            rows = [_row_index(fs, fr[fsel] if len(fsel) else np.zeros(0, bool)) for fr in frows]
            m = int("".join("1" if st[j] else "0" for j in comp.output_indices), 2) if n else 0
            want = want * np.abs(W[n][rows, m]) / np.abs(W[0][rows, 0])
        ctx.count(("joint", case.key, tuple(st.astype(int).tolist())), nontrivial=bool(np.any(want > 1e-9)) and len(prog.components) > 1, bucket="joint-vs-sequential", n=B)
        if got.shape != want.shape or not np.all(np.abs(got - want) <= 1e-5):
            a = int(np.argmax(np.abs(got - want))) if got.shape == want.shape else 0
            ctx.violation("joint-vs-sequential",
                          f"probability_of(state) = {got[a] if got.shape == want.shape else got.shape} but the sequential weights give {want[a]:.9g} "
                          f"(state={st.astype(int).tolist()}, f={frows[a].astype(int).tolist()}, circuit {case.key})",
                          dict(circuit=case.text, detectors=case.detectors, kind="joint", state=st.astype(int).tolist(), f=frows[a].astype(int).tolist()))
            return


def _row_index(fs: np.ndarray, row: np.ndarray) -> int:
    if fs.shape[1] == 0:
        return 0
    hit = np.nonzero((fs == row[None, :]).all(axis=1))[0]
    if len(hit) == 0:
        raise KeyError("f row not enumerated")
    return int(hit[0])


def run_circuit(ctx: Ctx, case: CircuitCase, rng, state: dict, *, max_out: int, fcap: int, trivial_cap: int, do_joint: bool, jit_cap: int):
    import tsim
    try:
        circuit = tsim.Circuit(case.text)
        smp = circuit.compile_detector_sampler(seed=0) if case.detectors else circuit.compile_sampler(seed=0)
    except Exception as e:  # noqa
        # not a C06 matter (generator produced something tsim rejects); recorded, never silently dropped
        ctx.cov.setdefault("rejected_circuits", []).append({"circuit": case.text[:400], "error": repr(e)[:200]})
        return
    prog = smp._program
    num_f = prog.num_f_params
    t_like, arb = count_nonclifford(case.text)
    ctx.hist[f"qubits-{_bucket(_num_qubits(case.text), [4, 8, 16, 32, 64])}"] = ctx.hist.get(f"qubits-{_bucket(_num_qubits(case.text), [4, 8, 16, 32, 64])}", 0) + 1
    ctx.hist["nonclifford-" + ("none" if t_like + arb == 0 else "T-only" if arb == 0 else "rot-only" if t_like == 0 else "mixed")] = \
        ctx.hist.get("nonclifford-" + ("none" if t_like + arb == 0 else "T-only" if arb == 0 else "rot-only" if t_like == 0 else "mixed"), 0) + 1
    ctx.hist["mode-" + ("detectors" if case.detectors else "measurements")] = ctx.hist.get("mode-" + ("detectors" if case.detectors else "measurements"), 0) + 1
    check_reorder(ctx, case, prog, state)
    weights = {}
    trivial_seen = 0
    complete = True
    jit_done = 0
    for ci, comp in enumerate(prog.components):
        n = len(comp.compiled_scalar_graphs) - 1
        if n != len(comp.output_indices):
            ctx.violation("graph-count", f"sequential component {ci} has {n + 1} graphs for {len(comp.output_indices)} outputs (circuit {case.key})",
                          dict(circuit=case.text, detectors=case.detectors, component=ci))
            complete = False
            continue
        if n > max_out:
            ctx.cov["components_skipped_too_large"] = ctx.cov.get("components_skipped_too_large", 0) + 1
            complete = False
            continue
        if n <= 1 and not do_joint:
            trivial_seen += 1
            if trivial_seen > trivial_cap:
                complete = False
                continue
        r = check_component(ctx, case, ci, comp, num_f, rng, fcap, state)
        if r is None:
            complete = False
            continue
        weights[ci] = r
        if len(r[0]) != 2 ** int(np.asarray(comp.f_selection).shape[0]):
            complete = False      # f-assignments were subsampled: the joint-mode comparison needs every row
            ctx.cov["joint_skipped_subsampled_f"] = ctx.cov.get("joint_skipped_subsampled_f", 0) + 1
        if n >= 1 and jit_done < jit_cap and (n >= 2 or jit_done == 0) and n <= 8:
            compare_paths(ctx, case, ci, comp, num_f, rng, state)
            jit_done += 1
    if do_joint and complete:
        check_joint(ctx, case, circuit, prog, weights, rng, ctx.quick)
    if len(ctx.samples) < 6 and weights:
        ci = max(weights, key=lambda c: len(prog.components[c].output_indices))
        fs, W = weights[ci]
        n = len(prog.components[ci].output_indices)
        ctx.sample({"circuit": case.text[:600], "detectors": case.detectors, "component_outputs": list(prog.components[ci].output_indices),
                    "f_assignments": len(fs), "w0": float(np.abs(W[0][0, 0])), "w_n(m)/w_0 for f=first": (np.abs(W[n][0]) / np.abs(W[0][0, 0])).round(6).tolist()[:16]})


def _num_qubits(text: str) -> int:
    mx = -1
    for ln in text.splitlines():
        parts = ln.split(")")[-1].split() if "(" in ln else ln.split()[1:]
        for tkn in parts:
            tkn = tkn.lstrip("!")
            if tkn.isdigit():
                mx = max(mx, int(tkn))
    return mx + 1


def _bucket(v, edges):
    for e in edges:
        if v <= e:
            return f"<={e}"
    return f">{edges[-1]}"


# ---------------------------------------------------------------------------------------------------------------
# comparison with the Coq model
# ---------------------------------------------------------------------------------------------------------------

def model_correspondence(ctx: Ctx, state: dict):
    cases = state["model_cases"]
    if not cases:
        return
    terms = []
    for mc in cases:
        n, k, fs, A = mc["n"], mc["k"], mc["fs"], mc["A"]
        M = all_bits(n)
        tables = []
        for a in range(len(fs)):
            tbl = "[" + "; ".join(f"({cq.blist(M[m])}, {qpair(float(A[n][a, m]))})" for m in range(len(M))) + "]"
            tables.append(f"({cq.blist(fs[a])}, {tbl})")
        T = ("(fun f => tensor_of_table (match find (fun e => bits_eqb (fst e) f) [" + "; ".join(tables) +
             "] with Some e => snd e | None => [] end))")
        for a in range(len(fs)):
            t = f"(sample_component (W {T} {k} {n} true) {cq.blist(fs[a])} {n + 1} {n})"
            terms.append(f"let t := {t} in map (fun m => let q := Qred (mass (bits_eqb m) t) in "
                         f"((Qnum q, Zpos (Qden q)), map (fun c => let r := Qred c in (Qnum r, Zpos (Qden r))) (conds m t), follow m t)) (all_bits {n})")
    vals = cq.eval_terms("c06_model", IMPORTS, terms, timeout=900)
    j = 0
    for mc in cases:
        n, fs, ps, prod, case, ci = mc["n"], mc["fs"], mc["ps"], mc["prod"], mc["case"], mc["ci"]
        M = all_bits(n)
        for a in range(len(fs)):
            v = vals[j]
            j += 1
            for m in range(len(M)):
                ent = v[m]
                # Coq prints ((num, den), conds, follow) flat: (num, den, conds, follow)
                num, den, cds, fol = ent
                model_mass = num / den
                r = a * len(M) + m
                ctx.count(("model", case.key, ci, a, m), nontrivial=0 < model_mass < 1, bucket="model-vs-forced-sampling")
                bad = None
                if abs(model_mass - prod[r]) > 1e-5:
                    bad = f"model mass {model_mass:.9g} vs product of the implementation's conditionals {prod[r]:.9g}"
                mp = 1.0      # model probability of the path so far: differences are weighted with it (relative to w_0)
                for step, cd in enumerate(cds):
                    cm = cd[0] / cd[1]
                    pi = float(np.broadcast_to(ps[step], (len(fs) * len(M),))[r])
                    ci_impl = pi if M[m][step] else 1.0 - pi
                    if mp > 0 and (not np.isfinite(ci_impl) or abs(cm - ci_impl) * mp > 1e-5):
                        bad = f"conditional {step}: model {cm:.9g} vs implementation {ci_impl:.9g} (path probability so far {mp:.3g})"
                    mp *= cm
                if fol != ("Some", [bool(x) for x in M[m]]) and fol != ("Some", M[m].tolist()):
                    bad = f"model returns {fol} for draws {M[m].astype(int).tolist()}"
                if bad:
                    ctx.broken.append(f"correspondence:sampler model vs forced sampling: {bad} (circuit {case.key}, component {ci}, f={fs[a].astype(int).tolist()}, m={M[m].astype(int).tolist()})")
                    return
    ctx.cov["model_cases_compared"] = len(cases)


def reorder_correspondence(ctx: Ctx, state: dict):
    cases = state["reorder_cases"]
    if not cases:
        return
    terms = []
    for blocks in cases:
        bl = "[" + "; ".join("[" + "; ".join(cq.nat(x) for x in b) + "]" for b in blocks) + "]"
        terms.append(f"sample_program_row 0%nat {bl} {bl}")
    vals = cq.eval_terms("c06_reorder", IMPORTS, terms, timeout=600)
    for blocks, v in zip(cases, vals):
        ntot = sum(len(b) for b in blocks)
        ctx.count(("reorder-model", tuple(map(tuple, blocks))), bucket="reorder-model")
        if list(v) != list(range(ntot)):
            ctx.broken.append(f"correspondence:sample_program_row model gives {v} on blocks {blocks} (implementation gives 0..{ntot - 1})")
            return


# ---------------------------------------------------------------------------------------------------------------
FIXED = [
    # design-document example: correlated outputs, one error bit, a T gate
    ("RX 0\nT 0\nH 0\nCX 0 1\nX_ERROR(0.25) 1\nM 0 1\nH 0\nM 0", False),
    ("H 0\nCX 0 1\nCX 1 2\nM 0 1 2\nM 0 1 2", False),
    ("H 0\nT 0\nH 0\nM 0\nH 1\nR_Z(0.3) 1\nH 1\nM 1\nM 0 1", False),
    ("R 0 1 2\nX_ERROR(0.125) 0 1 2\nCX 0 3\nCX 1 3\nMR 3\nCX 1 3\nCX 2 3\nMR 3\nM 0 1 2\nDETECTOR rec[-5]\nDETECTOR rec[-4]\nDETECTOR rec[-3] rec[-2]\nOBSERVABLE_INCLUDE(0) rec[-1]", True),
    ("H 0\nCX 0 1\nDEPOLARIZE2(0.125) 0 1\nT 1\nU3(0.3, 0.41, -0.15) 0\nMX 0\nMY 1\nM 0 1", False),
    # noisy T-gate sandwiches: for the mixed error assignments the normalisation graph evaluates to a complex number of modulus 2
    # (the chain must start from its modulus)
    ("X_ERROR(0.125) 0\nT 0\nT 0\nT 0\nX_ERROR(0.125) 0\nM 0\nT 0\nM 0", False),
    ("T 0\nSQRT_X 0\nY_ERROR(0.125) 1\nT 1\nCZ 0 1\nCZ 1 0\nCNOT 0 1\nH 1\nSQRT_X 1\nX_ERROR(0.125) 1\nT 0\nM 0 1", False),
    # several components that read the SAME error parameters (a correlated error / a two-qubit channel across components)
    ("R 0 1\nE(0.5) X0 X1\nM 0 1", False),
    ("H 0\nT 0\nH 0\nH 1\nDEPOLARIZE2(0.25) 0 1\nE(0.25) X0 Z1 X2\nM 0\nMX 1\nM 2", False),
    # rotations by odd multiples of pi/8 and pi/16 (the scalar phase of some decomposition terms is then k pi/8: neither a power of
    # e^{i pi/4} nor a "generic" float), alone, summed, next to T gates and noise
    ("H 0\nR_Z(0.125) 0\nH 0\nM 0\nH 0\nR_Z(0.375) 0\nH 0\nM 0", False),
    ("H 0 1\nR_Z(0.125) 0\nCX 0 1\nR_X(0.875) 1\nT 0\nH 0\nM 0 1\nM 0 1", False),
    ("U3(0.125, 0.375, 0.875) 0\nX_ERROR(0.25) 0\nH 0\nR_Y(0.625) 0\nM 0\nR_X(0.0625) 0\nR_X(0.0625) 0\nM 0", False),
]


def deep_probe(ctx: Ctx, rng, nbits: int, rows: int, rot: bool = False):
    """one component with `nbits`+1 outputs whose prefixes become very unlikely (nbits coins and their parity): the Bernoulli
    parameter the real sampler uses at EVERY depth must still be w_{i+1}(prefix,1)/w_i(prefix) as evaluated on the compiled graphs
    (an absolute floor or threshold on the prefix weight shows up from depth ~23 on), AND must be the conditional probability known in
    closed form for this circuit (a threshold inside the evaluator moves both sides of the first comparison together).
    rot=True replaces the H on qubit 0 by R_X(0.3): the compiled graphs then carry floating factors (the complex64 branch of evaluate)."""
    import math
    import jax
    import jax.numpy as jnp
    import tsim
    import tsim.sampler as S
    from tsim.compile.evaluate import evaluate
    n = nbits + 1
    first = "R_X(0.3) 0\nH " + " ".join(map(str, range(1, nbits))) if rot else "H " + " ".join(map(str, range(nbits)))
    text = first + "\n" + "\n".join(f"CX {i} {nbits}" for i in range(nbits)) + "\nM " + " ".join(map(str, range(n)))
    p0 = math.sin(0.15 * math.pi) ** 2 if rot else 0.5
    where = dict(circuit=text, detectors=False, kind="deep", rot=bool(rot))

    def weight(assign: dict) -> float:
        """closed form: probability that the measurements in `assign` (qubit -> bit) come out as given"""
        w = 1.0
        for q, b in assign.items():
            if q != nbits:
                w *= (p0 if b else 1 - p0) if q == 0 else 0.5
        if nbits in assign:
            missing = [q for q in range(nbits) if q not in assign]
            par = (sum(b for q, b in assign.items() if q != nbits) + assign[nbits]) % 2
            if not missing:
                w *= 1.0 if par == 0 else 0.0
            elif missing == [0]:
                w *= p0 if par == 1 else 1 - p0
            else:
                w *= 0.5
        return w
    try:
        smp = tsim.Circuit(text).compile_sampler(seed=1)
        prog = smp._program
        comp = max(prog.components, key=lambda c: len(c.output_indices))
        nout = len(comp.compiled_scalar_graphs) - 1
        num_f = int(getattr(prog, "num_f_params", 0) or 0)
        order = list(comp.output_indices)
        forced = rng.integers(0, 2, size=(rows, nout)).astype(bool)
        # make every forced row a possible outcome: the output that is the parity qubit gets the parity of the others
        if nbits in order:
            j = order.index(nbits)
            others = [c for c in range(nout) if c != j]
            forced[:, j] = forced[:, others].sum(axis=1) % 2 == 1
        f0 = np.zeros((rows, max(num_f, 0)), dtype=np.uint8)
        with Forced(forced) as fo:
            out, _ = S._sample_component(comp, jnp.asarray(f0), jax.random.key(0))
        fsel = np.asarray(comp.f_selection)
        fcols = np.zeros((rows, len(fsel)), dtype=bool)
        closed_form = nout == n and sorted(order) == list(range(n))
        for i in range(nout):
            pre = np.concatenate([fcols, forced[:, :i]], axis=1)
            one = np.concatenate([pre, np.ones((rows, 1), dtype=bool)], axis=1)
            wi = np.abs(np.asarray(evaluate(comp.compiled_scalar_graphs[i], jnp.asarray(pre, dtype=jnp.bool_))).astype(np.complex128))
            w1 = np.abs(np.asarray(evaluate(comp.compiled_scalar_graphs[i + 1], jnp.asarray(one, dtype=jnp.bool_))).astype(np.complex128))
            with np.errstate(all="ignore"):
                want = w1 / wi
            got = np.broadcast_to(np.asarray(fo.ps[i], dtype=np.float64), (rows,))
            ctx.count(("deep", nbits, i, rot), nontrivial=True, bucket="deep-prefix-conditionals" + ("-rotation" if rot else ""), n=rows)
            bad = ~(np.abs(got - want) <= 1e-3)
            if np.any(bad):
                a = int(np.argmax(bad))
                ctx.violation("deep-conditional",
                              f"at depth {i} of a {nout}-output component the sampler used the Bernoulli parameter {got[a]:.6g}, the compiled graphs give "
                              f"w_{i + 1}(prefix,1)/w_{i}(prefix) = {want[a]:.6g} (prefix weight {wi[a]:.3g})",
                              dict(where, nbits=nbits, depth=i, prefix=forced[a, :i].astype(int).tolist()))
                return
            if closed_form:
                for a in range(rows):
                    asg = {order[c]: int(forced[a, c]) for c in range(i)}
                    den = weight(asg)
                    asg1 = dict(asg)
                    asg1[order[i]] = 1
                    num = weight(asg1)
                    truth = num / den
                    if not abs(got[a] - truth) <= 2e-3:
                        ctx.violation("deep-conditional-closed-form",
                                      f"at depth {i} of a {nout}-output component (prefix probability {den:.3g}) the sampler used the Bernoulli parameter "
                                      f"{got[a]:.6g}; the conditional probability of this outcome is {truth:.6g}",
                                      dict(where, nbits=nbits, depth=i, prefix=forced[a, :i].astype(int).tolist()))
                        return
    except Exception as e:  # noqa
        ctx.violation("deep-probe-exception", f"deep-prefix probe raised {e!r}", dict(where, nbits=nbits, error=traceback.format_exc()[-1500:]))


def run(ctx: Ctx) -> int:
    model_ok = standard_model_phase(ctx, TRANSLATORS, COQ_FILES, "Props.C06", "Props/C06.v")
    ctx.trusted += [
        "translator /verif/translate/sampler_dispatch.py (Python ast -> Gallina: dispatch, sampler loop skeleton, reordering, probability_of, _plug_outputs, outputs_to_plug, power2 balancing)",
        "hand model Model/Sampler.v: pyzx one-legged spiders / apply_effect power, Bernoulli draw tree, hstack/argsort; tied by forced sampling and numeric validation below",
        "pyzx oracle: the compiled scalar programs of a component evaluate to the plugged tensor of one diagram (validated: sibling sums on all f x all prefixes, 1e-6 relative to w_0)",
        "jax.jit is the identity on the traced function; jax.random.bernoulli(key, p) = (uniform(key) < p) (validated: bit-identical outputs on identical keys)",
        "statements are over exact rationals Q; implementation values are complex64 and compared with tolerance",
    ]
    try:
        import jax  # noqa
        import tsim  # noqa
        import tsim.sampler  # noqa
    except Exception as e:  # noqa
        ctx.violation("import-failure", f"tsim cannot be imported: {e!r}", {"error": repr(e)}, no_failing_input=True)
        return ctx.finish("n/a")
    quick = ctx.quick
    rng = ctx.np_rng()
    prng = ctx.rng
    state = dict(model_cases=[], model_cap=24 if quick else 80, reorder_cases=[])
    model_usable = not any(b.startswith("translator:") or "Model/Sampler" in b or "Gen_sampler" in b or "Base/" in b for b in ctx.broken)

    plan = []   # (nq, detectors, max_out, out_cap, do_joint)
    if quick:
        sizes = [1, 2, 3, 3, 4, 4, 5, 6, 6, 8, 8, 10, 12, 16, 20, 24, 32, 40]
        max_out = 12
    else:
        sizes = [1, 2, 2, 3, 3, 3, 4, 4, 4, 5, 5, 6, 6, 6, 8, 8, 8, 10, 10, 12, 12, 14, 16, 16, 20, 24, 24, 32, 40, 40] * 2
        max_out = 16
    for i, nq in enumerate(sizes):
        plan.append((nq, (i % 4 == 3), max_out, (max_out if nq > 2 else 8), nq <= 8))
    cases = [(CircuitCase(t, d), 12, True) for t, d in FIXED]
    for nq, det, mo, oc, dj in plan:
        styles = ("ghz", "rand", "rand", "syn") if prng.random() < 0.5 else ("ghz", "ghz", "syn", "rand")
        txt = gen_circuit(prng, nq, bs_max=6, out_cap=oc if not (not quick and prng.random() < 0.3) else 16, nc_max=3, noise_max=4, detectors=det, styles=styles)
        cases.append((CircuitCase(txt, det), mo, dj))
    import time as _time
    for case, mo, dj in cases:
        if ctx.violations:
            break
        _t = _time.time()
        _e = ctx.evaluations
        try:
            run_circuit(ctx, case, rng, state, max_out=mo, fcap=64 if quick else 256, trivial_cap=3 if quick else 8, do_joint=dj, jit_cap=2 if quick else 4)
        except Exception as e:  # noqa
            traceback.print_exc()
            ctx.broken.append(f"harness:exception on circuit {case.key}: {e!r}")
        ctx.log(f"circuit {case.key} qubits={_num_qubits(case.text)} det={int(case.detectors)} evaluations={ctx.evaluations - _e} t={_time.time() - _t:.1f}s")
        # every compiled graph is its own XLA executable; drop them so that long runs do not exhaust the process's memory maps
        _done = state["circuits_done"] = state.get("circuits_done", 0) + 1
        if _done % 8 == 0:
            import gc
            import jax
            jax.clear_caches()
            gc.collect()
    ctx.cov["circuits"] = len(cases)
    if not ctx.violations:
        for nb in ([28] if quick else [26, 30, 40]):
            deep_probe(ctx, rng, nb, 6)
            if not ctx.violations:
                deep_probe(ctx, rng, nb, 6, rot=True)
    if model_usable and not ctx.violations:
        try:
            model_correspondence(ctx, state)
            reorder_correspondence(ctx, state)
        except Exception as e:  # noqa
            traceback.print_exc()
            ctx.broken.append(f"correspondence:model run failed: {e!r}"[:600])
    if ctx.broken and not ctx.violations:
        report_broken_without_input(ctx)
    return ctx.finish(
        rule="cases = compiled components of generated circuits (disjoint blocks of <=6 qubits interleaved up to 40 qubits; GHZ-rounds, random "
             "Clifford+T/rotation/U3+noise with measurement rounds, repetition-code syndrome blocks; measurement and detector samplers), all from one "
             "PRNG (VERIF_SEED). Per component: ALL 2^k f-assignments (k<=6 quick, <=8 thorough; random subset above) x ALL output prefixes; an "
             "evaluation = one sibling-sum identity, one forced-sampling path, one jit-vs-non-jit row, one joint-mode probability or one model "
             "comparison. non-trivial = component with >=2 outputs having a full-length outcome of probability strictly between 0 and 1.",
        explanation="Theorems C06_* over the regenerated sampler/plugging definitions; implementation identities validated on the compiled weights; see DESIGN.md 4.C06",
        assumptions=["pyzx oracle: compiled scalar graphs evaluate to the plugged tensor (validated numerically here)",
                     "jax.jit preserves semantics; jax.random.bernoulli(p) draws 1 with probability p"],
    )


def replay(ctx: Ctx, obj) -> int:
    r = obj.get("replay") or {}
    print(json.dumps({k: v for k, v in r.items() if k != "error"})[:3000])
    if "circuit" not in r:
        return 1
    if r.get("kind") == "deep":
        deep_probe(ctx, ctx.np_rng(), int(r["nbits"]), 6, rot=bool(r.get("rot")))
        print("violations on replay:", [v["key"] for v in ctx.violations])
        return 1 if ctx.violations else 0
    case = CircuitCase(r["circuit"], bool(r.get("detectors")))
    state = dict(model_cases=[], model_cap=0, reorder_cases=[])
    run_circuit(ctx, case, ctx.np_rng(), state, max_out=16, fcap=256, trivial_cap=10 ** 6, do_joint=True, jit_cap=10 ** 6)
    print("violations on replay:", [v["key"] for v in ctx.violations] + [v["key"] for v in ctx.known_hits])
    return 1 if (ctx.violations or ctx.known_hits) else 0
