"""C20 -- transversal encoders preserve logical semantics.

Tie A (translator `encoder_tables`): the class tables of SteaneEncoder / ColorEncoder5 and the index arithmetic of
  broadcast_targets / _transform_circuit / initialize / encode_transversally are regenerated into gen/Gen_encoder.v;
  the theorems of Props/C20.v are re-checked against them (Pauli-tableau facts by vm_compute, index theorems for all
  programs).  At run time the generated tables are also compared with the attributes of the running classes, the
  parsed encoding programs with stim's parse, the gate matrices of Base/PauliTableau.v with
  stim.gate_data(name).unitary_matrix and the n-qubit conjugation with stim.PauliString.after.
Tie B (hand model Model/Encoder.v): model-transformed instruction lists vs `_transform_circuit` and vs
  `TransversalEncoder.circuit` after sequences of initialize / encode_transversally calls, string-exact.
Search: exact detector+observable distribution of the encoded circuit through the REAL detector sampler (forced
  sampling, harness/exactdist.tsim_dist) vs the independent dense reference on the unencoded program (ref_dist).
  A mismatch is a violation with (encoder, calls, program) as replay.
"""
from __future__ import annotations

import hashlib
import json
import math
import os
import time

import numpy as np

from harness import coqrun as cq
from harness.common import Ctx, report_broken_without_input, standard_model_phase

MANIFEST = dict(
    text=("Machine-checked proof (Coq 8.16.1) over a model of tsim/utils/encoder.py.  The class tables of SteaneEncoder and "
          "ColorEncoder5 (n, input qubit, encoding program, stabiliser supports, logical support, gate expansions) and the index "
          "expressions of broadcast_targets / the DETECTOR and OBSERVABLE_INCLUDE branches / the three _transform_circuit call sites "
          "are REGENERATED from /repo/src on every run by a fail-closed ast translator.  Proved by vm_compute over the regenerated "
          "tables (finite, complete): the encoding circuits map Z_i of every reset qubit into the listed stabiliser group with sign +, "
          "Z_in to Zbar and X_in to Xbar (times stabilisers), the supports are independent and give n-1 generators; every listed "
          "transversal gate (X Y Z H S S_DAG SQRT_X(_DAG) SQRT_Y(_DAG), with the table's expansions; CX, CZ between two blocks) "
          "preserves the stabiliser group and acts on the logical Paulis as the logical gate; the rewritten annotations of a "
          "transversally measured block are the Z-stabiliser supports and the Zbar support.  Proved for ALL programs on any number of "
          "logical qubits (induction/arithmetic): blocks are disjoint intervals [j*n,(j+1)*n), the physical record is the logical "
          "record block after block, and every rewritten look-back hits exactly the listed support inside the block of the logical "
          "measurement it referred to.  The sign-tracking Pauli conjugation table is justified inside Coq by closed matrix identities "
          "U*P = P'*U over Z[i] for Stim's gate matrices.  PARTIAL: the program-level statement (detectors 0, observables distributed as "
          "the unencoded measurements) is proved relative to the explicit premise PhysicsPremises (standard stabiliser-code lemma + "
          "measurement statistics of code states).  The implementation is tied by string-exact correspondence of the model with "
          "_transform_circuit / encoder.circuit and by exact forced-sampling distributions of encoded circuits (non-Clifford "
          "preparation, 1-3 logical qubits, both encoders) against an independent dense reference of the unencoded program."),
    note=("Trusted: Coq kernel + vm_compute; translator translate/encoder_tables.py; hand model Model/Encoder.v (tied by "
          "correspondence); lifting of the 1-/2-qubit conjugation rules to n-qubit Pauli strings (tensor structure; cross-checked "
          "against stim.PauliString.after at run time); gate matrices = Stim's (compared with stim.gate_data at run time, 1e-6); "
          "PhysicsPremises (explicit hypothesis of C20_program_*_partial); stim's parser/target_groups/append as an oracle; "
          "harness/exactdist reference simulator.  Print Assumptions of every C20_* theorem: closed under the global context."),
    technique="Coq proof (Pauli tableau by vm_compute over regenerated tables, reflection of conjugation rules as Z[i] matrix identities, "
              "induction over programs for the index theorem) + ast translator + string-exact correspondence + exact forced-sampling search",
    design_ref="DESIGN.md 4.C20",
)

TRANSLATORS = ["encoder_tables"]
COQ_FILES = ["Base/PauliTableau.v", "gen/Gen_encoder.v", "Model/Encoder.v", "Proofs/EncoderProofs.v", "Props/C20.v"]
IMPORTS = ("From Coq Require Import ZArith NArith List Bool String Ascii. Import ListNotations.\n"
           "Require Import TV.Base.PauliTableau TV.gen.Gen_encoder TV.Model.Encoder.\nOpen Scope Z_scope.\n")
DEFS = """
Definition show_name (s : string) : list N := map N_of_ascii (list_ascii_of_string s).
Definition show_t (t : otarget) : Z * Z := match t with OQ v => (0, v) | ORec v => (1, v) | OInv v => (2, v) end.
Definition show_o (o : oinstr) := (show_name (oname o), ometa o, map show_t (otargets o)).
Definition show_st (st : enc_state) := (map show_o (st_circ st), st_used st).
Definition show_p (o : option pauli) := match o with Some P => Some (pph P, px P, pz P) | None => None end.
Definition show_tbl (e : enc_table) :=
  (e_n e, e_encq e, map (fun ng => (show_name (fst ng), snd ng)) (e_encoding e), e_stabs e, e_obs e,
   map (fun kv => (show_name (fst kv), map show_name (snd kv))) (e_exps e)).
"""

ENCODERS = {"SteaneEncoder": "steane", "ColorEncoder5": "color5"}
GATES1 = ["X", "Y", "Z", "H", "S", "S_DAG", "SQRT_X", "SQRT_X_DAG", "SQRT_Y", "SQRT_Y_DAG"]
GATES2 = ["CX", "CZ"]
EXTRA1 = ["H_XY", "H_YZ", "C_XYZ", "C_ZYX"]   # outside the property's gate set; observations only
REUSE_KEY = "SteaneEncoder:reuse-after-transversal-M:M 0; H 0; M 0"
TOL_DET = 1e-6
TOL_OBS = 1e-5


# ====================================================================================== Coq literals
def cstr(s: str) -> str:
    return '"' + s.replace('"', '""') + '"%string'


def zl(xs) -> str:
    return "[" + "; ".join(cq.z(int(x)) for x in xs) + "]"


def zll(xss) -> str:
    return "[" + "; ".join(zl(xs) for xs in xss) + "]"


def bll(xss) -> str:
    return "[" + "; ".join(cq.blist(xs) for xs in xss) + "]"


def name_of(codes) -> str:
    return "".join(chr(int(c)) for c in codes)


class Metas:
    """(args, tag) payloads, copied unchanged by the code under verification: the model only sees an index"""

    def __init__(self):
        self.items: list[tuple[tuple, str]] = []

    def add(self, args, tag) -> int:
        key = (tuple(float(a) for a in args), tag)
        if key not in self.items:
            self.items.append(key)
        return self.items.index(key)


def coq_prog(stim_circ, metas: Metas) -> str:
    """what _transform_circuit reads of each instruction"""
    out = []
    for ins in stim_circ:
        groups = ins.target_groups()
        vals = [[t.value for t in g] for g in groups]
        invs = [[bool(t.is_inverted_result_target) for t in g] for g in groups]
        has = len(ins.targets_copy()) != 0
        m = metas.add(ins.gate_args_copy(), ins.tag)
        out.append(f"(mkI {cstr(ins.name)} {cq.z(m)} {'true' if has else 'false'} {zll(vals)} {bll(invs)})")
    return "[" + "; ".join(out) + "]"


def render(model_out, metas: Metas):
    """model instruction list -> stim.Circuit through stim's own append (same calls as the code makes)"""
    import stim
    c = stim.Circuit()
    for nm, meta, ts in model_out:
        args, tag = metas.items[int(meta)]
        targets = []
        for k, v in ts:
            targets.append(int(v) if k == 0 else stim.target_rec(int(v)) if k == 1 else stim.target_inv(int(v)))
        c.append(name_of(nm), targets, list(args), tag=tag)
    return c


# ====================================================================================== generators
ANGLES = [0.125, 0.25, 0.3125, 0.375, 0.4375, 0.5625, 0.6875, 0.8125, 1.1875, 1.375, 1.5625, 1.75, -0.3125, -0.4375]


def rand_prep(rng, q) -> list[str]:
    kind = rng.choice(["rx", "ry", "u3", "t", "hs", "x", "h", "none", "u3", "rx", "ry_t", "rz_after_h"])
    a, b, c = (rng.choice(ANGLES) for _ in range(3))
    return {
        "rx": [f"R_X({a}) {q}"], "ry": [f"R_Y({a}) {q}"], "u3": [f"U3({a}, {b}, {c}) {q}"],
        "t": [f"H {q}", f"T {q}"], "hs": [f"H {q}", f"S {q}"], "x": [f"X {q}"], "h": [f"H {q}"], "none": [],
        "ry_t": [f"R_Y({a}) {q}", f"T_DAG {q}"], "rz_after_h": [f"H {q}", f"R_Z({a}) {q}"],
    }[kind]


def sem_program(rng, k: int, det_w: int, budget: int = 13, body_len=None):
    """random program over the listed gate set on k logical qubits.  Returns (prep_text, body_text).
    det_w = number of physical detectors one DETECTOR line expands to."""
    qs = list(range(k))
    prep = ["R " + " ".join(map(str, qs))]
    for q in qs:
        prep += rand_prep(rng, q)
    body = []
    alive = list(qs)
    measured = 0           # logical measurements so far
    n_obs = 0
    n_out = 0
    pending = []           # logical record positions not yet annotated

    def annotate(positions, now_measured):
        nonlocal n_obs, n_out
        lines = []
        for p in positions:
            lb = p - now_measured   # negative look-back
            if n_out + det_w + 1 <= budget and rng.random() < 0.8:
                lines.append(f"DETECTOR rec[{lb}]")
                n_out += det_w
            if n_out + 1 <= budget:
                lines.append(f"OBSERVABLE_INCLUDE({n_obs}) rec[{lb}]")
                n_obs += 1
                n_out += 1
        return lines

    L = body_len if body_len is not None else rng.randint(2, 6)
    for _ in range(L):
        r = rng.random()
        if not alive:
            break
        if r < 0.55 or len(alive) < 2:
            g = rng.choice(GATES1)
            ts = rng.sample(alive, rng.randint(1, len(alive)))
            body.append(f"{g} " + " ".join(map(str, ts)))
        elif r < 0.9:
            g = rng.choice(GATES2)
            a, b = rng.sample(alive, 2)
            ts = [a, b]
            rest = [q for q in alive if q not in (a, b)]
            if len(rest) >= 2 and rng.random() < 0.3:
                ts += rng.sample(rest, 2)
            body.append(f"{g} " + " ".join(map(str, ts)))
        elif r < 0.95:
            body.append("TICK")
        else:
            # mid-circuit measurement; the qubit is not used afterwards
            q = rng.choice(alive)
            alive.remove(q)
            body.append(f"M {'!' if rng.random() < 0.25 else ''}{q}")
            pending.append(measured)
            measured += 1
            if rng.random() < 0.5:
                body += annotate(pending, measured)
                pending = []
    final = list(alive)
    rng.shuffle(final)
    if len(final) > 1 and rng.random() < 0.25:
        final = final[:-1]          # leave one logical qubit unmeasured
    if final:
        body.append("M " + " ".join(("!" if rng.random() < 0.2 else "") + str(q) for q in final))
        pending += list(range(measured, measured + len(final)))
        measured += len(final)
    body += annotate(pending, measured)
    # occasionally: a detector / observable over two logical measurements
    if measured >= 2 and n_out + det_w <= budget and rng.random() < 0.4:
        j1, j2 = rng.sample(range(1, measured + 1), 2)
        body.append(f"DETECTOR rec[-{j1}] rec[-{j2}]")
        n_out += det_w
    if measured >= 2 and n_out + 1 <= budget and rng.random() < 0.4:
        j1, j2 = rng.sample(range(1, measured + 1), 2)
        body.append(f"OBSERVABLE_INCLUDE({n_obs}) rec[-{j1}] rec[-{j2}]")
        n_obs += 1
    return "\n".join(prep), "\n".join(body)


def coverage_programs(det_w: int, budget: int = 13):
    """deterministic programs: every listed one-qubit gate followed by three different basis changes (so that the
    measurement sees the images of Z, X and Y), and CX / CZ in both orientations"""
    progs = []
    bases = [[], ["H {q}"], ["SQRT_X_DAG {q}"]]
    preps = ["U3(0.3125, 0.4375, 0.125) {q}", "R_X(0.375) {q}\nT {q}", "R_Y(0.6875) {q}\nR_Z(0.3125) {q}"]
    for g in GATES1:
        prep = ["R 0 1 2"] + [preps[q].format(q=q) for q in range(3)]
        body = [f"{g} 0 1 2"] + [b.format(q=q) for q in range(3) for b in bases[q]] + ["M 0 1 2"]
        n_det = max(0, min(3, (budget - 3) // det_w))
        body += [f"DETECTOR rec[-{j}]" for j in range(1, n_det + 1)]
        body += [f"OBSERVABLE_INCLUDE({i}) rec[-{3 - i}]" for i in range(3)]
        progs.append(("gate1:" + g, "\n".join(prep), "\n".join(body)))
    for g in GATES2:
        for (a, b) in [(0, 1), (1, 0)]:
            for bi, (ba, bb) in enumerate([([], ["H {q}"]), (["H {q}"], ["SQRT_X_DAG {q}"])]):
                prep = ["R 0 1", preps[0].format(q=0), preps[1].format(q=1)]
                body = [f"{g} {a} {b}"] + [x.format(q=0) for x in ba] + [x.format(q=1) for x in bb] + ["M 0 1"]
                n_det = max(0, min(2, (budget - 2) // det_w))
                body += [f"DETECTOR rec[-{j}]" for j in range(1, n_det + 1)]
                body += ["OBSERVABLE_INCLUDE(0) rec[-2]", "OBSERVABLE_INCLUDE(1) rec[-1]"]
                progs.append((f"gate2:{g}:{a}{b}:{bi}", "\n".join(prep), "\n".join(body)))
    return progs


# ====================================================================================== semantic task (worker process)
def sem_task(task: dict) -> dict:
    """task = {encoder, calls:[(kind,text)], unencoded}.  Exact distribution of the encoded circuit through the
    real detector sampler, and of the unencoded program through the reference."""
    t0 = time.time()
    out = {"id": task.get("id")}
    try:
        import tsim
        import tsim.utils.encoder as E
        from harness.exactdist import ref_dist, tsim_dist
        enc = getattr(E, task["encoder"])()
        for kind, text in task["calls"]:
            if kind == "i":
                enc.initialize(text)
            else:
                enc.encode_transversally(text)
        circ = enc.circuit
        out["num_detectors"] = int(circ.num_detectors)
        out["num_observables"] = int(circ.num_observables)
        dist, info = tsim_dist(circ, det=True)
        out["enc"] = [[list(k), v] for k, v in dist.items() if v > 1e-12]
        out["bad_p"] = len(info["bad_bernoulli_params"])
        ref = ref_dist(str(tsim.Circuit(task["unencoded"])._stim_circ), det=True)
        import stim
        out["ref_num_detectors"] = int(stim.Circuit(str(tsim.Circuit(task["unencoded"])._stim_circ)).num_detectors)
        out["ref"] = [[list(k), v] for k, v in ref.items() if v > 1e-12]
    except Exception as e:  # noqa
        import traceback
        out["error"] = f"{type(e).__name__}: {e}"
        out["trace"] = traceback.format_exc()[-1500:]
    out["secs"] = round(time.time() - t0, 2)
    return out


def judge(res: dict):
    """-> (ok, message, details)"""
    if "error" in res:
        return False, "implementation raised: " + res["error"], {}
    D, K = res["num_detectors"], res["num_observables"]
    det_mass = 0.0
    obs: dict[tuple, float] = {}
    for k, v in res["enc"]:
        if len(k) != D + K:
            return False, f"outcome length {len(k)} != detectors {D} + observables {K}", {}
        if any(k[:D]):
            det_mass += v
        o = tuple(k[D:])
        obs[o] = obs.get(o, 0.0) + v
    rD = res["ref_num_detectors"]
    want: dict[tuple, float] = {}
    for k, v in res["ref"]:
        o = tuple(k[rD:])
        want[o] = want.get(o, 0.0) + v
    keys = set(obs) | set(want)
    diff = max((abs(obs.get(k, 0.0) - want.get(k, 0.0)) for k in keys), default=0.0)
    total = sum(obs.values())
    det = {"detector_mass_nonzero": det_mass, "observable_max_diff": diff, "total": total,
           "encoded_observables": {"".join(map(str, k)): round(v, 7) for k, v in sorted(obs.items())},
           "unencoded_observables": {"".join(map(str, k)): round(v, 7) for k, v in sorted(want.items())}}
    if res.get("bad_p"):
        return False, "sampler produced probabilities outside [0,1] / NaN on a reachable prefix", det
    if abs(total - 1) > TOL_OBS:
        return False, f"encoded distribution sums to {total}", det
    if det_mass > TOL_DET:
        return False, f"noiseless detectors fire with probability {det_mass:.6g}", det
    if diff > TOL_OBS:
        return False, f"logical observables differ from the unencoded measurement distribution by {diff:.6g}", det
    return True, "", det


def run_tasks(tasks: list[dict], workers: int) -> list[dict]:
    if not tasks:
        return []
    import multiprocessing as mp
    ctxm = mp.get_context("spawn")
    with ctxm.Pool(processes=min(workers, len(tasks)), maxtasksperchild=8) as pool:
        return pool.map(sem_task, tasks, chunksize=1)


# ====================================================================================== structural generator
ONE_Q = ["H", "S", "S_DAG", "SQRT_X", "SQRT_X_DAG", "SQRT_Y", "SQRT_Y_DAG", "X", "Y", "Z", "I", "T", "T_DAG", "H_YZ",
         "C_XYZ", "R", "RX", "M", "MX", "MR", "X_ERROR(0.125)", "DEPOLARIZE1(0.0625)", "R_X(0.25)", "R_Z(-0.375)",
         "U3(0.125, 0.25, 0.5)", "M(0.0625)", "H[foo]", "S[bar]", "PAULI_CHANNEL_1(0.0625, 0.03125, 0.125)"]
TWO_Q = ["CX", "CZ", "CY", "SWAP", "ISWAP", "DEPOLARIZE2(0.0625)", "XCZ", "CZ[tag2]", "SQRT_XX"]
MEAS = {"M", "MX", "MR", "M(0.0625)"}


def struct_program(rng, qubits: list[int], allow_annot=True, allow_meas=True, length=None) -> str:
    lines = []
    nmeas = 0
    for _ in range(length if length is not None else rng.randint(1, 9)):
        r = rng.random()
        if r < 0.45:
            g = rng.choice(ONE_Q)
            base = g.split("(")[0].split("[")[0]
            if base in ("M", "MX", "MR") and not allow_meas:
                continue
            ts = [rng.choice(qubits) for _ in range(rng.randint(1, min(4, len(qubits) + 1)))]
            if base in ("M", "MX", "MR"):
                nmeas += len(ts)
                if rng.random() < 0.3:
                    lines.append(f"{g} " + " ".join(("!" if rng.random() < 0.5 else "") + str(t) for t in ts))
                    continue
            lines.append(f"{g} " + " ".join(map(str, ts)))
        elif r < 0.7 and len(qubits) >= 2:
            g = rng.choice(TWO_Q)
            ts = []
            for _p in range(rng.randint(1, 2)):
                ts += rng.sample(qubits, 2)
            lines.append(f"{g} " + " ".join(map(str, ts)))
        elif r < 0.78:
            lines.append("TICK")
        elif r < 0.92 and allow_annot and nmeas > 0:
            lbs = [f"rec[-{rng.randint(1, nmeas)}]" for _ in range(rng.randint(1, 3))]
            lines.append(rng.choice(["DETECTOR", "DETECTOR(1, 2.5)", "DETECTOR[dtag]"]) + " " + " ".join(lbs))
        elif r < 0.98 and allow_annot and nmeas > 0:
            lbs = [f"rec[-{rng.randint(1, nmeas)}]" for _ in range(rng.randint(1, 2))]
            lines.append(f"OBSERVABLE_INCLUDE({rng.randint(0, 3)}) " + " ".join(lbs))
        elif allow_annot:
            lines.append(rng.choice(["DETECTOR", "SHIFT_COORDS(1, 0)", "QUBIT_COORDS(1, 2) " + str(rng.choice(qubits))]))
    return "\n".join(lines) if lines else "TICK"


# ====================================================================================== the check
def run(ctx: Ctx) -> int:
    model_ok = standard_model_phase(ctx, TRANSLATORS, COQ_FILES, "Props.C20", "Props/C20.v")
    ctx.trusted += [
        "translator /verif/translate/encoder_tables.py (class tables; index expressions; statement skeleton of broadcast_targets, "
        "_transform_circuit, initialize, encode_transversally)",
        "hand model Model/Encoder.v of _transform_circuit / initialize / encode_transversally, tied by string-exact correspondence",
        "lifting of the local conjugation rules to n-qubit Pauli strings (cross-checked against stim.PauliString.after)",
        "PhysicsPremises: explicit hypothesis of C20_program_*_partial (standard stabiliser-code lemma, measurement statistics)",
        "stim: parser, target_groups(), Circuit.append (used to render the model's instruction lists), gate_data unitaries",
        "harness/exactdist.py: forced sampling through the real detector sampler; independent dense reference simulator",
    ]
    try:
        import stim
        import tsim
        import tsim.utils.encoder as E
        from tsim.utils.encoder import _transform_circuit
    except Exception as e:
        ctx.violation("import-failure", f"tsim.utils.encoder cannot be imported: {e!r}", {"error": repr(e)}, no_failing_input=True)
        return ctx.finish("n/a")

    rng = ctx.rng
    quick = ctx.quick
    model_usable = not any(b.startswith("translator:") or "Model/Encoder" in b or "Gen_encoder" in b or "Base/PauliTableau" in b
                           for b in ctx.broken)
    t_start = time.time()

    # ---------------------------------------------------------------- A. run-time ties of the generated / library tables
    if model_usable:
        try:
            vals = cq.eval_terms("c20_tables", IMPORTS, ["show_tbl steane", "show_tbl color5",
                                                         "map (fun e => (show_name (fst (fst e)), fst (snd e), snd (snd e))) gate1_table",
                                                         "map (fun e => (show_name (fst (fst e)), fst (snd e), snd (snd e))) gate2_table",
                                                         "(bt_keeps_inversion, init_encodes_new_only)"], defs=DEFS)
        except Exception as e:
            ctx.broken.append(f"coq:cases c20_tables: {str(e)[:300]}")
            model_usable = False
    variant = {"keeps_inversion": None, "new_only": None}
    if model_usable:
        variant = {"keeps_inversion": bool(vals[4][0]), "new_only": bool(vals[4][1])}
        ctx.cov["code_variant"] = variant
        for cls_name, tv in (("SteaneEncoder", vals[0]), ("ColorEncoder5", vals[1])):
            enc = getattr(E, cls_name)()
            n, q, encoding, stabs, obs, exps = tv
            got = (int(n), int(q), [list(map(int, s)) for s in stabs], [list(map(int, s)) for s in obs],
                   {name_of(k): [name_of(x) for x in v] for k, v in exps})
            want = (enc.n, enc.encoding_qubit, [list(s) for s in enc.stabilizer_generators], [list(o) for o in enc.observables],
                    dict(enc.logical_gate_expansions))
            ctx.count(("table", cls_name), bucket="class-table")
            if got != want:
                ctx.broken.append(f"correspondence:tables of {cls_name}: generated {got} vs running class {want}")
            real = [(ins.name, [[t.value for t in g] for g in ins.target_groups()]) for ins in stim.Circuit(enc.encoding_program_text)]
            mine = [(name_of(nm), [list(map(int, g)) for g in gs]) for nm, gs in encoding]
            if real != mine:
                ctx.broken.append(f"correspondence:encoding program of {cls_name} parsed differently from stim")
            if any(ins.gate_args_copy() or ins.tag for ins in stim.Circuit(enc.encoding_program_text)):
                ctx.broken.append(f"correspondence:encoding program of {cls_name} has arguments/tags")
        # gate matrices against Stim
        for tbl, dim in ((vals[2], 2), (vals[3], 4)):
            for ent in tbl:
                nm, k, M = name_of(ent[0]), int(ent[1]), ent[2]
                mat = np.array([[complex(int(a), int(b)) for a, b in row] for row in M]) / (math.sqrt(2) ** k)
                ref = np.asarray(stim.gate_data(nm).unitary_matrix, dtype=complex)
                ctx.count(("gate-matrix", nm), bucket="gate-matrix")
                if mat.shape != (dim, dim) or np.max(np.abs(mat - ref)) > 1e-6:
                    ctx.broken.append(f"correspondence:gate matrix of {nm} in Base/PauliTableau.v differs from stim.gate_data({nm!r}).unitary_matrix")
        # n-qubit conjugation against stim.PauliString.after
        names1 = [name_of(e[0]) for e in vals[2]]
        names2 = [name_of(e[0]) for e in vals[3]]
        cases = []
        for _ in range(150 if quick else 600):
            m = rng.randint(2, 18)
            ph, x, z = rng.randint(0, 3), rng.getrandbits(m), rng.getrandbits(m)
            if rng.random() < 0.6:
                g = rng.choice(names1)
                ts = [rng.randrange(m) for _ in range(rng.randint(1, 4))]
            else:
                g = rng.choice(names2)
                ts = []
                for _p in range(rng.randint(1, 3)):
                    ts += rng.sample(range(m), 2)
            cases.append((m, ph, x, z, g, ts))
        terms = [f"show_p (conj_targets {cstr(g)} {zl(ts)} (mkP {ph} {x}%N {z}%N))" for (m, ph, x, z, g, ts) in cases]
        try:
            mv = cq.eval_terms("c20_conj", IMPORTS, ["[" + "; ".join(terms) + "]"], defs=DEFS)[0]
        except Exception as e:
            ctx.broken.append(f"coq:cases c20_conj: {str(e)[:300]}")
            mv = []
        for (m, ph, x, z, g, ts), v in zip(cases, mv):
            ps = stim.PauliString(m)
            ny = 0
            for qd in range(m):
                a, b = (x >> qd) & 1, (z >> qd) & 1
                ps[qd] = "_XZY"[a + 2 * b]
                ny += a & b
            ps *= [1, 1j, -1, -1j][(ph - ny) % 4]
            after = ps.after(stim.Circuit(f"{g} " + " ".join(map(str, ts))))
            x2 = sum(1 << qd for qd in range(m) if after[qd] in (1, 2))
            z2 = sum(1 << qd for qd in range(m) if after[qd] in (2, 3))
            ny2 = sum(1 for qd in range(m) if after[qd] == 2)
            sgn = {1: 0, 1j: 1, -1: 2, -1j: 3}[complex(after.sign)]
            want = ((sgn + ny2) % 4, x2, z2)
            ctx.count(("conj", g, m, ph, x, z, tuple(ts)), bucket="pauli-conjugation-vs-stim")
            got = None if v is None else tuple(int(t) for t in v[1])
            if got != want:
                ctx.broken.append(f"correspondence:conj_targets {g} {ts} on (ph={ph},x={x},z={z}) model {got} stim {want}")
                break
        # tableau-level observations about gates OUTSIDE the property's gate set (no expansion-table entry)
        try:
            ob = cq.eval_terms("c20_extra", IMPORTS, [
                "map (fun e => map (fun g => preserves_stab_b e (transversal1 e g) && induces1_b e (transversal1 e g) g) "
                + "[" + "; ".join(cstr(g) for g in EXTRA1) + "]) [steane; color5]"], defs=DEFS)[0]
            ctx.cov["outside_gate_set_transversal_is_logical"] = {
                cls: dict(zip(EXTRA1, [bool(b) for b in row])) for cls, row in zip(["SteaneEncoder", "ColorEncoder5"], ob)}
        except Exception as e:
            ctx.log("extra-gate observation failed:", str(e)[:200])

    # ---------------------------------------------------------------- B. structural correspondence (string-exact)
    metas = Metas()
    s_cases = []   # (kind, description, coq term, python thunk)
    n_tc = 60 if quick else 400
    n_enc = 50 if quick else 300

    def py_transform(text, **kw):
        return _transform_circuit(text, **kw)

    for _ in range(n_tc):
        nq = rng.randint(1, 5)
        qubits = rng.sample(range(0, 8), nq)
        text = struct_program(rng, qubits)
        stride = rng.choice([1, 1, 3, 7, 17, 4])
        offsets = rng.sample(range(0, 20), rng.randint(1, 4))
        if rng.random() < 0.5:
            offsets = sorted(offsets)
        exps = rng.choice([None, {}, {"S": ["S", "Z"], "SQRT_X": ["SQRT_X", "X"]}, {"H": ["H", "Y", "H"], "M": ["M"], "CX": ["CZ"]}])
        stabs = rng.choice([None, [], [[0, 1, 2, 3]], [[0, 1, 2, 3], [1, 2, 4, 5], [2, 3, 4, 6]], [[2, 0], [1]]])
        obs = rng.choice([None, [], [[0, 1, 5]], [[1, 3], [0]]])
        sc = tsim.Circuit(text)._stim_circ
        term = (f"map show_o (transform {cq.z(stride)} {zl(offsets)} "
                + "[" + "; ".join(f"({cstr(k)}, [" + "; ".join(cstr(x) for x in v) + "])" for k, v in (exps or {}).items()) + "] "
                + f"{zll(stabs or [])} {zll(obs or [])} {coq_prog(sc, metas)})")
        s_cases.append(("transform", dict(text=text, stride=stride, offsets=offsets, gate_expansions=exps,
                                          stabilizer_generators=stabs, observables=obs), term))
    for _ in range(n_enc):
        cls_name = rng.choice(list(ENCODERS))
        ident = ENCODERS[cls_name]
        # a sequence of initialize / encode_transversally calls on sparse logical qubit indices
        qubits = sorted(rng.sample(range(0, 6), rng.randint(1, 3)))
        calls = []
        st = "st0"
        ncalls = rng.choice([2, 2, 2, 3, 4])
        for ci in range(ncalls):
            if ci == 0 or (ci >= 2 and rng.random() < 0.35):
                sub = rng.sample(qubits, rng.randint(1, len(qubits))) if ci else qubits
                text = "R " + " ".join(map(str, sub)) + "\n" + struct_program(rng, sub, allow_annot=False, allow_meas=False, length=rng.randint(0, 3))
                calls.append(("i", text))
                st = f"(initialize {ident} {st} {coq_prog(tsim.Circuit(text)._stim_circ, metas)} (enc_instrs {ident}))"
            else:
                text = struct_program(rng, qubits)
                calls.append(("t", text))
                st = f"(encode_transversally {ident} {st} {coq_prog(tsim.Circuit(text)._stim_circ, metas)})"
        s_cases.append(("encoder", dict(encoder=cls_name, calls=calls), f"show_st {st}"))

    mvals = [None] * len(s_cases)
    if model_usable:
        try:
            CH = 120
            for c0 in range(0, len(s_cases), CH):
                chunk = s_cases[c0:c0 + CH]
                got = cq.eval_terms(f"c20_struct_{c0 // CH}", IMPORTS, [c[2] for c in chunk], defs=DEFS)
                mvals[c0:c0 + CH] = got
        except Exception as e:
            ctx.broken.append(f"coq:cases c20_struct: {str(e)[:400]}")
            model_usable = False
    n_reject = 0
    for (kind, d, _term), mv in zip(s_cases, mvals):
        # implementation
        try:
            if kind == "transform":
                impl = str(py_transform(d["text"], stride=d["stride"], offsets=list(d["offsets"]), gate_expansions=d["gate_expansions"],
                                        stabilizer_generators=d["stabilizer_generators"], observables=d["observables"]))
                impl_used = None
            else:
                enc = getattr(E, d["encoder"])()
                for k, text in d["calls"]:
                    (enc.initialize if k == "i" else enc.encode_transversally)(text)
                impl = str(enc.circuit)
                impl_used = sorted(enc.used_qubits)
            impl_err = None
        except Exception as e:  # noqa
            impl, impl_used, impl_err = None, None, f"{type(e).__name__}: {str(e)[:120]}"
        ctx.count((kind, json.dumps(d, sort_keys=True, default=str)), nontrivial=impl is not None and len(impl) > 0,
                  bucket=f"struct-{kind}" + ("-rejected" if impl_err else ""))
        if mv is None:
            continue
        # model, rendered through stim
        try:
            if kind == "transform":
                model = str(render(mv, metas))
                model_used = None
            else:
                circ_m, used_m = mv
                # the encoder feeds str(mod_circ) of every call through tsim.Circuit.append_from_stim_program_text; the
                # concatenation of the model's per-call outputs is rendered the same way (one append per instruction,
                # then stim's text round trip), which fuses adjacent instructions exactly as the real path does
                exp = tsim.Circuit()
                exp.append_from_stim_program_text(str(render(circ_m, metas)))
                model = str(exp)
                model_used = sorted(int(u) for u in used_m)
            model_err = None
        except Exception as e:  # noqa
            model, model_used, model_err = None, None, f"{type(e).__name__}: {str(e)[:120]}"
        if impl_err or model_err:
            n_reject += 1
            if bool(impl_err) != bool(model_err):
                ctx.broken.append(f"correspondence:{kind}: implementation {'raised ' + impl_err if impl_err else 'accepted'} but model rendering "
                                  f"{'raised ' + model_err if model_err else 'accepted'} on {json.dumps(d, default=str)[:600]}")
                break
            continue
        if kind == "encoder":
            # re-render the implementation's circuit the same way (text round trip is idempotent)
            pass
        if impl != model or impl_used != model_used:
            ctx.broken.append(f"correspondence:{kind}: model and implementation differ on {json.dumps(d, default=str)[:700]} :: impl {impl[:300]!r} :: model {model[:300]!r}"
                              + (f" used impl {impl_used} model {model_used}" if impl_used != model_used else ""))
            break
    if s_cases:
        ctx.sample({"kind": s_cases[0][0], "input": s_cases[0][1]})
        ctx.sample({"kind": s_cases[-1][0], "input": s_cases[-1][1]})
    ctx.cov["struct_cases_rejected_by_both"] = n_reject
    ctx.log(f"structural correspondence done: {len(s_cases)} cases, {time.time() - t_start:.1f}s since start; broken={len(ctx.broken)}")

    # ---------------------------------------------------------------- C. semantic search on the implementation
    tasks = []

    def add_task(kind, enc_name, prep, body, key=None, calls=None, unencoded=None):
        calls = calls if calls is not None else [("i", prep), ("t", body)]
        unencoded = unencoded if unencoded is not None else prep + "\n" + body
        tasks.append({"id": len(tasks), "kind": kind, "encoder": enc_name, "calls": calls, "unencoded": unencoded, "key": key})

    cov_st = coverage_programs(det_w=3)
    cov_c5 = coverage_programs(det_w=8)
    for name, prep, body in cov_st:
        add_task("coverage", "SteaneEncoder", prep, body)
    sel_c5 = cov_c5 if not quick else [p for i, p in enumerate(cov_c5) if p[0] in ("gate1:H", "gate1:S", "gate1:SQRT_X", "gate1:SQRT_Y_DAG", "gate2:CX:01:1", "gate2:CZ:10:0")]
    for name, prep, body in sel_c5:
        add_task("coverage", "ColorEncoder5", prep, body)
    for _ in range(6 if quick else 140):
        k = rng.choice([1, 2, 2, 3, 3])
        prep, body = sem_program(rng, k, det_w=3)
        add_task("random", "SteaneEncoder", prep, body)
    for _ in range(2 if quick else 50):
        k = rng.choice([1, 1, 2, 3])
        prep, body = sem_program(rng, k, det_w=8, body_len=rng.randint(2, 5))
        add_task("random", "ColorEncoder5", prep, body)
    # the same (or the inverse) expanded gate twice on one logical qubit with a gate in between that does not commute with the Pauli
    # correction of the expansion (S -> S,Z; SQRT_X -> SQRT_X,X ...): all in ONE encode_transversally call
    pairs = [("S", "S"), ("S", "S_DAG"), ("SQRT_X", "SQRT_X"), ("SQRT_X", "SQRT_X_DAG")] if quick else \
            [(a, b) for a in ("S", "S_DAG", "SQRT_X", "SQRT_X_DAG", "SQRT_Y", "SQRT_Y_DAG") for b in (a, a[:-4] if a.endswith("_DAG") else a + "_DAG")]
    mids = ["H 0", "SQRT_Y 0", "CX 1 0\nCX 0 1"] if quick else ["H 0", "SQRT_Y 0", "SQRT_X 0", "S 0", "CX 1 0\nCX 0 1", "CZ 0 1\nH 0", "X 0\nH 0"]
    for (g1, g2) in pairs:
        for mid in mids:
            two = "1" in mid
            prep = "R 0 1\nU3(0.3125, 0.4375, 0.125) 0\nR_Y(0.375) 1\nT 1" if two else "R 0\nU3(0.3125, 0.4375, 0.125) 0"
            tail = ("SQRT_X_DAG 0\nM 0 1\nOBSERVABLE_INCLUDE(0) rec[-2]\nOBSERVABLE_INCLUDE(1) rec[-1]" if two
                    else "SQRT_X_DAG 0\nM 0\nDETECTOR rec[-1]\nOBSERVABLE_INCLUDE(0) rec[-1]")
            add_task("expanded-pair", "SteaneEncoder", prep, f"{g1} 0\n{mid}\n{g2} 0\n{tail}")
    # sparse logical indices, two encode_transversally calls
    add_task("sparse", "SteaneEncoder", None, None,
             calls=[("i", "R 0 2\nU3(0.3125, 0.125, 0.4375) 0\nH 2\nT 2"), ("t", "CX 2 0\nS 0\nSQRT_Y 2"),
                    ("t", "H 0\nM 2 0\nDETECTOR rec[-1]\nDETECTOR rec[-2]\nOBSERVABLE_INCLUDE(0) rec[-2]\nOBSERVABLE_INCLUDE(1) rec[-1]")],
             unencoded="R 0 2\nU3(0.3125, 0.125, 0.4375) 0\nH 2\nT 2\nCX 2 0\nS 0\nSQRT_Y 2\nH 0\nM 2 0\nOBSERVABLE_INCLUDE(0) rec[-2]\nOBSERVABLE_INCLUDE(1) rec[-1]")
    # look-backs over several logical measurements in one annotation
    add_task("multi", "SteaneEncoder", "R 0 1\nU3(0.3125, 0.125, 0.4375) 0\nR_Y(0.375) 1\nT 1",
             "CZ 0 1\nH 0 1\nM 1 0\nDETECTOR rec[-1] rec[-2]\nOBSERVABLE_INCLUDE(0) rec[-1] rec[-2]\nOBSERVABLE_INCLUDE(1) rec[-2]\nOBSERVABLE_INCLUDE(0) rec[-2]")
    # ---- required behaviour: an inverted Z-basis measurement stays inverted (violation if it regresses)
    p0 = "R 0\nR_X(0.3125) 0"
    ann = "DETECTOR rec[-1]\nOBSERVABLE_INCLUDE(0) rec[-1]"
    for cls_name in ENCODERS:
        add_task("required", cls_name, p0, "M !0\n" + ann, key=f"{cls_name}:inverted-measurement-target")
    add_task("required", "SteaneEncoder", "R 0 1\nR_X(0.3125) 0\nH 1\nT 1", "H 1\nM 0 !1\nDETECTOR rec[-1]\nDETECTOR rec[-2]\n"
             "OBSERVABLE_INCLUDE(0) rec[-2]\nOBSERVABLE_INCLUDE(1) rec[-1]", key="SteaneEncoder:inverted-measurement-target-mixed")
    # ---- inside the gate-set quantifier, known not to hold: a logical qubit used again after its transversal measurement
    add_task("probe", "SteaneEncoder", p0, "M 0\nH 0\nM 0\n" + ann, key=REUSE_KEY)
    # ---- OUTSIDE the quantifier of the property (one initialize call must prepare every logical qubit that is used):
    #      informational observations only, never violations
    add_task("observation", "SteaneEncoder", None, None, key="initialize-called-twice (second call re-encodes the blocks of the first)",
             calls=[("i", p0), ("i", "R 1\nH 1"), ("t", "M 0 1\nDETECTOR rec[-2]\nOBSERVABLE_INCLUDE(0) rec[-2]\nOBSERVABLE_INCLUDE(1) rec[-1]")],
             unencoded="R 0 1\nR_X(0.3125) 0\nH 1\nM 0 1\nOBSERVABLE_INCLUDE(0) rec[-2]\nOBSERVABLE_INCLUDE(1) rec[-1]")
    add_task("observation", "SteaneEncoder", p0, "H 1\nM 0 1\nDETECTOR rec[-1]\nOBSERVABLE_INCLUDE(0) rec[-2]\nOBSERVABLE_INCLUDE(1) rec[-1]",
             key="logical qubit never mentioned by the preparation program is not encoded")
    if not quick:
        for cls_name in ENCODERS:
            for g in EXTRA1:
                add_task("outside", cls_name, "R 0\nU3(0.3125, 0.4375, 0.125) 0", f"{g} 0\nSQRT_X_DAG 0\nM 0\nOBSERVABLE_INCLUDE(0) rec[-1]")

    workers = int(os.environ.get("VERIF_C20_WORKERS", "5"))
    t_sem = time.time()
    results = run_tasks(tasks, workers)
    ctx.log(f"semantic search: {len(tasks)} encoded circuits in {time.time() - t_sem:.1f}s with {workers} workers")
    outside = {}
    observations = []
    n_bad = 0
    for task, res in zip(tasks, results):
        ok, msg, det = judge(res)
        nd = res.get("num_detectors", 0)
        ctx.count(("sem", task["encoder"], json.dumps(task["calls"])), nontrivial=True,
                  bucket=f"semantic-{task['kind']}-{task['encoder']}")
        replay = {"encoder": task["encoder"], "calls": task["calls"], "unencoded": task["unencoded"], "details": det,
                  "error": res.get("error")}
        if task["kind"] == "outside":
            outside.setdefault(task["encoder"], {})[task["calls"][1][1].split()[0]] = ok
            continue
        if task["kind"] == "observation":
            observations.append({"what": task["key"], "encoder": task["encoder"], "calls": task["calls"],
                                 "agrees_with_unencoded_program": ok, "message": msg, "details": det})
            continue
        if len(ctx.samples) < 6 and task["kind"] in ("random", "coverage") and ok:
            ctx.sample({"encoder": task["encoder"], "calls": task["calls"], "num_detectors": nd, "observables": det.get("encoded_observables")})
        if ok:
            continue
        n_bad += 1
        if task["kind"] in ("probe", "required"):
            ctx.violation(task["key"], f"{task['encoder']} calls {task['calls']}: {msg}", replay)
        elif n_bad <= 12:
            first = task["calls"][-1][1].splitlines()[0] if task["calls"] else ""
            key = f"{task['encoder']}:{task['kind']}:" + (first.replace(' ', '_')[:40]) + ":" + hashlib.sha1(json.dumps(task['calls']).encode()).hexdigest()[:8]
            ctx.violation(key, f"{task['encoder']} calls {task['calls']}: {msg}", replay)
    if outside:
        ctx.cov["outside_gate_set_sampled_agrees"] = outside
    ctx.cov["observations"] = observations

    # ---------------------------------------------------------------- verdict on broken ties
    if ctx.broken and not ctx.violations:
        report_broken_without_input(ctx)
    return ctx.finish(
        rule="structural cases = (program text, stride, offsets, expansions, supports) for _transform_circuit and sequences of "
             "initialize/encode_transversally calls on sparse logical indices (gates in and outside the table, noise, tags, arguments, "
             "inverted targets, multi-target DETECTOR/OBSERVABLE_INCLUDE), model vs implementation compared as strings.  semantic cases = "
             "encoded circuits whose exact detector+observable distribution (forced sampling through the real sampler) is compared with the "
             "reference distribution of the unencoded program: every listed one-qubit gate x 3 measurement bases, CX/CZ in both "
             "orientations, random programs on 1-3 logical qubits with non-Clifford single-qubit preparation (T, R_X/R_Y/R_Z, U3), "
             "mid-circuit and partial measurement, multi-look-back annotations; both encoders.  All randomness from VERIF_SEED.",
        explanation="Theorems C20_* over the regenerated tables/index expressions and the hand model; see DESIGN.md 4.C20",
        assumptions=["PhysicsPremises (explicit premise of C20_program_*_partial)",
                     "tensor-structure lifting of local Pauli conjugation rules (validated against stim at run time)"],
    )


def replay(ctx: Ctx, obj) -> int:
    r = obj.get("replay") or {}
    print(json.dumps({k: r.get(k) for k in ("encoder", "calls", "unencoded")}, indent=1))
    if "encoder" not in r:
        print(json.dumps(obj, indent=1)[:3000])
        return 1
    res = sem_task({"encoder": r["encoder"], "calls": [tuple(c) for c in r["calls"]], "unencoded": r["unencoded"]})
    ok, msg, det = judge(res)
    print("now:", "agrees" if ok else "VIOLATES: " + msg)
    print(json.dumps(det, indent=1))
    return 0 if ok else 1
