"""C16 -- inverse() returns the inverse circuit.  Matrix half (lead) + text/tag half (harness/props/c16_text.py)."""
from __future__ import annotations

from harness.common import Ctx, report_broken_without_input, standard_model_phase
from harness.props import c16_text

MANIFEST = dict(
    text=("Machine-checked proof (Coq 8.16.1), two halves. MATRIX: for every unitary GATE_TABLE row the inverse named by the "
          "installed Stim (gate_data(name).inverse, regenerated) is again a gate tsim interprets and gate;inverse is E(k/4) "
          "times the identity in both target orders; T;T_DAG; R_X/R_Y/R_Z(theta);R(-theta) and U3(t,p,l);U3(-t,-l,-p) are a "
          "unit phase times the identity for EVERY angle (symbolic) -- on the gate functions regenerated from instructions.py. "
          + c16_text.MANIFEST_TEXT["text"] +
          " Whole circuits: (c + c.inverse()).to_matrix() proportional to 1 is checked on generated circuits (search oracle); "
          "the composition over arbitrary circuits is not proved."),
    note=("Trusted: Coq kernel+vm_compute; translators instructions, stim_gates, regex_facts, inverse_facts; hand model of the "
          "primitives (Lane.v, fingerprint-pinned); stim.Circuit.inverse() ordering/targets as oracle (exercised by the matrix "
          "check). " + c16_text.MANIFEST_TEXT["note"].replace("fixes_proposed/C16-inverse-positional.diff", "/repo commit efa22ce")),
    technique="Coq reflection proofs (gate;inverse = phase*identity, symbolic angles) + proofs over translated regex/re-tagging model + correspondence",
    design_ref="DESIGN.md 4.C16",
)

TRANSLATORS = ["instructions", "stim_gates"]
COQ_FILES = ["Base/EP.v", "Base/EPSound.v", "Model/Lane.v", "Spec/RotGates.v", "gen/Gen_instructions.v", "gen/Gen_stim_gates.v",
             "Model/GateCheck.v", "Model/InverseCheck.v", "Proofs/GateProofs.v", "Proofs/InverseProofs.v", "Proofs/LaneFingerprints.v",
             "Props/C16.v"]


def run(ctx: Ctx) -> int:
    standard_model_phase(ctx, TRANSLATORS, COQ_FILES, "Props.C16", "Props/C16.v")
    matrix_search(ctx)
    # the text half runs its own model phase (Props/C16Text.v), correspondence and search, and reports on ctx
    c16_text.run_text_part(ctx)
    if ctx.broken and not ctx.violations:
        report_broken_without_input(ctx)
    return ctx.finish(
        rule="matrix half: every unitary GATE_TABLE name alone and with targets in both orders, T/T_DAG, rotations over adversarial literals: "
             "(c + c.inverse()).to_matrix() proportional to the identity; text half: see harness/props/c16_text.py (tags over magnitudes "
             "1e-9..1e3, many-digit decimals, random 1-3 qubit circuits over the whole gate table)",
        explanation="C16_gate_table/T/rotations/u3 + C16Text theorems",
        assumptions=["stim.Circuit.inverse() reverses the order and keeps targets (oracle)", "pyzx tensor contraction for to_matrix"],
    )


def matrix_search(ctx: Ctx):
    """implementation-side witness search for the matrix half: each gate followed by its inverse"""
    import numpy as np
    import stim
    import tsim
    import tsim.core.instructions as I
    names = [n for n in I.GATE_TABLE if n in stim.gate_data() and stim.gate_data(n).is_unitary] + ["T", "T_DAG"]
    for n in names:
        two = n not in ("T", "T_DAG") and I.GATE_TABLE[n][1] == 2
        for ts in (["0 1", "1 0", "3 1"] if two else ["0", "2"]):
            text = f"{n} {ts}"
            try:
                c = tsim.Circuit(text)
                M = np.asarray((c + c.inverse()).to_matrix())
            except Exception as e:
                ctx.violation(f"inverse-raises:{text}", f"inverse()/to_matrix raised {e!r}", {"kind": "inverse-circuit", "text": text})
                continue
            ctx.count(("inv", text), bucket="gate-inverse")
            ph = M[0, 0]
            if abs(abs(ph) - 1) > 1e-6 or not np.allclose(M, ph * np.eye(M.shape[0]), atol=1e-6):
                ctx.violation(f"inverse-circuit:{text}", "(c + c.inverse()).to_matrix() is not proportional to the identity",
                              {"kind": "inverse-circuit", "text": text})


    # runs of directly consecutive parametric instructions in which the same rotation occurs twice on one qubit with a rotation that does
    # not commute with it in between (and the same across two qubits, with fused and repeated targets): the inverse reverses the ORDER
    for text in ["R_X(0.3) 0\nR_Z(0.4) 0\nR_X(0.3) 0", "R_Z(0.2) 0\nU3(0.1, 0.2, 0.3) 0\nR_Z(0.2) 0", "R_Y(0.7) 1\nR_X(-0.2) 1\nR_Y(0.7) 1\nR_X(-0.2) 1",
                 "U3(0.3, 0.1, -0.4) 0\nR_Z(0.25) 0\nU3(0.3, 0.1, -0.4) 0", "R_X(0.3) 0 1\nR_Z(0.4) 1\nR_X(0.3) 1 0\nR_Y(0.1) 0\nR_X(0.3) 0",
                 "H 0\nR_Z(0.3) 0\nR_X(0.3) 0\nR_Z(0.3) 0\nCX 0 1\nR_X(0.5) 1\nR_Y(0.5) 1\nR_X(0.5) 1", "T 0\nR_X(0.25) 0\nT 0\nR_X(0.25) 0\nT_DAG 0"]:
        try:
            c = tsim.Circuit(text)
            M = np.asarray((c + c.inverse()).to_matrix())
        except Exception as e:
            ctx.violation(f"inverse-raises:{text}", f"inverse()/to_matrix raised {e!r}", {"kind": "inverse-circuit", "text": text})
            continue
        ctx.count(("inv-run", text), bucket="inverse-of-parametric-runs")
        ph = M[0, 0]
        if abs(abs(ph) - 1) > 1e-5 or not np.allclose(M, ph * np.eye(M.shape[0]), atol=1e-5):
            ctx.violation("inverse-circuit:" + text.replace("\n", ";")[:60], "(c + c.inverse()).to_matrix() is not proportional to the identity "
                          f"(inverse: {str(c.inverse())!r})", {"kind": "inverse-circuit", "text": text})


def replay(ctx: Ctx, obj) -> int:
    return c16_text.replay_text(ctx, obj)
